//! Differential harness: runs the real cdecao code (library with feature `verif`) on generated or
//! replayed cases and writes, per stream, the lines `bin/check` compares with the Lean driver.
//!
//! usage: vharness gen <stream> <seed> <tier> <outfile>      (cases + lines, JSON lines)
//!        vharness replay <casefile> <outfile>               (one case, as stored in a replay file)
mod brute;
mod cdedb;
mod common;
mod gen;
mod sched;
mod streams;

use common::Rng;
use serde_json::{json, Value};
use std::io::Write;
use streams::Case;

fn gen_cases(stream: &str, seed: u64, tier: &str) -> Vec<Case> {
    // one PRNG state per (seed, stream)
    let mut h: u64 = seed;
    for b in stream.bytes() {
        h = h.wrapping_mul(1099511628211).wrapping_add(b as u64);
    }
    let mut r = Rng::new(h);
    match stream {
        "hungarian" => streams::gen_hungarian(&mut r, tier),
        "hungarian-exhaustive" => streams::gen_hungarian_exhaustive(&mut r, tier),
        "node" => streams::gen_node(&mut r, tier, 1, false, "node"),
        "node-rooms" => streams::gen_node(&mut r, tier, 2, true, "node-rooms"),
        "node-norooms" => streams::gen_node(&mut r, tier, 0, false, "node-norooms"),
        "node-exhaustive" => streams::gen_node_exhaustive(&mut r, tier),
        "solve" => streams::gen_solve(&mut r, tier, 1, "solve"),
        "solve-norooms" => streams::gen_solve(&mut r, tier, 0, "solve-norooms"),
        "solve-rooms" => streams::gen_solve(&mut r, tier, 2, "solve-rooms"),
        "roompairs" => streams::gen_roompairs(&mut r, tier),
        "engine" => streams::gen_engine(&mut r, tier, false, "engine"),
        "engine-fault" => streams::gen_engine(&mut r, tier, true, "engine-fault"),
        "selections" => streams::gen_selections(&mut r, tier),
        "engine-exhaustive" => streams::gen_engine_exhaustive(&mut r, tier),
        "rooms" => streams::gen_rooms(&mut r, tier),
        _ => {
            eprintln!("unknown stream {}", stream);
            std::process::exit(2)
        }
    }
}

fn run_case(stream: &str, data: &Value) -> Vec<common::Line> {
    match stream {
        "hungarian" | "hungarian-exhaustive" => streams::run_hungarian(data),
        "node" | "node-rooms" | "node-norooms" | "node-exhaustive" => streams::run_node(data),
        "solve" | "solve-norooms" | "solve-rooms" => streams::run_solve(data),
        "roompairs" => streams::run_roompairs(data),
        "engine" | "engine-fault" => streams::run_engine(data),
        "selections" => streams::run_selections(data),
        "engine-exhaustive" => streams::run_engine_exhaustive(data),
        "rooms" => streams::run_rooms(data),
        _ => {
            eprintln!("unknown stream {}", stream);
            std::process::exit(2)
        }
    }
}

fn main() {
    // panics of the code under test are caught and reported as data; keep stderr quiet
    std::panic::set_hook(Box::new(|_| {}));
    let args: Vec<String> = std::env::args().collect();
    match args.get(1).map(|s| s.as_str()) {
        Some("gen") => {
            let stream = &args[2];
            let seed: u64 = args[3].parse().unwrap();
            let tier = &args[4];
            let mut out = std::io::BufWriter::new(std::fs::File::create(&args[5]).unwrap());
            // corpus cases first
            let mut cases: Vec<Case> = vec![];
            if let Some(dir) = args.get(6) {
                if let Ok(rd) = std::fs::read_dir(dir) {
                    let mut files: Vec<std::path::PathBuf> = vec![];
                    for e in rd.flatten() {
                        if e.path().is_dir() {
                            if let Ok(rd2) = std::fs::read_dir(e.path()) {
                                files.extend(rd2.flatten().map(|e| e.path()));
                            }
                        } else {
                            files.push(e.path());
                        }
                    }
                    files.sort();
                    for f in files {
                        if let Ok(txt) = std::fs::read_to_string(&f) {
                            if let Ok(v) = serde_json::from_str::<Value>(&txt) {
                                if v["stream"].as_str() == Some(stream.as_str()) {
                                    cases.push(Case { stream: "corpus", data: v["case"].clone() });
                                }
                            }
                        }
                    }
                }
            }
            let ncorpus = cases.len();
            cases.extend(gen_cases(stream, seed, tier));
            for (i, c) in cases.iter().enumerate() {
                writeln!(out, "{}", json!({"kind": "case", "stream": stream, "case": i, "corpus": i < ncorpus, "data": c.data})).unwrap();
                for l in run_case(stream, &c.data) {
                    writeln!(out, "{}", l.to_json(stream, i)).unwrap();
                }
            }
        }
        Some("replay") => {
            let v: Value = serde_json::from_str(&std::fs::read_to_string(&args[2]).unwrap()).unwrap();
            let stream = v["stream"].as_str().unwrap().to_string();
            let mut out = std::io::BufWriter::new(std::fs::File::create(&args[3]).unwrap());
            writeln!(out, "{}", json!({"kind": "case", "stream": stream, "case": 0, "corpus": false, "data": v["case"]})).unwrap();
            for l in run_case(&stream, &v["case"]) {
                writeln!(out, "{}", l.to_json(&stream, 0)).unwrap();
            }
        }
        Some("cdedb-read") => cdedb::run(&args[2], &args[3]),
        Some("simple-read") => cdedb::run_simple(&args[2], &args[3]),
        _ => {
            eprintln!("usage: vharness gen <stream> <seed> <tier> <out> [corpusdir] | replay <file> <out>");
            std::process::exit(2);
        }
    }
}
