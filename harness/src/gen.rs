//! Generators: instances, matrices, synthetic trees. Everything derives from one `Rng`.
use crate::common::{Inst, Rng};
use cdecao::verif::{CourseDump, ParticipantDump};

pub struct InstParams {
    pub max_courses: usize,
    pub max_parts: usize,
    pub rooms: u8, // 0 = never, 1 = sometimes, 2 = always
    pub nondyadic: bool,
    pub allow_freeable: bool,
}

/// A valid instance in the sense of C01: indices in range, min <= max, every participant instructs
/// at most one course and is listed once, no course twice in a choice list, small penalties, at
/// least one participant with choices.
pub fn gen_instance(r: &mut Rng, p: &InstParams) -> Inst {
    let nc = 1 + r.usize(p.max_courses);
    let np = 1 + r.usize(p.max_parts);
    // shape dial: 0 = generic, 1 = tight minima (forces branching), 2 = over-subscribed,
    // 3 = zero-size / no-candidate courses
    let shape = r.below(4);
    let dyadic = [1.0f32, 1.0, 1.0, 0.5, 1.5, 2.0, 2.5, 0.25, 4.0];
    let nond = [1.2f32, 0.3, 1.1, 1.3, 2.7, 0.7, 3.3];
    let offsets = [0.0f32, 0.0, 0.0, 1.0, 2.5, 0.5, 3.0];
    let nond_off = [0.1f32, 0.7, 1.3];
    let mut courses: Vec<CourseDump> = (0..nc)
        .map(|i| {
            let mx = match shape {
                2 => r.pick(&[0usize, 1, 1, 2, 2]),
                3 => r.pick(&[0usize, 0, 1, 2, 4]),
                _ => r.pick(&[0usize, 1, 2, 2, 3, 4, 6, 8]),
            };
            let mn = match shape {
                1 => {
                    if r.chance(1, 2) {
                        mx
                    } else {
                        mx - r.usize(mx.min(1) + 1).min(mx)
                    }
                }
                _ => {
                    if r.chance(1, 5) {
                        mx
                    } else {
                        r.usize(mx + 1)
                    }
                }
            };
            let factor = if p.nondyadic && r.chance(1, 2) { r.pick(&nond) } else { r.pick(&dyadic) };
            let offset = if p.nondyadic && r.chance(1, 3) { r.pick(&nond_off) } else { r.pick(&offsets) };
            CourseDump {
                index: i,
                dbid: 100 + i,
                name: format!("c{}", i),
                num_max: mx,
                num_min: mn,
                instructors: vec![],
                room_factor: factor,
                room_offset: offset,
                fixed_course: r.chance(1, 6),
                hidden_participant_names: vec![],
            }
        })
        .collect();
    let mut parts: Vec<ParticipantDump> = (0..np)
        .map(|i| {
            let k = r.pick(&[0usize, 1, 1, 2, 2, 3, 3]).min(nc);
            let mut chosen: Vec<usize> = vec![];
            while chosen.len() < k {
                let c = r.usize(nc);
                if !chosen.contains(&c) {
                    chosen.push(c);
                }
            }
            let style = r.below(5);
            ParticipantDump {
                index: i,
                dbid: 1000 + i,
                name: format!("p{}", i),
                choices: chosen
                    .iter()
                    .enumerate()
                    .map(|(j, c)| {
                        let pen = match style {
                            0 => r.below(4) as u32,      // ties / out of order
                            1 => (j * j) as u32,         // quadratic
                            3 => (chosen.len() - 1 - j) as u32, // listed worst first (the list order is not the preference order)
                            _ => j as u32,
                        };
                        (*c, pen)
                    })
                    .collect(),
            }
        })
        .collect();
    if parts.iter().all(|p| p.choices.is_empty()) {
        parts[0].choices = vec![(r.usize(nc), 0)];
    }
    for pi in 0..np {
        if r.chance(1, 3) {
            let c = r.usize(nc);
            let has_choices = !parts[pi].choices.is_empty();
            if has_choices && !p.allow_freeable && !courses[c].fixed_course {
                // stay outside the class of the known finding F1: such an instructor's course is fixed
                if r.chance(1, 2) {
                    courses[c].fixed_course = true;
                    // a fixed course must stay fixed for every instructor with choices
                } else {
                    continue;
                }
            }
            courses[c].instructors.push(pi);
        }
    }
    if !p.allow_freeable {
        // fixing a course later may have put earlier instructors with choices into a fixed course: fine.
        // but un-fixed courses must not have instructors with choices
        for c in courses.iter_mut() {
            if !c.fixed_course && c.instructors.iter().any(|i| !parts[*i].choices.is_empty()) {
                c.fixed_course = true;
            }
        }
    }
    let rooms = match p.rooms {
        0 => None,
        1 if r.chance(1, 2) => None,
        _ => {
            let n = r.usize(nc + 3);
            let big = r.chance(1, 4);
            Some(
                (0..n)
                    .map(|_| {
                        if big {
                            r.pick(&[10usize, 20, 30, 50])
                        } else {
                            r.pick(&[0usize, 1, 2, 3, 4, 5, 6, 8, 10, 20])
                        }
                    })
                    .collect(),
            )
        }
    };
    Inst { courses, parts, rooms }
}

/// An instance aimed at the f32 rounding corner of the room stage: a course whose minimum (with
/// instructors) fits a room by the forward formula `ceil(offset + factor * n) <= room` while the
/// inverse `floor((room - offset) / factor)` is below `n`; more participants want the course than
/// the room holds, so the room stage has to shrink it.
pub fn gen_f32_corner(r: &mut Rng) -> Inst {
    // (factor, offset, n = num_min + instructors, room)
    let triples: [(f32, f32, usize, usize); 6] =
        [(0.3, 0.1, 3, 1), (1.1, 1.3, 7, 9), (2.7, 0.1, 7, 19), (1.2, 0.0, 15, 18), (0.6, 0.0, 15, 9), (0.3, 0.7, 11, 4)];
    let (f, off, n, room) = triples[[0usize, 0, 1, 1, 2, 3, 4, 5][r.usize(8)]];
    let with_instr = n >= 2 && r.chance(1, 2);
    let ninstr = if with_instr { 1 } else { 0 };
    let extra = 1 + r.usize(3);
    let np = n + extra + ninstr + r.usize(2);
    let mut courses = vec![
        CourseDump { index: 0, dbid: 100, name: "A".into(), num_min: n - ninstr, num_max: n + extra + 2, instructors: vec![],
            room_factor: f, room_offset: off, fixed_course: false, hidden_participant_names: vec![] },
        CourseDump { index: 1, dbid: 101, name: "B".into(), num_min: 0, num_max: np, instructors: vec![],
            room_factor: 1.0, room_offset: 0.0, fixed_course: false, hidden_participant_names: vec![] },
    ];
    let mut parts: Vec<ParticipantDump> = (0..np)
        .map(|i| ParticipantDump { index: i, dbid: 1000 + i, name: format!("p{}", i), choices: vec![(0, 0), (1, 1)] })
        .collect();
    if with_instr {
        parts[0].choices = vec![];
        courses[0].instructors.push(0);
    }
    let second = if r.chance(1, 2) { room } else { np + 5 };
    Inst { courses, parts, rooms: Some(vec![room, second]) }
}

/// Room conflict of a full course while a smaller, under-filled course X (one fan, minimum 3–4, an
/// instructor WITH own choices) fits the conflicting room now but not at its minimum: X is in the
/// k-selection and in the "always" set of the room stage, i.e. it is put on the cancel list twice.
pub fn gen_room_cancel_twice(r: &mut Rng) -> Inst {
    let fa = 4 + r.usize(3);
    let fb = 3 + r.usize(3);
    let xmin = 3 + r.usize(2);
    let mk = |i: usize, name: &str, mn: usize, instr: usize| CourseDump { index: i, dbid: 100 + i, name: name.into(), num_min: mn, num_max: 9,
        instructors: vec![instr], room_factor: 1.0, room_offset: 0.0, fixed_course: false, hidden_participant_names: vec![] };
    let courses = vec![mk(0, "A", 2, 0), mk(1, "B", 2, 1), mk(2, "X", xmin, 2)];
    let mut parts = vec![
        ParticipantDump { index: 0, dbid: 1000, name: "a0".into(), choices: vec![(1, 0), (2, 1)] },
        ParticipantDump { index: 1, dbid: 1001, name: "b0".into(), choices: vec![(0, 0), (2, 1)] },
        ParticipantDump { index: 2, dbid: 1002, name: "x0".into(), choices: vec![(0, 0), (1, 1)] },
    ];
    for (c, n) in [(0usize, fa), (1usize, fb), (2usize, 1usize)] {
        for _ in 0..n {
            let i = parts.len();
            let others: Vec<usize> = (0..3).filter(|x| *x != c).collect();
            let (o1, o2) = if r.chance(1, 2) { (others[0], others[1]) } else { (others[1], others[0]) };
            parts.push(ParticipantDump { index: i, dbid: 1000 + i, name: format!("p{}", i), choices: vec![(c, 0), (o1, 1), (o2, 2)] });
        }
    }
    // A (1 + fa people) gets the big room; B (1 + fb >= 4) collides with a room of 3; X (2 people now,
    // 1 + xmin >= 4 at its minimum) fits 3 now but not at its minimum
    let rooms = vec![fa + 4 + r.usize(2), 3, 3];
    Inst { courses, parts, rooms: Some(rooms) }
}

/// An effective room size with a TINY positive fractional part (2^-10 … 2^-16, 1e-4 … 9e-4; through
/// the offset or through the factor) and a room that is too small by exactly that fraction: the
/// popular course must be shrunk by one. Any tolerance in the rounding ("- 1e-3") lets it through.
pub fn gen_f32_tiny_fraction(r: &mut Rng) -> Inst {
    let eps = [1.0f32 / 1024.0, 1.0 / 2048.0, 1.0 / 8192.0, 1.0 / 65536.0, 1e-4, 3e-4, 9e-4][r.usize(7)];
    let via_factor = r.chance(1, 3);
    let want = 4 + r.usize(5);
    let k = r.usize(3);
    let (f, off) = if via_factor { (1.0 + eps / 8.0, k as f32) } else { (1.0, k as f32 + eps) };
    let others = 1 + r.usize(2);
    let np = want + others;
    let courses = vec![
        CourseDump { index: 0, dbid: 100, name: "A".into(), num_min: r.usize(3), num_max: want + 2, instructors: vec![],
            room_factor: f, room_offset: off, fixed_course: false, hidden_participant_names: vec![] },
        CourseDump { index: 1, dbid: 101, name: "B".into(), num_min: 0, num_max: np, instructors: vec![],
            room_factor: 1.0, room_offset: 0.0, fixed_course: false, hidden_participant_names: vec![] },
    ];
    let parts: Vec<ParticipantDump> = (0..np)
        .map(|i| ParticipantDump { index: i, dbid: 1000 + i, name: format!("p{}", i), choices: if i < want { vec![(0, 0), (1, 1)] } else { vec![(1, 0), (0, 1)] } })
        .collect();
    // the room for A holds k + want places; A with all its fans needs k + want + (a bit) -> one more
    Inst { courses, parts, rooms: Some(vec![k + want, others + 2]) }
}

/// A fixed course that nobody wants first (but many second), with a room offset, and a room list
/// with a conflict at a room smaller than the fixed course's minimum size: the room stage must
/// shrink the popular courses (pushing people into the fixed course), never cancel the fixed one.
pub fn gen_fixed_room_squeeze(r: &mut Rng) -> Inst {
    let k = 2 + r.usize(2); // popular courses
    let fmin = 2 + r.usize(2);
    let foff = 1 + r.usize(2);
    let mut courses: Vec<CourseDump> = (0..k)
        .map(|i| CourseDump { index: i, dbid: 100 + i, name: format!("c{}", i), num_min: 1, num_max: 10, instructors: vec![],
            room_factor: 1.0, room_offset: 0.0, fixed_course: false, hidden_participant_names: vec![] })
        .collect();
    courses.push(CourseDump { index: k, dbid: 100 + k, name: "F".into(), num_min: fmin, num_max: fmin + 3, instructors: vec![],
        room_factor: 1.0, room_offset: foff as f32, fixed_course: true, hidden_participant_names: vec![] });
    let mut parts: Vec<ParticipantDump> = vec![];
    let mut sizes = vec![];
    for c in 0..k {
        let n = 4 + r.usize(2) - if c > 0 { r.usize(2) } else { 0 };
        sizes.push(n);
        for _ in 0..n {
            let i = parts.len();
            let third = (c + 1) % k;
            parts.push(ParticipantDump { index: i, dbid: 1000 + i, name: format!("p{}", i), choices: vec![(c, 0), (k, 1), (third, 2)] });
        }
    }
    sizes.sort_unstable_by(|a, b| b.cmp(a));
    // rooms: generous for the largest, then one room just below the size of a popular course and
    // below the fixed course's minimum size (fmin + foff), and a room for the empty fixed course
    let squeeze = (sizes[k - 1] - 1).min(fmin + foff - 1).max(foff);
    let mut rooms = vec![9usize + r.usize(3)];
    for _ in 1..k - 1 {
        rooms.push(6 + r.usize(2));
    }
    rooms.push(squeeze);
    rooms.push(foff.max(2));
    Inst { courses, parts, rooms: Some(rooms) }
}

/// Small enough for the brute-force optimum: a fixed course nobody prefers whose EMPTY room size
/// fits the room at which two popular courses collide while its size at num_min does not. Without
/// rooms the fixed course's minimum must be filled at a cost; a room stage that cancelled it would
/// score above the optimum without room limits (C17, second relation; C01).
pub fn gen_fixed_unpopular_conflict_small(r: &mut Rng) -> Inst {
    let fa = 3 + r.usize(2);
    let fb = 3 + r.usize(2);
    let fmin = 2 + r.usize(2);
    let lo = fa.min(fb);
    let foff = 1 + r.usize(lo - 1); // 1 ..= lo-1
    // foff <= R < foff + fmin and R < lo (so that the second popular course collides with R)
    let hi = (foff + fmin).min(lo);
    let room = foff + r.usize(hi - foff);
    let mk = |i: usize, name: &str, mn: usize, mx: usize, off: f32, fixed: bool| CourseDump { index: i, dbid: 100 + i, name: name.into(), num_min: mn, num_max: mx,
        instructors: vec![], room_factor: 1.0, room_offset: off, fixed_course: fixed, hidden_participant_names: vec![] };
    let courses = vec![mk(0, "A", r.usize(2), fa + 1, 0.0, false), mk(1, "B", r.usize(2), fb + 1, 0.0, false), mk(2, "F", fmin, fmin + 1, foff as f32, true)];
    let mut parts = vec![];
    for (c, n) in [(0usize, fa), (1usize, fb)] {
        for _ in 0..n {
            let i = parts.len();
            parts.push(ParticipantDump { index: i, dbid: 1000 + i, name: format!("p{}", i), choices: vec![(c, 0), (1 - c, 1), (2, 2)] });
        }
    }
    let big = (fa.max(fb) + 1).max(fmin + foff + 1);
    let rooms = vec![big, room, if r.chance(1, 2) { room } else { foff }];
    Inst { courses, parts, rooms: Some(rooms) }
}

/// The same situation beyond the brute-force range (the reference optimum is then the Lean model's
/// complete search without rooms): two popular courses colliding at a room R, a third small course,
/// and a fixed course with a large offset that is everybody's last choice, offset <= R < offset + min.
pub fn gen_fixed_unpopular_conflict_medium(r: &mut Rng) -> Inst {
    let a = 7 + r.usize(3); // 7..9
    let fmin = 3;
    let foff = 5usize;
    let room = a - 2; // 5..7: foff <= room < foff + fmin
    let mk = |i: usize, name: &str, mn: usize, mx: usize, off: f32, fixed: bool| CourseDump { index: i, dbid: 100 + i, name: name.into(), num_min: mn, num_max: mx,
        instructors: vec![], room_factor: 1.0, room_offset: off, fixed_course: fixed, hidden_participant_names: vec![] };
    let courses = vec![mk(0, "A", 1, a, 0.0, false), mk(1, "B", 1, a, 0.0, false), mk(2, "C", r.usize(2), 4, 0.0, false), mk(3, "F", fmin, fmin + 2, foff as f32, true)];
    let mut parts = vec![];
    for (c, n) in [(0usize, a - 1), (1usize, a - 1), (2usize, 2usize)] {
        for _ in 0..n {
            let i = parts.len();
            let second = if c == 2 { r.usize(2) } else if r.chance(1, 2) { 1 - c } else { 2 };
            parts.push(ParticipantDump { index: i, dbid: 1000 + i, name: format!("p{}", i), choices: vec![(c, 0), (second, 1), (3, 2)] });
        }
    }
    let rooms = vec![a + 2 + r.usize(2), room, room, 4];
    Inst { courses, parts, rooms: Some(rooms) }
}

/// A fixed course that stays empty, with a FRACTIONAL room offset (as the CdE reader produces for
/// pre-assigned people: 3 x 1.5 = 4.5), and a room of exactly floor(offset) places at its rank: the
/// empty fixed course needs ceil(offset) places.
pub fn gen_fixed_empty_fractional_offset(r: &mut Rng) -> Inst {
    let off = [0.5f32, 1.5, 2.5, 4.5][r.usize(4)];
    let k = 1 + r.usize(3);
    let mut courses: Vec<CourseDump> = (0..k)
        .map(|i| CourseDump { index: i, dbid: 100 + i, name: format!("c{}", i), num_min: r.usize(2), num_max: 6, instructors: vec![],
            room_factor: 1.0, room_offset: 0.0, fixed_course: false, hidden_participant_names: vec![] })
        .collect();
    courses.push(CourseDump { index: k, dbid: 100 + k, name: "F".into(), num_min: 0, num_max: 3, instructors: vec![],
        room_factor: [1.0f32, 1.5][r.usize(2)], room_offset: off, fixed_course: true, hidden_participant_names: vec![] });
    let np = 3 + r.usize(6);
    let parts: Vec<ParticipantDump> = (0..np)
        .map(|i| {
            let c = r.usize(k);
            let mut ch = vec![(c, 0u32)];
            if k > 1 { ch.push(((c + 1) % k, 1)); }
            if r.chance(1, 4) { ch.push((k, 2)); }
            ParticipantDump { index: i, dbid: 1000 + i, name: format!("p{}", i), choices: ch }
        })
        .collect();
    // generous rooms for the popular courses; the smallest room is floor(offset) or ceil(offset)
    let mut rooms = vec![8usize + r.usize(3); k];
    rooms.push(if r.chance(2, 3) { off.floor() as usize } else { off.ceil() as usize });
    Inst { courses, parts, rooms: Some(rooms) }
}

/// Third f32 corner: the shrink size computed by the inverse formula does not fit the room by the
/// forward formula (`floor((25 - 0.7) / 2.7) = 9` but `ceil(0.7 + 2.7 * 9) = 26 > 25`), so the same
/// shrink constraint is proposed again for an already shrunk course.
pub fn gen_f32_shrink_does_not_fit(r: &mut Rng) -> Inst {
    let triples: [(f32, f32, usize, usize); 3] = [(2.7, 0.7, 25, 9), (1.7, 0.1, 29, 17), (2.9, 0.7, 50, 17)];
    let (f, off, room, s) = triples[[0usize, 0, 0, 1, 2][r.usize(5)]];
    // in a third of the cases the course is FULL at num_max = s: the computed bound is then a no-op
    // (shrink size >= num_max) although the course does not fit the room
    let full = r.chance(1, 3);
    let np = if full { s + r.usize(3) } else { s + 1 + r.usize(3) };
    let courses = vec![
        CourseDump { index: 0, dbid: 100, name: "A".into(), num_min: r.usize(3), num_max: if full { s } else { np + 2 }, instructors: vec![],
            room_factor: f, room_offset: off, fixed_course: r.chance(1, 3), hidden_participant_names: vec![] },
        CourseDump { index: 1, dbid: 101, name: "B".into(), num_min: 0, num_max: r.usize(3), instructors: vec![],
            room_factor: 1.0, room_offset: 0.0, fixed_course: false, hidden_participant_names: vec![] },
    ];
    let parts: Vec<ParticipantDump> = (0..np)
        .map(|i| ParticipantDump { index: i, dbid: 1000 + i, name: format!("p{}", i), choices: vec![(0, 0), (1, 1)] })
        .collect();
    Inst { courses, parts, rooms: Some(vec![room, 3]) }
}

/// A course with a minimum above 100 that lacks exactly one attendee (less than 1 % of its minimum):
/// relative measures of the shortfall in integer percent round to 0.
pub fn gen_big_min_course(r: &mut Rng) -> Inst {
    let m = 101 + r.usize(10);
    let lack = 1 + r.usize(2) / 2; // mostly 1
    let fans = m - lack;
    let others = 3 + r.usize(4);
    let courses = vec![
        CourseDump { index: 0, dbid: 100, name: "Orchestra".into(), num_min: m, num_max: m + 9, instructors: vec![],
            room_factor: 1.0, room_offset: 0.0, fixed_course: false, hidden_participant_names: vec![] },
        CourseDump { index: 1, dbid: 101, name: "B".into(), num_min: 0, num_max: m + 20, instructors: vec![],
            room_factor: 1.0, room_offset: 0.0, fixed_course: false, hidden_participant_names: vec![] },
    ];
    let parts: Vec<ParticipantDump> = (0..fans + others)
        .map(|i| ParticipantDump { index: i, dbid: 1000 + i, name: format!("p{}", i), choices: if i < fans { vec![(0, 0), (1, 1)] } else { vec![(1, 0)] } })
        .collect();
    Inst { courses, parts, rooms: None }
}

/// A room list that every course's worst case seems to fit — unless one counts the instructor of
/// another course who becomes an ordinary attendee when that course is cancelled: A is wanted by 8
/// people plus the instructor of B (first choice), B has a single fan and minimum 3, so B is
/// cancelled and A grows to 10 in a room of 9.
pub fn gen_freed_instructor_room_bound(r: &mut Rng) -> Inst {
    let fa = 7 + r.usize(3);
    let mk = |i: usize, name: &str, mn: usize, mx: usize, instr: Vec<usize>| CourseDump { index: i, dbid: 100 + i, name: name.into(), num_min: mn, num_max: mx,
        instructors: instr, room_factor: 1.0, room_offset: 0.0, fixed_course: false, hidden_participant_names: vec![] };
    let courses = vec![mk(0, "A", 0, fa + 4, vec![0]), mk(1, "B", 3, 6, vec![1]), mk(2, "C", 0, 6, vec![])];
    let mut parts = vec![
        ParticipantDump { index: 0, dbid: 1000, name: "a0".into(), choices: vec![] },
        ParticipantDump { index: 1, dbid: 1001, name: "b0".into(), choices: vec![(0, 0), (2, 1)] },
    ];
    for _ in 0..fa {
        let i = parts.len();
        parts.push(ParticipantDump { index: i, dbid: 1000 + i, name: format!("p{}", i), choices: vec![(0, 0), (2, 1)] });
    }
    let i = parts.len();
    parts.push(ParticipantDump { index: i, dbid: 1000 + i, name: "bfan".into(), choices: vec![(1, 0), (2, 1)] });
    for _ in 0..1 + r.usize(2) {
        let i = parts.len();
        parts.push(ParticipantDump { index: i, dbid: 1000 + i, name: format!("c{}", i), choices: vec![(2, 0)] });
    }
    // nobody but its fa fans (and the instructor of B) lists A: instructor + fa fans fit the first room
    // exactly; C can reach its maximum of 6, B at most 2
    Inst { courses, parts, rooms: Some(vec![fa + 1, 6, 4]) }
}

/// Many courses (24–30) with a room conflict among the LARGEST ones, so that the selection range of
/// the room stage starts beyond index 17.
pub fn gen_many_courses_rooms(r: &mut Rng) -> Inst {
    let nc = 24 + r.usize(7);
    let nbig = 1 + r.usize(4);
    let mut courses: Vec<CourseDump> = (0..nc)
        .map(|i| CourseDump { index: i, dbid: 100 + i, name: format!("c{}", i), num_min: r.usize(2), num_max: 3, instructors: vec![],
            room_factor: 1.0, room_offset: 0.0, fixed_course: false, hidden_participant_names: vec![] })
        .collect();
    let mut parts: Vec<ParticipantDump> = vec![];
    // the first `nbig` courses are wanted by 3 people, the others by 1–2
    for c in 0..nc {
        let want = if c < nbig { 3 } else { 1 + r.usize(2) };
        for _ in 0..want {
            let other = r.usize(nc);
            let mut ch = vec![(c, 0u32)];
            if other != c {
                ch.push((other, 1));
            }
            let i = parts.len();
            parts.push(ParticipantDump { index: i, dbid: 1000 + i, name: format!("p{}", i), choices: ch });
        }
    }
    if r.chance(1, 3) {
        let c = r.usize(nc);
        courses[c].fixed_course = true;
    }
    let rooms = vec![2usize; nc - r.usize(2)];
    Inst { courses, parts, rooms: Some(rooms) }
}

/// An instance aimed at the other f32 corner: `factor * n` is an exact integer in f32 although the
/// f32 factor, read as a real number, lies slightly above its decimal value (1.2f32 * 5 = 6.0 but
/// 1.2f32 as f64 * 5 = 6.0000002). Course A can become exactly `n` people; B stays small, so the
/// largest effective size any course can reach is A's.
pub fn gen_f32_exact_product(r: &mut Rng) -> Inst {
    let factors = [1.2f32, 1.1, 1.3, 2.7, 0.7, 3.3, 1.6, 2.2];
    let mut cands: Vec<(f32, usize)> = vec![];
    for f in factors.iter() {
        for n in 3..12usize {
            let p = *f * n as f32;
            if p == p.round() && (*f as f64) * (n as f64) > p as f64 {
                cands.push((*f, n));
            }
        }
    }
    let (f, n) = cands[r.usize(cands.len())];
    let np = n + 1 + r.usize(2);
    let courses = vec![
        CourseDump { index: 0, dbid: 100, name: "A".into(), num_min: r.usize(2), num_max: n, instructors: vec![],
            room_factor: f, room_offset: 0.0, fixed_course: false, hidden_participant_names: vec![] },
        CourseDump { index: 1, dbid: 101, name: "B".into(), num_min: 0, num_max: 2, instructors: vec![],
            room_factor: 1.0, room_offset: 0.0, fixed_course: false, hidden_participant_names: vec![] },
    ];
    let parts: Vec<ParticipantDump> = (0..np)
        .map(|i| ParticipantDump { index: i, dbid: 1000 + i, name: format!("p{}", i), choices: vec![(0, 0), (1, 1)] })
        .collect();
    Inst { courses, parts, rooms: None }
}

/// post-processing dial: an unpopular FIXED course with a minimum, and a tiny last room, so that a
/// room conflict arises at a room smaller than the fixed course's minimum size
pub fn make_fixed_unpopular(r: &mut Rng, inst: &mut Inst) {
    let nc = inst.courses.len();
    if nc < 2 {
        return;
    }
    let f = r.usize(nc);
    inst.courses[f].fixed_course = true;
    inst.courses[f].num_min = 2 + r.usize(2);
    inst.courses[f].num_max = inst.courses[f].num_max.max(inst.courses[f].num_min + r.usize(3));
    inst.courses[f].room_factor = 1.0;
    // few people want it
    let mut keep = 1 + r.usize(3);
    for p in inst.parts.iter_mut() {
        if p.choices.len() > 1 {
            if keep == 0 {
                p.choices.retain(|(c, _)| *c != f);
            } else if p.choices.iter().any(|(c, _)| *c == f) {
                keep -= 1;
            }
        }
    }
    let big = 10 + r.usize(10);
    let mut rooms = vec![big; nc - 1];
    rooms.push(r.usize(2));
    if r.chance(1, 2) && nc >= 3 {
        rooms[nc - 2] = 1 + r.usize(2);
    }
    inst.rooms = Some(rooms);
}

#[derive(Clone, Debug)]
pub struct Matrix {
    pub nx: usize,
    pub ny: usize,
    pub w: Vec<i32>,
    pub dummy: Vec<bool>,
    pub mand: Vec<bool>,
    pub skipx: Vec<bool>,
    pub skipy: Vec<bool>,
}

impl Matrix {
    pub fn to_text(&self) -> String {
        let b = |v: &Vec<bool>| v.iter().map(|x| if *x { '1' } else { '0' }).collect::<String>();
        format!(
            "{} {}|{}|{}|{}|{}|{}",
            self.nx,
            self.ny,
            self.w.iter().map(|x| x.to_string()).collect::<Vec<_>>().join(" "),
            b(&self.dummy),
            b(&self.mand),
            b(&self.skipx),
            b(&self.skipy)
        )
    }
    pub fn to_json(&self) -> serde_json::Value {
        serde_json::json!({"nx": self.nx, "ny": self.ny, "w": self.w, "dummy": self.dummy, "mand": self.mand,
            "skipx": self.skipx, "skipy": self.skipy})
    }
    pub fn from_json(v: &serde_json::Value) -> Matrix {
        let bl = |k: &str| v[k].as_array().unwrap().iter().map(|x| x.as_bool().unwrap()).collect::<Vec<bool>>();
        Matrix {
            nx: v["nx"].as_u64().unwrap() as usize,
            ny: v["ny"].as_u64().unwrap() as usize,
            w: v["w"].as_array().unwrap().iter().map(|x| x.as_i64().unwrap() as i32).collect(),
            dummy: bl("dummy"),
            mand: bl("mand"),
            skipx: bl("skipx"),
            skipy: bl("skipy"),
        }
    }
}

/// `admissible`: mandatory columns at most the real non-skipped rows (a constrained perfect
/// matching exists); otherwise one more mandatory column than real rows (the panic branch).
pub fn gen_matrix(r: &mut Rng, max_n: usize, admissible: bool) -> Matrix {
    gen_matrix_sized(r, 1, max_n, admissible)
}

/// The shape caobab builds: square, one column per course place, `50000 - penalty` on all places of
/// a chosen course and 0 elsewhere, trailing all-zero dummy rows, the first `num_min` places of each
/// course mandatory, the places of cancelled courses (and as many dummy rows) skipped. Exact ties
/// everywhere, 64 or more columns.
pub fn gen_matrix_caobab(r: &mut Rng, min_places: usize) -> Matrix {
    let mut sizes: Vec<(usize, usize)> = vec![];
    let mut places = 0;
    while places < min_places {
        let mx = 3 + r.usize(4);
        let mn = r.usize(3).min(mx);
        sizes.push((mn, mx));
        places += mx;
    }
    let k = sizes.len();
    let dummies = 3 + r.usize(13);
    let np = places - dummies;
    let n = places;
    let mut course_of = vec![];
    let mut mand = vec![];
    for (c, (mn, mx)) in sizes.iter().enumerate() {
        for j in 0..*mx {
            course_of.push(c);
            mand.push(j < *mn);
        }
    }
    let mut w = vec![0i32; n * n];
    for p in 0..np {
        let nch = 1 + r.usize(4);
        for j in 0..nch {
            let c = r.usize(k);
            for y in 0..n {
                if course_of[y] == c && w[p * n + y] == 0 {
                    w[p * n + y] = 50000 - j as i32;
                }
            }
        }
    }
    let dummy: Vec<bool> = (0..n).map(|x| x >= np).collect();
    // cancel up to two courses: skip their places and as many (trailing) dummy rows
    let mut skipy = vec![false; n];
    let mut skipx = vec![false; n];
    let mut skipped = 0;
    for _ in 0..r.usize(3) {
        let c = r.usize(k);
        let cnt = (0..n).filter(|y| course_of[*y] == c && !skipy[*y]).count();
        if skipped + cnt <= dummies {
            for y in 0..n {
                if course_of[y] == c {
                    skipy[y] = true;
                }
            }
            skipped += cnt;
        }
    }
    for x in (n - skipped)..n {
        skipx[x] = true;
    }
    Matrix { nx: n, ny: n, w, dummy, mand, skipx, skipy }
}

pub fn gen_matrix_sized(r: &mut Rng, min_n: usize, max_n: usize, admissible: bool) -> Matrix {
    let nx = min_n + r.usize(max_n - min_n + 1);
    let ny = min_n + r.usize(max_n - min_n + 1);
    let mut skipx = vec![false; nx];
    let mut skipy = vec![false; ny];
    let lo = nx.min(ny);
    let k = lo - r.usize(lo) / 2;
    let mut cx = nx;
    while cx > k {
        let i = r.usize(nx);
        if !skipx[i] {
            skipx[i] = true;
            cx -= 1;
        }
    }
    let mut cy = ny;
    while cy > k {
        let i = r.usize(ny);
        if !skipy[i] {
            skipy[i] = true;
            cy -= 1;
        }
    }
    let dummy: Vec<bool> = (0..nx).map(|_| r.chance(1, 3)).collect();
    let real = (0..nx).filter(|i| !skipx[*i] && !dummy[*i]).count();
    let mut mand = vec![false; ny];
    let mut nm = 0;
    let target = if admissible { real } else { real + 1 };
    let dense = r.chance(1, 3) || !admissible;
    for y in 0..ny {
        if !skipy[y] && nm < target && (dense || r.chance(1, 3)) {
            mand[y] = true;
            nm += 1;
        }
    }
    // skipped columns marked mandatory must be ignored
    for y in 0..ny {
        if skipy[y] && r.chance(1, 4) {
            mand[y] = true;
        }
    }
    let style = r.below(4);
    let w: Vec<i32> = (0..nx * ny)
        .map(|_| match style {
            0 => r.below(4) as i32,
            1 => {
                if r.chance(1, 2) {
                    0
                } else {
                    50000 - r.below(3) as i32
                }
            }
            2 => r.below(1000) as i32,
            _ => r.below(1 << 20) as i32,
        })
        .collect();
    let _ = nm;
    Matrix { nx, ny, w, dummy, mand, skipx, skipy }
}

/// Synthetic branch-and-bound tree. Node 0 is the root.
#[derive(Clone, Debug)]
pub enum Kind {
    NoSol,
    Infeasible(Vec<u32>, u32),
    Feasible(u32),
    Panic,
}

#[derive(Clone, Debug)]
pub struct Tree {
    pub nodes: Vec<(u32, Kind)>, // (depth, kind)
}

impl Tree {
    pub fn to_json(&self) -> serde_json::Value {
        serde_json::Value::Array(
            self.nodes
                .iter()
                .map(|(_, k)| match k {
                    Kind::NoSol => serde_json::json!({"k": "n"}),
                    Kind::Feasible(s) => serde_json::json!({"k": "f", "s": s}),
                    Kind::Infeasible(kids, s) => serde_json::json!({"k": "i", "s": s, "kids": kids}),
                    Kind::Panic => serde_json::json!({"k": "p"}),
                })
                .collect(),
        )
    }
    pub fn from_json(v: &serde_json::Value) -> Tree {
        let arr = v.as_array().unwrap();
        let mut nodes: Vec<(u32, Kind)> = arr
            .iter()
            .map(|n| {
                let k = match n["k"].as_str().unwrap() {
                    "n" => Kind::NoSol,
                    "f" => Kind::Feasible(n["s"].as_u64().unwrap() as u32),
                    "i" => Kind::Infeasible(
                        n["kids"].as_array().unwrap().iter().map(|x| x.as_u64().unwrap() as u32).collect(),
                        n["s"].as_u64().unwrap() as u32,
                    ),
                    _ => Kind::Panic,
                };
                (0u32, k)
            })
            .collect();
        // depths
        let mut stack = vec![(0usize, 0u32)];
        while let Some((i, d)) = stack.pop() {
            nodes[i].0 = d;
            if let Kind::Infeasible(kids, _) = nodes[i].1.clone() {
                for k in kids {
                    stack.push((k as usize, d + 1));
                }
            }
        }
        Tree { nodes }
    }
    /// best feasible score reachable from the root through infeasible nodes
    pub fn best(&self) -> Option<u32> {
        let mut best = None;
        let mut stack = vec![0usize];
        while let Some(i) = stack.pop() {
            match &self.nodes[i].1 {
                Kind::Feasible(s) => {
                    if best.map_or(true, |b| *s > b) {
                        best = Some(*s)
                    }
                }
                Kind::Infeasible(kids, _) => {
                    for k in kids {
                        stack.push(*k as usize)
                    }
                }
                _ => {}
            }
        }
        best
    }
    pub fn has_panic(&self) -> bool {
        self.nodes.iter().any(|(_, k)| matches!(k, Kind::Panic))
    }
}

/// random finite tree: branching <= 4, depth <= 5, score-0 leaves, ties, tight and slack bounds
/// wide trees: more than 100 subproblems pending at once (a root with many children, or a comb)
pub fn gen_wide_tree(r: &mut Rng) -> Tree {
    let mut nodes: Vec<(u32, Kind)> = vec![];
    if r.chance(1, 2) {
        // sometimes more children than a byte can count
        let n = if r.chance(1, 3) { 250 + r.usize(160) } else { 110 + r.usize(80) };
        let kids: Vec<u32> = (1..=n as u32).collect();
        let mut best = 0;
        let mut leaves = vec![];
        for _ in 0..n {
            let k = match r.below(5) { 0 => Kind::NoSol, 1 => Kind::Infeasible(vec![], r.below(50) as u32), _ => { let s = r.below(500) as u32; best = best.max(s); Kind::Feasible(s) } };
            leaves.push((1u32, k));
        }
        nodes.push((0, Kind::Infeasible(kids, best + r.below(3) as u32)));
        nodes.extend(leaves);
    } else {
        // comb: every level has an inner node and several leaves; inner nodes are pushed first
        let levels = 25 + r.usize(15);
        let mut specs: Vec<(u32, Vec<u32>, Vec<u32>)> = vec![]; // (depth, leaf scores, ..)
        let _ = &mut specs;
        nodes.push((0, Kind::NoSol));
        let mut cur = 0usize;
        let mut all_scores: Vec<u32> = vec![];
        for d in 0..levels {
            let nleaves = 3 + r.usize(3);
            let mut kids = vec![];
            let inner = nodes.len();
            nodes.push((d as u32 + 1, Kind::NoSol));
            kids.push(inner as u32);
            for _ in 0..nleaves {
                let s = r.below(1000) as u32;
                all_scores.push(s);
                nodes.push((d as u32 + 1, Kind::Feasible(s)));
                kids.push((nodes.len() - 1) as u32);
            }
            nodes[cur].1 = Kind::Infeasible(kids, 0);
            cur = inner;
        }
        nodes[cur].1 = Kind::Feasible(r.below(1000) as u32);
        // bounds: best feasible below + slack
        fn fix(nodes: &mut Vec<(u32, Kind)>, i: usize, r: &mut Rng) -> u32 {
            match nodes[i].1.clone() {
                Kind::Feasible(s) => s,
                Kind::Infeasible(kids, _) => {
                    let mut m = 0;
                    for k in kids.iter() { m = m.max(fix(nodes, *k as usize, r)); }
                    nodes[i].1 = Kind::Infeasible(kids, m + r.below(3) as u32);
                    m
                }
                _ => 0,
            }
        }
        fix(&mut nodes, 0, r);
    }
    Tree { nodes }
}

pub fn gen_tree(r: &mut Rng, max_nodes: usize, with_panic: bool) -> Tree {
    let mut nodes: Vec<(u32, Kind)> = vec![(0, Kind::NoSol)];
    let mut frontier = vec![0usize];
    let limit = 1 + r.usize(max_nodes);
    let low_scores = r.chance(1, 3);
    while let Some(i) = if r.chance(1, 2) { frontier.pop() } else if frontier.is_empty() { None } else { Some(frontier.remove(0)) } {
        let depth = nodes[i].0;
        let x = r.below(10);
        let kind = if nodes.len() < limit && depth < 5 && x < 6 {
            let k = 1 + r.usize(4);
            let mut kids = vec![];
            for _ in 0..k {
                nodes.push((depth + 1, Kind::NoSol));
                kids.push((nodes.len() - 1) as u32);
                frontier.push(nodes.len() - 1);
            }
            Kind::Infeasible(kids, 0)
        } else if nodes.len() < limit && depth < 5 && x == 6 {
            Kind::Infeasible(vec![], 0) // inner node without children
        } else if x < 9 {
            Kind::Feasible(if low_scores { r.below(3) as u32 } else { r.below(7) as u32 })
        } else {
            Kind::NoSol
        };
        nodes[i].1 = kind;
    }
    // the score of an inner node is the best feasible score below it plus an independent slack:
    // the tree is Bounded, but a child's (loose) score may exceed its parent's
    fn fix(nodes: &mut Vec<(u32, Kind)>, i: usize, r: &mut Rng) -> u32 {
        match nodes[i].1.clone() {
            Kind::Feasible(s) => s,
            Kind::Infeasible(kids, _) => {
                let mut m = 0;
                for k in kids.iter() {
                    m = m.max(fix(nodes, *k as usize, r));
                }
                let s = m + if r.chance(1, 2) { 0 } else { r.below(4) as u32 };
                nodes[i].1 = Kind::Infeasible(kids, s);
                m
            }
            _ => 0,
        }
    }
    fix(&mut nodes, 0, r);
    if with_panic {
        // a failing node at a random position — the root included (one time in six) —; inner nodes
        // lose their subtree
        let i = if nodes.len() == 1 || r.chance(1, 6) { 0 } else { 1 + r.usize(nodes.len() - 1) };
        nodes[i].1 = Kind::Panic;
        // sometimes two or three failing nodes (several workers may die)
        if nodes.len() > 3 && r.chance(1, 4) {
            for _ in 0..(1 + r.usize(2)) {
                let j = 1 + r.usize(nodes.len() - 1);
                nodes[j].1 = Kind::Panic;
            }
        }
    }
    Tree { nodes }
}

// ------------------------------------------------------------------------------------------------
// exhaustive small scope: EVERY instance of a bounded shape, by mixed-radix decoding of an index
// (no random choice at all). Courses: num_max in 0..=2, num_min in 0..=num_max, fixed or not;
// participants: every ordered choice list without repetition (penalty = position), instructing no
// course or one of them; rooms: none or one of a few short lists.

const SMALL_ROOMS: [&[usize]; 3] = [&[1], &[2, 1], &[2, 2]];

fn choice_lists(nc: usize) -> Vec<Vec<usize>> {
    // all ordered selections without repetition of 0..nc, of every length
    let mut out: Vec<Vec<usize>> = vec![vec![]];
    let mut frontier: Vec<Vec<usize>> = vec![vec![]];
    for _ in 0..nc {
        let mut next = vec![];
        for l in &frontier {
            for c in 0..nc {
                if !l.contains(&c) {
                    let mut l2 = l.clone();
                    l2.push(c);
                    next.push(l2);
                }
            }
        }
        out.extend(next.iter().cloned());
        frontier = next;
    }
    out
}

/// number of instances with `nc` courses and `np` participants in the small scope
pub fn small_scope_count(nc: usize, np: usize) -> u64 {
    let per_course = 12u64; // (min, max) in 6 ways, fixed in 2
    let per_part = (choice_lists(nc).len() * (nc + 1)) as u64;
    per_course.pow(nc as u32) * per_part.pow(np as u32) * (1 + SMALL_ROOMS.len() as u64)
}

/// the `idx`-th instance of the small scope; `None` when no participant has choices (outside the
/// quantifier of the properties)
pub fn small_scope_instance(nc: usize, np: usize, mut idx: u64) -> Option<Inst> {
    let lists = choice_lists(nc);
    let mut take = |radix: u64| -> u64 {
        let d = idx % radix;
        idx /= radix;
        d
    };
    let rooms_sel = take(1 + SMALL_ROOMS.len() as u64) as usize;
    let minmax: [(usize, usize); 6] = [(0, 0), (0, 1), (1, 1), (0, 2), (1, 2), (2, 2)];
    let mut courses: Vec<CourseDump> = (0..nc)
        .map(|i| {
            let (mn, mx) = minmax[take(6) as usize];
            let fixed = take(2) == 1;
            CourseDump {
                index: i,
                dbid: 100 + i,
                name: format!("c{}", i),
                num_max: mx,
                num_min: mn,
                instructors: vec![],
                room_factor: 1.0,
                room_offset: 0.0,
                fixed_course: fixed,
                hidden_participant_names: vec![],
            }
        })
        .collect();
    let mut parts = vec![];
    for i in 0..np {
        let l = &lists[take(lists.len() as u64) as usize];
        let instr = take(nc as u64 + 1) as usize;
        if instr > 0 {
            courses[instr - 1].instructors.push(i);
        }
        parts.push(ParticipantDump {
            index: i,
            dbid: 200 + i,
            name: format!("p{}", i),
            choices: l.iter().enumerate().map(|(pos, c)| (*c, pos as u32)).collect(),
        });
    }
    if parts.iter().all(|p| p.choices.is_empty()) {
        return None;
    }
    Some(Inst { courses, parts, rooms: if rooms_sel == 0 { None } else { Some(SMALL_ROOMS[rooms_sel - 1].to_vec()) } })
}

/// small scope for the matching routine: the `idx`-th n×n matrix with weights in 0..=2 and every
/// dummy-row / mandatory-column mask (no skipped rows or columns), by mixed-radix decoding
pub fn small_scope_matrix_count(n: usize) -> u64 {
    3u64.pow((n * n) as u32) * (1u64 << n) * (1u64 << n)
}

pub fn small_scope_matrix(n: usize, mut idx: u64) -> Matrix {
    let mut take = |radix: u64| -> u64 {
        let d = idx % radix;
        idx /= radix;
        d
    };
    let dm = take(1 << n);
    let mm = take(1 << n);
    let w: Vec<i32> = (0..n * n).map(|_| take(3) as i32).collect();
    Matrix {
        nx: n,
        ny: n,
        w,
        dummy: (0..n).map(|i| dm >> i & 1 == 1).collect(),
        mand: (0..n).map(|i| mm >> i & 1 == 1).collect(),
        skipx: vec![false; n],
        skipy: vec![false; n],
    }
}

/// Seven to nine courses that all take place with two or three people, rooms for all but one of them and a
/// last room that is too small for anybody's course: the room conflict sits at the LOWEST rank, with more
/// than `MAX_NTOK` larger courses above it — the whole candidate range of the room branching is in play
/// (a range that depended on anything but the node, e.g. on the worker count, would change the tree).
pub fn gen_wide_room_range(r: &mut Rng) -> Inst {
    let nc = 7 + r.usize(3);
    let courses: Vec<CourseDump> = (0..nc)
        .map(|i| CourseDump { index: i, dbid: 100 + i, name: format!("c{}", i), num_min: 1, num_max: 3, instructors: vec![],
            room_factor: 1.0, room_offset: 0.0, fixed_course: false, hidden_participant_names: vec![] })
        .collect();
    let mut parts: Vec<ParticipantDump> = vec![];
    for c in 0..nc {
        // the first two courses have fans with a cheap alternative, the others do not
        let want = 2 + r.usize(2);
        for _ in 0..want {
            let mut ch = vec![(c, 0u32)];
            let other = if c < 2 { (c + 1 + r.usize(nc - 1)) % nc } else { (c + 1) % nc };
            ch.push((other, if c < 2 { 1 } else { 3 + r.below(3) as u32 }));
            let i = parts.len();
            parts.push(ParticipantDump { index: i, dbid: 1000 + i, name: format!("p{}", i), choices: ch });
        }
    }
    let mut rooms = vec![3usize; nc - 1];
    rooms.push(1);
    Inst { courses, parts, rooms: Some(rooms) }
}

/// f32 dial for the ORDER OF ROUNDING in the effective course size: triples (factor, offset, people) for
/// which `ceil(offset + factor * people)` computed with two roundings (product, then sum — what the code
/// does) differs from the single rounding of a fused multiply-add. Course A is wanted by exactly that many
/// people; the first room has exactly the SMALLER of the two sizes, so the two computations disagree on
/// whether A fits.
pub fn fma_sensitive_triples() -> Vec<(f32, f32, usize, usize)> {
    let factors = [1.1f32, 1.2, 1.3, 0.7, 2.7, 3.3, 0.3, 0.6, 1.7, 2.3, 0.9];
    let offsets = [0.1f32, 0.4, 0.6, 0.7, 1.3, 0.3, 0.9, 2.1];
    let mut cands: Vec<(f32, f32, usize, usize)> = vec![];
    for f in factors.iter() {
        for o in offsets.iter() {
            for n in 2..24usize {
                let sep = (*o + *f * n as f32).ceil();
                let fused = f.mul_add(n as f32, *o).ceil();
                if sep != fused {
                    cands.push((*f, *o, n, sep.min(fused) as usize));
                }
            }
        }
    }
    cands
}

pub fn gen_f32_fma_sensitive(r: &mut Rng) -> Inst {
    let cands = fma_sensitive_triples();
    let (f, off, n, room) = cands[r.usize(cands.len())];
    let extra = r.usize(3);
    let np = n + extra;
    let courses = vec![
        CourseDump { index: 0, dbid: 100, name: "A".into(), num_min: if r.chance(1, 2) { n } else { n.saturating_sub(1) }, num_max: n, instructors: vec![],
            room_factor: f, room_offset: off, fixed_course: r.chance(1, 4), hidden_participant_names: vec![] },
        CourseDump { index: 1, dbid: 101, name: "B".into(), num_min: 0, num_max: np, instructors: vec![],
            room_factor: 1.0, room_offset: 0.0, fixed_course: false, hidden_participant_names: vec![] },
    ];
    let parts: Vec<ParticipantDump> = (0..np)
        .map(|i| ParticipantDump { index: i, dbid: 1000 + i, name: format!("p{}", i), choices: if i < n { vec![(0, 0), (1, 2)] } else { vec![(1, 0), (0, 1)] } })
        .collect();
    Inst { courses, parts, rooms: Some(vec![room, np + 3]) }
}

/// Room branching at its size limits: (a) 17–22 courses that ALL conflict with the rooms at once
/// (every course has three fans, every room two places): the candidate range reaches `MAX_N`, the
/// selection is "all of them" (n = k); (b) a wide selection: a few small, many middle and several large
/// courses over rooms of two sizes, so that `k0 ≥ MIN_K` with at least five larger courses above.
pub fn gen_room_branching_limits(r: &mut Rng) -> Inst {
    let all_conflict = r.chance(1, 2);
    let sizes: Vec<usize> = if all_conflict {
        vec![3; 17 + r.usize(6)]
    } else {
        let mut v = vec![1; 2 + r.usize(3)];
        v.extend(vec![3; 8 + r.usize(4)]);
        v.extend(vec![5; 6 + r.usize(4)]);
        v
    };
    let nc = sizes.len();
    let courses: Vec<CourseDump> = (0..nc)
        .map(|i| CourseDump { index: i, dbid: 100 + i, name: format!("c{}", i), num_min: if r.chance(1, 4) { 1 } else { 0 }, num_max: sizes[i] + 1, instructors: vec![],
            room_factor: 1.0, room_offset: 0.0, fixed_course: false, hidden_participant_names: vec![] })
        .collect();
    let mut parts: Vec<ParticipantDump> = vec![];
    for c in 0..nc {
        for _ in 0..sizes[c] {
            let i = parts.len();
            let other = (c + 1 + r.usize(nc - 1)) % nc;
            parts.push(ParticipantDump { index: i, dbid: 1000 + i, name: format!("p{}", i), choices: vec![(c, 0), (other, 1 + r.below(3) as u32)] });
        }
    }
    let rooms: Vec<usize> = if all_conflict {
        vec![2; nc]
    } else {
        let big = sizes.iter().filter(|s| **s >= 5).count();
        let mut v = vec![9; big];
        v.extend(vec![2; nc - big]);
        v
    };
    Inst { courses, parts, rooms: Some(rooms) }
}
