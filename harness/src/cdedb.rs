//! Runner for the CdE reader: documents and options come from the generator in bin/clistreams.py;
//! this side parses them with serde_json (as the real code does), calls the real `io::cdedb::read`
//! in-process and dumps its result; it also emits the document in the driver's tagged encoding.
use cdecao::verif;
use serde_json::{json, Value};
use std::io::{BufRead, Write};

pub fn tag(v: &Value) -> Value {
    match v {
        Value::Null => Value::Null,
        Value::Bool(b) => Value::Bool(*b),
        Value::String(s) => json!({ "s": s }),
        Value::Number(n) => {
            if let Some(u) = n.as_u64() {
                json!({ "u": u })
            } else if let Some(i) = n.as_i64() {
                json!({ "i": i })
            } else {
                json!({"f": n.as_f64().unwrap().to_bits()})
            }
        }
        Value::Array(a) => json!({"a": a.iter().map(tag).collect::<Vec<_>>()}),
        Value::Object(o) => json!({"o": o.iter().map(|(k, v)| json!([k, tag(v)])).collect::<Vec<_>>()}),
    }
}

/// f32 bit pattern with every NaN mapped to the canonical quiet NaN (the model's floats do not keep
/// the sign or payload of a NaN)
fn bits(f: f32) -> u32 {
    if f.is_nan() { 0x7fc0_0000 } else { f.to_bits() }
}

pub fn run(infile: &str, outfile: &str) {
    let inp = std::io::BufReader::new(std::fs::File::open(infile).unwrap());
    let mut out = std::io::BufWriter::new(std::fs::File::create(outfile).unwrap());
    for line in inp.lines() {
        let line = line.unwrap();
        let v: Value = serde_json::from_str(&line).unwrap();
        let doc_text = serde_json::to_string(&v["doc"]).unwrap();
        let o = &v["opts"];
        let res = crate::common::catch(|| {
            cdecao::io::cdedb::read(
                doc_text.as_bytes(),
                o["track"].as_u64(),
                o["ic"].as_bool().unwrap_or(false),
                o["ia"].as_bool().unwrap_or(false),
                o["rff"].as_str(),
                o["rof"].as_str(),
            )
        });
        let result = match res {
            Err(p) => json!({"panic": p}),
            Ok(Err(e)) => json!({ "err": e }),
            Ok(Ok((parts, courses, amb))) => {
                let a = amb.verif_dump();
                json!({"ok": {
                    "courses": courses.iter().map(|c| { let d = verif::dump_course(c);
                        json!([d.dbid, d.name, d.num_min, d.num_max, d.instructors, bits(d.room_factor), bits(d.room_offset), d.fixed_course, d.hidden_participant_names]) }).collect::<Vec<_>>(),
                    "parts": parts.iter().map(|p| { let d = verif::dump_participant(p);
                        json!([d.dbid, d.name, d.choices.iter().map(|(c, pen)| json!([c, pen])).collect::<Vec<_>>()]) }).collect::<Vec<_>>(),
                    "amb": [a.event_id, a.track_id, a.external.map(|(n, p)| json!([n, p])), a.track_name, a.ignored_inactive_courses, a.ignored_assigned_participants],
                },
                "index_ok": parts.iter().enumerate().all(|(i, p)| verif::dump_participant(p).index == i)
                    && courses.iter().enumerate().all(|(i, c)| verif::dump_course(c).index == i)})
            }
        };
        writeln!(out, "{}", json!({"tagged": tag(&v["doc"]), "result": result})).unwrap();
    }
}

/// Runner for the simple-format reader: the real `io::simple::read` on each document, its complete
/// result dumped (indices, names, sizes, instructor lists, float bit patterns, flags, hidden names,
/// choices), followed by what `io::check_data_consistency` says about it.
pub fn run_simple(infile: &str, outfile: &str) {
    let inp = std::io::BufReader::new(std::fs::File::open(infile).unwrap());
    let mut out = std::io::BufWriter::new(std::fs::File::create(outfile).unwrap());
    for line in inp.lines() {
        let line = line.unwrap();
        let v: Value = serde_json::from_str(&line).unwrap();
        let doc_text = serde_json::to_string(&v["doc"]).unwrap();
        let res = crate::common::catch(|| cdecao::io::simple::read(doc_text.as_bytes()));
        let result = match res {
            Err(p) => json!({"panic": p}),
            Ok(Err(e)) => json!({ "err": e }),
            Ok(Ok((parts, courses))) => {
                let consistent = crate::common::catch(|| cdecao::io::check_data_consistency(&parts, &courses).is_ok());
                json!({"ok": {
                    "courses": courses.iter().map(|c| { let d = verif::dump_course(c);
                        json!([d.index, d.name, d.num_min, d.num_max, d.instructors, bits(d.room_factor), bits(d.room_offset), d.fixed_course, d.hidden_participant_names]) }).collect::<Vec<_>>(),
                    "parts": parts.iter().map(|p| { let d = verif::dump_participant(p);
                        json!([d.index, d.name, d.choices.iter().map(|(c, pen)| json!([c, pen])).collect::<Vec<_>>()]) }).collect::<Vec<_>>(),
                    "consistent": consistent.unwrap_or(false)}})
            }
        };
        writeln!(out, "{}", json!({"tagged": tag(&v["doc"]), "result": result})).unwrap();
    }
}
