//! Schedulers for the shim and conversion of shim traces into the driver's trace format.
use crate::common::Rng;
use crate::gen::{Kind, Tree};
use cdecao::verif::sched::{self, Event, View};
use cdecao::verif::{bab_solve, NodeResult, Statistics};
use serde_json::{json, Value};
use std::sync::Arc;

#[derive(Clone, Debug)]
pub struct Sched {
    pub seed: u64,
    pub style: u8,    // 0 random, 1 round-robin-ish, 2 starve thread `victim`, 3 priorities (PCT-like)
    pub spurious: u8, // 0 never, 1 sometimes, 2 heavy
    pub victim: usize,
}

impl Sched {
    pub fn gen(r: &mut Rng) -> Sched {
        Sched { seed: r.next() | 1, style: r.below(4) as u8, spurious: r.below(3) as u8, victim: 1 + r.usize(4) }
    }
    pub fn to_json(&self) -> Value {
        json!({"seed": self.seed, "style": self.style, "spurious": self.spurious, "victim": self.victim})
    }
    pub fn from_json(v: &Value) -> Sched {
        Sched {
            seed: v["seed"].as_u64().unwrap(),
            style: v["style"].as_u64().unwrap() as u8,
            spurious: v["spurious"].as_u64().unwrap() as u8,
            victim: v["victim"].as_u64().unwrap() as usize,
        }
    }
    pub fn chooser(&self) -> Box<dyn FnMut(&View) -> (usize, Option<usize>) + Send> {
        let mut r = Rng::new(self.seed);
        let style = self.style;
        let spurious = self.spurious;
        let victim = self.victim;
        let mut rr = 0usize;
        // PCT-like: fixed random priorities, occasionally changed
        let mut prio: Vec<u64> = (0..64).map(|_| r.next()).collect();
        Box::new(move |v: &View| {
            let sp = if !v.waiting.is_empty()
                && ((spurious == 1 && r.chance(1, 6)) || (spurious == 2 && r.chance(1, 2)))
            {
                Some(v.waiting[r.usize(v.waiting.len())])
            } else {
                None
            };
            let k = match style {
                0 => r.usize(v.enabled.len().max(1)),
                1 => {
                    rr += 1;
                    rr
                }
                2 => {
                    // never pick the victim if somebody else can run
                    let others: Vec<usize> = (0..v.enabled.len()).filter(|i| v.enabled[*i] != victim).collect();
                    if others.is_empty() {
                        0
                    } else {
                        others[r.usize(others.len())]
                    }
                }
                _ => {
                    if r.chance(1, 20) {
                        let i = r.usize(prio.len());
                        prio[i] = r.next();
                    }
                    let mut best = 0;
                    for i in 0..v.enabled.len() {
                        if prio[v.enabled[i] % 64] > prio[v.enabled[best] % 64] {
                            best = i;
                        }
                    }
                    best
                }
            };
            (k, sp)
        })
    }
}

/// Systematic exploration: replays a prefix of scheduling decisions, then always takes the first
/// option, and logs (number of options, option taken) so that the caller can enumerate all
/// schedules depth-first (no spurious wake-ups; every dispatch and every `notify_one` choice).
pub fn exhaustive_chooser(
    prefix: Vec<usize>,
    log: std::sync::Arc<std::sync::Mutex<Vec<(usize, usize)>>>,
) -> Box<dyn FnMut(&View) -> (usize, Option<usize>) + Send> {
    let mut pos = 0usize;
    Box::new(move |v: &View| {
        let n = v.enabled.len().max(1);
        let c = if pos < prefix.len() { prefix[pos].min(n - 1) } else { 0 };
        pos += 1;
        log.lock().unwrap().push((n, c));
        (c, None)
    })
}

/// next prefix in depth-first order, or None when all schedules have been explored
pub fn next_prefix(log: &[(usize, usize)]) -> Option<Vec<usize>> {
    let mut l: Vec<(usize, usize)> = log.to_vec();
    while let Some((n, c)) = l.pop() {
        if c + 1 < n {
            let mut p: Vec<usize> = l.iter().map(|x| x.1).collect();
            p.push(c + 1);
            return Some(p);
        }
    }
    None
}

pub fn run_tree_with(tree: &Arc<Tree>, threads: u32, chooser: Box<dyn FnMut(&View) -> (usize, Option<usize>) + Send>, max_steps: usize) -> RunOut<u32> {
    let t2 = tree.clone();
    let out = sched::run(chooser, max_steps, move || {
        bab_solve(
            move |n: N| -> NodeResult<N, u32, u32> {
                match &t2.nodes[n.1 as usize].1 {
                    Kind::NoSol => NodeResult::NoSolution,
                    Kind::Feasible(s) => NodeResult::Feasible(n.1, *s),
                    Kind::Infeasible(kids, s) => NodeResult::Infeasible(kids.iter().map(|k| N(n.0 + 1, *k)).collect(), *s),
                    Kind::Panic => {
                        // a literal payload (&str) for even node ids, a formatted one (String) for odd ones
                        if n.1 % 2 == 0 {
                            panic!("node solver failed")
                        } else {
                            panic!("node solver failed at node {}", n.1)
                        }
                    }
                }
            },
            N(0, 0),
            threads,
        )
    });
    let budget = out.trace.iter().any(|e| matches!(e, Event::Budget));
    let deadlock = out.trace.iter().any(|e| matches!(e, Event::Deadlock));
    RunOut {
        result: out.result.map_err(|e| if let Some(s) = e.downcast_ref::<&str>() { s.to_string() } else if let Some(s) = e.downcast_ref::<String>() { s.clone() } else { "panic".to_string() }),
        trace: out.trace,
        deadlock,
        budget,
        steps: out.steps,
        leftover: out.leftover,
    }
}

pub struct RunOut<S> {
    pub result: Result<(Option<(S, u32)>, Statistics), String>,
    pub trace: Vec<Event>,
    pub deadlock: bool,
    pub budget: bool,
    pub steps: usize,
    pub leftover: usize,
}

/// run `f` (a call of `bab::solve` or `caobab::solve`) under the given schedule
pub fn run_sched<S>(s: &Sched, max_steps: usize, f: impl FnOnce() -> (Option<(S, u32)>, Statistics)) -> RunOut<S> {
    let out = sched::run(s.chooser(), max_steps, f);
    let budget = out.trace.iter().any(|e| matches!(e, Event::Budget));
    let deadlock = out.trace.iter().any(|e| matches!(e, Event::Deadlock));
    RunOut {
        result: out.result.map_err(|e| {
            if let Some(s) = e.downcast_ref::<String>() {
                s.clone()
            } else if let Some(s) = e.downcast_ref::<&str>() {
                s.to_string()
            } else if e.is::<sched::Abort>() {
                "aborted by scheduler".to_string()
            } else {
                "panic".to_string()
            }
        }),
        trace: out.trace,
        deadlock,
        budget,
        steps: out.steps,
        leftover: out.leftover,
    }
}

#[derive(Clone, Debug)]
pub struct N(pub u32, pub u32); // (depth, id)

// ordered AND compared by depth only, exactly like caobab's `BABNode` (whose `Ord`/`Eq` look at the
// number of constraints only): two different subproblems of the same depth are "equal" for the
// queue, so a queue that drops or merges equal elements loses subproblems
impl PartialEq for N {
    fn eq(&self, other: &Self) -> bool {
        self.0 == other.0
    }
}
impl Eq for N {}
impl PartialOrd for N {
    fn partial_cmp(&self, other: &Self) -> Option<std::cmp::Ordering> {
        Some(self.cmp(other))
    }
}
impl Ord for N {
    fn cmp(&self, other: &Self) -> std::cmp::Ordering {
        self.0.cmp(&other.0)
    }
}

pub fn run_tree(tree: &Arc<Tree>, threads: u32, s: &Sched, max_steps: usize) -> RunOut<u32> {
    let t2 = tree.clone();
    run_sched(s, max_steps, move || {
        bab_solve(
            move |n: N| -> NodeResult<N, u32, u32> {
                match &t2.nodes[n.1 as usize].1 {
                    Kind::NoSol => NodeResult::NoSolution,
                    Kind::Feasible(s) => NodeResult::Feasible(n.1, *s),
                    Kind::Infeasible(kids, s) => {
                        NodeResult::Infeasible(kids.iter().map(|k| N(n.0 + 1, *k)).collect(), *s)
                    }
                    Kind::Panic => {
                        // a literal payload (&str) for even node ids, a formatted one (String) for odd ones
                        if n.1 % 2 == 0 {
                            panic!("node solver failed")
                        } else {
                            panic!("node solver failed at node {}", n.1)
                        }
                    }
                }
            },
            N(0, 0),
            threads,
        )
    })
}

/// trace as JSON for the driver; `node_id` maps the text of a pop note to a tree node id
pub fn trace_json(trace: &[Event], node_id: &dyn Fn(&str) -> Option<usize>) -> Result<Vec<Value>, String> {
    let mut out = vec![];
    for e in trace {
        out.push(match e {
            Event::Run(t) => json!(["run", t]),
            Event::Wake(t) => json!(["wake", t]),
            Event::Note(t, s) if s.starts_with("state ") => {
                // "state <pending> <busy> <best score | -> <executed> <bound> <no-solution> <infeasible> <feasible> <new-best>"
                let f: Vec<&str> = s.split(' ').collect();
                let n = |i: usize| f.get(i).and_then(|x| x.parse::<u64>().ok());
                json!(["state", t, [n(1), n(2), n(4), n(5), n(6), n(7), n(8), n(9)], f.get(3).and_then(|x| x.parse::<u64>().ok())])
            }
            Event::Note(t, s) => {
                // "pop <node debug> solve|bound"
                let what = if s.ends_with(" solve") { "solve" } else { "bound" };
                let body = &s[4..s.len() - what.len() - 1];
                match node_id(body) {
                    Some(id) => json!(["pop", t, id, what]),
                    None => return Err(format!("popped node not in the tree: {}", body)),
                }
            }
            Event::Block(t, st) => json!(["block", t, st.split('(').next().unwrap()]),
            Event::Exit(t, p) => json!(["exit", t, p]),
            Event::Deadlock => json!(["deadlock"]),
            Event::Budget => json!(["budget"]),
        });
    }
    Ok(out)
}

pub fn stats_json(found: Option<(u64, u32)>, st: &Statistics) -> Value {
    match found {
        Some((sol, sc)) => json!({"found": true, "sol": sol, "score": sc, "exec": st.num_executed_subproblems,
            "bound": st.num_bound_subproblems, "nosol": st.num_no_solution, "inf": st.num_infeasible,
            "feas": st.num_feasible, "newbest": st.num_new_best}),
        None => json!({"found": false, "exec": st.num_executed_subproblems,
            "bound": st.num_bound_subproblems, "nosol": st.num_no_solution, "inf": st.num_infeasible,
            "feas": st.num_feasible, "newbest": st.num_new_best}),
    }
}

/// the equations of C04 on the returned statistics; `generated` = 1 + pushed children of executed nodes
pub fn stats_ok(st: &Statistics) -> bool {
    st.num_executed_subproblems == st.num_no_solution + st.num_infeasible + st.num_feasible
}
