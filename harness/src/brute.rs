//! Exact brute-force oracles (small sizes only).
use crate::common::{eff_size, Inst};
use crate::gen::Matrix;

/// Maximum score over all assignments satisfying the hard constraints (C02's specification):
/// any subset of the non-fixed courses may be cancelled. With `rooms`, additionally the rank-wise
/// room condition of C06. Returns None if no feasible assignment exists.
pub fn brute_opt(inst: &Inst, rooms: Option<&Vec<usize>>) -> Option<u64> {
    let nc = inst.courses.len();
    let np = inst.parts.len();
    let mut best: Option<u64> = None;
    for kmask in 0u32..(1 << nc) {
        // kmask bit c = course c is cancelled
        if (0..nc).any(|c| kmask >> c & 1 == 1 && inst.courses[c].fixed_course) {
            continue;
        }
        let live = |c: usize| kmask >> c & 1 == 0;
        // instructors of live courses are bound; a participant may instruct at most one course
        let mut fixed_to: Vec<Option<usize>> = vec![None; np];
        let mut base: u64 = 0;
        for c in 0..nc {
            if live(c) {
                for i in inst.courses[c].instructors.iter() {
                    fixed_to[*i] = Some(c);
                }
            }
        }
        for p in 0..np {
            if fixed_to[p].is_some() && !inst.parts[p].choices.is_empty() {
                base += 50000;
            }
        }
        let free: Vec<usize> = (0..np).filter(|p| fixed_to[*p].is_none() && !inst.parts[*p].choices.is_empty()).collect();
        let mut cnt = vec![0usize; nc];
        let mut asg: Vec<Option<usize>> = fixed_to.clone();
        fn rec(
            inst: &Inst,
            free: &[usize],
            i: usize,
            cnt: &mut Vec<usize>,
            asg: &mut Vec<Option<usize>>,
            score: u64,
            kmask: u32,
            rooms: Option<&Vec<usize>>,
            best: &mut Option<u64>,
        ) {
            let nc = inst.courses.len();
            if i == free.len() {
                for c in 0..nc {
                    if kmask >> c & 1 == 0 && cnt[c] < inst.courses[c].num_min {
                        return;
                    }
                }
                if let Some(r) = rooms {
                    if !room_ok(inst, asg, r) {
                        return;
                    }
                }
                if best.map_or(true, |b| score > b) {
                    *best = Some(score);
                }
                return;
            }
            let p = free[i];
            for (c, pen) in inst.parts[p].choices.iter() {
                if kmask >> *c & 1 == 0 && cnt[*c] < inst.courses[*c].num_max {
                    cnt[*c] += 1;
                    asg[p] = Some(*c);
                    rec(inst, free, i + 1, cnt, asg, score + 50000 - *pen as u64, kmask, rooms, best);
                    asg[p] = None;
                    cnt[*c] -= 1;
                }
            }
        }
        // a cancelled course must be empty: free participants only go to live courses (above);
        // live courses with min 0 and nobody in them are fine.
        rec(inst, &free, 0, &mut cnt, &mut asg, base, kmask, rooms, &mut best);
    }
    best
}

/// rank-wise room condition for a complete assignment (C06's specification, f32 as in the code)
pub fn room_ok(inst: &Inst, asg: &[Option<usize>], rooms: &[usize]) -> bool {
    let nc = inst.courses.len();
    let mut cnt = vec![0usize; nc];
    for a in asg.iter().flatten() {
        cnt[*a] += 1;
    }
    let mut sizes: Vec<usize> = (0..nc)
        .map(|c| if cnt[c] == 0 && !inst.courses[c].fixed_course { 0 } else { eff_size(&inst.courses[c], cnt[c]) })
        .collect();
    sizes.sort_unstable_by(|a, b| b.cmp(a));
    let mut r: Vec<usize> = rooms.to_vec();
    r.sort_unstable_by(|a, b| b.cmp(a));
    for (i, s) in sizes.iter().enumerate() {
        let room = if i < r.len() { r[i] } else { 0 };
        if *s > room {
            return false;
        }
    }
    true
}

/// maximum weight of a constrained perfect matching (None if none exists); rows <= 9
pub fn brute_matching(m: &Matrix) -> Option<i64> {
    let xs: Vec<usize> = (0..m.nx).filter(|x| !m.skipx[*x]).collect();
    let ys: Vec<usize> = (0..m.ny).filter(|y| !m.skipy[*y]).collect();
    if xs.len() != ys.len() {
        return None;
    }
    let n = xs.len();
    // dp over subsets of rows: columns assigned in order
    let full = 1usize << n;
    let mut dp: Vec<Option<i64>> = vec![None; full];
    dp[0] = Some(0);
    for mask in 0..full {
        let cur = match dp[mask] {
            Some(v) => v,
            None => continue,
        };
        let j = (mask as u32).count_ones() as usize;
        if j == n {
            continue;
        }
        let y = ys[j];
        for i in 0..n {
            if mask >> i & 1 == 0 {
                let x = xs[i];
                if m.dummy[x] && m.mand[y] {
                    continue;
                }
                let v = cur + m.w[x * m.ny + y] as i64;
                let nm = mask | (1 << i);
                if dp[nm].map_or(true, |o| v > o) {
                    dp[nm] = Some(v);
                }
            }
        }
    }
    dp[full - 1]
}
