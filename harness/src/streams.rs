//! Correspondence streams: each case is run on the real code; the lines it produces are checked
//! against the Lean driver by `bin/check`.
use crate::brute;
use crate::common::*;
use crate::gen::{self, InstParams, Kind, Matrix, Tree};
use crate::sched::{self, Sched};
use cdecao::verif::{self, caobab_api};
use serde_json::{json, Value};
use std::collections::HashMap;
use std::sync::Arc;

pub struct Case {
    pub stream: &'static str,
    pub data: Value,
}

pub fn scale(tier: &str, quick: usize, thorough: usize) -> usize {
    if tier == "thorough" {
        thorough
    } else {
        quick
    }
}

// ---------------------------------------------------------------------------------------------
// hungarian (C07)

pub fn gen_hungarian(r: &mut Rng, tier: &str) -> Vec<Case> {
    let n = scale(tier, 1200, 120000);
    let maxn = scale(tier, 9, 24);
    (0..n)
        .map(|i| {
            if i % 400 == 131 {
                // more than 2048 rows with weights just below 2^20: the optimum (the diagonal, by
                // construction) is 2^31 or more; built from the seed, checked by a direct oracle only
                return Case { stream: "hungarian", data: json!({"diag": 2049 + r.usize(60), "seed": r.next()}) };
            }
            if i % 400 == 231 {
                // more than 65536 rows, three of them selected (at least one with an index above 65535)
                let nx = 65537 + r.usize(20);
                let ny = 3;
                let mut skipx = vec![true; nx];
                let mut live = vec![nx - 1 - r.usize(nx - 65536), r.usize(65536), r.usize(nx)];
                live.sort();
                live.dedup();
                while live.len() < 3 {
                    let x = r.usize(nx);
                    if !live.contains(&x) {
                        live.push(x);
                    }
                }
                for x in live.iter() {
                    skipx[*x] = false;
                }
                let w: Vec<i32> = (0..nx * ny).map(|_| r.below(50) as i32).collect();
                let m = gen::Matrix { nx, ny, w, dummy: vec![false; nx], mand: vec![false; ny], skipx, skipy: vec![false; ny] };
                return Case { stream: "hungarian", data: json!({"m": m.to_json(), "layout": "c", "huge": false}) };
            }
            if i % 60 == 17 {
                // degenerate shapes: no rows, no columns, or everything skipped (an empty matching, score 0)
                let (nx, ny) = [(0usize, 0usize), (0, 2), (2, 0), (2, 2), (3, 1)][r.usize(5)];
                let m = gen::Matrix { nx, ny, w: (0..nx * ny).map(|_| r.below(9) as i32).collect(), dummy: vec![false; nx], mand: vec![false; ny],
                    skipx: vec![true; nx], skipy: vec![true; ny] };
                return Case { stream: "hungarian", data: json!({"m": m.to_json(), "layout": if i % 120 == 17 { "f" } else { "c" }, "huge": false}) };
            }
            let adm = i % 8 != 7;
            let size = if i % 5 == 0 { maxn } else { 6 };
            // long rows (64 or more columns: vectorised paths, chunking), generic and caobab-shaped
            let huge = i % 40 == 27;
            let m = if huge {
                // weights up to 2^27 with up to 9 rows: labels and deltas come close to (and may leave)
                // the i32 range; only the range-checked model `HB` is compared on these
                // (with 3 rows the weights go up to 2^29: the score still fits in 31 bits, sums of labels need not)
                let tiny = i % 80 == 27;
                let mut m = gen::gen_matrix(r, if tiny { 3 } else { 9 }, true);
                let sh = if tiny { 28 } else { 22 + r.below(6) as u32 };
                for w in m.w.iter_mut() {
                    *w = ((r.next() >> 8) % (1u64 << sh)) as i32 + if r.chance(1, 3) { (1i32 << sh) - 3 } else { 0 };
                }
                m
            } else if i % 20 == 3 {
                gen::gen_matrix_sized(r, 64, 72, true)
            } else if i % 20 == 13 {
                let places = 64 + r.usize(30);
                gen::gen_matrix_caobab(r, places)
            } else {
                gen::gen_matrix(r, size, adm)
            };
            // the memory layout is not part of the matrix: every fourth case is handed over column-major
            // every seventh case: the routine has been called before on the same buffer with other contents
            Case { stream: "hungarian", data: json!({"m": m.to_json(), "layout": if i % 4 == 1 { "f" } else { "c" }, "huge": huge, "warm": i % 7 == 3}) }
        })
        .collect()
}

/// small-scope exhaustive stream of the matching routine: every n×n matrix (n = 1..3) with weights in
/// 0..=2 and every dummy / mandatory mask; n = 4 with weights in 0..=2 sampled evenly
pub fn gen_hungarian_exhaustive(r: &mut Rng, tier: &str) -> Vec<Case> {
    let mut cases = vec![];
    for (n, bq, bt) in [(1usize, 100u64, 1u64 << 40), (2, 600, 1 << 40), (3, 2500, 160000), (4, 800, 40000)] {
        let budget = if tier == "thorough" { bt } else { bq };
        let count = gen::small_scope_matrix_count(n);
        let stride = std::cmp::max(1, count / budget);
        let mut idx = r.below(stride);
        while idx < count {
            let m = gen::small_scope_matrix(n, idx);
            cases.push(Case { stream: "hungarian-exhaustive", data: json!({"m": m.to_json(), "layout": if idx % 4 == 1 { "f" } else { "c" }, "huge": false}) });
            idx += stride;
        }
    }
    cases
}

pub fn run_hungarian(data: &Value) -> Vec<Line> {
    if let Some(n) = data["diag"].as_u64() {
        let n = n as usize;
        let mut r = Rng::new(data["seed"].as_u64().unwrap_or(1) | 1);
        let big = (1i32 << 20) - 1;
        let mut w = ndarray::Array2::<i32>::zeros([n, n]);
        for x in 0..n {
            for y in 0..n {
                w[[x, y]] = if x == y { big } else { r.below(1000) as i32 };
            }
        }
        let f = ndarray::Array1::from_vec(vec![false; n]);
        let res = catch(|| verif::hungarian_algorithm(&w, &f, &f, &f, &f));
        let expect = n as u64 * big as u64;
        return vec![match res {
            Ok((mm, sc)) => Line::direct(&["C07"], sc as u64 == expect && mm.iter().enumerate().all(|(y, x)| *x == y),
                format!("{} x {} matrix with 2^20-1 on the diagonal and weights < 1000 elsewhere: score {} (optimum {}), diagonal matching: {}", n, n, sc, expect, mm.iter().enumerate().all(|(y, x)| *x == y))),
            Err(e) => Line::direct(&["C07"], false, format!("{} x {} diagonal matrix: panicked: {}", n, n, e)),
        }];
    }
    let m = Matrix::from_json(&data["m"]);
    let w = if data["layout"].as_str() == Some("f") {
        use ndarray::ShapeBuilder;
        let mut col = vec![0i32; m.nx * m.ny];
        for x in 0..m.nx {
            for y in 0..m.ny {
                col[y * m.nx + x] = m.w[x * m.ny + y];
            }
        }
        ndarray::Array2::from_shape_vec((m.nx, m.ny).f(), col).unwrap()
    } else {
        ndarray::Array2::from_shape_vec([m.nx, m.ny], m.w.clone()).unwrap()
    };
    let (d, ma, sx, sy) = (
        ndarray::Array1::from_vec(m.dummy.clone()),
        ndarray::Array1::from_vec(m.mand.clone()),
        ndarray::Array1::from_vec(m.skipx.clone()),
        ndarray::Array1::from_vec(m.skipy.clone()),
    );
    let mut w = w;
    if data["warm"].as_bool().unwrap_or(false) {
        // the result of a call depends on its arguments only: an earlier call on the same thread and the SAME
        // buffer (same address, same shape) with smaller weights must leave no trace
        let real = w.clone();
        w.mapv_inplace(|v| v / 3);
        let _ = catch(|| verif::hungarian_algorithm(&w, &d, &ma, &sx, &sy));
        w.assign(&real);
    }
    let res = catch(|| verif::hungarian_algorithm(&w, &d, &ma, &sx, &sy));
    let huge = data["huge"].as_bool().unwrap_or(false);
    let text = m.to_text();
    let live_rows = m.skipx.iter().filter(|x| !**x).count();
    let opt = if m.nx <= 9 || live_rows <= 6 { Some(brute::brute_matching(&m)) } else { None };
    let mut lines = vec![];
    let live = m.skipx.iter().filter(|x| !**x).count();
    let feat = vec![format!("live={}", live.min(12)), format!("mand={}", m.mand.iter().zip(m.skipy.iter()).filter(|(a, b)| **a && !**b).count().min(6))];
    match res {
        Ok((mm, sc)) => {
            let ms = mm.iter().map(|x| x.to_string()).collect::<Vec<_>>().join(",");
            if !huge {
                lines.push(Line::corr(&["C07", "C02"], "H", text.clone(), format!("M {} {}", ms, sc)).feat(&feat).trivial(live <= 1));
            }
            // the range-checked model (every intermediate value within i32) gives the same answer
            lines.push(Line::corr(&["C07"], "HB", text.clone(), format!("M {} {}", ms, sc)).feat(&[if huge { "huge-weights:ok".to_string() } else { "i32".to_string() }]).trivial(live <= 1));
            lines.push(Line::spec(
                &["C07"],
                "HS",
                format!("{}|{}|{}", text, ms, sc),
                match opt {
                    Some(None) => "inadmissible".to_string(), // the real code returned on an inadmissible input
                    _ => format!("perfect=true weight={} scoreok=true", sc),
                },
            ).trivial(live <= 1));
            if let Some(Some(o)) = opt {
                lines.push(Line::direct(&["C07"], o == sc as i64, format!("brute-force optimum {} vs returned score {}", o, sc)).trivial(live <= 1));
            }
            if opt.is_none() && !huge {
                // beyond the brute-force range the reference optimum is the score of the Lean model of
                // the unchanged routine, which is proved optimal (Props.C07_partial)
                let mut l = Line::spec(&["C07"], "HO", text.clone(), format!("opt={}", sc));
                l.what = format!("returned score {} must equal the optimum (score of the proved-optimal model)", sc);
                lines.push(l);
            }
        }
        Err(_) if huge => {
            // beyond the property's weight bound an i32 overflow (a panic in this build) is legitimate;
            // the range-checked model must fail on exactly the same inputs
            lines.push(Line::corr(&["C07"], "HB", text, "P".to_string()).feat(&["huge-weights:overflow".to_string()]));
        }
        Err(_) => {
            lines.push(Line::corr(&["C07"], "H", text.clone(), "P".to_string()).feat(&["panic".to_string()]));
            lines.push(Line::corr(&["C07"], "HB", text, "P".to_string()));
            if let Some(Some(o)) = opt {
                lines.push(Line::direct(&["C07"], false, format!("routine panicked although a constrained perfect matching of weight {} exists", o)));
            }
        }
    }
    lines
}

// ---------------------------------------------------------------------------------------------
// node (C01, C02, C06, C08, C10): every node of the real search tree

pub fn gen_node(r: &mut Rng, tier: &str, rooms: u8, nondyadic: bool, name: &'static str) -> Vec<Case> {
    let n = scale(tier, 260, 12000);
    (0..n)
        .map(|i| {
            let big = (tier == "thorough" && i % 4 == 0) || i % 10 == 9;
            let p = InstParams {
                max_courses: if big { 10 } else { 6 },
                max_parts: if big { 28 } else { 10 },
                rooms,
                nondyadic,
                allow_freeable: i % 3 != 0,
            };
            let mut inst = if nondyadic && i % 6 == 5 {
                if i % 12 == 5 { gen::gen_f32_corner(r) } else { gen::gen_f32_shrink_does_not_fit(r) }
            } else if rooms >= 1 && i % 20 == 17 {
                gen::gen_f32_tiny_fraction(r)
            } else if rooms >= 1 && i % 20 == 11 {
                gen::gen_f32_fma_sensitive(r)
            } else if rooms == 2 && i % 20 == 7 {
                gen::gen_many_courses_rooms(r)
            } else if rooms == 2 && i % 20 == 13 {
                gen::gen_fixed_room_squeeze(r)
            } else if rooms == 2 && i % 20 == 3 {
                gen::gen_fixed_empty_fractional_offset(r)
            } else {
                gen::gen_instance(r, &p)
            };
            if rooms == 2 && i % 6 == 2 {
                gen::make_fixed_unpopular(r, &mut inst);
            }
            if rooms == 2 && i % 20 == 9 {
                inst = gen::gen_room_cancel_twice(r);
            }
            if rooms == 2 && i % 20 == 19 {
                inst = gen::gen_freed_instructor_room_bound(r);
            }
            if i % 130 == 77 {
                inst = gen::gen_big_min_course(r);
            }
            let mut max_nodes = if big { 120 } else { 60 };
            if rooms == 2 && i % 65 == 33 {
                // the size limits of the room branching (few nodes: each has hundreds of children)
                inst = gen::gen_room_branching_limits(r);
                max_nodes = 4;
            }
            Case { stream: name, data: json!({"inst": inst.to_json(), "max_nodes": max_nodes}) }
        })
        .collect()
}

/// small-scope exhaustive node stream: the instances of `gen::small_scope_instance` for 1–2 courses
/// and 1–3 participants, every `stride`-th index of each shape starting at a seed-dependent offset
/// (stride 1 = the whole shape); each instance's search tree is explored node by node as in `node`
pub fn gen_node_exhaustive(r: &mut Rng, tier: &str) -> Vec<Case> {
    let mut cases = vec![];
    // (courses, participants, budget quick, budget thorough): the thorough tier covers every shape up to
    // two courses and two participants COMPLETELY (stride 1) and samples the larger ones evenly
    for (nc, np, bq, bt) in [(1usize, 1usize, 400u64, 1u64 << 40), (1, 2, 600, 1 << 40), (1, 3, 800, 1 << 40), (2, 1, 800, 1 << 40),
                             (2, 2, 1500, 1 << 40), (2, 3, 1500, 60000), (3, 2, 1000, 30000), (3, 3, 600, 20000)] {
        let budget = if tier == "thorough" { bt } else { bq };
        let count = gen::small_scope_count(nc, np);
        let stride = std::cmp::max(1, count / budget);
        let mut idx = r.below(stride);
        while idx < count {
            if let Some(inst) = gen::small_scope_instance(nc, np, idx) {
                cases.push(Case { stream: "node-exhaustive",
                                  data: json!({"inst": inst.to_json(), "max_nodes": 40, "scope": [nc, np, idx, stride, count]}) });
            }
            idx += stride;
        }
    }
    cases
}

pub fn dump_to_text(d: &caobab_api::NodeDump) -> String {
    match d {
        caobab_api::NodeDump::NoSolution => "N".to_string(),
        caobab_api::NodeDump::Feasible(a, s) => format!("F {} {}", s, fmt_assign(a)),
        caobab_api::NodeDump::Infeasible(kids, s) => {
            format!("I {} {}", s, kids.iter().map(fmt_node).collect::<Vec<_>>().join(";"))
        }
    }
}

pub fn run_node(data: &Value) -> Vec<Line> {
    let inst = Inst::from_json(&data["inst"]);
    let max_nodes = data["max_nodes"].as_u64().unwrap_or(60) as usize;
    let (courses, parts) = inst.build();
    let it = inst.to_text();
    let mut lines = vec![];
    let pre = match catch(|| caobab_api::precompute(&courses, &parts, inst.rooms.as_ref())) {
        Ok(p) => p,
        Err(e) => {
            lines.push(Line::direct(&["C10"], false, format!("precompute_problem panicked on a valid instance: {}", e)));
            return lines;
        }
    };
    // the precomputed problem itself, member by member, against the model's `precompute` definitions
    // (matrix size and weights, column → course map, first columns, dummy / always-skipped rows, padded rooms)
    {
        let (w, dummy, skip, cmap, inv, rooms) = caobab_api::pre_dump(&pre);
        let b = |v: &Vec<bool>| v.iter().map(|x| if *x { '1' } else { '0' }).collect::<String>();
        let us = |v: &Vec<usize>| v.iter().map(|x| x.to_string()).collect::<Vec<_>>().join(",");
        let expect = format!("n={} m={} col={} inv={} dummy={} skip={} rooms={} w={}", dummy.len(), cmap.len(), us(&cmap), us(&inv), b(&dummy), b(&skip),
            rooms.as_ref().map(|r| us(r)).unwrap_or("-".to_string()),
            w.iter().map(|r| r.iter().map(|x| x.to_string()).collect::<Vec<_>>().join(",")).collect::<Vec<_>>().join(";"));
        lines.push(Line::corr(&["C01", "C02", "C06", "C10"], "PC", it.clone(), expect).trivial(cmap.is_empty()));
    }
    let mut queue: Vec<NodeData> = vec![(vec![], vec![], vec![])];
    let mut visited = 0;
    while !queue.is_empty() && visited < max_nodes {
        let node = queue.remove(0);
        visited += 1;
        // every other instance runs with the `--report-no-solution` flag: it only adds log lines and
        // must not change a node's result (nor add a way to panic)
        let report = (inst.courses.len() + inst.parts.len()) % 2 == 1;
        let res = catch(|| caobab_api::run_node_report(&courses, &parts, &pre, &node, report));
        let payload = format!("{}#{}", it, fmt_node(&node));
        match res {
            Err(e) => {
                lines.push(Line::corr(&["C01", "C02", "C04", "C06", "C08", "C10"], "N", payload, "P".to_string()));
                lines.push(Line::direct(&["C10"], false, format!("run_bab_node panicked on node {} of a valid instance: {}", fmt_node(&node), e)));
            }
            Ok(d) => {
                let mut feat = vec![];
                match &d {
                    caobab_api::NodeDump::NoSolution => feat.push("nosol".to_string()),
                    caobab_api::NodeDump::Feasible(..) => feat.push("feasible".to_string()),
                    caobab_api::NodeDump::Infeasible(kids, _) => {
                        feat.push(format!("infeasible/kids={}", kids.len().min(4)));
                        if kids.iter().any(|k| k.2.len() > node.2.len()) {
                            feat.push("room-shrink".to_string());
                        }
                        if kids.len() > 2 || kids.iter().any(|k| k.0.len() > node.0.len() + 1) {
                            feat.push("room-branch".to_string());
                        }
                    }
                }
                lines.push(Line::corr(&["C01", "C02", "C04", "C05", "C06", "C08", "C10", "C11", "C17"], "N", payload, dump_to_text(&d)).feat(&feat).trivial(visited == 1 && !matches!(d, caobab_api::NodeDump::Infeasible(..))));
                match d {
                    caobab_api::NodeDump::Feasible(a, s) => {
                        // the specification predicates, evaluated in Lean on the real code's answer
                        lines.push(Line::spec(
                            &["C01", "C05", "C06", "C08", "C11"],
                            "A",
                            format!("{}#{}", it, fmt_assign(&a)),
                            format!("valid=true hard=true score={} room=true", s),
                        ));
                    }
                    caobab_api::NodeDump::Infeasible(kids, _) => {
                        for k in kids {
                            queue.push(k);
                        }
                    }
                    _ => {}
                }
            }
        }
    }
    lines
}

// ---------------------------------------------------------------------------------------------
// the full (unpruned) tree of an instance, for trace replay and the bound check

pub struct FullTree {
    pub nodes: Vec<(NodeData, Kind)>,
    /// for feasible nodes: the reported assignment
    pub assign: Vec<Option<Vec<Option<usize>>>>,
    pub index: HashMap<String, usize>,
    pub complete: bool,
}

pub fn full_tree(inst: &Inst, limit: usize) -> Result<FullTree, String> {
    let (courses, parts) = inst.build();
    let pre = catch(|| caobab_api::precompute(&courses, &parts, inst.rooms.as_ref()))?;
    let mut nodes: Vec<(NodeData, Kind)> = vec![((vec![], vec![], vec![]), Kind::NoSol)];
    let mut assign: Vec<Option<Vec<Option<usize>>>> = vec![];
    let mut i = 0;
    let mut complete = true;
    while i < nodes.len() {
        if nodes.len() > limit {
            complete = false;
            break;
        }
        let nd = nodes[i].0.clone();
        let kind = match catch(|| caobab_api::run_node(&courses, &parts, &pre, &nd)) {
            Err(_) => Kind::Panic,
            Ok(caobab_api::NodeDump::NoSolution) => Kind::NoSol,
            Ok(caobab_api::NodeDump::Feasible(a, s)) => {
                while assign.len() <= i {
                    assign.push(None);
                }
                assign[i] = Some(a);
                Kind::Feasible(s)
            }
            Ok(caobab_api::NodeDump::Infeasible(kids, s)) => {
                let mut ids = vec![];
                for k in kids {
                    nodes.push((k, Kind::NoSol));
                    ids.push((nodes.len() - 1) as u32);
                }
                Kind::Infeasible(ids, s)
            }
        };
        nodes[i].1 = kind;
        i += 1;
    }
    let mut index = HashMap::new();
    for (i, (nd, _)) in nodes.iter().enumerate() {
        index.entry(fmt_node(nd)).or_insert(i);
    }
    while assign.len() < nodes.len() {
        assign.push(None);
    }
    Ok(FullTree { nodes, assign, index, complete })
}

/// parse `BABNode { cancelled_courses: [0], enforced_courses: [], shrinked_courses: [(1, 3)] }`
pub fn parse_babnode_debug(s: &str) -> Option<NodeData> {
    fn list(s: &str, key: &str) -> Option<String> {
        let i = s.find(key)? + key.len();
        let rest = &s[i..];
        let a = rest.find('[')?;
        let b = rest.find(']')?;
        Some(rest[a + 1..b].to_string())
    }
    let nums = |t: &str| -> Vec<usize> {
        t.split(|c: char| !c.is_ascii_digit()).filter(|x| !x.is_empty()).map(|x| x.parse().unwrap()).collect()
    };
    let c = nums(&list(s, "cancelled_courses:")?);
    let e = nums(&list(s, "enforced_courses:")?);
    let sh = nums(&list(s, "shrinked_courses:")?);
    Some((c, e, sh.chunks(2).map(|p| (p[0], p[1])).collect()))
}

// ---------------------------------------------------------------------------------------------
// solve: whole runs of caobab::solve under the scheduler shim

pub fn gen_solve(r: &mut Rng, tier: &str, rooms: u8, name: &'static str) -> Vec<Case> {
    let n = scale(tier, if rooms == 0 { 600 } else { 160 }, 6000);
    (0..n)
        .map(|i| {
            let small = i % 2 == 0; // brute-force sized
            let large = i % 10 == 9;
            let p = InstParams {
                max_courses: if small { 4 } else if large { 10 } else { 6 },
                max_parts: if small { 7 } else if large { 24 } else { 10 },
                rooms,
                nondyadic: i % 5 == 0,
                allow_freeable: i % 3 == 1,
            };
            let mut inst = gen::gen_instance(r, &p);
            if rooms == 2 && i % 4 == 2 {
                gen::make_fixed_unpopular(r, &mut inst);
            }
            if rooms == 2 && i % 10 == 7 {
                inst = gen::gen_fixed_room_squeeze(r);
            }
            if rooms >= 1 && i % 10 == 3 {
                // the f32 corners of the room stage, as whole runs
                inst = if i % 20 == 3 { gen::gen_f32_shrink_does_not_fit(r) } else { gen::gen_f32_corner(r) };
            }
            if rooms >= 1 && i % 20 == 15 {
                inst = gen::gen_f32_tiny_fraction(r);
            }
            if rooms >= 1 && i % 20 == 11 {
                inst = gen::gen_f32_fma_sensitive(r);
            }
            if rooms == 2 && i % 20 == 5 {
                inst = gen::gen_room_cancel_twice(r);
            }
            if rooms == 2 && i % 20 == 9 {
                inst = gen::gen_freed_instructor_room_bound(r);
            }
            if rooms == 2 && i % 20 == 19 {
                inst = gen::gen_wide_room_range(r);
            }
            if i % 150 == 77 {
                inst = gen::gen_big_min_course(r);
            }
            let mut small = small && inst.parts.len() <= 7 && inst.courses.len() <= 4;
            if rooms == 2 && i % 10 == 1 {
                if i % 20 == 1 {
                    inst = gen::gen_fixed_unpopular_conflict_small(r);
                    small = true;
                } else {
                    inst = gen::gen_fixed_unpopular_conflict_medium(r);
                    small = false;
                }
            }
            let scheds: Vec<Value> = (0..scale(tier, 3, 6)).map(|_| Sched::gen(r).to_json()).collect();
            let threads: Vec<u64> = (0..scheds.len()).map(|j| [1u64, 2, 3, 4, 8][(i + j) % 5]).collect();
            Case { stream: name, data: json!({"inst": inst.to_json(), "scheds": scheds, "threads": threads, "brute": small}) }
        })
        .collect()
}

fn solve_once(inst: &Inst, threads: u32, s: &Sched) -> sched::RunOut<Vec<Option<usize>>> {
    let (courses, parts) = inst.build();
    let courses = Arc::new(courses);
    let parts = Arc::new(parts);
    let rooms = inst.rooms.clone();
    let report = (courses.len() + parts.len()) % 2 == 1;
    sched::run_sched(s, 5_000, move || cdecao::caobab::solve(courses, parts, rooms.as_ref(), report, threads))
}

pub fn run_solve(data: &Value) -> Vec<Line> {
    let inst = Inst::from_json(&data["inst"]);
    let it = inst.to_text();
    let mut lines = vec![];
    let tree = full_tree(&inst, 400);
    let known_class = inst.freeable_instructor();
    let mut verdicts: Vec<(u32, Option<u32>)> = vec![];
    let scheds: Vec<Sched> = data["scheds"].as_array().unwrap().iter().map(Sched::from_json).collect();
    for (j, s) in scheds.iter().enumerate() {
        let threads = data["threads"][j].as_u64().unwrap_or(1) as u32;
        let out = solve_once(&inst, threads, s);
        if std::env::var("VH_STEPS").is_ok() {
            eprintln!("STEPS {}", out.steps);
        }
        let tag = format!("threads={} sched={}", threads, s.to_json());
        if out.deadlock || out.budget {
            lines.push(Line::direct(&["C04", "C10"], false, format!("caobab::solve did not finish ({}): {}", if out.budget { "step budget" } else { "no runnable thread" }, tag)));
            continue;
        }
        match &out.result {
            Err(e) => {
                lines.push(Line::direct(&["C10"], false, format!("caobab::solve panicked on a valid instance ({}): {}", tag, e)));
                continue;
            }
            Ok((res, st)) => {
                verdicts.push((threads, res.as_ref().map(|x| x.1)));
                lines.push(Line::direct(&["C04"], sched::stats_ok(st) && out.leftover == 0,
                    format!("statistics: executed {} = {} + {} + {}; leftover threads {} ({})", st.num_executed_subproblems, st.num_no_solution, st.num_infeasible, st.num_feasible, out.leftover, tag)).trivial(true));
                if let Some((a, sc)) = res {
                    if j == 0 {
                        lines.push(Line::spec(&["C01", "C06", "C08"], "A", format!("{}#{}", it, fmt_assign(a)), format!("valid=true hard=true score={} room=true", sc)));
                        // the quality figure recomputed from the assignment itself (solution_score.rs,
                        // `AssignmentQualityInfo::from_caobab_assignment` / `get_quality`): the model computes the same
                        // record, and it gives the figure `solution_quality` derives from the score
                        use cdecao::caobab::solution_score as ss;
                        let (courses, parts) = inst.build();
                        let (u, f) = (7u32 + (sc % 5), 11u32 + (sc % 3));
                        let got = catch(|| {
                            let info = ss::AssignmentQualityInfo::from_caobab_assignment(&parts, &courses, a, u, f);
                            (info.verif_dump(), info.get_quality().to_bits(), ss::solution_quality(*sc, &parts).to_bits())
                        });
                        match got {
                            Err(e) => lines.push(Line::direct(&["C08", "C10"], false, format!("from_caobab_assignment panicked: {}", e))),
                            Ok(((ni, pens), qbits, sqbits)) => {
                                let num: usize = pens.iter().map(|x| *x as usize).sum();
                                let den = pens.len() + ni;
                                lines.push(Line::corr(&["C08"], "AQ", format!("{}#{}#{}#{}", it, fmt_assign(a), u, f),
                                    format!("ni={} pens={} q={}/{}", ni, pens.iter().map(|x| x.to_string()).collect::<Vec<_>>().join(","), num, den)));
                                let nodup = inst.parts.iter().all(|p| { let mut cs: Vec<usize> = p.choices.iter().map(|c| c.0).collect(); cs.sort(); cs.windows(2).all(|w| w[0] != w[1]) });
                                let same = qbits == sqbits || (f32::from_bits(qbits).is_nan() && f32::from_bits(sqbits).is_nan());
                                lines.push(Line::direct(&["C08"], !nodup || same,
                                    format!("quality lack recomputed from the reported assignment ({} / {} = bits {:#x}) vs solution_quality of the reported score (bits {:#x})", num, den, qbits, sqbits)).trivial(!nodup));
                            }
                        }
                    }
                }
                // trace inclusion: replay the real run through the engine model on the real tree
                if let Ok(ft) = &tree {
                    if ft.complete {
                        let tj = sched::trace_json(&out.trace, &|body| parse_babnode_debug(body).and_then(|nd| ft.index.get(&fmt_node(&nd)).copied()));
                        match tj {
                            Err(e) => lines.push(Line::direct(&["C03", "C04"], false, format!("trace: {} ({})", e, tag))),
                            Ok(tj) => {
                                let t = Tree { nodes: ft.nodes.iter().map(|(_, k)| (0, k.clone())).collect() };
                                // solutions are assignments; label each feasible node by the first node
                                // reporting the same assignment, so that equal solutions compare equal
                                let label = |a: &Vec<Option<usize>>| ft.assign.iter().position(|x| x.as_ref() == Some(a));
                                let mut nodes_json = t.to_json();
                                for (i, a) in ft.assign.iter().enumerate() {
                                    if let Some(a) = a {
                                        nodes_json[i]["sol"] = json!(label(a));
                                    }
                                }
                                let sol_id = res.as_ref().and_then(|(a, _)| label(a));
                                let result = sched::stats_json(res.as_ref().map(|(_, sc)| (sol_id.unwrap_or(usize::MAX) as u64, *sc)), st);
                                let req = json!({"threads": threads, "nodes": nodes_json, "trace": tj, "result": result});
                                // (C02 too: its theorem composes the engine with the node solver, and `caobab::solve`
                                // hands the engine a closure AROUND `run_bab_node` — anything that closure adds, e.g. a
                                // pruning rule of its own, shows as a run that no longer follows the tree of `run_bab_node`)
                                lines.push(Line::corr(&["C02", "C03", "C04"], "T", req.to_string(), "ok".to_string()).trivial(ft.nodes.len() < 3));
                            }
                        }
                    }
                }
            }
        }
    }
    // C03: same verdict and score under every schedule and thread count
    if let Some(first) = verdicts.first() {
        let same = verdicts.iter().all(|v| v.1 == first.1);
        if !same && known_class {
            // inside the class of the known findings F1/F11 (a participant with own choices instructs a
            // non-fixed course) the relaxation of a child can exceed its parent's; it is the known
            // finding only if the MODEL's tree of this instance is not Bounded either
            let mut l = Line::spec(&["C03"], "B", it.clone(), "CONTAINS:bounded=false".to_string());
            l.what = format!("KNOWN-IF-MATCH:unbounded_tree_freeable_instructor (threads, score) per schedule: {:?}", verdicts);
            lines.push(l);
        } else {
            lines.push(Line::direct(&["C03"], same, format!("(threads, score) per schedule: {:?}", verdicts)).trivial(verdicts.len() < 2));
        }
    }
    // C02 / C17: exact optimum by brute force
    if data["brute"].as_bool().unwrap_or(false) && !verdicts.is_empty() {
        let opt_norooms = brute::brute_opt(&inst, None);
        // every distinct answer over the schedules is compared (the first one first)
        let mut answers: Vec<Option<u64>> = vec![];
        for v in verdicts.iter() {
            let g = v.1.map(|x| x as u64);
            if !answers.contains(&g) {
                answers.push(g);
            }
        }
        for got in answers {
        match &inst.rooms {
            None => {
                let ok = got == opt_norooms;
                if !ok && known_class {
                    // inside the class of the known finding F1: it is the known finding only if the
                    // model of the unchanged algorithm arrives at the same sub-optimal answer
                    let mut l = Line::spec(&["C02"], "B", it.clone(),
                        format!("best={} complete=true", got.map_or("none".to_string(), |g| g.to_string())));
                    l.expect = format!("F1F11:{}", got.map_or("none".to_string(), |g| g.to_string()));
                    l.what = format!("KNOWN-IF-MATCH:freeable_instructor reported {:?}, brute-force optimum {:?}", got, opt_norooms);
                    lines.push(l);
                } else {
                    lines.push(Line::direct(&["C02"], ok, format!("reported {:?}, brute-force optimum {:?}", got, opt_norooms)));
                }
            }
            Some(_) => {
                let ok = match (got, opt_norooms) {
                    (Some(g), Some(o)) => g <= o,
                    (Some(_), None) => false,
                    (None, _) => true,
                };
                lines.push(Line::direct(&["C17"], ok, format!("with rooms {:?}, optimum without room limits {:?}", got, opt_norooms)));
            }
        }
        }
    } else if inst.rooms.is_some() && !known_class && !verdicts.is_empty() && tree.as_ref().map_or(false, |t| t.complete) {
        // C17 beyond the brute-force range: the reference optimum without room limits is the complete
        // search of the Lean model of the unchanged algorithm (optimal outside the class of F1 by
        // Props.C02_partial), independent of the code under test
        if let Some(g) = verdicts[0].1 {
            let mut nr = inst.clone();
            nr.rooms = None;
            let mut l = Line::spec(&["C17"], "B", nr.to_text(), String::new());
            l.expect = format!("BESTGE:{}", g);
            l.what = format!("with rooms {} must not exceed the model's optimum without room limits", g);
            lines.push(l);
        }
    }
    lines
}

// ---------------------------------------------------------------------------------------------
// rooms-pairs (C17): a non-binding room list changes nothing

pub fn gen_roompairs(r: &mut Rng, tier: &str) -> Vec<Case> {
    let n = scale(tier, 150, 8000);
    (0..n)
        .map(|i| {
            let p = InstParams { max_courses: 5, max_parts: 9, rooms: 0, nondyadic: i % 4 == 0, allow_freeable: i % 2 == 0 };
            let mut inst = if i % 5 == 4 { gen::gen_f32_exact_product(r) } else { gen::gen_instance(r, &p) };
            if i % 7 == 3 {
                // every course needs less than one place per head: the non-binding list then offers
                // fewer places than there are people (a bound "places >= people" would be wrong)
                for c in inst.courses.iter_mut() {
                    c.room_factor = r.pick(&[0.25f32, 0.5, 0.3, 0.125]);
                    c.room_offset = 0.0;
                }
            }
            Case { stream: "roompairs", data: json!({"inst": inst.to_json(), "extra": r.below(3), "sched": Sched::gen(r).to_json()}) }
        })
        .collect()
}

pub fn run_roompairs(data: &Value) -> Vec<Line> {
    let mut inst = Inst::from_json(&data["inst"]);
    let s = Sched::from_json(&data["sched"]);
    let mut lines = vec![];
    inst.rooms = None;
    let a = solve_once(&inst, 1, &s);
    // a room list that cannot bind: as many rooms as courses (+extra), each as large as the
    // largest effective size any course can reach
    let mut biggest = 0;
    for c in inst.courses.iter() {
        for n in 0..=(c.num_max + c.instructors.len()) {
            biggest = biggest.max(eff_size(c, n));
        }
    }
    let k = inst.courses.len() + data["extra"].as_u64().unwrap_or(0) as usize;
    let mut with = inst.clone();
    with.rooms = Some(vec![biggest; k]);
    let b = solve_once(&with, 1, &s);
    let va = a.result.as_ref().map(|(r, _)| r.as_ref().map(|x| x.1)).map_err(|e| e.clone());
    let vb = b.result.as_ref().map(|(r, _)| r.as_ref().map(|x| x.1)).map_err(|e| e.clone());
    lines.push(Line::direct(&["C17"], va == vb && va.is_ok(), format!("without rooms {:?}, with non-binding rooms {:?} ({} x {})", va, vb, k, biggest)));
    // the trees are identical node by node
    let ta = full_tree(&inst, 300);
    let tb = full_tree(&with, 300);
    if let (Ok(ta), Ok(tb)) = (ta, tb) {
        let same = ta.nodes.len() == tb.nodes.len()
            && ta.nodes.iter().zip(tb.nodes.iter()).all(|(x, y)| fmt_node(&x.0) == fmt_node(&y.0) && format!("{:?}", x.1) == format!("{:?}", y.1));
        lines.push(Line::direct(&["C17"], same, format!("search trees with and without the non-binding list: {} vs {} nodes", ta.nodes.len(), tb.nodes.len())).trivial(ta.nodes.len() < 2));
    }
    lines
}

// ---------------------------------------------------------------------------------------------
// engine: synthetic trees through bab::solve under the shim (C03, C04, C09, C19)

pub fn gen_engine(r: &mut Rng, tier: &str, with_panic: bool, name: &'static str) -> Vec<Case> {
    let n = scale(tier, 400, 8000);
    (0..n)
        .map(|i| {
            let wide = !with_panic && i % 25 == 7;
            let mut tree = if wide { gen::gen_wide_tree(r) } else { gen::gen_tree(r, if i % 3 == 0 { 40 } else { 12 }, with_panic) };
            if i % 16 == 5 {
                // a root (sometimes also its first inner child) that knows no bound: the largest score value
                // there is — the same value the queue entry of the root itself carries
                let mut unbounded = vec![0usize];
                if let Kind::Infeasible(kids, _) = &tree.nodes[0].1 {
                    if i % 32 == 5 {
                        if let Some(k) = kids.iter().find(|k| matches!(tree.nodes[**k as usize].1, Kind::Infeasible(..))) {
                            unbounded.push(*k as usize);
                        }
                    }
                }
                for u in unbounded {
                    if let Kind::Infeasible(kids, _) = tree.nodes[u].1.clone() {
                        tree.nodes[u].1 = Kind::Infeasible(kids, u32::MAX);
                    }
                }
            }
            let ns = if wide { 2 } else { scale(tier, 4, 10) };
            let scheds: Vec<Value> = (0..ns).map(|_| Sched::gen(r).to_json()).collect();
            let threads: Vec<u64> = (0..ns)
                .map(|j| if with_panic { [2u64, 3, 4, 5, 1, 8, 16][(i + j) % 7] } else { [1u64, 2, 3, 4, 8, 1, 2, 3, 4, 24][(i + j) % 10] })
                .collect();
            Case { stream: name, data: json!({"tree": tree.to_json(), "scheds": scheds, "threads": threads}) }
        })
        .collect()
}

pub fn run_engine(data: &Value) -> Vec<Line> {
    let tree = Arc::new(Tree::from_json(&data["tree"]));
    let mut lines = vec![];
    let best = tree.best();
    let has_panic = tree.has_panic();
    let scheds: Vec<Sched> = data["scheds"].as_array().unwrap().iter().map(Sched::from_json).collect();
    let mut verdicts = vec![];
    let nontrivial = tree.nodes.len() >= 3;
    for (j, s) in scheds.iter().enumerate() {
        let threads = data["threads"][j].as_u64().unwrap_or(1) as u32;
        let out = sched::run_tree(&tree, threads, s, 200_000);
        let tag = format!("threads={} sched={}", threads, s.to_json());
        let finished = !(out.deadlock || out.budget);
        lines.push(Line::direct(
            if has_panic { &["C19"] } else { &["C04", "C09"] },
            finished,
            format!("{} ({})", if finished { "run finished" } else if out.budget { "step budget used up" } else { "no runnable thread while some worker unfinished (deadlock)" }, tag),
        ).trivial(!nontrivial));
        let tj = match sched::trace_json(&out.trace, &|body| {
            // "N(depth, id)"
            body.split(", ").nth(1).and_then(|x| x.trim_end_matches(')').parse::<usize>().ok())
        }) {
            Ok(t) => t,
            Err(e) => {
                lines.push(Line::direct(&["C04"], false, e));
                continue;
            }
        };
        let result = match &out.result {
            Ok((res, st)) => {
                if !has_panic {
                    lines.push(Line::direct(&["C09"], res.as_ref().map(|x| x.1) == best,
                        format!("returned {:?}, best leaf of the tree {:?} ({})", res.as_ref().map(|x| x.1), best, tag)).trivial(!nontrivial));
                    // generated = 1 + children of every executed infeasible node (from the pop notes)
                    let mut generated = 1u32;
                    for e in out.trace.iter() {
                        if let cdecao::verif::sched::Event::Note(_, s) = e {
                            if s.ends_with(" solve") {
                                if let Some(id) = s.split(", ").nth(1).and_then(|x| x.split(')').next()).and_then(|x| x.parse::<usize>().ok()) {
                                    if let Kind::Infeasible(kids, _) = &tree.nodes[id].1 {
                                        generated += kids.len() as u32;
                                    }
                                }
                            }
                        }
                    }
                    let adds_up = sched::stats_ok(st) && generated == st.num_executed_subproblems + st.num_bound_subproblems;
                    lines.push(Line::direct(&["C04"], adds_up && out.leftover == 0,
                        format!("statistics: executed {} = {}+{}+{}; generated {} vs executed + bound = {}; leftover threads {} ({})", st.num_executed_subproblems, st.num_no_solution, st.num_infeasible, st.num_feasible, generated, st.num_executed_subproblems + st.num_bound_subproblems, out.leftover, tag)).trivial(!nontrivial));
                    verdicts.push(res.as_ref().map(|x| x.1));
                }
                sched::stats_json(res.as_ref().map(|(s, sc)| (*s as u64, *sc)), st)
            }
            Err(_) => json!({"panic": true}),
        };
        if has_panic && finished {
            // whether the failing node is reached depends on pruning; if it was executed, solve must fail
            let executed_panic = out.trace.iter().any(|e| matches!(e, cdecao::verif::sched::Event::Exit(_, true)));
            lines.push(Line::direct(&["C19"], executed_panic == out.result.is_err(),
                format!("a worker failed: {}, bab::solve propagated the failure: {} ({})", executed_panic, out.result.is_err(), tag)).trivial(!executed_panic));
            // … and nobody stays behind: once `solve` has returned or failed, no worker is left waiting
            lines.push(Line::direct(&["C19"], out.leftover == 0,
                format!("bab::solve ended (failure propagated: {}) with {} worker thread(s) still waiting ({})", out.result.is_err(), out.leftover, tag)).trivial(!out.result.is_err()));
        }
        let req = json!({"threads": threads, "nodes": tree.to_json(), "trace": tj, "result": result});
        let exp = "ok".to_string();
        lines.push(Line::corr(if has_panic { &["C19", "C04"] } else { &["C02", "C03", "C04", "C09"] }, "T", req.to_string(), exp).trivial(!nontrivial));
    }
    if verdicts.len() >= 2 {
        let same = verdicts.iter().all(|v| *v == verdicts[0]);
        lines.push(Line::direct(&["C03"], same, format!("scores per schedule: {:?}", verdicts)).trivial(!nontrivial));
    }
    lines
}

// ---------------------------------------------------------------------------------------------
// selections (C20): exhaustive over (n, k)

pub fn gen_selections(_r: &mut Rng, tier: &str) -> Vec<Case> {
    let maxn = scale(tier, 11, 18);
    let mut v = vec![];
    for n in 0..=maxn {
        for k in 0..=(n + 2) {
            v.push(Case { stream: "selections", data: json!({"n": n, "k": k}) });
        }
    }
    // beyond the exhaustive range: every (n, k) whose enumeration is short enough, up to n = 26
    for n in (maxn + 1)..=26 {
        for k in 0..=(n + 1) {
            let mut c: u128 = 1;
            if k <= n {
                for i in 0..k {
                    c = c * (n - i) as u128 / (i + 1) as u128;
                }
            } else {
                c = 0;
            }
            if c <= scale(tier, 2000, 20000) as u128 {
                v.push(Case { stream: "selections", data: json!({"n": n, "k": k}) });
            }
        }
    }
    // binom alone for all (n, k) up to n = 40
    for n in 0..=40usize {
        v.push(Case { stream: "selections", data: json!({"binom_n": n}) });
    }
    v
}

pub fn run_selections(data: &Value) -> Vec<Line> {
    use cdecao::verif::IterSelections;
    if let Some(n) = data["binom_n"].as_u64() {
        let n = n as usize;
        let got = catch(|| (0..=n + 1).map(|k| verif::binom(n, k).to_string()).collect::<Vec<_>>().join(","));
        return match got {
            Ok(text) => {
                // Pascal's triangle as independent oracle
                let mut row: Vec<u128> = vec![1];
                for _ in 0..n {
                    let mut next = vec![1u128];
                    for i in 1..row.len() {
                        next.push(row[i - 1] + row[i]);
                    }
                    next.push(1);
                    row = next;
                }
                row.push(0);
                let exp = row.iter().map(|x| x.to_string()).collect::<Vec<_>>().join(",");
                vec![
                    Line::corr(&["C20"], "SB", format!("{}", n), text.clone()),
                    Line::direct(&["C20"], text == exp, format!("binom({}, 0..={}) = {} expected {}", n, n + 1, text, exp)),
                ]
            }
            Err(e) => vec![Line::direct(&["C20"], false, format!("binom({}, _) panicked: {}", n, e))],
        };
    }
    let n = data["n"].as_u64().unwrap() as usize;
    let k = data["k"].as_u64().unwrap() as usize;
    let items: Vec<usize> = (0..n).collect();
    let res = catch(|| {
        let mut out = vec![format!("{}", verif::binom(n, k))];
        let mut it = items[..].iter_selections(k);
        out.push(format!("{}", it.size_hint().0));
        let mut hints: Vec<(usize, Option<usize>)> = vec![it.size_hint()];
        let mut all: Vec<Vec<usize>> = vec![];
        while let Some(sel) = it.next() {
            let sel: Vec<usize> = sel.into_iter().copied().collect();
            let hint = it.size_hint();
            assert_eq!(Some(hint.0), hint.1);
            hints.push(hint);
            out.push(format!("{}/{}", sel.iter().map(|x| x.to_string()).collect::<Vec<_>>().join(","), hint.0));
            all.push(sel);
        }
        // polling past the end (chunked consumption, a size hint after the loop): stays exhausted
        let mut past_ok = true;
        for _ in 0..3 {
            past_ok &= it.next().is_none();
            past_ok &= k == 0 || it.size_hint() == (0, Some(0));
        }
        (out.join(";"), all, past_ok, hints)
    });
    let mut lines = vec![];
    match res {
        Err(e) => lines.push(Line::direct(&["C20"], false, format!("iterator panicked for n={} k={}: {}", n, k, e))),
        Ok((text, all, past_ok, hints)) => {
            lines.push(Line::direct(&["C20"], past_ok, format!("n={} k={}: after the last selection the enumeration stays exhausted (next() = None, size hint 0) when polled again", n, k)).trivial(k == 0 || k > n));
            // k = 0: the hint of the empty enumeration is not part of the claim
            let (payload, expect) = (format!("{} {}", n, k), text);
            if k == 0 {
                lines.push(Line::direct(&["C20"], all.is_empty(), format!("k=0 yields nothing (n={})", n)).trivial(true));
            } else {
                lines.push(Line::corr(&["C20"], "S", payload, expect).trivial(k > n));
            }
            // independent oracle: exactly the k-subsets, each once, each increasing
            let expected = {
                let mut c: u128 = 1;
                if k > n {
                    c = 0
                } else {
                    for i in 0..k {
                        c = c * (n - i) as u128 / (i + 1) as u128;
                    }
                }
                c as usize
            };
            let mut set = std::collections::HashSet::new();
            let good = all.iter().all(|s| s.len() == k && s.windows(2).all(|w| w[0] < w[1]) && s.iter().all(|x| *x < n) && set.insert(s.clone()));
            let cnt_ok = if k == 0 { all.is_empty() } else { all.len() == expected };
            // the size report at every point of the enumeration (before the first step too) is exactly what is left
            if k >= 1 && k <= n {
                let bad = hints.iter().enumerate().find(|(j, h)| expected < *j || **h != (expected - *j, Some(expected - *j)));
                lines.push(Line::direct(&["C20"], bad.is_none(), format!("n={} k={}: size report after j selections is exactly C(n,k) - j = {} - j for every j in 0..={} (first deviation: {:?})", n, k, expected, all.len(), bad)));
            }
            lines.push(Line::direct(&["C20"], good && cnt_ok && verif::binom(n, k) == expected,
                format!("n={} k={}: {} selections (expected {}), all distinct increasing: {}, binom={}", n, k, all.len(), expected, good, verif::binom(n, k))).trivial(k == 0 || k > n));
        }
    }
    lines
}

// ---------------------------------------------------------------------------------------------
// rooms (C18): the possible-rooms listing of io/rooms.rs on room-feasible assignments

pub fn gen_rooms(r: &mut Rng, tier: &str) -> Vec<Case> {
    let n = scale(tier, 500, 50000);
    (0..n)
        .map(|i| {
            let nc = 1 + r.usize(7);
            // incl. courses that need no room at all although they take place (factor 0)
            let dy = [1.0f32, 1.0, 1.5, 2.0, 0.5, 2.5, 0.0];
            let courses: Vec<Value> = (0..nc)
                .map(|_| json!({"factor_bits": r.pick(&dy).to_bits(), "offset_bits": r.pick(&[0.0f32, 0.0, 1.0, 2.5]).to_bits(), "fixed": r.chance(1, 5)}))
                .collect();
            // people per course (incl. instructors)
            let mut counts: Vec<usize> = (0..nc).map(|_| r.pick(&[0usize, 0, 1, 2, 3, 3, 4, 5, 8])).collect();
            let mut courses = courses;
            if i % 5 == 3 {
                // a course whose effective size depends on the ORDER OF ROUNDING (product, then sum)
                let t = gen::fma_sensitive_triples();
                let (f, o, n, _) = t[r.usize(t.len())];
                let k = r.usize(nc);
                courses[k] = json!({"factor_bits": f.to_bits(), "offset_bits": o.to_bits(), "fixed": false});
                counts[k] = n;
            }
            let kinds = i % 3 == 2;
            Case { stream: "rooms", data: json!({"courses": courses, "counts": counts, "kinds": kinds,
                "extra": (0..r.usize(4)).map(|_| r.pick(&[0usize, 1, 2, 3, 5, 8, 10, 20])).collect::<Vec<_>>(),
                "slack": (0..nc).map(|_| r.pick(&[0usize, 0, 0, 1, 2, 5])).collect::<Vec<_>>(),
                "zeroq": r.chance(1, 3), "shuffle": r.next(), "drop_small": r.chance(1, 2)}) }
        })
        .collect()
}

pub fn run_rooms(data: &Value) -> Vec<Line> {
    let nc = data["courses"].as_array().unwrap().len();
    let courses: Vec<verif::CourseDump> = data["courses"]
        .as_array()
        .unwrap()
        .iter()
        .enumerate()
        .map(|(i, c)| verif::CourseDump {
            index: i,
            dbid: i,
            name: format!("c{}", i),
            num_max: 100,
            num_min: 0,
            instructors: vec![],
            room_factor: f32::from_bits(c["factor_bits"].as_u64().unwrap() as u32),
            room_offset: f32::from_bits(c["offset_bits"].as_u64().unwrap() as u32),
            fixed_course: c["fixed"].as_bool().unwrap(),
            hidden_participant_names: vec![],
        })
        .collect();
    let counts: Vec<usize> = data["counts"].as_array().unwrap().iter().map(|x| x.as_u64().unwrap() as usize).collect();
    let mut assignment: Vec<Option<usize>> = vec![];
    for (c, n) in counts.iter().enumerate() {
        for _ in 0..*n {
            assignment.push(Some(c));
        }
    }
    assignment.push(None);
    let real: Vec<cdecao::Course> = courses.iter().map(verif::make_course).collect();
    let sized = cdecao::caobab::room_effective_course_sizes(&assignment, &real);
    let sizes: Vec<usize> = sized.iter().map(|(_, s)| *s).collect();
    let mut lines = vec![];
    // the documented rule, computed here independently (two roundings: product, then sum; rounded up;
    // empty non-fixed courses need no room)
    let indep: Vec<usize> = courses.iter().zip(counts.iter()).map(|(c, n)| {
        if *n == 0 && !c.fixed_course { 0 } else { (c.room_offset + c.room_factor * *n as f32).ceil() as usize }
    }).collect();
    lines.push(Line::direct(&["C18", "C06"], indep == sizes,
        format!("effective course sizes {:?}, by the documented rule {:?} (people per course {:?})", sizes, indep, counts)));
    // a room-feasible room list: one room per positive size (+slack), plus extra rooms; optionally
    // drop rooms of empty courses (fewer rooms than courses)
    let slack: Vec<usize> = data["slack"].as_array().unwrap().iter().map(|x| x.as_u64().unwrap() as usize).collect();
    let mut rooms: Vec<usize> = vec![];
    for (c, s) in sizes.iter().enumerate() {
        if *s > 0 || !data["drop_small"].as_bool().unwrap() {
            rooms.push(*s + slack[c]);
        }
    }
    for x in data["extra"].as_array().unwrap() {
        rooms.push(x.as_u64().unwrap() as usize);
    }
    // shuffle (the --rooms list arrives as typed)
    let mut rr = Rng::new(data["shuffle"].as_u64().unwrap());
    for i in (1..rooms.len()).rev() {
        let j = rr.usize(i + 1);
        rooms.swap(i, j);
    }
    // the rank order the real (unstable) sort produces on the same data
    let mut order_src: Vec<(usize, usize)> = sizes.iter().cloned().enumerate().collect();
    order_src.sort_unstable_by_key(|(_c, s)| std::cmp::Reverse(*s));
    // NOTE: the real code sorts (&Course, usize) pairs; the key and the input order are the same, and
    // the sort is deterministic in the sequence of comparison outcomes, hence the same permutation.
    let order: Vec<usize> = order_src.iter().map(|(c, _)| *c).collect();
    let feat = vec![format!("courses={}", nc), format!("rooms={}", rooms.len().min(10)), format!("ties={}", { let mut s = sizes.clone(); s.sort(); s.dedup(); sizes.len() - s.len() }.min(4))];
    if data["kinds"].as_bool().unwrap() {
        // rooms file: kinds with capacity = room size; duplicates merged into quantity; optionally a
        // kind with quantity 0 sharing a capacity
        let mut kinds: Vec<Value> = vec![];
        let style = data["shuffle"].as_u64().unwrap() % 4;
        if style == 3 {
            // two buildings both have a "Seminarraum": the same NAME with different capacities
            for (i, r) in rooms.iter().enumerate() {
                kinds.push(json!({"name": format!("S{}", i % 2), "capacity": r, "quantity": 1}));
            }
        } else if style == 0 {
            // one kind per room, some with spare quantity
            for (i, r) in rooms.iter().enumerate() {
                kinds.push(json!({"name": format!("K{}", i), "capacity": r, "quantity": 1 + (i % 2)}));
            }
        } else {
            // exactly the rooms: per capacity either one entry with the quantity, or the identical
            // entry (same name, capacity, quantity 1) listed once per room
            let mut caps: Vec<usize> = rooms.clone();
            caps.sort();
            caps.dedup();
            for cap in caps {
                let n = rooms.iter().filter(|x| **x == cap).count();
                if style == 1 {
                    kinds.push(json!({"name": format!("K{}", cap), "capacity": cap, "quantity": n}));
                } else {
                    for _ in 0..n {
                        kinds.push(json!({"name": format!("K{}", cap), "capacity": cap, "quantity": 1}));
                    }
                }
            }
        }
        if data["zeroq"].as_bool().unwrap() && !rooms.is_empty() {
            kinds.push(json!({"name": "Empty", "capacity": rooms[0], "quantity": 0}));
            kinds.push(json!({"name": "EmptyBig", "capacity": 99, "quantity": 0}));
        }
        let text = serde_json::to_string(&kinds).unwrap();
        match catch(|| cdecao::io::rooms::read(text.as_bytes())) {
            Ok(Ok((rs, rk))) => {
                let names = catch(|| cdecao::io::rooms::get_course_room_kind_names(&assignment, &real, &rk));
                match names {
                    Ok(names) => {
                        let req = json!({"sizes": sizes, "order": order, "rooms": [], "kinds": kinds});
                        let exp = json!({"rooms": rs, "list": names, "sound": true, "nonempty": true});
                        lines.push(Line::corr(&["C18"], "RP", req.to_string(), exp.to_string()).feat(&feat));
                        // the specification, evaluated in Lean on what the real code listed
                        let spec = json!({"sizes": sizes, "rooms": rs, "listed": names, "kinds": kinds});
                        lines.push(Line::spec(&["C18"], "RS", spec.to_string(), "sound=true nonempty=true".to_string()));
                    }
                    Err(e) => lines.push(Line::direct(&["C18"], false, format!("get_course_room_kind_names panicked: {}", e))),
                }
            }
            other => lines.push(Line::direct(&["C18", "C15"], false, format!("rooms file refused / panicked: {:?}", other.map(|x| x.map(|_| ()))))),
        }
    } else {
        match catch(|| cdecao::io::rooms::get_course_room_size_list(&assignment, &real, &rooms)) {
            Ok(list) => {
                let req = json!({"sizes": sizes, "order": order, "rooms": rooms});
                let exp = json!({"rooms": rooms, "list": list, "sound": true, "nonempty": true});
                lines.push(Line::corr(&["C18"], "RP", req.to_string(), exp.to_string()).feat(&feat));
                let spec = json!({"sizes": sizes, "rooms": rooms, "listed": list});
                lines.push(Line::spec(&["C18"], "RS", spec.to_string(), "sound=true nonempty=true".to_string()));
            }
            Err(e) => lines.push(Line::direct(&["C18"], false, format!("get_course_room_size_list panicked: {}", e))),
        }
    }
    lines
}

// ---------------------------------------------------------------------------------------------
// engine-exhaustive (thorough): ALL schedules of small trees, depth-first over every scheduling
// and notify_one decision (no spurious wake-ups)

pub fn gen_engine_exhaustive(r: &mut Rng, tier: &str) -> Vec<Case> {
    let n = scale(tier, 6, 60);
    (0..n)
        .map(|i| {
            let with_panic = i % 3 == 2;
            let size = 2 + r.usize(4);
            let tree = gen::gen_tree(r, size, with_panic);
            let threads = [2u64, 2, 3][i % 3];
            Case { stream: "engine-exhaustive", data: json!({"tree": tree.to_json(), "threads": threads, "max_runs": scale(tier, 400, 6000)}) }
        })
        .collect()
}

pub fn run_engine_exhaustive(data: &Value) -> Vec<Line> {
    let tree = Arc::new(Tree::from_json(&data["tree"]));
    let threads = data["threads"].as_u64().unwrap_or(2) as u32;
    let max_runs = data["max_runs"].as_u64().unwrap_or(400) as usize;
    let best = tree.best();
    let has_panic = tree.has_panic();
    let mut lines = vec![];
    let mut prefix: Option<Vec<usize>> = Some(vec![]);
    let mut runs = 0usize;
    let mut bad: Option<String> = None;
    let mut sample_traces: Vec<Value> = vec![];
    while let Some(p) = prefix.clone() {
        if runs >= max_runs {
            break;
        }
        runs += 1;
        let log = Arc::new(std::sync::Mutex::new(vec![]));
        let out = sched::run_tree_with(&tree, threads, sched::exhaustive_chooser(p.clone(), log.clone()), 50_000);
        let l = log.lock().unwrap().clone();
        let finished = !(out.deadlock || out.budget);
        let mut problem: Option<String> = None;
        if !finished {
            problem = Some(format!("schedule {:?}: {}", l.iter().map(|x| x.1).collect::<Vec<_>>(), if out.budget { "step budget used up" } else { "no runnable thread while some worker unfinished (deadlock)" }));
        } else {
            match &out.result {
                Ok((res, st)) => {
                    if !has_panic && res.as_ref().map(|x| x.1) != best {
                        problem = Some(format!("schedule {:?}: returned {:?}, best leaf {:?}", l.iter().map(|x| x.1).collect::<Vec<_>>(), res.as_ref().map(|x| x.1), best));
                    } else if !sched::stats_ok(st) || out.leftover != 0 {
                        problem = Some(format!("schedule {:?}: statistics do not add up / left-over threads {}", l.iter().map(|x| x.1).collect::<Vec<_>>(), out.leftover));
                    }
                }
                Err(_) => {
                    let executed_panic = out.trace.iter().any(|e| matches!(e, cdecao::verif::sched::Event::Exit(_, true)));
                    if !executed_panic {
                        problem = Some(format!("schedule {:?}: bab::solve failed although no worker failed", l.iter().map(|x| x.1).collect::<Vec<_>>()));
                    }
                }
            }
        }
        // every 50th schedule (and every problematic one) is also replayed through the model
        if problem.is_some() || runs % 50 == 1 {
            if let Ok(tj) = sched::trace_json(&out.trace, &|body| body.split(", ").nth(1).and_then(|x| x.trim_end_matches(')').parse::<usize>().ok())) {
                let result = match &out.result {
                    Ok((res, st)) => sched::stats_json(res.as_ref().map(|(s, sc)| (*s as u64, *sc)), st),
                    Err(_) => json!({"panic": true}),
                };
                sample_traces.push(json!({"threads": threads, "nodes": tree.to_json(), "trace": tj, "result": result}));
            }
        }
        if problem.is_some() && bad.is_none() {
            bad = problem;
        }
        prefix = sched::next_prefix(&l);
    }
    let exhausted = prefix.is_none();
    let props: &[&'static str] = if has_panic { &["C19", "C04"] } else { &["C03", "C04", "C09"] };
    lines.push(Line::direct(props, bad.is_none(), match &bad {
        Some(b) => b.clone(),
        None => format!("{} schedules of a {}-node tree with {} workers explored ({}), all finish with the right result", runs, tree.nodes.len(), threads, if exhausted { "ALL schedules" } else { "budget reached" }),
    }).feat(&[format!("exhausted={}", exhausted), format!("runs~{}", (runs / 100) * 100)]));
    for t in sample_traces.into_iter().take(40) {
        lines.push(Line::corr(props, "T", t.to_string(), "ok".to_string()));
    }
    lines
}
