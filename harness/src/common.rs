//! Shared pieces: PRNG, case lines, instance representation and text formats.
use cdecao::verif::{self, CourseDump, ParticipantDump};
use serde_json::{json, Value};

/// xorshift64*: every random choice of a run derives from one state
#[derive(Clone)]
pub struct Rng(pub u64);
impl Rng {
    pub fn new(seed: u64) -> Rng {
        let mut r = Rng(seed.wrapping_mul(0x9E37_79B9_7F4A_7C15) ^ 0x2545_F491_4F6C_DD1D);
        if r.0 == 0 {
            r.0 = 1;
        }
        for _ in 0..4 {
            r.next();
        }
        r
    }
    pub fn next(&mut self) -> u64 {
        let mut x = self.0;
        x ^= x << 13;
        x ^= x >> 7;
        x ^= x << 17;
        self.0 = x;
        x.wrapping_mul(0x2545_F491_4F6C_DD1D) >> 11
    }
    /// uniform in 0..n (n > 0)
    pub fn below(&mut self, n: u64) -> u64 {
        self.next() % n
    }
    pub fn usize(&mut self, n: usize) -> usize {
        self.below(n as u64) as usize
    }
    pub fn chance(&mut self, num: u64, den: u64) -> bool {
        self.below(den) < num
    }
    pub fn pick<T: Copy>(&mut self, xs: &[T]) -> T {
        xs[self.usize(xs.len())]
    }
    pub fn fork(&mut self) -> Rng {
        Rng::new(self.next())
    }
}

/// One output line of a stream. `kind`:
///  * "corr": the model driver, given `tag`/`payload`, must answer `expect` (what the real code did)
///  * "spec": the driver evaluates a Lean specification predicate on the real code's output and
///            must answer `expect` — a difference is a property violation of the implementation
///  * "direct": an oracle evaluated by the harness itself (`ok` says whether it held)
pub struct Line {
    pub kind: &'static str,
    pub props: Vec<&'static str>,
    pub tag: &'static str,
    pub payload: String,
    pub expect: String,
    pub ok: bool,
    pub what: String,
    pub nontrivial: bool,
    pub feat: Vec<String>,
}

impl Line {
    pub fn corr(props: &[&'static str], tag: &'static str, payload: String, expect: String) -> Line {
        Line { kind: "corr", props: props.to_vec(), tag, payload, expect, ok: true, what: String::new(), nontrivial: true, feat: vec![] }
    }
    pub fn spec(props: &[&'static str], tag: &'static str, payload: String, expect: String) -> Line {
        Line { kind: "spec", props: props.to_vec(), tag, payload, expect, ok: true, what: String::new(), nontrivial: true, feat: vec![] }
    }
    pub fn direct(props: &[&'static str], ok: bool, what: String) -> Line {
        Line { kind: "direct", props: props.to_vec(), tag: "", payload: String::new(), expect: String::new(), ok, what, nontrivial: true, feat: vec![] }
    }
    pub fn feat(mut self, f: &[String]) -> Line {
        self.feat = f.to_vec();
        self
    }
    pub fn trivial(mut self, t: bool) -> Line {
        self.nontrivial = !t;
        self
    }
    pub fn to_json(&self, stream: &str, case_id: usize) -> Value {
        json!({"stream": stream, "case": case_id, "kind": self.kind, "props": self.props, "tag": self.tag,
               "payload": self.payload, "expect": self.expect, "ok": self.ok, "what": self.what,
               "nontrivial": self.nontrivial, "feat": self.feat})
    }
}

/// A course-assignment instance as plain data
#[derive(Clone, Debug)]
pub struct Inst {
    pub courses: Vec<CourseDump>,
    pub parts: Vec<ParticipantDump>,
    pub rooms: Option<Vec<usize>>,
}

impl Inst {
    pub fn build(&self) -> (Vec<cdecao::Course>, Vec<cdecao::Participant>) {
        (
            self.courses.iter().map(verif::make_course).collect(),
            self.parts.iter().map(verif::make_participant).collect(),
        )
    }

    /// `courses#participants#rooms` in the driver's text format
    pub fn to_text(&self) -> String {
        let cs = self
            .courses
            .iter()
            .map(|c| {
                format!(
                    "{},{},{},{},{},{}",
                    c.num_min,
                    c.num_max,
                    c.fixed_course as u8,
                    c.room_factor.to_bits(),
                    c.room_offset.to_bits(),
                    if c.instructors.is_empty() {
                        "-".to_string()
                    } else {
                        c.instructors.iter().map(|x| x.to_string()).collect::<Vec<_>>().join(";")
                    }
                )
            })
            .collect::<Vec<_>>()
            .join(" ");
        let ps = self
            .parts
            .iter()
            .map(|p| {
                if p.choices.is_empty() {
                    "-".to_string()
                } else {
                    p.choices.iter().map(|(c, pen)| format!("{}:{}", c, pen)).collect::<Vec<_>>().join(";")
                }
            })
            .collect::<Vec<_>>()
            .join(" ");
        let rs = match &self.rooms {
            None => "-".to_string(),
            Some(r) => format!("={}", r.iter().map(|x| x.to_string()).collect::<Vec<_>>().join(",")),
        };
        format!("{}#{}#{}", cs, ps, rs)
    }

    pub fn to_json(&self) -> Value {
        json!({
            "courses": self.courses.iter().map(|c| json!({
                "num_min": c.num_min, "num_max": c.num_max, "fixed": c.fixed_course,
                "factor_bits": c.room_factor.to_bits(), "offset_bits": c.room_offset.to_bits(),
                "factor": c.room_factor, "offset": c.room_offset,
                "instructors": c.instructors, "hidden": c.hidden_participant_names, "name": c.name})).collect::<Vec<_>>(),
            "participants": self.parts.iter().map(|p| json!({
                "name": p.name,
                "choices": p.choices.iter().map(|(c, pen)| json!([c, pen])).collect::<Vec<_>>()})).collect::<Vec<_>>(),
            "rooms": self.rooms,
        })
    }

    pub fn from_json(v: &Value) -> Inst {
        // database ids are a permutation of the indices different from the identity (reversed), so
        // that a confusion of the two index spaces stays in range and changes which object is meant
        let nc = v["courses"].as_array().unwrap().len();
        let np = v["participants"].as_array().unwrap().len();
        let courses = v["courses"]
            .as_array()
            .unwrap()
            .iter()
            .enumerate()
            .map(|(i, c)| CourseDump {
                index: i,
                dbid: nc - 1 - i,
                name: c["name"].as_str().unwrap_or("c").to_string(),
                num_min: c["num_min"].as_u64().unwrap() as usize,
                num_max: c["num_max"].as_u64().unwrap() as usize,
                fixed_course: c["fixed"].as_bool().unwrap_or(false),
                room_factor: f32::from_bits(c["factor_bits"].as_u64().unwrap_or(0x3f80_0000) as u32),
                room_offset: f32::from_bits(c["offset_bits"].as_u64().unwrap_or(0) as u32),
                instructors: c["instructors"].as_array().unwrap().iter().map(|x| x.as_u64().unwrap() as usize).collect(),
                hidden_participant_names: c["hidden"]
                    .as_array()
                    .map(|a| a.iter().map(|x| x.as_str().unwrap().to_string()).collect())
                    .unwrap_or_default(),
            })
            .collect();
        let parts = v["participants"]
            .as_array()
            .unwrap()
            .iter()
            .enumerate()
            .map(|(i, p)| ParticipantDump {
                index: i,
                dbid: np - 1 - i,
                name: p["name"].as_str().unwrap_or("p").to_string(),
                choices: p["choices"]
                    .as_array()
                    .unwrap()
                    .iter()
                    .map(|c| (c[0].as_u64().unwrap() as usize, c[1].as_u64().unwrap() as u32))
                    .collect(),
            })
            .collect();
        let rooms = v["rooms"].as_array().map(|a| a.iter().map(|x| x.as_u64().unwrap() as usize).collect());
        Inst { courses, parts, rooms }
    }

    /// the simple input format of the CLI
    pub fn to_simple_json(&self) -> Value {
        json!({
            "format": "X-coursedata-simple", "version": "1.0",
            "participants": self.parts.iter().map(|p| json!({
                "name": p.name,
                "choices": p.choices.iter().map(|(c, pen)| json!({"course": c, "penalty": pen})).collect::<Vec<_>>()})).collect::<Vec<_>>(),
            "courses": self.courses.iter().map(|c| json!({
                "name": c.name, "num_max": c.num_max, "num_min": c.num_min, "instructors": c.instructors,
                "room_factor": c.room_factor, "room_offset": c.room_offset, "fixed_course": c.fixed_course,
                "hidden_participant_names": c.hidden_participant_names})).collect::<Vec<_>>(),
        })
    }

    /// the class of the known finding F1: some participant with own choices instructs a non-fixed course
    pub fn freeable_instructor(&self) -> bool {
        self.courses
            .iter()
            .any(|c| !c.fixed_course && c.instructors.iter().any(|i| !self.parts[*i].choices.is_empty()))
    }
}

pub type NodeData = (Vec<usize>, Vec<usize>, Vec<(usize, usize)>);

pub fn fmt_node(n: &NodeData) -> String {
    let l = |v: &Vec<usize>| {
        if v.is_empty() {
            "-".to_string()
        } else {
            v.iter().map(|x| x.to_string()).collect::<Vec<_>>().join(",")
        }
    };
    let s = if n.2.is_empty() {
        "-".to_string()
    } else {
        n.2.iter().map(|(c, s)| format!("{}:{}", c, s)).collect::<Vec<_>>().join(",")
    };
    format!("{}|{}|{}", l(&n.0), l(&n.1), s)
}

pub fn fmt_assign(a: &[Option<usize>]) -> String {
    a.iter()
        .map(|x| match x {
            None => "_".to_string(),
            Some(c) => c.to_string(),
        })
        .collect::<Vec<_>>()
        .join(",")
}

/// run `f`, turning a panic into `Err(message)`
pub fn catch<R>(f: impl FnOnce() -> R) -> Result<R, String> {
    std::panic::catch_unwind(std::panic::AssertUnwindSafe(f)).map_err(|e| {
        if let Some(s) = e.downcast_ref::<String>() {
            s.clone()
        } else if let Some(s) = e.downcast_ref::<&str>() {
            s.to_string()
        } else {
            "panic".to_string()
        }
    })
}

/// effective size of a course with `n` people, exactly as the code computes it (f32)
pub fn eff_size(c: &CourseDump, n: usize) -> usize {
    (c.room_offset + c.room_factor * (n as f32)).ceil() as usize
}
