#!/usr/bin/env python3
"""run_seeded.py [name-filter]: apply every seeded change under /verif/seeded to /repo, run the quick
checks of the property it breaks (and related ones), undo it, and record which checks catch it."""
import os, sys, json, subprocess, glob, re
VERIF = os.path.dirname(os.path.dirname(os.path.abspath(__file__)))
RELATED = {"C01": ["C01"], "C02": ["C02", "C09"], "C03": ["C03", "C04", "C10"], "C04": ["C04"], "C05": ["C05", "C12"], "C06": ["C06", "C01"], "C07": ["C07"],
           "C08": ["C08"], "C09": ["C09", "C04"], "C10": ["C10", "C04"], "C11": ["C11", "C05"], "C12": ["C12", "C05", "C06"], "C13": ["C13", "C12", "C05"],
           "C14": ["C14", "C16"], "C15": ["C15"], "C16": ["C16"], "C17": ["C17", "C01"], "C18": ["C18"], "C19": ["C19"], "C20": ["C20"]}
flt = sys.argv[1] if len(sys.argv) > 1 else ""
sys.path.insert(0, os.path.join(VERIF, "bin"))
import config
rows = []
assert subprocess.run(["git", "-C", "/repo", "diff", "--quiet"]).returncode == 0, "/repo has uncommitted changes"
for d in sorted(glob.glob(os.path.join(VERIF, "seeded", "*"))):
    if not os.path.isdir(d) or flt not in d:
        continue
    meta = json.load(open(os.path.join(d, "meta.json")))
    pid = meta["breaks_property"]
    if "checks_run" in meta and not os.environ.get("FORCE"):
        rows.append((os.path.basename(d), pid, meta["needs_to_manifest"], meta["checks_run"]))
        continue
    checks = [c for c in RELATED.get(pid, [pid]) if c in config.PROPS]
    subprocess.check_call(["git", "-C", "/repo", "apply", os.path.join(d, "patch.diff")])
    res = {}
    try:
        for c in checks:
            p = subprocess.run([os.path.join(VERIF, "bin", "check"), c, "quick"], stdout=subprocess.PIPE, stderr=subprocess.STDOUT,
                               env=dict(os.environ, VERIF_NO_EVIDENCE="1"))
            out = p.stdout.decode("utf-8", "replace")
            v = [l for l in out.split("\n") if l.startswith("VIOLATION")]
            if not v:
                res[c] = "missed" if p.returncode == 0 else f"exit {p.returncode}"
            elif "no-failing-input-found" in v[0]:
                res[c] = "caught (model tie broken, no failing input found)"
            else:
                rp = re.search(r"replay=(\S+)", v[0]).group(1)
                try:
                    r = json.load(open(rp)); res[c] = f"caught with failing input ({r.get('stream')})"
                except Exception:
                    res[c] = "caught with failing input"
    finally:
        subprocess.check_call(["git", "-C", "/repo", "checkout", "--", "."])
    meta["checks_run"] = res
    json.dump(meta, open(os.path.join(d, "meta.json"), "w"), indent=1)
    rows.append((os.path.basename(d), pid, meta["needs_to_manifest"], res))
    print(os.path.basename(d), res, flush=True)
rows = []
for d in sorted(glob.glob(os.path.join(VERIF, "seeded", "*"))):
    if os.path.isdir(d):
        meta = json.load(open(os.path.join(d, "meta.json")))
        rows.append((os.path.basename(d), meta["breaks_property"], meta["needs_to_manifest"], meta.get("checks_run", {})))
with open(os.path.join(VERIF, "seeded", "RESULTS.md"), "w") as f:
    f.write("# Seeded changes and the checks that catch them\n\nEach change compiles, passes the 35 baseline tests and breaks the named property (confirmed in a scratch worktree, see meta.json). `bin/run_seeded.py` applies each to /repo, runs the quick checks and undoes it.\n\n| change | breaks | needs | result per check |\n|---|---|---|---|\n")
    for name, pid, needs, res in rows:
        f.write(f"| {name} | {pid} | {needs} | " + "; ".join(f"{k}: {v}" for k, v in res.items()) + " |\n")
