#!/usr/bin/env python3
"""eval_mutants.py <wtroot> <ID> [<ID> ...]: for the mutants m1/m2 a sub-agent delivered under <wtroot>/<ID>.out/,
confirm each in its scratch worktree (bin/confirm_mutant.py, cached), then apply it to /repo, run the quick checks of
the property it breaks and the related ones (VERIF_NO_EVIDENCE=1), undo it, and write <wtroot>/eval/<ID>-<m>.json.
Never run two of these (or any other check) at the same time: /repo is patched while it runs."""
import sys, os, json, subprocess, re
VERIF = os.path.dirname(os.path.dirname(os.path.abspath(__file__)))
sys.path.insert(0, os.path.join(VERIF, "bin"))
RELATED = {"C01": ["C01"], "C02": ["C02", "C09"], "C03": ["C03", "C10"], "C04": ["C04", "C09"], "C05": ["C05", "C12", "C11", "C01"], "C06": ["C06", "C01"], "C07": ["C07"],
           "C08": ["C08"], "C09": ["C09", "C04"], "C10": ["C10", "C04", "C01"], "C11": ["C11", "C05", "C12"], "C12": ["C12", "C05", "C06"], "C13": ["C13", "C12", "C05"],
           "C14": ["C14", "C16"], "C15": ["C15"], "C16": ["C16"], "C17": ["C17", "C01"], "C18": ["C18"], "C19": ["C19"], "C20": ["C20"]}
wt = sys.argv[1]
os.makedirs(os.path.join(wt, "eval"), exist_ok=True); os.makedirs(os.path.join(wt, "confirm"), exist_ok=True)
assert subprocess.run(["git", "-C", "/repo", "diff", "--quiet"]).returncode == 0, "/repo has uncommitted changes"
for pid in sys.argv[2:]:
    for m in ("m1", "m2"):
        md = os.path.join(wt, pid + ".out", m)
        if not os.path.exists(os.path.join(md, "patch.diff")):
            continue
        outp = os.path.join(wt, "eval", f"{pid}-{m}.json")
        if os.path.exists(outp):
            continue
        cj = os.path.join(wt, "confirm", f"{pid}-{m}.json")
        if not os.path.exists(cj):
            p = subprocess.run([sys.executable, os.path.join(VERIF, "bin", "confirm_mutant.py"), os.path.join(wt, pid), md], stdout=subprocess.PIPE, stderr=subprocess.STDOUT)
            open(cj, "w").write(p.stdout.decode("utf-8", "replace"))
        t = open(cj).read()
        try:
            conf = json.loads(t[t.index("{"):t.rindex("}") + 1])
        except Exception:
            conf = {"confirmed": False, "raw": t[-1500:]}
        res = {"confirmed": bool(conf.get("confirmed")), "checks": {}}
        if res["confirmed"] or os.environ.get("EVAL_UNCONFIRMED"):
            subprocess.check_call(["git", "-C", "/repo", "apply", os.path.join(md, "patch.diff")])
            try:
                for c in RELATED.get(pid, [pid]):
                    p = subprocess.run([os.path.join(VERIF, "bin", "check"), c, "quick"], stdout=subprocess.PIPE, stderr=subprocess.STDOUT,
                                       env=dict(os.environ, VERIF_NO_EVIDENCE="1"))
                    out = p.stdout.decode("utf-8", "replace")
                    v = [l for l in out.split("\n") if l.startswith("VIOLATION")]
                    if not v:
                        res["checks"][c] = "missed" if p.returncode == 0 else f"exit {p.returncode}: {out[-300:]}"
                    elif "no-failing-input-found" in v[0]:
                        res["checks"][c] = "caught (model tie broken, no failing input found)"
                    else:
                        rp = re.search(r"replay=(\S+)", v[0]).group(1)
                        try:
                            r = json.load(open(rp)); res["checks"][c] = f"caught with failing input ({r.get('stream')})"
                        except Exception:
                            res["checks"][c] = "caught with failing input"
            finally:
                subprocess.check_call(["git", "-C", "/repo", "checkout", "--", "."])
        json.dump(res, open(outp, "w"), indent=1)
        print(pid, m, res, flush=True)
