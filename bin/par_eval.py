#!/usr/bin/env python3
"""par_eval.py <wtroot> <workers> <ID-m> [<ID-m> ...]: evaluate confirmed seeded changes in PARALLEL, each worker in
its own copy of /verif (under /tmp/ev/<k>/verif) against its own scratch worktree of /repo (/tmp/ev/<k>/repo) —
/repo itself and /verif are not touched, so other work can go on. Results go to <wtroot>/eval/<ID>-<m>.json in the
format of eval_mutants.py. The copies are taken from the COMMITTED /verif plus its build caches."""
import sys, os, json, subprocess, re, shutil, threading, queue
VERIF = os.path.dirname(os.path.dirname(os.path.abspath(__file__)))
sys.path.insert(0, os.path.join(VERIF, "bin"))
RELATED = {"C01": ["C01"], "C02": ["C02", "C09"], "C03": ["C03", "C10"], "C04": ["C04", "C09"], "C05": ["C05", "C12", "C11", "C01"], "C06": ["C06", "C01"], "C07": ["C07"],
           "C08": ["C08"], "C09": ["C09", "C04"], "C10": ["C10", "C04", "C01"], "C11": ["C11", "C05", "C12"], "C12": ["C12", "C05", "C06"], "C13": ["C13", "C12", "C05"],
           "C14": ["C14", "C16"], "C15": ["C15"], "C16": ["C16"], "C17": ["C17", "C01"], "C18": ["C18"], "C19": ["C19"], "C20": ["C20"]}


def sh(cmd, **kw):
    return subprocess.run(cmd, stdout=subprocess.PIPE, stderr=subprocess.STDOUT, **kw)


def prepare(k):
    root = os.path.join(os.environ.get("PAR_EVAL_ROOT", "/tmp/ev"), str(k))
    v, rp = f"{root}/verif", f"{root}/repo"
    os.makedirs(root, exist_ok=True)
    if os.path.exists(rp):
        sh(["git", "-C", "/repo", "worktree", "remove", "--force", rp])
    sh(["git", "-C", "/repo", "worktree", "prune"])
    assert sh(["git", "-C", "/repo", "worktree", "add", "--detach", rp, "HEAD"]).returncode == 0
    subprocess.check_call(["rsync", "-a", "--delete", "--exclude", ".git", "--exclude", "evidence", "--exclude", "seeded", "--exclude", "build/scratch*",
                           "--exclude", "build/replay*", VERIF + "/", v + "/"])
    os.makedirs(f"{v}/evidence", exist_ok=True)
    for f, a, b in [(f"{v}/harness/Cargo.toml", 'path = "/repo"', f'path = "{rp}"')]:
        s = open(f).read()
        assert a in s, (f, a)
        open(f, "w").write(s.replace(a, b))
    return v, rp


def worker(k, jobs, wt, lock):
    v, rp = prepare(k)
    env = dict(os.environ, VERIF_REPO=rp, VERIF_NO_EVIDENCE="1", CARGO_NET_OFFLINE="true")
    while True:
        try:
            pid, m = jobs.get_nowait()
        except queue.Empty:
            return
        md = os.path.join(wt, pid + ".out", m)
        res = {"confirmed": True, "checks": {}}
        sh(["git", "-C", rp, "checkout", "--", "."])
        p = sh(["git", "-C", rp, "apply", os.path.join(md, "patch.diff")])
        if p.returncode != 0:
            res["checks"] = {"apply": p.stdout.decode()[-300:]}
        else:
            for c in ([pid] if os.environ.get("PAR_EVAL_OWN_ONLY") else RELATED.get(pid, [pid])):
                p = sh([os.path.join(v, "bin", "check"), c, os.environ.get("PAR_EVAL_TIER", "quick")], env=env)
                out = p.stdout.decode("utf-8", "replace")
                vl = [l for l in out.split("\n") if l.startswith("VIOLATION")]
                if not vl:
                    res["checks"][c] = "missed" if p.returncode == 0 else f"exit {p.returncode}: {out[-300:]}"
                elif "no-failing-input-found" in vl[0]:
                    res["checks"][c] = "caught (model tie broken, no failing input found)"
                else:
                    rpth = re.search(r"replay=(\S+)", vl[0]).group(1)
                    try:
                        r = json.load(open(rpth)); res["checks"][c] = f"caught with failing input ({r.get('stream')})"
                    except Exception:
                        res["checks"][c] = "caught with failing input"
        sh(["git", "-C", rp, "checkout", "--", "."])
        json.dump(res, open(os.path.join(wt, "eval", f"{pid}-{m}.json"), "w"), indent=1)
        with lock:
            print(pid, m, res, flush=True)


if __name__ == "__main__":
    wt, nw = sys.argv[1], int(sys.argv[2])
    os.makedirs(os.path.join(wt, "eval"), exist_ok=True)
    jobs = queue.Queue()
    for a in sys.argv[3:]:
        pid, m = a.split("-")
        jobs.put((pid, m))
    lock = threading.Lock()
    ts = [threading.Thread(target=worker, args=(k, jobs, wt, lock)) for k in range(nw)]
    for t in ts:
        t.start()
    for t in ts:
        t.join()
