#!/bin/sh
# run every claimed check (quick by default) on the current tree; used to refresh the evidence files
tier="${1:-quick}"
cd "$(dirname "$0")/.."
for id in $(python3 -c "import sys; sys.path.insert(0,'bin'); import config; print(' '.join(sorted(config.PROPS)))"); do
  bin/check "$id" "$tier" 2>&1 | tail -2
done
