"""Per-property configuration of bin/check: the Lean module with the property theorems, the
theorems whose axioms are audited, and the correspondence / oracle streams."""

ALLOWED_AXIOMS = {"propext", "Classical.choice", "Quot.sound"}

TRUSTED_BASE = [
    "Lean 4.33 kernel; axioms allowed in property theorems: propext, Classical.choice, Quot.sound (audited by #print axioms on every run)",
    "the hand-written Lean model is tied to /repo's current tree only by the correspondence streams of this run (generators + canonicalisation in /verif/harness and bin/clistreams.py)",
    "bin/gen_constants.py (constants re-extracted from the Rust sources on every run)",
    "not modelled: i32/u32 overflow (harness builds with overflow-checks), f32 semantics (native Float32 in the driver, abstract in proofs), serde_json/clap/chrono, std Mutex/Condvar semantics (replaced by the scheduler shim in harness builds)",
]

PROPS = {
    "C01": {
        "module": "Cdecao.Props.C01",
        "extra_modules": ["Cdecao.Props.EngineTie"],
        "theorems": ["Props.C01", "Props.C01_node", "Props.C01_valid", "Props.C01_C08_cde"],
        "streams": ["node", "node-rooms", "solve", "cdedb-read", "e2e-cde", "cli-simple", "node-exhaustive", "simple-read"],
    },
    "C02": {
        "module": "Cdecao.Props.C02",
        "extra_modules": ["Cdecao.Props.EngineTie", "Cdecao.Props.PanicTie"],
        "theorems": ["Props.C02_node_bound", "Props.C02_node_mono", "Props.C02_cover", "Props.C02_node_none", "Props.C02_feas_in_sol",
                     "Props.C02_feas_optimal", "Props.C02_wrong_empty", "Props.C02_compose", "Props.C02_partial", "Props.noFreeableb_sound", "Props.C02_full_counterexample", "Props.F1_root", "Props.F1_enforce", "Props.F1_cancel"],
        "streams": ["solve-norooms", "node-norooms", "hungarian", "engine", "cli-simple", "node-exhaustive", "hungarian-exhaustive"],
    },
    "C03": {
        "module": "Cdecao.Props.C03",
        "extra_modules": ["Cdecao.Props.EngineTie", "Cdecao.Props.MainC03", "Cdecao.Props.PanicTie"],
        "theorems": ["Props.C03", "Props.C03_bounded_of_spec", "Props.C03_caobab", "Props.C03_F11_not_bounded", "Props.F11_root", "Props.F11_enforce2", "Props.F11_enforce2_cancel0"],
        "streams": ["engine", "solve", "solve-rooms", "engine-exhaustive", "cli-simple"],
    },
    "C04": {
        "module": "Cdecao.Props.C04",
        "extra_modules": ["Cdecao.Props.EngineTie", "Cdecao.Props.PanicTie"],
        "theorems": ["Props.C04_no_deadlock", "Props.C04_done_means_finished", "Props.C04_stats_step", "Props.C04_bounded_work",
                     "Props.C04_stats_reach", "Props.C04_panicked", "Props.C04_stats_at_done", "Props.C04_stats_at_finished", "Props.C04_done_absorbing", "Props.C04_join",
                     "Props.C04_caobab_wf", "Props.C04_caobab_budget", "Props.C04_caobab_run_bound", "Props.C04_caobab_gen_bound",
                     "Props.C04_terminates", "Props.C04_terminates_maximal", "Props.C04_terminates_infinite", "Props.C04_terminates_spurious",
                     "Props.C04_terminates_optimal", "Props.C04_caobab_terminates", "Props.C04_caobab_no_infinite_run"],
        "streams": ["engine", "solve", "engine-exhaustive", "node", "node-rooms", "node-exhaustive", "cli-simple"],
    },
    "C05": {
        "module": "Cdecao.Props.C05",
        "extra_modules": ["Cdecao.Props.C05E2E", "Cdecao.Props.Main"],
        "theorems": ["Props.C05_regs", "Props.C05_courses", "Props.C05_no_cancelled_assignment", "Props.C05_consistent", "Props.C05_consistent_anyKeys",
                     "Props.C05_end_to_end", "Props.C05_end_to_end_anyKeys", "Props.C05_total_end_to_end", "Props.C05_total_from_start", "Props.cde_finished_done"],
        "streams": ["e2e-cde", "cdedb-read", "node", "node-rooms"],
    },
    "C06": {
        "module": "Cdecao.Props.C06",
        "extra_modules": ["Cdecao.Props.EngineTie", "Cdecao.Props.C18E2E", "Cdecao.Props.Main"],
        "theorems": ["Props.C06", "Props.C06_node", "Props.C06_exec"],
        "streams": ["node-rooms", "solve-rooms", "e2e-cde", "cli-simple", "node-exhaustive"],
    },
    "C07": {
        "module": "Cdecao.Props.C07",
        "theorems": ["Props.C07_partial", "Props.C07_total", "Props.C07_exec", "Props.C07_i32", "Props.C07_i32_conv", "Props.C07_i32_eq", "Props.C07_i32_caobab",
                     "Props.C07_i32_partial", "Props.C07_i32_total"],
        "streams": ["hungarian", "hungarian-exhaustive"],
    },
    "C08": {
        "module": "Cdecao.Props.C08",
        "extra_modules": ["Cdecao.Props.EngineTie", "Cdecao.Props.C08Assign"],
        "theorems": ["Props.C08_score", "Props.C08_score_valid", "Props.C08_max_ge", "Props.C08_quality_identity", "Props.C08_quality_lack",
                     "Props.C08_combined", "Props.C08_quality_max", "Props.C08_quality_engine", "Props.C01_C08_cde",
                     "Props.C08_assignment_quality", "Props.C08_assignment_quality_shape", "Props.C08_assignment_quality_needs_nodup"],
        "streams": ["node", "node-rooms", "solve", "solve-rooms", "cli-simple", "e2e-cde", "node-exhaustive", "simple-read"],
    },
    "C09": {
        "module": "Cdecao.Props.C09",
        "extra_modules": ["Cdecao.Props.EngineTie", "Cdecao.Props.PanicTie"],
        "theorems": ["Props.C09", "Props.C09_none_iff"],
        "streams": ["engine", "engine-exhaustive"],
    },
    "C10": {
        "module": "Cdecao.Props.C10",
        "extra_modules": ["Cdecao.Props.Main", "Cdecao.Props.PanicTie", "Cdecao.Props.MainE2E", "Cdecao.Props.C10U32", "Cdecao.Props.EngineTie"],
        "theorems": ["Props.main_simple_total", "Props.main_cde_total", "Props.panic_sites_tie", "Props.C10_node", "Props.C10_tree", "Props.C10_cli", "Props.C10_cde", "Props.C10_main", "Props.C10_main_threads", "Props.main_skeleton_tie"],
        "streams": ["node", "node-rooms", "solve", "cli-simple", "cli-main", "node-exhaustive", "simple-read"],
    },
    "C11": {
        "module": "Cdecao.Props.C11",
        "extra_modules": ["Cdecao.Props.C05E2E", "Cdecao.Props.Main"],
        "theorems": ["Props.C11_max", "Props.C11_min", "Props.C11_min_le_max", "Props.C11_fixed", "Props.C11_fixed_written", "Props.C11_consistent", "Props.C11_end_to_end"],
        "streams": ["cdedb-read", "e2e-cde", "node", "node-rooms"],
    },
    "C12": {
        "module": "Cdecao.Props.C12",
        "theorems": ["Props.C12_loop", "Props.C12_refuse_kind", "Props.C12_refuse_version", "Props.C12_defaults"],
        "streams": ["cdedb-read"],
    },
    "C13": {
        "module": "Cdecao.Props.C13",
        "extra_modules": ["Cdecao.Props.C13OneWorker", "Cdecao.Props.C13E2E", "Cdecao.Props.Main"],
        "theorems": ["Props.C13_read", "Props.C13_toplevel", "Props.C13_one_worker_step", "Props.C13_one_worker_never_waits", "Props.C13_one_worker_outcome"],
        "streams": ["cdedb-pairs", "e2e-cde"],
    },
    "C14": {
        "module": "Cdecao.Props.C14",
        "extra_modules": ["Cdecao.Props.Main", "Cdecao.Props.C14Shape"],
        "theorems": ["Props.C14_entries", "Props.C14_entries_sorted", "Props.C14_array"],
        "streams": ["cli-simple", "simple-read"],
    },
    "C15": {
        "module": "Cdecao.Props.C15",
        "extra_modules": ["Cdecao.Props.Main", "Cdecao.Props.PanicTie"],
        "theorems": ["Props.panic_sites_tie", "Props.main_skeleton_tie", "Props.C15_main_refused", "Props.main_front_codes", "Props.C15_main_simple", "Props.C15_main_cde", "Props.C15_accept_sound", "Props.C15_missing_member", "Props.C15_rooms_str", "Props.C15_rooms_str_refuse", "Props.C15_rooms_file",
                     "Props.C15_rooms_file_refuse", "Props.C15_rooms_kind", "Props.splitComma_spec", "Props.parseUsize_shape"],
        "streams": ["cli-malformed", "cdedb-read", "cli-main", "simple-read"],
    },
    "C16": {
        "module": "Cdecao.Props.C16",
        "extra_modules": ["Cdecao.Props.Main"],
        "theorems": ["Props.C16", "Props.C16_faults", "Props.C16_main", "Props.C16_main_faults", "Props.main_skeleton_tie"],
        "streams": ["cli-fault", "cli-simple"],
    },
    "C17": {
        "module": "Cdecao.Props.C17",
        "extra_modules": ["Cdecao.Props.EngineTie"],
        "theorems": ["Props.C17_rooms_le_opt", "Props.C17_rooms_nonbinding", "Props.C17_rooms_nonbinding_search"],
        "streams": ["roompairs", "solve-rooms", "node-rooms", "simple-read"],
    },
    "C18": {
        "module": "Cdecao.Props.C18",
        "extra_modules": ["Cdecao.Props.C18E2E", "Cdecao.Props.Main"],
        "theorems": ["Props.C18_sound", "Props.C18_nonempty", "Props.C18_dedup"],
        "streams": ["rooms", "cli-simple", "e2e-cde"],
    },
    "C19": {
        "module": "Cdecao.Props.C19",
        "extra_modules": ["Cdecao.Props.EngineTie", "Cdecao.Props.PanicTie", "Cdecao.Props.Main"],
        "theorems": ["Props.C19_no_hang", "Props.C19_bounded_work", "Props.C19_dead_absorbing", "Props.C19_failure_reported", "Props.C19_join_not_stuck",
                     "Props.C19_outcome_final", "Props.C19_panicked_pos", "Props.C19_terminates", "Props.C19_terminates_dead", "Props.C19_terminates_dying",
                     "Props.C19_terminates_verdict", "Props.C19_terminates_no_panic"],
        "streams": ["engine-fault", "engine-exhaustive"],
    },
    "C20": {
        "module": "Cdecao.Props.C20",
        "theorems": ["Props.C20_binom", "Props.C20_selections", "Props.C20_stops", "Props.C20_empty", "Props.C20_size_hint"],
        "streams": ["selections"],
    },
}

NOT_APPLICABLE = {}

_ENG = "bab.rs is modelled as the transition system Eng3.step? (micro-steps of the worker loop); real executions are serialised by the scheduler shim and replayed event by event through step? (trace inclusion). Structural part of the tie (Props.engine_sync_tie): the synchronisation skeleton of bab.rs — the fields of SharedState, the imported primitives, the order of lock / wait / notify_one / notify_all / spawn / join / catch_unwind in the source, and the absence of any other primitive (atomics, second lock, timed wait, unsafe) — is re-extracted on every run and must equal the skeleton the model was written against, because the shim switches threads only at lock, wait and join and could not exhibit an interleaving inside a lock-free path. Trusted: std Mutex/Condvar semantics, purity of the node solver."
_NODE = "run_bab_node / hungarian_algorithm are modelled by N2.runNodeS / H2.run; every node of the real search trees of generated instances is compared (kind, score, assignment, exact child lists, panics)."

LEVELS = {
    "C01": {"text": "Theorem Props.C01: for every well-formed instance, room list, float behaviour, thread count and schedule the incumbent of the engine model (hence the returned assignment) satisfies HardOK; no hypothesis on matching or tree. Props.C01_C08_cde: the same for every problem the CdE reader model accepts (reader ∘ solver). Tie to the code: node-by-node and trace-by-trace correspondence, exact correspondence of the CdE reader (the problem the solver gets on the CdE path), plus HardOK evaluated in Lean on every assignment the real code returns — in-process, through the real binary on simple-format instances, and end to end on CdE exports (decoded from the import file, on the problem the Lean reader model builds from the same export and options).",
            "note": _NODE + " " + _ENG + " InstOK (indices in range, each participant instructs at most one course) is the validity premise."},
    "C02": {"text": "Full statement is false for the code — Props.C02_full_counterexample proves it of the model on the 2-course witness with the three node results evaluated by the kernel, and the check replays the witness on the real code on every run (known finding F1, class: a participant with own choices instructs a non-fixed course). In the complement class Props.C02_partial is proved end to end: for every valid instance (decidable validb) without room list in which no participant with own choices instructs a non-fixed course (decidable noFreeableb), every T >= 1 and schedule, the finished search reports nothing only if no assignment satisfies the hard constraints, and otherwise an assignment satisfying them whose reported score is its documented score and is maximal. Real runs without rooms are compared with an exact brute-force optimum (<= 4 courses, <= 7 participants); a miss is the known finding only if the instance is in the F1 class AND the model of the unchanged algorithm gives the same answer; anything else is a violation.",
            "note": _NODE + " " + _ENG + " Partial with respect to the full property: inside the F1 class the property is false of the code (known finding), the theorem covers the complement."},
    "C17": {"text": "Theorem Props.C17_rooms_le_opt: with any room list the reported score is the documented score of an assignment satisfying the hard constraints, hence at most any upper bound of the room-free optimum (all T, schedules). Props.C17_rooms_nonbinding: with a room list that cannot bind (every room among the I.C largest at least as large as any course can become, R.eff c n for n <= num_max + #instructors — no monotonicity of the float formula needed) every node result equals the one without room list; C17_rooms_nonbinding_search lifts it to identical reachable engine configurations for every thread count and schedule. Paired real runs (identical verdict, score and node-by-node identical search trees) and the brute-force optimum tie it to the code.",
            "note": _NODE + " The effective size is the documented formula as evaluated in f32 (the paired-run generator includes the f32/f64 corner)."},
    "C03": {"text": "Program level (Props/MainC03.lean): front_threads_irrelevant (the worker count reaches only Problem.threads; document, room list and kinds are the same), front_refusal_threads_irrelevant, main_simple_threads_irrelevant / main_cde_threads_irrelevant (valid instance outside the class of F11, rooms allowed: two finished searches with any two positive worker counts — option or CPU count — and any schedules agree on verdict and score, and the program exits with the same status). Structural ties: synchronisation skeleton of bab.rs incl. the types of the shared fields, and the wiring of caobab::solve (Props.solve_wiring_tie: the node solver handed to the engine is run_bab_node on the precomputed problem, the worker count goes to bab::solve only). Theorem Props.C03: two finished runs of the engine model on a bounded tree agree on found/score for all thread counts and schedules. Props.C03_caobab discharges the premise for the caobab node solver (valid instances outside the F1 class, with or without rooms, any float behaviour); inside the F1 class the property is FALSE of the code (known finding F11: a child's relaxation can exceed its parent's, so the score depends on the schedule; Props.C03_F11_not_bounded proves `¬ Bounded` of the model on a 3-course witness with the node results evaluated by the kernel, and the witness is replayed on the real code under seeded schedules on every run); a schedule-dependent verdict is the known finding only if the instance is in the class AND the model's own tree is not Bounded; anything else is a violation.",
            "note": _ENG + " Partial only inside the F1 class (instructors with own choices of non-fixed courses), where `Bounded` is not proved."},
    "C04": {"text": "Theorems Props.C04_no_deadlock, C04_done_means_finished, C04_stats_step, C04_bounded_work C04_exactly_once_at_done (ghost history: at AllDone the multiset of generated subproblems = solved ⊎ bounded, none twice, none lost, and the counters are the lengths), C04_run_bound_init (a run from init with at most s wake events has at most W root + 3T + 3(T² + s) non-wake events) and C04_stats_at_done (at AllDone: executed = no-solution + infeasible + feasible and generated = executed + bound, for every reachable run of the product system), C04_done_absorbing, over the engine model; the budget hypothesis is discharged for caobab by C04_caobab_wf / C04_caobab_budget / C04_caobab_run_bound / C04_caobab_gen_bound (for EVERY instance and room arithmetic the child relation of run_bab_node's model is well-founded, treeSize is defined by well-founded recursion, 5·treeSize is a budget, every run has at most 5·treeSize + 3T + 3(T²+s) non-wake events and generates at most treeSize subproblems); TERMINATION (Engine/Terminate.lean): C04_terminates (from every reachable configuration some wake-free continuation finishes within the bound and EVERY wake-free continuation extends to a finishing one within the same bound — no scheduler choice among non-wake events avoids termination), C04_terminates_maximal (a run can only stop when all workers have stopped), C04_terminates_infinite / C04_terminates_spurious (an infinite run contains infinitely many wake-ups, and — with notify_one-caused wake-ups counted by a ghost layer and bounded by the number of generated subproblems — infinitely many SPURIOUS ones), C04_terminates_optimal (the finishing configuration holds an optimal incumbent), C04_caobab_terminates / C04_caobab_no_infinite_run (the same for caobab::solve with no hypothesis on the instance); all T >= 1 and schedules incl. spurious wake-ups; every real run under the shim is replayed through the model with all six counters compared, and the shim's deadlock detector and step budget watch the real code.",
            "note": _ENG},
    "C05": {"text": "Props.C05_end_to_end (Props/C05E2E.lean; reader ∘ SOLVER ∘ writer with no hypothesis on the assignment: for every export the reader accepts (choice lists ≤ 50001 entries, course keys distinct as numbers), every room list and float behaviour, every thread count, schedule and reachable configuration of the search, the file written from the incumbent satisfies the clauses below), C05_total_end_to_end / C05_total_from_start (the run terminates within 5·treeSize + 3T + 3(T²+s) steps, no worker dies, and the incumbent at the end — if any — gives a consistent file). Props.C05_consistent (assembled: reader ∘ any HardOK assignment ∘ writer): for every export the reader accepts and every assignment satisfying the hard constraints of the problem that was read, the written registrations/courses objects name only registrations of the export with status participant in the selected part (never an ignored pre-assigned one) and only courses offered in the selected track (not ignored-cancelled), the assigned course is written as taking place and was chosen or is instructed per the EXPORT's choice list, every course written as taking place has min_size <= new + ignored attendees and (new = 0 or new + ignored <= max_size) in terms of the export's sizes with defaults, and nobody is assigned to a course written as cancelled. HardOK of the solver's output is C01 (Props.C01_C08_cde for the CdE path). Writer theorems Props.C05_regs / C05_courses / C05_no_cancelled_assignment over the model of io::cdedb::write; end to end through the REAL binary: generated exports x option combinations -> import file -> (a) independent reference model of the partial import + the clauses of C05 in database ids (Python), (b) the Lean models: reader (CD.read), decoded assignment, writer equality, HardOK and RoomOK evaluated by the driver on the problem the model reads.",
            "note": "io/cdedb.rs reader and writer are modelled by CD.read / CD.writeRegs / CD.writeCourses from the serde_json value on (bytes -> value is serde_json's). Distinctness of the course keys as parsed numbers (`NodupKeys`, e.g. no keys 7 and 07) is a hypothesis of clause (e) and of the by-key counts; the real database never produces such keys."},
    "C06": {"text": "Theorem Props.C06: under a room list the incumbent's effective sizes, sorted descending, fit the descending room list rank by rank, for every eff function (no float reasoning), every T and schedule. RoomOK is also evaluated in Lean (native Float32) on every assignment the real code returns with rooms, in-process and end to end through the real binary on CdE exports with --rooms / --rooms-file and the room factor / offset field options (the problem is the one the Lean reader model builds from the same export and options, so a slip in the CLI glue between option and reader shows as a room violation).",
            "note": _NODE + " The effective size is the documented formula as evaluated in f32."},
    "C07": {"text": "Theorems Props.C07_partial (perfect matching, score = weight, optimal) and C07_total (returns whenever a constrained perfect matching exists) about H2.run, all sizes/weights/masks; i32 ARITHMETIC: H2B.run B (Model/HungarianI32.lean) is the same routine with every intermediate value (label sums, deltas, new labels, partial score sums, the LARGE_LABEL sentinel) range-checked against [-B, B); Props.C07_i32 / C07_i32_eq: for weights in [0, W] with (2·ny + 2)·W + 1 < B the checked routine returns exactly what the unbounded model returns (label bounds lx ∈ [−2·ny·W, W], ly ∈ [0, (2·ny+1)·W] by the alternating-tree telescoping argument), C07_i32_conv (the checked routine never returns anything else), C07_i32_caobab (B = 2^31, W = 50000: agreement for every matrix with up to 10 000 rows/columns — no i32 overflow in anything caobab can build), C07_i32_partial / C07_i32_total (optimality and totality restated for the checked routine). Exact correspondence (matching array and score) of BOTH models with the real routine (built with overflow checks) on random matrices incl. 64–100 column caobab-shaped ones, column-major layout, and weights up to 2^29 compared with the range-checked model; Perfect/weight evaluated in Lean on the real output, brute-force optimum for <= 9 rows.",
            "note": "hungarian.rs is modelled by H2.run (unbounded integers, same iteration and tie-breaking) and by H2B.run (i32 range-checked). The score is checked against the signed range although the Rust type is u32 (stricter; irrelevant below 2^31)."},
    "C08": {"text": "Theorem Props.C08_score: the stored best score equals the documented score of the incumbent (all T, schedules, room lists). Props.C08_max_ge (theoretical maximum >= score, no hypothesis), C08_quality_lack / C08_quality_identity (score + total penalty = #participants-with-choices x 50000, so the reported lack is the mean penalty, instructors counting zero), C08_combined (overall quality with the external data), C08_quality_engine (lifted to the incumbent of the search). The real binary's quality object and summary are compared bit-exactly (f32) with the model's exact fractions; the external rank of ignored pre-assigned attendees is part of the exact reader correspondence.",
            "note": _NODE + " InstOK2 adds: no instructor listed twice (both readers guarantee it), penalties <= 50000."},
    "C09": {"text": "Theorems Props.C09 / C09_none_iff: for arbitrary node solvers with Bounded trees, every T >= 1 and schedule, the finished engine holds a solution of maximal score, or none iff the tree has no feasible node. Real runs on random synthetic trees under seeded schedules are replayed through the model and compared with the max leaf.",
            "note": _ENG},
    "C10": {"text": "Theorems Props.C10_node / C10_tree: no panic site of run_bab_node (11 sites + the Hungarian routine's own) is reachable at any node of the search tree of a well-formed instance with num_min <= num_max. Score arithmetic (Props/C10U32.lean): C10_scores_fit_u32 — for a valid instance with (places + participants)·50000 < 2^32 every score the node solver returns, every queue entry and the incumbent score of every reachable engine configuration is below 2^32 (the u32 `Score` cannot overflow), C10_quality_fits(_valid) — the theoretical maximum and every assignment score are at most (participants with choices)·50000, so the usize subtraction of the quality figures cannot underflow. Program level: Props.C10_main (a run that reaches the solver ends, without output faults, with status 0 and a complete file or status 1 and no file touched), C10_main_threads (never zero workers). main.rs as a whole is modelled (Model/Main.lean: MainM.front = every stage before the solver with its exit status, MainM.run = the program as a function of options, environment, solver verdict and output faults); the stage order of main.rs and its command-line definition (clap builder chains per argument, help texts stripped) are re-extracted from the source on every run (Props.main_skeleton_tie, Props.main_clap_tie) and the stream cli-main runs option/environment/document combinations with zero to three things wrong at once through the real binary against MainM.front (exit status, or the participant/course counts logged before the solver).",
            "note": _NODE + " f32 behaviour is a parameter (after fix F9 totality needs no float property)."},
    "C11": {"text": "Props.C11_end_to_end (reader ∘ solver ∘ writer: the clauses below hold for the file written from the incumbent of every reachable configuration of the search on every accepted export, all room lists, thread counts and schedules). Props.C11_consistent (assembled): ignored pre-assigned registrations are never named in the file; a course with ignored people is fixed, treated as taking place and written active; original minimum met and original maximum respected counting both groups (ignoredCount defined on the EXPORT); with --ignore-cancelled no cancelled course of the track appears in the file at all. Arithmetic and writer theorems about adapt_course_for_invisible_participants (places reserved: max counting pre-assigned, min counting both groups, course fixed, fixed course written active) + exact correspondence of the reader (incl. invisible counts, hidden names, external quality data) on generated exports with arbitrary existing assignments, all four option combinations, and the end-to-end consistency oracle with both-groups counts through the real binary.",
            "note": "Model CD.read/CD.adapt; the room offset change is applied natively (f32) by the driver. Room fitting with both groups rests on the offset correspondence (f32) and C06."},
    "C12": {"text": "Theorems Props.C12_read (assembled characterisation of CD.read: participants = the registrations of the selected part with status participant, not ignored, having a valid choice or instructing a kept course, in key order; courses = offered (and not ignored) ones, stably sorted by the padded number; instructor indices point at the instructing registration), C12_choices (penalty = position in the ORIGINAL list, skipped courses leave gaps), C12_courses, refusals (kind, version, no track, two tracks unselected, unknown track), defaults from the re-extracted constants; exact correspondence of CD.read with io::cdedb::read (courses, participants, choices/penalties, sizes, f32 factor/offset bits, ambience data, Ok/Err) on generated exports incl. single-field corruptions; an independent declarative re-statement (Python) as oracle.",
            "note": "Model starts at the serde_json value; timestamp syntax by a simplified recogniser exact on the generator's domain; object keys are read as `u64::from_str` does (optional plus sign, leading zeros; generated)."},
    "C13": {"text": "Theorem Props.C13_read (non-interference of the reader): two export values that agree on kind/version/timestamp/event/id and whose course and registration records agree on the views the reader consults (status of the selected part, the two names, course_id/course_instructor/choices of the selected track, segments[track], nr, shortname, sizes, fields) — and, without --ignore-assigned, differ arbitrarily in course_id among known ids, without --ignore-cancelled in the true/false value of the selected track's segment — give the SAME reader result (problem, ambience data or refusal). After the reader (Props/C13OneWorker.lean, on the engine transition system): with one worker the worker never waits (C13_one_worker_never_waits: no wake-up choice, no spurious wake-up), two enabled events lead to the same configuration unless they pop different pending entries (C13_one_worker_step), and for any fixed behaviour of the priority queue (a function of the configurations visited so far) two complete runs end in the same configuration, same incumbent and score (C13_one_worker_outcome); composed (Props/C13E2E.lean) C13_end_to_end: agreeing exports are refused alike or give, for every room list, float behaviour and fixed queue behaviour, complete one-worker runs with the same verdict, score and written registrations / courses objects; trusted: std BinaryHeap and the node solver are functions of their inputs. Pairs of exports (1-10 irrelevant edits of 9 kinds) go through the in-process reader and, with one worker, through the real binary (files compared after stripping timestamps).",
            "note": "Model CD.read; the relation Agree is phrased by equality of views, the nested set-a-member corollaries are covered by congruence lemmas and a worked example. Determinism of the engine with one worker given the same problem is by the engine model being a function of the pop policy (BinaryHeap order is deterministic for equal inputs; trusted)."},
    "C14": {"text": "Shape theorems (Props/C14Shape.lean): C14_read_shape / _complete / _all_or_nothing (SM.read gives ONE problem entry per document entry IN DOCUMENT ORDER, or refuses the whole document), C14_part_fields / C14_course_fields (name, sizes, choices, hidden names — exactly the document's list —, fixed flag and room numbers are the document's members; the instructor list is the order-preserving de-duplication: C14_dedup_nodup / _mem / _sublist / _first_occurrences), C14_render_blocks / C14_block (the printed listing is one block per course in course order; the count of block c is the number of participants the array assigns to c plus the number of its hidden names; its entries are exactly LM.entries; hidden names listed exactly and in order), C14_simple_listing, C14_simple_end_to_end (reader ∘ search: the assignment array of whatever is reported has one entry per participant of the DOCUMENT, each null or an index into the document's course list). Theorems Props.C14_entries / C14_entries_sorted (the listing of a course = exactly the participants assigned to it, in order, flagged iff instructor) and C14_array (one entry per participant, null or valid index, all T and schedules); the real binary's --print output is compared byte for byte with the Lean rendering LM.render, and the output file's array/keys are checked, incl. hidden names, non-ASCII names and a stale longer output file.",
            "note": "io.rs format_assignment is modelled by LM.render; the possible-rooms strings are taken from the real output and checked by C18."},
    "C15": {"text": "Theorem Props.C15_accept_sound: whatever the simple-format reader + validation accepts is an instance with all indices in range, num_min <= num_max and at least one participant (the premises of the solver's totality theorem C10); the real binary is run on single-field corruptions of valid simple and CdE documents, bad option values and raw garbage: exit status in {64,65,66,2}, no 'panicked', no output file; accept/refuse is compared with the Lean models SM.accepts and CD.read. The two room inputs are modelled too (RI.parseRoomsStr for --rooms, RI.kindsOf for --rooms-file, from the JSON value on): theorems C15_rooms_str / C15_rooms_str_refuse / C15_rooms_file / C15_rooms_file_refuse / C15_rooms_kind (all-or-nothing: accepted ⇒ one entry per item, each the reading of that item and within usize; one bad item refuses the whole input; the split loses or merges nothing, splitComma_spec) and accept/refuse correspondence with the real binary on 20 kinds of string deviations and 24 kinds of file deviations. Program level: Props.C15_main_refused (a run refused before the solver ends with 64/65/66, the solver is not called, no output file is created or touched, nothing is printed), main_front_codes, C15_main_zero_threads / _both_rooms / _rooms_unparsable / _rooms_file_bad / _input_bad / _simple_refused / _cde_refused (each kind of malformed input the property names is refused), C15_main_simple / C15_main_cde (what reaches the solver is exactly what the reader models accept), main_cde_consistent. main.rs as a whole is modelled (Model/Main.lean: MainM.front = every stage before the solver with its exit status, MainM.run = the program as a function of options, environment, solver verdict and output faults); the stage order of main.rs and its command-line definition (clap builder chains per argument, help texts stripped) are re-extracted from the source on every run (Props.main_skeleton_tie, Props.main_clap_tie) and the stream cli-main runs option/environment/document combinations with zero to three things wrong at once through the real binary against MainM.front (exit status, or the participant/course counts logged before the solver).",
            "note": "From the JSON value on; bytes -> value (serde_json), option parsing (clap) are only enumerated. The rooms file goes through serde's derived visitor, whose positional (array of exactly three) form of a room kind is modelled and generated; duplicate member names inside one JSON object are not generated."},
    "C16": {"text": "Theorems Props.C16 / C16_faults about the output stage's decision logic; the fault matrix {ok, ENOENT, EISDIR, ENAMETOOLONG, ENOTDIR, /dev/full, RLIMIT_FSIZE partial write, stale longer file} x {simple, cde} x {--print} is run exhaustively on the real binary and compared with the model (exit status, listing still printed, file complete iff exit 0). Program level: Props.C16_main (status 0 with an output path ⇒ solver ran, file created and written completely), C16_main_faults. main.rs as a whole is modelled (Model/Main.lean: MainM.front = every stage before the solver with its exit status, MainM.run = the program as a function of options, environment, solver verdict and output faults); the stage order of main.rs and its command-line definition (clap builder chains per argument, help texts stripped) are re-extracted from the source on every run (Props.main_skeleton_tie, Props.main_clap_tie) and the stream cli-main runs option/environment/document combinations with zero to three things wrong at once through the real binary against MainM.front (exit status, or the participant/course counts logged before the solver).",
            "note": "Runtime behaviour (which errno, short writes) cannot be exhibited by the model: proof of the decision logic + fault enumeration (partial by nature). Running as root, a read-only directory is not a fault."},
    "C18": {"text": "End to end (Props/C18E2E.lean): C18_end_to_end / C18_end_to_end_meaning — whatever the parallel search REPORTS under a room list (any thread count, schedule, float behaviour) passes the room check (C06_exec), the room check implies the premise of the listing theorems (roomOKb_fits), hence every room listed for a course of a reported solution is large enough, exists and occurs in a complete allocation of distinct rooms, and every course that takes place is offered a room. Theorems Props.C18_sound / C18_nonempty / C18_dedup for the double loop RS.possible under ANY sorting permutation of equally sized courses; exact correspondence (strings) of get_course_room_size_list / get_course_room_kind_names with the Lean model given the rank order the real unstable sort produced, on room-feasible assignments with shuffled room lists, duplicate capacities, fewer/more rooms than courses, quantity-0 kinds; the executable specification (usable room = large enough + remaining courses still fit) is evaluated on every listing, also on the real binary's --print output.",
            "note": "io/rooms.rs is modelled by RS.possible / RM.possibleByCourse / RM.kindNames / RM.readKinds (exact strings under the rank order the real unstable sort produced). 'A course that takes place' is read as 'a course with positive effective size' in the non-emptiness clause (DESIGN §7 C18: with fewer rooms than courses the unchanged code lists nothing for a zero-size course, rightly)."},
    "C19": {"text": "Theorems Props.C19_no_hang / C19_bounded_work: with panicking node solvers anywhere in the tree, all T >= 1 and schedules, some non-wake step is enabled until every worker is done or dead. Props.C19_failure_reported: once a worker is dead it stays dead, the join loop of bab::solve (modelled by `outcome`) can never report success, the system is not stuck before everybody finished, and at AllFinished the join loop reports the failure. Props.C19_terminates / C19_terminates_dead / C19_terminates_dying / C19_terminates_verdict: with failing subproblems anywhere, every wake-free continuation extends within W root + 3T + 3(T²+s) steps to a configuration in which every worker has stopped, and if some worker is dying or dead the join loop there panics (outcome = some true): the search fails, it does not hang; C19_terminates_no_panic: without a panicking subproblem no worker is ever lost. Real runs with one failing node at random positions under seeded schedules: no deadlock, panic propagated, trace replays through the model.",
            "note": _ENG + " Termination is proved for every schedule with finitely many spurious wake-ups (an infinite run needs infinitely many of them); that the OS eventually schedules an enabled thread (weak fairness) is trusted."},
    "C20": {"text": "Theorems Props.C20_*: binom = choose; for 1 <= k <= n exactly choose n k selections, the i-th strictly increasing, below n, of rank i; stops after the last; empty for k = 0 or k > n; size hint exact. All (n,k) with n <= 11 (thorough 18) compared exhaustively with the real iterator.",
            "note": "util.rs is modelled by S.succ/S.iterNext/S.sizeHint/S.binom (recursion on the suffix instead of the in-place loop); the two are tied by the exhaustive stream."},
}
