"""CLI-level streams: the real release binary (feature off) on generated documents."""
STREAMS = {}

def run(stream, seed, tier, binary, workdir, corpus, replay_case=None):
    raise RuntimeError("unknown cli stream " + stream)
