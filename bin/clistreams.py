"""Streams driven from Python: generated CdE exports / simple instances / malformed documents / output
faults, run through the real release binary (feature off) or through the in-process runner of the
harness (`vharness cdedb-read`). Every random choice derives from random.Random(seed)."""
import json, math, os, random, subprocess, copy, struct, re, shutil, stat, tempfile, hashlib

STREAMS = {"cdedb-read", "cdedb-pairs", "e2e-cde", "cli-simple", "cli-malformed", "cli-fault", "cli-main", "simple-read"}

VERIF = os.path.dirname(os.path.dirname(os.path.abspath(__file__)))
HARNESS_EXE = os.path.join(VERIF, "build", "harness-target", "debug", "vharness")


def scale(tier, q, t):
    return t if tier == "thorough" else q


def line(kind, props, tag="", payload="", expect="", ok=True, what="", nontrivial=True, feat=(), case=0, stream=""):
    return {"stream": stream, "case": case, "kind": kind, "props": list(props), "tag": tag, "payload": payload,
            "expect": expect, "ok": ok, "what": what, "nontrivial": nontrivial, "feat": list(feat)}


def f32(x):
    return struct.unpack("f", struct.pack("f", x))[0]


def f32div(a, b):
    a, b = f32(float(a)), f32(float(b))
    if b == 0:
        return float("nan") if a == 0 else float("inf")
    return f32(a / b)


def feq(x, y):
    import math
    if x is None or y is None:
        return False
    x, y = f32(float(x)), f32(float(y))
    return (math.isnan(x) and math.isnan(y)) or x == y


def quality_matches(what, got):
    """compare the quality figures the program reported (`what`, JSON) with the model's exact fractions"""
    try:
        w = json.loads(what)
        g = dict(kv.split("=") for kv in got.split(" "))
        frac = lambda s: f32div(*map(int, s.split("/")))
        if "q" in w:
            q = w["q"]
            return (q.get("solution_score") == int(g["score"]) and q.get("theoretical_max_score") == int(g["max"])
                    and int(g["max"]) >= int(g["score"])
                    and feq(q.get("solution_quality"), frac(g["sq"])) and feq(q.get("theoretical_max_quality"), frac(g["mq"]))
                    and "overall_quality" not in q)
        return feq(float(w["solution"]), frac(g["sq"])) and feq(float(w["overall"]), frac(g["oq"]))
    except Exception:
        return False


# --------------------------------------------------------------------------------------------------
# generators

NAMES = ["Anton", "Berta", "Çağla", "Dörte", "Émile", "Fatima", "Günther", "Hồ", "Ines", "João", "Καλλιόπη", "李",
         "Jean\u2011Luc", "Rene\u0301", "Zoe\u0308", "Anne\u00a0Marie", "Ой"]
FAMILY = ["Administrator", "Beispiel", "Çelik", "Müller-Lüdenscheidt", "O'Neill", "ß", "Zimmermann", "García", "\"Hansi\" Meier", "Back\\slash", "{Klammer}",
          "D\u2019Arcy", "Meier \u2013 Schulze", "\u00bfQuién?", "\u201eGänse\u201c-Füßchen", "Mustermann, Erika"]
NRS = ["1", "2", "10", "α", "A1", "3b", "11", "Ω-2", "9", "12", "100", "ζ", "1a", "20", "", "07", "7", "0", "0.5", "-1", ".5", " 7", "*", "00"]


def gen_timestamp(r):
    """a timestamp in the canonical RFC 3339 shape, fields at and beyond their limits (which days exist in which
    month of which year, leap seconds, zone offsets); returns the string"""
    y = r.choice([1970, 1999, 2000, 2023, 2024, 2025, 2100, 2400, 0, 9999, r.randint(1900, 2200)])
    mo = r.choice([1, 2, 2, 2, 3, 4, 6, 9, 11, 12, r.randint(1, 12), 0, 13])
    d = r.choice([1, 15, 28, 29, 29, 30, 30, 31, 31, 0, 32, r.randint(1, 28)])
    h = r.choice([0, 12, 23, 23, 24, r.randint(0, 23)])
    mi = r.choice([0, 30, 59, 59, 60, r.randint(0, 59)])
    se = r.choice([0, 30, 59, 59, 60, 60, 61, r.randint(0, 59)])
    frac = r.choice(["", "", ".5", ".906237", ".123456789", ".000", "."])
    zone = r.choice(["Z", "Z", "z", "+00:00", "+01:00", "-05:30", "+23:59", "-23:59", "+24:00", "+01:60", "+14:00", ""])
    sep = r.choice(["T", "T", "T", "t", " "])
    return f"{y:04d}-{mo:02d}-{d:02d}{sep}{h:02d}:{mi:02d}:{se:02d}{frac}{zone}"


def gen_export(r, rich=False, pre=False, many=False):
    """`pre`: many existing assignments (as attendee, as instructor of the same or of another course),
    tight sizes, --ignore-assigned forced"""
    if pre:
        rich = True
    """a partial export + reader options; mostly valid"""
    part_ids = r.sample([1, 2, 3, 10, 20], r.choice([1, 1, 2, 3]))
    track_pool = [1, 2, 3, 5, 10, 11, 100]
    r.shuffle(track_pool)
    parts = {}
    tracks = []
    for pid in part_ids:
        nt = r.choice([0, 1, 1, 1, 2, 3]) if len(part_ids) > 1 else r.choice([1, 1, 1, 2, 3])
        tr = {}
        for _ in range(nt):
            if track_pool:
                t = track_pool.pop()
                tr[str(t)] = {"title": f"Track {t}", "shortname": r.choice(["Morgen", "Kaffee", "Sitzung", "Ü"]) + str(t),
                              "num_choices": r.choice([1, 2, 3, 4]), "min_choices": 1, "sortkey": t}
                tracks.append((pid, t))
        parts[str(pid)] = {"title": f"Part {pid}", "shortname": f"P{pid}", "part_begin": "2222-02-02",
                           "part_end": "2222-02-03", "waitlist_field": None, "tracks": tr}
    if not tracks:
        # make sure there is a track (refusals are generated separately)
        pid = part_ids[0]
        parts[str(pid)]["tracks"]["3"] = {"title": "T3", "shortname": "Sitzung", "num_choices": 3, "min_choices": 1, "sortkey": 1}
        tracks.append((pid, 3))
    sel_part, sel_track = r.choice(tracks)
    all_tracks = [t for _, t in tracks]
    # courses
    ncourses = r.randint(2, 8)
    course_ids = r.sample([1, 2, 3, 4, 5, 6, 7, 8, 9, 10, 11, 12, 100], ncourses)
    if many:
        # many courses, several sharing a number (ties keep the export's key order)
        ncourses = r.randint(21, 34)
        course_ids = r.sample(list(range(1, 60)) + [100, 101, 1000], ncourses)
    courses = {}
    for cid in course_ids:
        segs = {}
        for t in all_tracks:
            x = r.random()
            if t == sel_track:
                if x < 0.7:
                    segs[str(t)] = True
                elif x < 0.88:
                    segs[str(t)] = False
            elif x < 0.6:
                segs[str(t)] = r.random() < 0.8
        c = {"title": f"Kurs {cid}", "description": "…", "nr": (r.choice(["1", "2", "3", "7", "7", "10", "10", "α"]) if many else r.choice(NRS)), "shortname": r.choice(["Heldentum", "Kabarett", "Kurz", "Lang", "Ωmega"]) + str(cid),
             "instructors": "N.N.", "notes": None, "fields": {}, "segments": segs}
        mx = r.choice([None, None, 4, 6, 10, "missing"] if rich else [None, None, 0, 1, 2, 3, 4, 6, 10, "missing"])
        mn = r.choice([None, 0, 0, 1, 2, "missing"] if rich else [None, None, 0, 0, 1, 2, 3, "missing"])
        if pre:
            mx = r.choice([1, 2, 2, 3, 4])
            mn = r.choice([0, 1, 2])
        if mx != "missing":
            c["max_size"] = mx
        if mn != "missing":
            c["min_size"] = mn
        if isinstance(c.get("max_size"), int) and isinstance(c.get("min_size"), int) and c["min_size"] > c["max_size"]:
            c["min_size"] = c["max_size"]
        if r.random() < 0.6:
            c["fields"]["room_factor"] = r.choice([1, 1.5, 2, 2.5, 0.5, 1.2, "big", None, 3, 0, 0.0])
        if r.random() < 0.5:
            c["fields"]["room_offset"] = r.choice([0, 1, 2.5, 0.5, -1, "x", 4])
        c["fields"]["room"] = "Wald"
        courses[str(cid)] = c
    # registrations
    nregs = r.randint(4, 14) if rich else r.randint(1, 12)
    reg_ids = r.sample([1, 2, 3, 4, 5, 6, 7, 8, 9, 10, 11, 12, 13, 20, 100, 101, 102, 200], nregs)
    regs = {}
    for rid in reg_ids:
        rparts = {}
        for pid in part_ids:
            if r.random() < 0.93:
                st = r.choice([2, 2, 2, 2, 2, 2, 2, 2, 1, 3, -1] if rich else [2, 2, 2, 2, 2, 1, 3, 4, -1, 5, 0]) if pid == sel_part else r.choice([2, 1, -1, 3])
                rparts[str(pid)] = {"status": st, "lodgement_id": r.choice([None, 1, 2]), "is_camping_mat": False}
        rtracks = {}
        for t in all_tracks:
            k = r.choice([2, 3, 3, 4, 4] if rich else [0, 1, 2, 2, 3, 3, 4])
            ch = r.sample(course_ids, min(k, len(course_ids)))
            rtracks[str(t)] = {"course_id": r.choice([None, None, None] + course_ids) if r.random() < (0.3 if rich else 0.5) else None,
                               "course_instructor": r.choice(course_ids) if r.random() < 0.2 else None,
                               "choices": ch}
            if pre and t == sel_track:
                rtracks[str(t)]["course_id"] = r.choice(course_ids) if r.random() < 0.5 else None
                rtracks[str(t)]["course_instructor"] = r.choice(course_ids) if r.random() < 0.3 else None
            if pre and t == sel_track and rtracks[str(t)]["course_id"] is not None and r.random() < 0.3:
                # pre-assigned people without any valid choice in the track (empty list, or only courses
                # not offered in it): they still take a place of their course
                rtracks[str(t)]["choices"] = [] if r.random() < 0.5 else [c for c in ch if str(sel_track) not in courses[str(c)]["segments"]][:2]
            if r.random() < 0.3 and rtracks[str(t)]["course_instructor"] is not None:
                # pre-assigned as instructor of the own course
                rtracks[str(t)]["course_id"] = rtracks[str(t)]["course_instructor"]
        regs[str(rid)] = {"notes": None, "parts": rparts, "tracks": rtracks, "fields": {"lodge": "x"},
                          "persona": {"id": rid, "given_names": r.choice(NAMES), "family_name": r.choice(FAMILY),
                                      "display_name": "D", "username": f"u{rid}@example.cde", "is_orga": False}}
    doc = {"EVENT_SCHEMA_VERSION": r.choice([[15, 4], [19, 0], [7, 0], [17, 2], [19, 99]]), "kind": "partial", "id": r.choice([1, 2, 42]),
           "timestamp": r.choice(["2023-04-23T12:02:09.906237+00:00", "2024-01-01T00:00:00Z", "2025-12-24T23:59:59+01:00"]),
           "courses": courses, "lodgement_groups": {}, "lodgements": {"1": {"title": "L"}}, "registrations": regs,
           "event": {"title": "Große Testakademie", "shortname": "TestAka", "parts": parts}}
    if r.random() < 0.1:
        del doc["EVENT_SCHEMA_VERSION"]
        doc["CDEDB_EXPORT_EVENT_VERSION"] = r.choice([7, 12, 19])
    ntracks = len(all_tracks)
    opts = {"track": sel_track if (ntracks > 1 or r.random() < 0.5) else None, "ic": r.random() < 0.5, "ia": r.random() < 0.5,
            "rff": "room_factor" if r.random() < 0.5 else None, "rof": "room_offset" if r.random() < 0.5 else None}
    if pre:
        opts["ia"] = True
    return doc, opts, {"sel_part": sel_part, "sel_track": sel_track, "tracks": all_tracks, "parts": part_ids}


EXPORT_CORRUPTIONS = ["kind", "version", "version-old", "no-track-selected", "no-track-spread", "unknown-track", "timestamp", "del-courses", "del-regs", "del-event",
               "seg-not-bool", "no-nr", "no-shortname", "min>max", "skipped-no-nr", "skipped-no-shortname", "skipped-min>max", "no-fields", "no-persona", "no-family", "status-str", "no-tracks",
               "no-regtrack", "dangling-choice", "dangling-assigned", "dangling-instr", "choice-str", "no-choices", "no-id", "no-track-shortname",
               "regs-array", "course-null", "no-course-id-member", "no-instr-member", "parts-array", "tracks-missing-in-part", "min>default-max"]


def corrupt_export(r, doc, opts, info, what=None):
    """one single-field corruption (or a refusal by options); returns a description"""
    t = str(info["sel_track"])
    what = what or r.choice(EXPORT_CORRUPTIONS)
    cs = list(doc["courses"].keys())
    rs = list(doc["registrations"].keys())
    participants = [k for k in rs if doc["registrations"][k]["parts"].get(str(info["sel_part"]), {}).get("status") == 2]
    if what == "kind":
        doc["kind"] = r.choice(["full", "export", 7, None])
    elif what == "version":
        doc.pop("CDEDB_EXPORT_EVENT_VERSION", None)
        doc["EVENT_SCHEMA_VERSION"] = r.choice([[6, 9], [20, 0], [19], [19, 0, 1], "19.0", [19, "0"], [-1, 0], [19.5, 0]])
    elif what == "version-old":
        doc.pop("EVENT_SCHEMA_VERSION", None)
        doc["CDEDB_EXPORT_EVENT_VERSION"] = r.choice([6, 20, "7", None, 3.5])
    elif what == "no-track-selected":
        if r.random() < 0.5:
            # two tracks in the LAST part that has tracks (or in the only part)
            last = sorted(doc["event"]["parts"].keys(), key=lambda s: s.encode())[-1]
            tr = doc["event"]["parts"][last]["tracks"]
            tr["998"] = {"title": "Abend", "shortname": "Abend", "num_choices": 2, "min_choices": 1, "sortkey": 9}
            if len(tr) < 2:
                tr["997"] = {"title": "Nacht", "shortname": "Nacht", "num_choices": 2, "min_choices": 1, "sortkey": 8}
        elif len(info["tracks"]) < 2:
            return None
        opts["track"] = None
    elif what == "min>default-max":
        # no maximum given (the default 25 applies) and a minimum above it
        c = doc["courses"][r.choice(cs)]
        if r.random() < 0.5:
            c["max_size"] = None
        else:
            c.pop("max_size", None)
        c["min_size"] = r.choice([26, 27, 30, 40])
    elif what == "no-track-spread":
        # several tracks, at most one of them in a part of its own that sorts before or after all others,
        # and no --track: refused (more than one course track), wherever the tracks sit
        parts = doc["event"]["parts"]
        newp = r.choice(["0", "999"])
        if newp in parts:
            return None
        parts[newp] = {"title": "Extra", "shortname": "X", "part_begin": "2222-02-04", "part_end": "2222-02-05", "waitlist_field": None,
                       "tracks": {"996": {"title": "Nachmittag", "shortname": "Nachmittag", "num_choices": 2, "min_choices": 1, "sortkey": 7}}}
        opts["track"] = None
    elif what == "unknown-track":
        opts["track"] = 999
    elif what == "timestamp":
        doc["timestamp"] = r.choice(["yesterday", None, 17, "2023-13-45T99:99:99+00:00", "", "2023-04-23"])
    elif what == "del-courses":
        doc["courses"] = r.choice([None, [], "x"]) if r.random() < 0.5 else doc.pop("courses") and None
        if doc.get("courses", 0) is None and "courses" in doc and r.random() < 0.5:
            del doc["courses"]
    elif what == "del-regs":
        del doc["registrations"]
    elif what == "regs-array":
        doc["registrations"] = list(doc["registrations"].values())
    elif what == "del-event":
        doc["event"] = r.choice([None, {}, {"parts": []}, []])
    elif what == "parts-array":
        doc["event"]["parts"] = list(doc["event"]["parts"].values())
    elif what == "tracks-missing-in-part":
        p = str(min(info["parts"]))
        del doc["event"]["parts"][p]["tracks"]
        # whether this is refused depends on the visiting order; the model decides, no oracle claim
        return "tracks-missing-in-part?"
    elif what == "seg-not-bool":
        c = r.choice(cs)
        doc["courses"][c]["segments"][t] = r.choice([1, "true", None, 0])
    elif what == "no-nr":
        c = r.choice(cs)
        doc["courses"][c]["nr"] = r.choice([None, 7])
    elif what == "no-shortname":
        del doc["courses"][r.choice(cs)]["shortname"]
    elif what == "min>max":
        c = r.choice(cs)
        doc["courses"][c]["min_size"] = 5
        doc["courses"][c]["max_size"] = 4
    elif what in ("skipped-no-nr", "skipped-no-shortname", "skipped-min>max"):
        # the same defects in a course the reader skips (not offered in the track, or cancelled with
        # --ignore-cancelled): a broken course object is refused wherever it sits
        if not cs:
            return None
        skipped = [c for c in cs if t not in doc["courses"][c]["segments"] or (doc["courses"][c]["segments"][t] is False and opts["ic"])]
        if skipped:
            c = r.choice(skipped)
        else:
            c = r.choice(cs)
            if r.random() < 0.5:
                doc["courses"][c]["segments"].pop(t, None)
            else:
                doc["courses"][c]["segments"][t] = False; opts["ic"] = True
        if what == "skipped-no-nr":
            doc["courses"][c]["nr"] = r.choice([None, 7])
        elif what == "skipped-no-shortname":
            doc["courses"][c].pop("shortname", None)
        else:
            doc["courses"][c]["min_size"] = 5; doc["courses"][c]["max_size"] = 4
    elif what == "no-fields":
        kept = [c for c in cs if t in doc["courses"][c]["segments"] and (doc["courses"][c]["segments"][t] or not opts["ic"])]
        if not kept:
            return None
        c = r.choice(kept)
        doc["courses"][c]["fields"] = r.choice([None, [], "f"])
    elif what == "course-null":
        doc["courses"][r.choice(cs)] = r.choice([None, 3, []])
    elif what == "no-persona":
        del doc["registrations"][r.choice(rs)]["persona"]
    elif what == "no-family":
        doc["registrations"][r.choice(rs)]["persona"]["family_name"] = r.choice([None, 5])
    elif what == "status-str":
        k = r.choice(rs)
        p = str(info["sel_part"])
        if p not in doc["registrations"][k]["parts"]:
            return None
        doc["registrations"][k]["parts"][p]["status"] = r.choice(["2", None, 2.5])
    elif what == "no-tracks":
        if not participants:
            return None
        doc["registrations"][r.choice(participants)]["tracks"] = r.choice([None, []])
    elif what == "no-regtrack":
        if not participants:
            return None
        del doc["registrations"][r.choice(participants)]["tracks"][t]
    elif what in ("dangling-choice", "dangling-assigned", "dangling-instr", "choice-str", "no-choices", "no-course-id-member", "no-instr-member"):
        if not participants:
            return None
        rt = doc["registrations"][r.choice(participants)]["tracks"][t]
        # an id no course has: far above all ids, just above, 0, or in a gap between the ids of the export
        ids = sorted(int(k) for k in doc["courses"].keys())
        gaps = [x for x in range(1, (ids[-1] if ids else 0) + 1) if x not in ids]
        nowhere = r.choice([9999, 0, (ids[-1] + 1) if ids else 1] + ([r.choice(gaps), r.choice(gaps)] if gaps else []))
        if what == "dangling-choice":
            rt["choices"] = rt["choices"] + [nowhere]
        elif what == "dangling-assigned":
            rt["course_id"] = nowhere
        elif what == "dangling-instr":
            rt["course_instructor"] = nowhere
        elif what == "choice-str":
            rt["choices"] = rt["choices"] + [r.choice(["3", None, 2.5, -1])]
        elif what == "no-choices":
            rt["choices"] = r.choice([None, {}, "x"])
        elif what == "no-course-id-member":
            del rt["course_id"]
        else:
            del rt["course_instructor"]
    elif what == "no-id":
        doc["id"] = r.choice([None, "1", -4])
    elif what == "no-track-shortname":
        doc["event"]["parts"][str(info["sel_part"])]["tracks"][t]["shortname"] = r.choice([None, 5])
    return what


def irrelevant_edits(r, doc, opts, info, names=False):
    """C13: edits that must not matter (other tracks / parts, lodgement and persona data, and — without
    the corresponding ignore option — course_id values and true/false segment flags of the selected track)"""
    d = copy.deepcopy(doc)
    t = str(info["sel_track"])
    sp = str(info["sel_part"])
    cs = [int(c) for c in d["courses"].keys()]
    n = r.randint(1, 10)
    done = []
    for _ in range(n):
        k = r.choice(["other-track-reg", "other-part-status", "other-seg", "lodgement", "persona", "course_id", "segflag", "event-meta", "course-meta"]
                     + (["persona-names", "persona-names"] if names else []))
        regs = list(d["registrations"].values())
        reg = r.choice(regs)
        if k == "persona-names":
            # (end-to-end twins only: names show in the listing and the log, never in verdict, score or the
            # written file) a renamed person — half of the time the namesake of another registration
            other = r.choice(regs)
            # preferably the namesake of somebody already assigned to the same course (both are hidden
            # attendees of it under --ignore-assigned)
            mates = [x for x in regs if x is not reg and t in x["tracks"] and t in reg["tracks"] and reg["tracks"][t]["course_id"] is not None
                     and x["tracks"][t]["course_id"] == reg["tracks"][t]["course_id"]]
            if mates and r.random() < 0.7:
                other = r.choice(mates)
            if (r.random() < 0.5 or other in mates) and other is not reg:
                reg["persona"]["given_names"] = other["persona"]["given_names"]
                reg["persona"]["family_name"] = other["persona"]["family_name"]
            else:
                reg["persona"]["given_names"] = r.choice(NAMES)
                reg["persona"]["family_name"] = r.choice(FAMILY)
            done.append(k)
            continue
        if k == "other-track-reg":
            others = [x for x in reg["tracks"].keys() if x != t]
            if others:
                o = r.choice(others)
                reg["tracks"][o] = {"course_id": r.choice([None] + cs), "course_instructor": r.choice([None] + cs),
                                    "choices": r.sample(cs, r.randint(0, len(cs)))}
                done.append(k)
        elif k == "other-part-status":
            others = [x for x in reg["parts"].keys() if x != sp]
            if others:
                reg["parts"][r.choice(others)]["status"] = r.choice([-1, 1, 2, 3, 4])
                done.append(k)
        elif k == "other-seg":
            c = r.choice(list(d["courses"].values()))
            others = [str(x) for x in info["tracks"] if str(x) != t]
            if others:
                o = r.choice(others)
                if r.random() < 0.3 and o in c["segments"]:
                    del c["segments"][o]
                else:
                    c["segments"][o] = r.random() < 0.5
                done.append(k)
        elif k == "lodgement":
            d["lodgements"][str(r.randint(1, 5))] = {"title": "neu"}
            for p in reg["parts"].values():
                p["lodgement_id"] = r.choice([None, 1, 2, 3])
            done.append(k)
        elif k == "persona":
            reg["persona"]["display_name"] = r.choice(NAMES)
            reg["persona"]["username"] = "x@example.cde"
            reg["fields"]["lodge"] = "y"
            done.append(k)
        elif k == "course_id" and not opts["ia"]:
            if t in reg["tracks"]:
                reg["tracks"][t]["course_id"] = r.choice([None] + cs)
                done.append(k)
        elif k == "segflag" and not opts["ic"]:
            c = r.choice(list(d["courses"].values()))
            if t in c["segments"]:
                c["segments"][t] = not c["segments"][t]
                done.append(k)
        elif k == "event-meta":
            d["event"]["title"] = "anders"
            d["event"]["parts"][sp]["title"] = "umbenannt"
            done.append(k)
        elif k == "course-meta":
            c = r.choice(list(d["courses"].values()))
            c["title"] = "neu"
            c["description"] = "neu"
            c["fields"]["room"] = "Halle"
            done.append(k)
    return d, done


def gen_simple(r, rooms_mode=1, big=False):
    """a valid simple-format instance (C01's validity conditions) with names"""
    nc = r.randint(1, 10 if big else 5)
    np_ = r.randint(1, 26 if big else 8)
    shape = r.choice([0, 0, 0, 0, 1, 1, 2, 3])   # 0 comfortable, 1 generic, 2 tight / over-subscribed, 3 zero-size courses
    courses = []
    for i in range(nc):
        mx = r.choice({0: [3, 4, 6, 8, 10], 2: [0, 1, 1, 2, 2], 3: [0, 0, 1, 2, 4]}.get(shape, [0, 1, 2, 2, 3, 4, 6]))
        mn = (r.choice([0, 0, 1, 1, 2]) if shape == 0 else (mx if r.random() < 0.2 else r.randint(0, mx)))
        mn = min(mn, mx)
        c = {"name": r.choice(["Kurs", "Çay", "Ωmega", "Tanz", "Mac's \"Kurs\"", "C:\\Kurs", "Töpfern \u2013 Anfänger", "Cafe\u0301 \u00b7 Klatsch"]) + f" {i}", "num_max": mx, "num_min": mn, "instructors": []}
        if r.random() < 0.5:
            # incl. courses that need no room at all (factor 0: an outdoor course still takes place)
            # (also as people write them: integer literals — serde's f32 visitor takes them without a detour via f64)
            c["room_factor"] = r.choice([1.0, 1.5, 2.0, 2.5, 0.5, 1.2, 0.0, 0.25, 1, 2, 3, 0])
        if r.random() < 0.4:
            c["room_offset"] = r.choice([0.0, 1.0, 2.5, 0.5, 0, 1, 4, 12])
        if i == 0 and nc >= 2 and np_ % 7 == 3:
            # numbers at the edge of the float → size conversion: a negative effective size counts as 0, an
            # infinite one as "larger than every room"
            c.update(r.choice([{"room_offset": -3.0}, {"room_offset": -40.5, "room_factor": 1.0}, {"room_factor": 1e39}, {"room_offset": 1e30}]))
        if r.random() < 0.2:
            c["fixed_course"] = True
        if r.random() < 0.25:
            c["hidden_participant_names"] = [r.choice(NAMES) + r.choice([" (hidden)", " (hidden)", ", " + r.choice(FAMILY), " \u2013 Gast ", "  "]) for _ in range(r.randint(1, 3))]
            if r.random() < 0.3:
                # two different people of the same name
                c["hidden_participant_names"].append(c["hidden_participant_names"][0])
        courses.append(c)
    parts = []
    for i in range(np_):
        k = min(r.choice([0, 2, 2, 3, 3, 3] if shape == 0 else [0, 1, 1, 2, 2, 3]), nc)
        ch = r.sample(range(nc), k)
        style = r.randrange(4)
        parts.append({"name": r.choice(NAMES) + " " + r.choice(FAMILY) + f" {i}",
                      "choices": [{"course": c, "penalty": (r.randrange(4) if style == 0 else j)} for j, c in enumerate(ch)]})
    if all(not p["choices"] for p in parts):
        parts[0]["choices"] = [{"course": r.randrange(nc), "penalty": 0}]
    for i in range(np_):
        if r.random() < 0.3:
            c = r.choice(courses)
            c["instructors"].append(i)
    for c in courses:
        r.shuffle(c["instructors"])
    # names identify nothing: two courses / two participants of the same name, a hidden name equal to the
    # name of somebody who may end up in that course
    nm = r.random()
    if nm < 0.1 and nc >= 2:
        i, j = r.sample(range(nc), 2)
        courses[j]["name"] = courses[i]["name"]
    elif nm < 0.2 and np_ >= 2:
        i, j = r.sample(range(np_), 2)
        if r.random() < 0.5:
            # twins: neighbours in the list with the same name and the same choices — still two people
            i = r.randrange(np_ - 1); j = i + 1
            parts[j]["choices"] = copy.deepcopy(parts[i]["choices"])
        parts[j]["name"] = parts[i]["name"]
    elif nm < 0.3:
        cands = [(p, ch["course"]) for p in parts for ch in p["choices"]]
        if cands:
            p, ci = r.choice(cands)
            courses[ci].setdefault("hidden_participant_names", []).append(p["name"])
    if all(not p["choices"] for p in parts):
        # (the twins dial may have copied an empty list over the only choices: stay inside the validity domain)
        parts[0]["choices"] = [{"course": 0, "penalty": 0}]
    rooms = None
    if rooms_mode == 2 or (rooms_mode == 1 and r.random() < 0.5):
        n = r.randint(1, nc + 2)
        rooms = [r.choice([0, 1, 2, 3, 4, 5, 6, 8, 10, 20] if r.random() < 0.5 else [6, 8, 10, 20, 30]) for _ in range(n)]
    return {"format": "X-coursedata-simple", "version": "1.0", "participants": parts, "courses": courses}, rooms


# --------------------------------------------------------------------------------------------------
# helpers

TIMEOUTS = [0]


def _pin_one_cpu():
    try:
        os.sched_setaffinity(0, {sorted(os.sched_getaffinity(0))[0]})
    except Exception:
        pass


def want_report(c):
    """every third case (by content) runs with --report-no-solution: the flag only adds log lines, it must
    change neither verdict nor output (a logging path that panics or exits would show here)"""
    import zlib
    if "report" in c:
        return bool(c["report"])
    return zlib.crc32(json.dumps(c.get("doc"), sort_keys=True, ensure_ascii=True).encode()) % 3 == 0


def run_bin(binary, args, timeout=60, stdin=None, pin=False):
    """`pin`: the process sees exactly one CPU (single-core host, container limited to one CPU)"""
    if TIMEOUTS[0] >= 3:
        # the binary hangs: do not spend the whole budget on watchdog expiries
        return None, "", "skipped after repeated timeouts", True
    try:
        p = subprocess.run([binary] + args, stdout=subprocess.PIPE, stderr=subprocess.PIPE, timeout=timeout,
                           env=dict(os.environ, RUST_LOG="info"), input=stdin, preexec_fn=_pin_one_cpu if pin else None)
        return p.returncode, p.stdout.decode("utf-8", "replace"), p.stderr.decode("utf-8", "replace"), False
    except subprocess.TimeoutExpired as e:
        TIMEOUTS[0] += 1
        return None, (e.stdout or b"").decode("utf-8", "replace"), (e.stderr or b"").decode("utf-8", "replace"), True


def inst_text(doc, rooms):
    """the driver's instance text format from a simple-format document (after the reader's dedup)"""
    cs = []
    for c in doc["courses"]:
        ins = []
        for i in c.get("instructors", []):
            if i not in ins:
                ins.append(i)
        fb = struct.unpack("I", struct.pack("f", c.get("room_factor", 1.0)))[0]
        ob = struct.unpack("I", struct.pack("f", c.get("room_offset", 0.0)))[0]
        cs.append(f"{c['num_min']},{c['num_max']},{1 if c.get('fixed_course') else 0},{fb},{ob},{';'.join(map(str, ins)) if ins else '-'}")
    ps = []
    for p in doc["participants"]:
        ps.append(";".join(f"{ch['course']}:{ch['penalty']}" for ch in p["choices"]) if p["choices"] else "-")
    rs = "-" if rooms is None else "=" + ",".join(map(str, rooms))
    return " ".join(cs) + "#" + " ".join(ps) + "#" + rs


def fmt_assign(a):
    return ",".join("_" if x is None else str(x) for x in a)


# --------------------------------------------------------------------------------------------------
# stream: cdedb-read / cdedb-pairs (in-process reader through the harness runner)

def run_reader(workdir, items):
    """items: list of (doc, opts) -> list of {"tagged":…, "result":…}"""
    inf = os.path.join(workdir, f"cdedb-in-{os.getpid()}.jsonl")
    outf = os.path.join(workdir, f"cdedb-out-{os.getpid()}.jsonl")
    with open(inf, "w", encoding="utf-8") as f:
        for doc, opts in items:
            f.write(json.dumps({"doc": doc, "opts": opts}, ensure_ascii=False) + "\n")
    p = subprocess.run([HARNESS_EXE, "cdedb-read", inf, outf], stdout=subprocess.PIPE, stderr=subprocess.STDOUT)
    if p.returncode != 0:
        raise RuntimeError("cdedb-read runner failed: " + p.stdout.decode()[-2000:])
    res = [json.loads(l) for l in open(outf, encoding="utf-8")]
    os.remove(inf); os.remove(outf)
    return res


def problem_of(doc, opts):
    """independent declarative re-statement of C12 (for well-formed exports): expected participants
    (dbid, choices as (course dbid, penalty)) and courses (dbid list in order)"""
    tracks = [(int(pk), int(tk)) for pk, p in doc["event"]["parts"].items() for tk in p["tracks"].keys()]
    if opts["track"] is None:
        if len(tracks) != 1:
            return None
        part, track = tracks[0]
    else:
        m = [x for x in tracks if x[1] == opts["track"]]
        if not m:
            return None
        part, track = m[0]
    t = str(track)
    offered = []
    for cid, c in doc["courses"].items():
        if t in c["segments"] and (c["segments"][t] or not opts["ic"]):
            nr = c["nr"]
            offered.append((" " * max(0, 10 - len(nr)) + nr, int(cid)))
    # stable sort by padded number over the document (key) order
    order = sorted(doc["courses"].keys())  # BTreeMap order of the keys
    pos = {int(k): i for i, k in enumerate(order)}
    offered.sort(key=lambda x: (x[0].encode("utf-8"), pos[x[1]]))
    kept = [cid for _, cid in offered]
    parts = []
    for rid in sorted(doc["registrations"].keys()):
        reg = doc["registrations"][rid]
        pp = reg["parts"].get(str(part))
        if not isinstance(pp, dict) or pp.get("status") != 2:
            continue
        rt = reg["tracks"][t]
        ch = [(cid, i) for i, cid in enumerate(rt["choices"]) if cid in kept]
        assigned = rt["course_id"] if rt["course_id"] in kept else None
        instr = rt["course_instructor"] if rt["course_instructor"] in kept else None
        if opts["ia"] and assigned is not None:
            continue
        if not ch and instr is None:
            continue
        parts.append((int(rid), ch, instr))
    return kept, parts


def stream_cdedb_read(seed, tier, workdir, stream):
    r = random.Random(seed * 7919 + 1)
    n = scale(tier, 400, 20000)
    cases = []
    for i in range(n):
        doc, opts, info = gen_export(r, pre=(i % 5 == 1), many=(i % 10 == 4))
        what = None
        if i % 4 == 3:
            # every kind of corruption in turn (a kind that does not apply to this export leaves it valid)
            what = corrupt_export(r, doc, opts, info, EXPORT_CORRUPTIONS[(i // 4) % len(EXPORT_CORRUPTIONS)])
        elif i % 20 == 6:
            # ids written with a leading plus sign or zero (`u64::from_str` accepts both): another key
            # order, the same numbers
            for coll in ("registrations", "courses"):
                ks = list(doc[coll].keys())
                k = r.choice(ks)
                nk = r.choice(["+", "0", "00"]) + k
                if nk not in doc[coll]:
                    doc[coll][nk] = doc[coll].pop(k)
            # the same for the keys of the event's parts and tracks (the selected ones among them)
            evp = doc["event"]["parts"]
            for pk in list(evp.keys()):
                trs = evp[pk]["tracks"]
                for tk in list(trs.keys()):
                    if r.random() < 0.5:
                        trs[r.choice(["+", "0", "00"]) + tk] = trs.pop(tk)
                if r.random() < 0.3:
                    evp[r.choice(["+", "0"]) + pk] = evp.pop(pk)
        elif i % 20 == 16:
            # the selected track does not say how many choices it has (the reader counts 0 then) — together with
            # --ignore-assigned and people assigned to courses they did not choose (i % 5 == 1: many of them)
            for pv in doc["event"]["parts"].values():
                tv = pv["tracks"].get(str(info["sel_track"]))
                if isinstance(tv, dict):
                    tv.pop("num_choices", None)
        elif i % 20 == 2:
            # the SAME id under two spellings, both present ("7" and "07"): a second course / registration
            # record with other contents (the id → index map keeps the last one in sorted order)
            coll = r.choice(["courses", "courses", "registrations"])
            k = r.choice(list(doc[coll].keys()))
            nk = r.choice(["0", "00", "+"]) + k
            if nk not in doc[coll]:
                twin = copy.deepcopy(doc[coll][k])
                if coll == "courses":
                    twin["shortname"] = "Zwilling"; twin["nr"] = r.choice(NRS)
                    if r.random() < 0.5:
                        twin["max_size"] = r.choice([1, 2, 5]); twin["min_size"] = 0
                else:
                    twin["persona"]["given_names"] = "Doppel"
                doc[coll][nk] = twin
            what = "dial:same-id-two-spellings"
        elif i % 20 == 10:
            # timestamps at and beyond the limits of their fields (model and code must agree on acceptance)
            doc["timestamp"] = gen_timestamp(r)
            what = "dial:timestamp"
        elif i % 20 == 14:
            # members the reader converts with as_u64 / as_i64 / as_f64 in other number shapes
            t = str(info["sel_track"])
            odd = lambda: r.choice([-1, 0, 1.0, 2.0, 10.5, "3", None, True, 2 ** 32 - 2, 2 ** 63, 2 ** 64 - 1, 2 ** 64, -2 ** 63, -2 ** 63 - 1, 1e2, [1], {}])
            k = r.randrange(6)
            if k == 0:
                for p_ in doc["event"]["parts"].values():
                    for tv in (p_.get("tracks") or {}).values():
                        if isinstance(tv, dict) and r.random() < 0.7:
                            tv["num_choices"] = r.choice([None, "3", 3.0, -1, 0, 7, 4294967294, "missing"])
                            if tv["num_choices"] == "missing":
                                del tv["num_choices"]
            elif k == 1:
                c_ = r.choice(list(doc["courses"].values())); c_[r.choice(["min_size", "max_size"])] = odd()
            elif k == 2:
                rg = r.choice(list(doc["registrations"].values()))
                if t in rg["tracks"]:
                    rg["tracks"][t][r.choice(["course_id", "course_instructor"])] = odd()
            elif k == 3:
                rg = r.choice(list(doc["registrations"].values()))
                for pv in rg["parts"].values():
                    pv["status"] = odd()
            elif k == 4:
                doc["id"] = odd()
            else:
                rg = r.choice(list(doc["registrations"].values()))
                if t in rg["tracks"] and rg["tracks"][t]["choices"]:
                    ch = rg["tracks"][t]["choices"]
                    rg["tracks"][t]["choices"] = ch + [r.choice(ch)] + ch[:1] * r.randint(0, 2)   # repeated ids, longer than num_choices
            what = "dial:number-shapes"
        elif i % 20 == 18:
            # junk keys beside the selected part / track; the same option for factor and offset; an empty field name
            k = r.randrange(3)
            if k == 0:
                sp = str(info["sel_part"])
                doc["event"]["parts"][sp]["tracks"][r.choice(["x", "", "1e1", "-1"])] = r.choice([None, {}, {"shortname": "J", "num_choices": 1}])
            elif k == 1:
                opts["rff"] = opts["rof"] = r.choice(["room_factor", "room_offset"])
            else:
                opts[r.choice(["rff", "rof"])] = ""
            what = "dial:keys-options"
        cases.append({"doc": doc, "opts": opts, "info": info, "corruption": what})
    return cases


def f32round(x):
    """the f32 nearest to the double x (Rust `as f32`: overflow gives an infinity)"""
    try:
        return struct.unpack("f", struct.pack("f", x))[0]
    except OverflowError:
        return math.copysign(math.inf, x)


def f32bits(x):
    return 0x7fc00000 if x != x else struct.unpack("I", struct.pack("f", x))[0]


def parse_log(se):
    """the figures the program states on stderr: the statistics block and the quality block"""
    d = {}
    for key, pat in [("executed", r"Executed subproblems:\s+(\d+)"), ("nosol", r"\.\.\. no solution:\s+(\d+)"), ("infeasible", r"\.\.\. infeasible:\s+(\d+)"),
                     ("feasible", r"\.\.\. feasible:\s+(\d+)"), ("newbest", r"\.\.\. new best:\s+(\d+)"), ("bound", r"Bound branches:\s+(\d+)"),
                     ("score", r"Solution score:\s+(\d+)"), ("lack", r"Solution quality lack:\s+(\S+)"), ("overall", r"New overall assignment quality lack:\s+(\S+)")]:
        m = re.findall(pat, se)
        if len(m) == 1:
            d[key] = m[0] if key in ("lack", "overall") else int(m[0])
        elif len(m) > 1:
            d[key] = "repeated"
    m = re.findall(r"\(Perfect matching would have been:\s+(\S+)\)", se)
    if len(m) == 2:
        d["max"] = int(m[0]) if m[0].isdigit() else m[0]
        d["maxlack"] = m[1]
    return d


def fmt_lack(v):
    """a quality figure of the output file as the log prints it ({:.6} of the f32)"""
    return None if v is None else "%.6f" % f32round(float(v))


def stats_problems(lg, rc):
    keys = ["executed", "nosol", "infeasible", "feasible", "newbest", "bound"]
    if any(not isinstance(lg.get(k), int) for k in keys):
        return [f"statistics block not found or incomplete: {lg}"]
    pr = []
    if lg["executed"] != lg["nosol"] + lg["infeasible"] + lg["feasible"]:
        pr.append("executed != no solution + infeasible + feasible")
    if lg["newbest"] > lg["feasible"]:
        pr.append("more new best than feasible")
    if lg["executed"] < 1:
        pr.append("the root was not executed")
    if rc == 0 and lg["newbest"] < 1:
        pr.append("a solution is reported but no new best was counted")
    if rc == 1 and (lg["feasible"] != 0 or lg["newbest"] != 0):
        pr.append("no solution is reported but a feasible node was counted")
    return [p_ + f" ({ {k: lg[k] for k in keys} })" for p_ in pr]


def quality_log_problems(lg, q):
    pr = []
    if lg.get("score") != q.get("solution_score"):
        pr.append(f"logged solution score {lg.get('score')} != {q.get('solution_score')} in the file")
    if lg.get("max") != q.get("theoretical_max_score"):
        pr.append(f"logged perfect-matching score {lg.get('max')} != {q.get('theoretical_max_score')} in the file")
    for lk, qk in [("lack", "solution_quality"), ("maxlack", "theoretical_max_quality"), ("overall", "overall_quality")]:
        want = fmt_lack(q.get(qk)) if qk in q else None
        got = lg.get(lk)
        if qk in q and q.get(qk) is None:
            if got not in ("NaN", "inf", "-inf"):
                pr.append(f"logged {lk} {got} for a non-finite {qk}")
        elif want != got:
            pr.append(f"logged {lk} {got} != {want} ({qk} of the file)")
    return pr


def lines_cdedb_read(cases, workdir, stream):
    res = run_reader(workdir, [(c["doc"], c["opts"]) for c in cases])
    out = []
    for i, (c, rr) in enumerate(zip(cases, res)):
        out.append({"kind": "case", "stream": stream, "case": i, "corpus": False, "data": c})
        result = rr["result"]
        payload = json.dumps({"doc": rr["tagged"], "opts": c["opts"]}, ensure_ascii=False)
        feat = ["corrupt:" + str(c["corruption"])] if c["corruption"] else ["valid"]
        if "panic" in result:
            out.append(line("direct", ["C15", "C12"], ok=False, what="io::cdedb::read panicked: " + str(result["panic"])[:200], case=i, stream=stream))
            out.append(line("corr", ["C12", "C11", "C13", "C15", "C01", "C05"], "CR", payload, "PANIC", case=i, stream=stream, feat=feat))
            continue
        if "err" in result:
            out.append(line("corr", ["C12", "C11", "C13", "C15", "C01", "C05"], "CR", payload, "ERR", case=i, stream=stream, feat=feat + ["refused"]))
            if c["corruption"] is None:
                out.append(line("direct", ["C12"], ok=False, what="a well-formed export was refused: " + result["err"][:200], case=i, stream=stream))
            continue
        ok = result["ok"]
        feat.append("ia" if c["opts"]["ia"] else "no-ia")
        feat.append("ic" if c["opts"]["ic"] else "no-ic")
        out.append(line("corr", ["C12", "C11", "C13", "C15", "C01", "C05"], "CR", payload, json.dumps(ok, ensure_ascii=False), case=i, stream=stream, feat=feat))
        out.append(line("direct", ["C12"], ok=bool(result.get("index_ok")), what="index fields equal positions", case=i, stream=stream, nontrivial=False))
        if c["corruption"] and c["corruption"] not in ("tracks-missing-in-part?",):
            refusals = {"kind", "version", "version-old", "no-track-selected", "no-track-spread", "unknown-track"}
            if c["corruption"] in refusals:
                out.append(line("direct", ["C12", "C15"], ok=False, what=f"export with corruption '{c['corruption']}' was accepted", case=i, stream=stream))
        if c["corruption"] is None:
            try:
                exp = problem_of(c["doc"], c["opts"])
                if exp is not None:
                    kept, parts = exp
                    got_courses = [x[0] for x in ok["courses"]]
                    # (an index the reader's own course list does not have is shown as such, not looked up)
                    got_parts = [(p[0], [((got_courses[ch[0]] if 0 <= ch[0] < len(got_courses) else f"index {ch[0]} out of range"), ch[1]) for ch in p[2]]) for p in ok["parts"]]
                    exp_parts = [(rid, ch) for rid, ch, _ in parts]
                    good = got_courses == kept and got_parts == exp_parts
                    # every stored instructor index points at the registration instructing that course
                    for ci, cc in enumerate(ok["courses"]):
                        want = [k for k, (_, _, ins) in enumerate(parts) if ins == kept[ci]] if ci < len(kept) else None
                        if cc[4] != want:
                            good = False
                    if c["opts"]["ia"]:
                        # C11, declaratively: places of ignored pre-assigned registrations are reserved
                        t = str(c["info"]["sel_track"]); sp = str(c["info"]["sel_part"])
                        probs = []
                        for ci, cid in enumerate(kept):
                            cd = next(v for k, v in c["doc"]["courses"].items() if int(k) == cid)
                            mx = cd.get("max_size") if isinstance(cd.get("max_size"), int) else 25
                            mn = cd.get("min_size") if isinstance(cd.get("min_size"), int) else 0
                            att = ins = 0
                            for rid, reg in c["doc"]["registrations"].items():
                                pp = reg["parts"].get(sp)
                                if not isinstance(pp, dict) or pp.get("status") != 2:
                                    continue
                                rt = reg["tracks"][t]
                                if rt["course_id"] == cid:
                                    if rt["course_instructor"] == cid:
                                        ins += 1
                                    else:
                                        att += 1
                            want = [max(0, mn - att), max(0, mx - att), (att + ins) != 0, att + ins]
                            if ci >= len(ok["courses"]):
                                probs.append(f"course {cid}: missing from the reader's result")
                                continue
                            got = [ok["courses"][ci][2], ok["courses"][ci][3], ok["courses"][ci][7], len(ok["courses"][ci][8])]
                            if want != got:
                                probs.append(f"course {cid}: expected [min,max,fixed,#hidden] {want}, reader {got}")
                        out.append(line("direct", ["C11"], ok=not probs, what="; ".join(probs[:3]) or "places of ignored registrations reserved", case=i, stream=stream,
                                        nontrivial=any(len(x[8]) > 0 for x in ok["courses"])))
                    # size limits (defaults 0 and 25) and the configured room fields, read off the export independently;
                    # with --ignore-assigned the places and the room share of the hidden people are accounted for
                    t = str(c["info"]["sel_track"]); sp = str(c["info"]["sel_part"])
                    fprobs = []
                    for ci, cid in enumerate(kept):
                        if ci >= len(ok["courses"]):
                            break
                        cd = next(v for k, v in c["doc"]["courses"].items() if int(k) == cid)
                        hidden = 0; att = 0
                        if c["opts"]["ia"]:
                            for rid, reg in c["doc"]["registrations"].items():
                                pp = reg["parts"].get(sp)
                                if isinstance(pp, dict) and pp.get("status") == 2 and reg["tracks"][t]["course_id"] == cid:
                                    hidden += 1
                                    att += reg["tracks"][t]["course_instructor"] != cid
                        mx = cd.get("max_size") if isinstance(cd.get("max_size"), int) else 25
                        mn = cd.get("min_size") if isinstance(cd.get("min_size"), int) else 0

                        def fld(name, dflt):
                            v = cd.get("fields", {}).get(name) if name is not None else None
                            return float(v) if isinstance(v, (int, float)) and not isinstance(v, bool) else dflt
                        fac = f32round(fld(c["opts"]["rff"], 1.0))
                        off = f32round(f32round(fld(c["opts"]["rof"], 0.0)) + f32round(float(hidden) * fac))
                        want = [max(0, mn - att), max(0, mx - att), f32bits(fac), f32bits(off)]
                        got = [ok["courses"][ci][2], ok["courses"][ci][3], ok["courses"][ci][5], ok["courses"][ci][6]]
                        if want != got:
                            fprobs.append(f"course {cid}: expected [min,max,factor bits,offset bits] {want} (factor {fac}, offset {off}), reader {got}")
                    out.append(line("direct", ["C12"] + (["C11", "C06"] if c["opts"]["ia"] else []), ok=not fprobs,
                                    what="; ".join(fprobs[:3]) or "size limits and room factor / offset as the export gives them", case=i, stream=stream))
                    out.append(line("direct", ["C12"], ok=good, what=f"declarative problem: courses {kept} participants {exp_parts[:6]} vs reader courses {got_courses} participants {got_parts[:6]}", case=i, stream=stream))
            except Exception as e:
                # a result the oracle cannot even interpret is a finding about the reader, not a crash of the check
                out.append(line("direct", ["C12"], ok=False, what=f"the reader's result cannot be interpreted ({type(e).__name__}: {e})", case=i, stream=stream))
    return out


def stream_cdedb_pairs(seed, tier, workdir, stream):
    r = random.Random(seed * 104729 + 5)
    n = scale(tier, 250, 10000)
    cases = []
    for i in range(n):
        doc, opts, info = gen_export(r)
        if i % 8 == 5 and len(info["tracks"]) > 1:
            # several tracks and none selected: refused whatever the OTHER tracks contain — here they
            # contain no course at all in the base document and get one in the twin
            opts = dict(opts, track=None)
            for c in doc["courses"].values():
                for o in list(c["segments"].keys()):
                    if o != str(info["sel_track"]):
                        del c["segments"][o]
            twin, edits = irrelevant_edits(r, doc, opts, info)
            o = str(r.choice([x for x in info["tracks"] if x != info["sel_track"]]))
            r.choice(list(twin["courses"].values()))["segments"][o] = True
            edits = edits + ["other-seg-first"]
        else:
            twin, edits = irrelevant_edits(r, doc, opts, info)
        cases.append({"doc": doc, "twin": twin, "opts": opts, "info": info, "edits": edits})
    return cases


def lines_cdedb_pairs(cases, workdir, stream):
    res = run_reader(workdir, [(c["doc"], c["opts"]) for c in cases] + [(c["twin"], c["opts"]) for c in cases])
    n = len(cases)
    out = []
    for i, c in enumerate(cases):
        out.append({"kind": "case", "stream": stream, "case": i, "corpus": False, "data": c})
        a, b = res[i]["result"], res[n + i]["result"]
        same = (a.get("ok") == b.get("ok")) and (("err" in a) == ("err" in b)) and "panic" not in a and "panic" not in b
        out.append(line("direct", ["C13"], ok=same, what=f"reader result for an export and its twin after irrelevant edits {c['edits']}: {'equal' if same else 'DIFFERENT'}",
                        case=i, stream=stream, nontrivial=bool(c["edits"]) and "ok" in a, feat=["edit:" + e for e in set(c["edits"])]))
        # the model must follow both documents as well
        out.append(line("corr", ["C13"], "CR", json.dumps({"doc": res[n + i]["tagged"], "opts": c["opts"]}, ensure_ascii=False),
                        json.dumps(b["ok"], ensure_ascii=False) if "ok" in b else "ERR", case=i, stream=stream, nontrivial=bool(c["edits"])))
    return out


# --------------------------------------------------------------------------------------------------
# stream: e2e-cde (real binary on exports; reference partial-import model; C05, C11, C13, C08)

def apply_import(export, imp, track):
    e = copy.deepcopy(export)
    for rid, rv in imp.get("registrations", {}).items():
        for t, tv in rv.get("tracks", {}).items():
            e["registrations"][rid]["tracks"][t]["course_id"] = tv["course_id"]
    for cid, cv in imp.get("courses", {}).items():
        for t, v in cv.get("segments", {}).items():
            e["courses"][cid]["segments"][t] = v
    return e


def consistent(export, imp, opts, info):
    """the clauses of C05 / C11 in terms of database ids; returns list of problems"""
    t = str(info["sel_track"])
    sp = str(info["sel_part"])
    problems = []
    for rid, rv in imp.get("registrations", {}).items():
        if rid not in export["registrations"]:
            problems.append(f"registration {rid} is not in the export"); continue
        if list(rv.keys()) != ["tracks"] or list(rv["tracks"].keys()) != [t]:
            problems.append(f"registration {rid}: names other tracks/fields {rv}")
    for cid, cv in imp.get("courses", {}).items():
        if cid not in export["courses"]:
            problems.append(f"course {cid} is not in the export"); continue
        if list(cv.get("segments", {}).keys()) != [t]:
            problems.append(f"course {cid}: segments {cv.get('segments')}")
        if t not in export["courses"][cid]["segments"]:
            problems.append(f"course {cid} is not offered in track {t}")
        if opts["ic"] and export["courses"][cid]["segments"].get(t) is False:
            problems.append(f"course {cid} was cancelled and is mentioned although --ignore-cancelled")
    after = apply_import(export, imp, t)
    named = set(imp.get("registrations", {}).keys())
    for rid in named:
        reg = export["registrations"][rid]
        if reg["parts"].get(sp, {}).get("status") != 2:
            problems.append(f"registration {rid} is not a participant of the part")
        if opts["ia"]:
            old = reg["tracks"][t]["course_id"]
            if old is not None and str(old) in imp.get("courses", {}) or (old is not None and t in export["courses"][str(old)]["segments"] and (export["courses"][str(old)]["segments"][t] or not opts["ic"])):
                problems.append(f"registration {rid} was pre-assigned to {old} and is reassigned although --ignore-assigned")
        new = imp["registrations"][rid]["tracks"][t]["course_id"]
        seg = imp.get("courses", {}).get(str(new), {}).get("segments", {}).get(t)
        if seg is not True:
            problems.append(f"registration {rid} is assigned to course {new}, which the file does not mark as taking place")
        rt = reg["tracks"][t]
        if new not in rt["choices"] and rt["course_instructor"] != new:
            problems.append(f"registration {rid} neither chose nor instructs course {new}")
    # sizes of active courses: attendees besides instructors, counting both groups
    for cid, cv in imp.get("courses", {}).items():
        if cv.get("segments", {}).get(t) is True and cid in export["courses"]:
            c = export["courses"][cid]
            att = 0
            for rid, reg in after["registrations"].items():
                if reg["parts"].get(sp, {}).get("status") != 2:
                    continue
                rt = reg["tracks"][t]
                counted = rid in named or (opts["ia"] and rt["course_id"] == int(cid))
                if counted and rt["course_id"] == int(cid) and rt["course_instructor"] != int(cid):
                    att += 1
            mn = c.get("min_size") if isinstance(c.get("min_size"), int) else 0
            mx = c.get("max_size") if isinstance(c.get("max_size"), int) else 25
            new_att = sum(1 for rid in named if imp["registrations"][rid]["tracks"][t]["course_id"] == int(cid)
                          and export["registrations"][rid]["tracks"][t]["course_instructor"] != int(cid))
            if att < mn:
                problems.append(f"course {cid} takes place with {att} attendees < min_size {mn}")
            if att > mx and new_att > 0:
                problems.append(f"course {cid}: {att} attendees > max_size {mx} with {new_att} newly assigned")
        if cv.get("segments", {}).get(t) is False:
            for rid in named:
                if imp["registrations"][rid]["tracks"][t]["course_id"] == int(cid):
                    problems.append(f"registration {rid} assigned to cancelled course {cid}")
            if opts["ia"]:
                for rid, reg in export["registrations"].items():
                    if reg["parts"].get(sp, {}).get("status") == 2 and reg["tracks"][t]["course_id"] == int(cid):
                        problems.append(f"course {cid} has the pre-assigned registration {rid} and is cancelled")
    return problems


def stream_e2e_cde(seed, tier, workdir, stream):
    r = random.Random(seed * 15485863 + 11)
    n = scale(tier, 140, 6000)
    cases = []
    for i in range(n):
        doc, opts, info = gen_export(r, rich=(i % 3 != 2), pre=(i % 4 == 1), many=(i % 12 == 6))
        rooms = None
        if r.random() < 0.4:
            rooms = [r.choice([2, 3, 4, 5, 6, 8, 10, 20, 30]) for _ in range(r.randint(1, len(doc["courses"]) + 1))]
        if i % 10 == 3:
            # both room field options given, factor and offset clearly different, rooms that bind under
            # the documented formula offset + factor * size (and would not with the two exchanged)
            opts["rff"] = "room_factor"; opts["rof"] = "room_offset"
            for c in doc["courses"].values():
                c["fields"]["room_factor"] = r.choice([2, 2.5, 3])
                c["fields"]["room_offset"] = r.choice([0, 0, 1])
            rooms = [r.choice([6, 8, 10, 12]) for _ in range(len(doc["courses"]))]
        if i % 10 == 7:
            # somebody who stays without a course in the MIDDLE of the registrations: an instructor without own
            # choices (first in the reader's order) whose course cannot reach its minimum, everybody else elsewhere
            t = str(info["sel_track"]); sp = str(info["sel_part"])
            offered = [k for k, c in doc["courses"].items() if c["segments"].get(t) is True]
            keys = sorted(k for k, g in doc["registrations"].items() if isinstance(g["parts"].get(sp), dict) and g["parts"][sp].get("status") == 2)
            if len(offered) >= 2 and len(keys) >= 3:
                x = r.choice(offered)
                doc["courses"][x]["min_size"] = 30; doc["courses"][x]["max_size"] = 40
                for k, g in doc["registrations"].items():
                    gt = g["tracks"][t]
                    gt["choices"] = [c for c in gt["choices"] if c != int(x)]
                    if gt["course_instructor"] == int(x):
                        gt["course_instructor"] = None
                    if gt["course_id"] == int(x):
                        gt["course_id"] = None
                g = doc["registrations"][keys[0] if i % 20 == 7 else keys[len(keys) // 2]]
                g["tracks"][t].update({"choices": [], "course_instructor": int(x), "course_id": None})
        if i % 12 == 5:
            # (see cdedb-read) no num_choices in the selected track, with many pre-assigned people
            for pv in doc["event"]["parts"].values():
                tv = pv["tracks"].get(str(info["sel_track"]))
                if isinstance(tv, dict):
                    tv.pop("num_choices", None)
        if i % 8 == 1:
            # namesakes: people sharing one printed name (all of them, or pairs) — names identify nobody
            regs = list(doc["registrations"].values())
            for reg in regs:
                if isinstance(reg.get("persona"), dict) and (i % 16 == 1 or r.random() < 0.5):
                    reg["persona"]["given_names"] = regs[0]["persona"]["given_names"]
                    reg["persona"]["family_name"] = regs[0]["persona"]["family_name"]
        twin = None
        if i % 3 == 0:
            twin, edits = irrelevant_edits(r, doc, opts, info, names=True)
        cases.append({"doc": doc, "opts": opts, "info": info, "rooms": rooms, "threads": r.choice([1, 1, 2, 4]), "twin": twin,
                      # (the field may be asked for without any room list: there is nothing to write into it then)
                      "prf": (rooms is not None and r.random() < 0.6) or (rooms is None and i % 5 == 2),
                      "pair17": rooms is None and i % 5 == 2,
                      # the listing and the rooms file on the CdE path as well
                      "print": i % 6 == 1, "rooms_file": rooms is not None and i % 4 == 2})
    return cases


def cde_args(opts, rooms, threads):
    a = ["--cde", "--num-threads", str(threads)]
    if opts["track"] is not None:
        a += ["--track", str(opts["track"])]
    if opts["ic"]:
        a.append("--ignore-cancelled")
    if opts["ia"]:
        a.append("--ignore-assigned")
    if opts["rff"]:
        a += ["--room-factor-field", opts["rff"]]
    if opts["rof"]:
        a += ["--room-offset-field", opts["rof"]]
    if rooms is not None:
        a += ["--rooms", ",".join(map(str, rooms))]
    return a


def strip_import(imp):
    imp = copy.deepcopy(imp)
    imp.pop("timestamp", None)
    imp.pop("summary", None)
    return imp


def lines_e2e_cde(cases, workdir, stream, binary):
    out = []
    d = tempfile.mkdtemp(prefix="e2e", dir=workdir)
    try:
        for i, c in enumerate(cases):
            out.append({"kind": "case", "stream": stream, "case": i, "corpus": False, "data": c})
            inp = os.path.join(d, "in.json"); outp = os.path.join(d, "out.json")
            json.dump(c["doc"], open(inp, "w", encoding="utf-8"), ensure_ascii=False)
            if os.path.exists(outp):
                os.remove(outp)
            prf = ["--possible-rooms-field", "possible_rooms"] if c.get("prf") else []
            rep = ["--report-no-solution"] if want_report(c) else []
            extra = ["--print"] if c.get("print") else []
            if c.get("rooms_file"):
                # the same rooms as a rooms file (kinds of equal capacity under different names, capacity runs split)
                kinds = []
                for j, cap in enumerate(c["rooms"]):
                    if kinds and kinds[-1]["capacity"] == cap and j % 3 != 0:
                        kinds[-1]["quantity"] += 1
                    else:
                        kinds.append({"name": ["Seminarraum", "Saal", "Zelt"][len(kinds) % 3], "capacity": cap, "quantity": 1})
                json.dump(kinds, open(os.path.join(d, "rooms.json"), "w"))
                main_args = cde_args(c["opts"], None, c["threads"]) + ["--rooms-file", os.path.join(d, "rooms.json")]
            else:
                main_args = cde_args(c["opts"], c["rooms"], c["threads"])
            rc, so, se, to = run_bin(binary, main_args + extra + rep + prf + [inp, outp])
            bad = to or rc not in (0, 1, 65) or "panicked" in se
            out.append(line("direct", ["C10", "C15"], ok=not bad, what=f"exit {rc} timeout {to} stderr tail: {se[-300:]}", case=i, stream=stream, nontrivial=False))
            if c.get("pair17"):
                # C17 through the binary: a room list that cannot bind (as many rooms as courses, each larger than the
                # event) gives the verdict of the run without rooms and, with one worker, the same file
                big = [100000] * max(1, len(c["doc"]["courses"]))
                outs = []
                outp17 = outp + ".17"
                for rooms_ in (None, big):
                    if os.path.exists(outp17):
                        os.remove(outp17)
                    a17 = cde_args(c["opts"], rooms_, 1)
                    if rooms_ is not None and i % 2 == 0:
                        # the same list as a rooms FILE: two kinds of the same capacity (still as many rooms as courses)
                        k1 = (len(big) + 1) // 2
                        json.dump([{"name": "Halle", "capacity": big[0], "quantity": k1}, {"name": "Zelt", "capacity": big[0], "quantity": len(big) - k1}],
                                  open(os.path.join(d, "rooms17.json"), "w"))
                        a17 = cde_args(c["opts"], None, 1) + ["--rooms-file", os.path.join(d, "rooms17.json")]
                    rcx, sox, sex, tox = run_bin(binary, a17 + prf + [inp, outp17])
                    filex = None
                    if rcx == 0:
                        try:
                            jx = json.load(open(outp17, encoding="utf-8"))
                            filex = (jx.get("registrations"), {k: v.get("segments") for k, v in jx.get("courses", {}).items()})
                        except Exception as e:
                            filex = f"unreadable: {e}"
                    outs.append((rcx, tox, filex))
                same17 = outs[0] == outs[1] and not outs[0][1]
                out.append(line("direct", ["C17", "C10"], ok=same17, what=f"one worker, without rooms: exit {outs[0][0]}; with a room list that cannot bind: exit {outs[1][0]}; files {'equal' if outs[0][2] == outs[1][2] else 'DIFFERENT'}",
                                case=i, stream=stream, feat=["pair17"]))
            if rc == 65 and "only possible with 1 or more participants" in se:
                continue
            if rc == 65:
                out.append(line("direct", ["C12"], ok=False, what="a well-formed export was refused: " + se[-300:], case=i, stream=stream))
                continue
            if rc != 0:
                out.append(line("direct", ["C10"], ok=not os.path.exists(outp), what=f"exit {rc} and output file exists", case=i, stream=stream, nontrivial=False))
                continue
            try:
                imp = json.load(open(outp, encoding="utf-8"))
            except Exception as e:
                out.append(line("direct", ["C16", "C05"], ok=False, what=f"exit 0 but the output file does not parse: {e}", case=i, stream=stream))
                continue
            try:
                probs = consistent(c["doc"], imp, c["opts"], c["info"])
            except Exception as e:
                # an import file whose shape the reference import cannot even apply is not consistent
                probs = [f"import file of unexpected shape ({type(e).__name__}: {e})"]
            c05 = [p for p in probs if "pre-assigned" not in p and "--ignore" not in p]
            c11 = [p for p in probs if p not in c05]
            out.append(line("direct", ["C05"], ok=not c05, what="; ".join(c05[:3]) or "import file consistent with the export", case=i, stream=stream,
                            nontrivial=bool(imp.get("registrations")), feat=["regs=%d" % min(len(imp.get("registrations", {})), 6)]))
            if c["opts"]["ia"] or c["opts"]["ic"]:
                allp = probs
                out.append(line("direct", ["C11"], ok=not allp, what="; ".join(allp[:3]) or "ignore options respected", case=i, stream=stream,
                                nontrivial=bool(imp.get("registrations")), feat=["ia" if c["opts"]["ia"] else "", "ic" if c["opts"]["ic"] else ""]))
            hdr_ok = imp.get("kind") == "partial" and imp.get("id") == c["doc"]["id"] and isinstance(imp.get("EVENT_SCHEMA_VERSION"), list)
            out.append(line("direct", ["C05"], ok=hdr_ok, what="kind/id/version of the import file", case=i, stream=stream, nontrivial=False))
            # the Lean model: reader + writer + HardOK on the problem the model reads
            payload = json.dumps({"doc": tag(c["doc"]), "opts": c["opts"], "imp": tag(strip_import(imp)), "rooms": c["rooms"]}, ensure_ascii=False)
            out.append(line("spec", ["C05", "C11", "C01", "C06", "C12"], "CE", payload, "file=ok write=ok hard=true room=true", case=i, stream=stream,
                            nontrivial=bool(imp.get("registrations"))))
            if c.get("prf") and c["rooms"] is None:
                # asked for without a room list: there are no possible rooms to name, the field is not written
                has = [k for k, v in imp.get("courses", {}).items() if "possible_rooms" in (v.get("fields") or {})]
                out.append(line("direct", ["C18"], ok=not has, what=f"no room list given, but courses {has[:5]} carry a possible-rooms field", case=i, stream=stream, nontrivial=False))
            if c.get("print") and c["rooms"] is not None:
                # C18 on the CdE path: the rooms line of the listing is the list written into the possible-rooms
                # field of the same run (which the CP line judges). Whether a line may be empty depends on the
                # course's effective size — a course with room factor 0 needs no room — and is not judged here.
                rprobs = []
                try:
                    lst = parse_listing(so)
                    exp = problem_of(c["doc"], c["opts"])
                    if lst is None or exp is None or len(lst) != len(exp[0]):
                        rprobs.append(f"listing not understood ({None if lst is None else len(lst)} blocks)")
                    else:
                        for (hdr, cnt, rooms_line, entries, hidden), cid in zip(lst, exp[0]):
                            if rooms_line is None:
                                rprobs.append(f"course {cid}: no rooms line although rooms were given"); continue
                            fld_ = (imp.get("courses", {}).get(str(cid), {}).get("fields") or {}).get("possible_rooms")
                            if c.get("prf") and fld_ is not None and fld_ != rooms_line:
                                rprobs.append(f"course {cid}: listing says {rooms_line!r}, the field written in the same run {fld_!r}")
                except Exception as e:
                    rprobs.append(f"listing could not be compared ({type(e).__name__}: {e})")
                out.append(line("direct", ["C18"], ok=not rprobs, what="; ".join(rprobs[:3]) or "rooms lines of the listing agree with the field written in the same run", case=i, stream=stream, feat=["cde-print-rooms"]))
            # (--print on the CdE path: the listing itself belongs to no property here — C14 speaks of the simple
            # format — so it is only run, not judged; a crash while printing shows in the first line above)
            if c.get("prf") and c["rooms"] is not None and not c.get("rooms_file"):
                payload = json.dumps({"doc": tag(c["doc"]), "opts": c["opts"], "imp": tag(strip_import(imp)), "rooms": c["rooms"], "field": "possible_rooms"}, ensure_ascii=False)
                out.append(line("spec", ["C18"], "CP", payload, "sound=true nonempty=true", case=i, stream=stream, nontrivial=bool(imp.get("registrations"))))
            # overall quality in the summary (C08)
            m = re.search(r"with solution quality (\S+) / overall assignment quality (\S+)\. Based", imp.get("summary", ""))
            if m:
                payload = json.dumps({"doc": tag(c["doc"]), "opts": c["opts"], "imp": tag(strip_import(imp))}, ensure_ascii=False)
                out.append(line("spec", ["C08"], "CQ", payload, "QUALITY", case=i, stream=stream, what=json.dumps({"solution": m.group(1), "overall": m.group(2)})))
                # the figures stated on stderr are those of the summary
                lg = parse_log(se)
                pr = []
                try:
                    if lg.get("lack") != fmt_lack(float(m.group(1))) and not (m.group(1) in ("NaN", "inf") and lg.get("lack") == m.group(1)):
                        pr.append(f"logged solution quality lack {lg.get('lack')} but the summary says {m.group(1)}")
                    if "overall" in lg and lg["overall"] != fmt_lack(float(m.group(2))) and not (m.group(2) in ("NaN", "inf") and lg["overall"] == m.group(2)):
                        pr.append(f"logged overall quality lack {lg['overall']} but the summary says {m.group(2)}")
                    if c["opts"]["ia"] != ("overall" in lg):
                        pr.append(f"overall quality logged: {'overall' in lg}, --ignore-assigned: {c['opts']['ia']}")
                    if not isinstance(lg.get("score"), int) or not isinstance(lg.get("max"), int) or lg["score"] > lg["max"]:
                        pr.append(f"logged score {lg.get('score')} / perfect matching {lg.get('max')}")
                except ValueError as e:
                    pr.append(f"summary figures not numbers: {e}")
                out.append(line("direct", ["C08"], ok=not pr, what="; ".join(pr) or "logged quality figures equal those of the summary", case=i, stream=stream))
            if c["twin"] is not None and c["threads"] == 1:
                json.dump(c["twin"], open(inp, "w", encoding="utf-8"), ensure_ascii=False)
                os.remove(outp)
                twin_args = (cde_args(c["opts"], None, 1) + ["--rooms-file", os.path.join(d, "rooms.json")]) if c.get("rooms_file") else cde_args(c["opts"], c["rooms"], 1)
                rc2, so2, se2, to2 = run_bin(binary, twin_args + prf + [inp, outp])
                same = rc2 == rc
                if to2:
                    # (a watchdog expiry is a matter of C10 / C04, and of the machine's load — not of C13)
                    out.append(line("direct", ["C10"], ok=False, what=f"the run on the twin export did not finish within the watchdog time; stderr tail: {se2[-200:]}", case=i, stream=stream))
                    continue
                if same and rc2 == 0:
                    imp2 = json.load(open(outp, encoding="utf-8"))
                    m2 = re.search(r"with solution quality (\S+) / overall assignment quality (\S+)\. Based", imp2.get("summary", ""))
                    same = strip_import(imp2) == strip_import(imp) and (m is None or m2 is None or m.groups() == m2.groups())
                out.append(line("direct", ["C13"], ok=same, what=f"export and twin (irrelevant edits) through the binary, one worker: {'equal' if same else 'DIFFERENT'}", case=i, stream=stream))
    finally:
        shutil.rmtree(d, ignore_errors=True)
    return out


def tag(v):
    """the driver's tagged JSON encoding (as serde_json::Value sees the document)"""
    if v is None or isinstance(v, bool):
        return v
    if isinstance(v, str):
        return {"s": v}
    if isinstance(v, int):
        if v >= 2 ** 64 or v < -2 ** 63:
            # serde_json reads such an integer as a float (as the Rust side of the reader runner does)
            return {"f": struct.unpack("Q", struct.pack("d", float(v)))[0]}
        return {"u": v} if v >= 0 else {"i": v}
    if isinstance(v, float):
        return {"f": struct.unpack("Q", struct.pack("d", v))[0]}
    if isinstance(v, list):
        return {"a": [tag(x) for x in v]}
    if isinstance(v, dict):
        return {"o": [[k, tag(v[k])] for k in sorted(v.keys(), key=lambda s: s.encode("utf-8"))]}
    raise ValueError(v)


# --------------------------------------------------------------------------------------------------
# stream: cli-simple (C10, C14, C08, C01 through the real binary)

def stream_cli_simple(seed, tier, workdir, stream):
    r = random.Random(seed * 32452843 + 3)
    n = scale(tier, 120, 5000)
    cases = []
    for i in range(n):
        doc, rooms = gen_simple(r, rooms_mode=1, big=((tier == "thorough" and i % 4 == 0) or i % 8 == 7))
        if i % 10 == 9:
            # an instructor listed twice is still one instructor (fix F10)
            cs = [c for c in doc["courses"] if c["instructors"]]
            # (preferably somebody with own choices: the instructor bonus is theirs, once)
            cs2 = [c for c in cs if doc["participants"][c["instructors"][0]]["choices"]]
            if cs:
                c = r.choice(cs2 or cs)
                free = [p for p in range(len(doc["participants"])) if not any(p in co["instructors"] for co in doc["courses"])]
                if free and i % 30 != 9:
                    # … also when another instructor stands between the two entries ([a, b, a])
                    c["instructors"].append(free[(i // 20) % len(free)])
                c["instructors"].append(c["instructors"][0])
        cases.append({"doc": doc, "rooms": rooms, "threads": r.choice([1, 1, 2, 4, None]), "print": r.random() < 0.8,
                      "stale": r.random() < 0.3, "output": r.random() < 0.9 or i % 10 == 9})
        # the default worker count on a machine where the process sees a single CPU
        cases[-1]["pin"] = cases[-1]["threads"] is None and r.random() < 0.6
        cases[-1]["rooms_file"] = rooms is not None and r.random() < 0.35
        if i % 12 == 5 and i % 10 != 9 and len(doc["courses"]) >= 2 and doc["participants"]:
            # (see lines_cli_simple) somebody instructs two or three courses
            p_ = r.randrange(len(doc["participants"]))
            for c_ in r.sample(doc["courses"], min(len(doc["courses"]), r.choice([2, 2, 3]))):
                if p_ not in c_["instructors"]:
                    c_["instructors"].append(p_)
            cases[-1].update({"dual": True, "print": True, "output": True, "stale": False, "pin": False, "rooms_file": False})
    # a rooms file in which two kinds of different capacity share a name, the larger one first, and
    # rooms that are just sufficient: reading the file must not merge the two
    for _ in range(scale(tier, 6, 60)):
        f = r.randint(5, 7); big = f + 2
        courses = [{"name": f"K{i}", "num_max": big, "num_min": 0, "instructors": []} for i in range(3)]
        parts = []
        for c in range(3):
            for j in range(f):
                o = [x for x in range(3) if x != c]; r.shuffle(o)
                parts.append({"name": f"P{c}.{j}", "choices": [{"course": c, "penalty": 0}, {"course": o[0], "penalty": 1}, {"course": o[1], "penalty": 2}]})
        rooms = [big, 3 * f - big - (f), f]          # e.g. f = 6: 8, 4, 6 — together exactly 3f places
        kinds = [{"name": "Seminarraum", "capacity": rooms[0], "quantity": 1}, {"name": "Saal", "capacity": rooms[1], "quantity": 1},
                 {"name": "Seminarraum", "capacity": rooms[2], "quantity": 1}]
        cases.append({"doc": {"format": "X-coursedata-simple", "version": "1.0", "participants": parts, "courses": courses},
                      "rooms": rooms, "rooms_file": True, "kinds": kinds, "threads": r.choice([1, 2]), "print": r.random() < 0.5, "stale": False, "output": True})
    # a rooms file that offers NO room at all (empty list, or only kinds of quantity 0): the room check is on,
    # with zero rooms — only assignments in which no course needs a room can be reported
    for k in range(scale(tier, 4, 40)):
        doc, _ = gen_simple(r, rooms_mode=0)
        kinds = [] if k % 2 == 0 else [{"name": f"K{j}", "capacity": r.choice([3, 5, 10]), "quantity": 0} for j in range(r.randint(1, 3))]
        cases.append({"doc": doc, "rooms": [], "rooms_file": True, "kinds": kinds, "threads": r.choice([1, 2]), "print": r.random() < 0.5, "stale": False, "output": True})
    # a course without places (num_max 0) that takes place with its instructor only, the instructor having own
    # choices none of which is free of charge (theoretical maximum vs achieved score)
    for k in range(scale(tier, 4, 40)):
        doc, rooms = gen_simple(r, rooms_mode=1)
        if len(doc["courses"]) >= 2 and len(doc["participants"]) >= 2:
            free = [p for p in range(len(doc["participants"])) if not any(p in co["instructors"] for co in doc["courses"])]
            if free:
                p_ = free[0]
                c0 = doc["courses"][0]
                c0["num_max"] = 0; c0["num_min"] = 0; c0["instructors"] = [p_]
                doc["participants"][p_]["choices"] = [{"course": 1, "penalty": r.choice([1, 2, 3])}]
                for q in doc["participants"]:
                    q["choices"] = [ch for ch in q["choices"] if ch["course"] != 0] or ([{"course": 1, "penalty": 0}] if q is not doc["participants"][p_] else q["choices"])
        cases.append({"doc": doc, "rooms": rooms, "threads": r.choice([1, 2]), "print": r.random() < 0.5, "stale": False, "output": True})
    # very large instances: several hundred participants (f32 effects in the quality figures)
    for _ in range(scale(tier, 2, 8)):
        np_ = r.randint(340, 520)
        nc = 16
        cap = (np_ - 12) // nc + 2          # tight: many people end up in a second or third choice
        courses = [{"name": f"K{i}", "num_max": cap, "num_min": r.choice([0, 5, 10]), "instructors": []} for i in range(nc)]
        parts = []
        for i in range(np_):
            ch = r.sample(range(nc), 3)
            parts.append({"name": f"P{i}", "choices": [{"course": c, "penalty": j} for j, c in enumerate(ch)]})
        for i in range(12):
            courses[i]["instructors"].append(i)
        cases.append({"doc": {"format": "X-coursedata-simple", "version": "1.0", "participants": parts, "courses": courses},
                      "rooms": None, "threads": 4, "print": False, "stale": False, "output": True})
    return cases


def parse_listing(stdout):
    """-> list of (header, count, rooms line or None, [(name, is_instr)], [hidden names])"""
    if not stdout.startswith("The assignment is:\n"):
        return None
    body = stdout[len("The assignment is:\n"):]
    blocks = re.split(r"\n===== (.*) =====\n", "\n" + body.lstrip("\n") if not body.startswith("\n") else body)
    res = []
    for k in range(1, len(blocks), 2):
        name = blocks[k]
        lines_ = blocks[k + 1].split("\n")
        cnt = None; rooms = None; entries = []; hidden = []; inhidden = False
        for ln in lines_:
            m = re.match(r"^\((\d+) participants incl\. instructors\)$", ln)
            if m:
                cnt = int(m.group(1)); continue
            m = re.match(r"^\(possible course rooms: (.*)\)$", ln)
            if m:
                rooms = m.group(1); continue
            if ln == "further attendees (not optimized):":
                inhidden = True; continue
            if ln.startswith("- "):
                if inhidden:
                    hidden.append(ln[2:])
                elif ln.endswith(" (instr)"):
                    entries.append((ln[2:-8], True))
                else:
                    entries.append((ln[2:], False))
        res.append((name, cnt, rooms, entries, hidden))
    return res


def lines_cli_simple(cases, workdir, stream, binary):
    out = []
    d = tempfile.mkdtemp(prefix="clis", dir=workdir)
    try:
        for i, c in enumerate(cases):
            out.append({"kind": "case", "stream": stream, "case": i, "corpus": False, "data": c})
            inp = os.path.join(d, "in.json"); outp = os.path.join(d, "out.json")
            json.dump(c["doc"], open(inp, "w", encoding="utf-8"), ensure_ascii=False)
            if os.path.exists(outp):
                os.remove(outp)
            if c["stale"] and c["output"]:
                # the output path already holds a longer, older result
                open(outp, "w").write(json.dumps({"format": "X-courseassignment-simple", "version": "1.1", "assignment": [0] * 400, "quality": {}}) + "\n" * 50)
            args = []
            if c["threads"] is not None:
                args += ["--num-threads", str(c["threads"])]
            if c["rooms"] is not None and c.get("rooms_file"):
                # the same rooms as a rooms file: one entry per capacity run, the same two kind NAMES used
                # for different capacities ("Seminarraum" in two buildings), in the given order
                kinds = list(c.get("kinds") or [])
                for j, cap in enumerate([] if kinds else c["rooms"]):
                    if kinds and kinds[-1]["capacity"] == cap and j % 3 != 0:
                        kinds[-1]["quantity"] += 1
                    else:
                        kinds.append({"name": ["Seminarraum", "Saal"][len(kinds) % 2], "capacity": cap, "quantity": 1})
                json.dump(kinds, open(os.path.join(d, "rooms.json"), "w"))
                args += ["--rooms-file", os.path.join(d, "rooms.json")]
            elif c["rooms"] is not None:
                args += ["--rooms", ",".join(map(str, c["rooms"]))]
            if c["print"]:
                args.append("--print")
            args.append(inp)
            if c["output"]:
                args.append(outp)
            if want_report(c):
                args = ["--report-no-solution"] + args
            rc, so, se, to = run_bin(binary, args, pin=bool(c.get("pin")))
            if c.get("dual"):
                # a participant listed as instructor of two courses: outside the validity the properties
                # quantify over (no oracle applies), but the binary accepts it — only the tie of the listing
                # model to the code is checked (the flag is printed iff the course lists the person)
                if rc == 0 and c["print"] and c["output"] and os.path.exists(outp):
                    try:
                        a = json.load(open(outp, encoding="utf-8"))["assignment"]
                        lst = parse_listing(so)
                        names = {"c": [x["name"] for x in c["doc"]["courses"]], "p": [x["name"] for x in c["doc"]["participants"]],
                                 "h": [x.get("hidden_participant_names", []) for x in c["doc"]["courses"]]}
                        payload = json.dumps({"inst": inst_text(c["doc"], c["rooms"]), "a": fmt_assign(a), "names": names,
                                              "rooms": [x[2] for x in lst] if (c["rooms"] is not None and lst) else None}, ensure_ascii=False)
                        out.append(line("corr", ["C14"], "L", payload, json.dumps(so[len("The assignment is:\n"):], ensure_ascii=False), case=i, stream=stream,
                                        feat=["dual-instructor"]))
                    except Exception:
                        pass
                continue
            nofile = not os.path.exists(outp) or (c["stale"] and c["output"] and rc != 0)
            good = (not to) and rc in (0, 1) and "panicked" not in se and (rc == 0 or ("No feasible solution found" in se))
            out.append(line("direct", ["C10"], ok=good, what=f"exit {rc} timeout {to}; stderr tail: {se[-200:]}", case=i, stream=stream,
                            feat=[f"exit={rc}", "rooms" if c["rooms"] is not None else "norooms"] + (["default-threads-one-cpu"] if c.get("pin") else [])))
            if c.get("pin") and not to:
                # C03 / C02: the default worker count (here: of a one-CPU machine) gives the verdict of an
                # explicit single worker, and the same score outside the class of the known finding F11
                outp2 = os.path.join(d, "out1.json")
                if os.path.exists(outp2):
                    os.remove(outp2)
                args2 = ["--num-threads", "1"] + [a for a in args if a not in ("--print",)]
                args2 = [outp2 if a == outp else a for a in args2]
                if not c["output"]:
                    args2.append(outp2)
                rc2, so2, se2, to2 = run_bin(binary, args2)
                in_class = any((not co.get("fixed_course")) and any(c["doc"]["participants"][p]["choices"] for p in co["instructors"]) for co in c["doc"]["courses"])
                same = (rc == rc2) and not to2
                what = f"default worker count on one CPU: exit {rc}; --num-threads 1: exit {rc2}"
                if same and rc == 0 and c["output"] and not in_class:
                    try:
                        s1 = json.load(open(outp))["quality"].get("solution_score"); s2 = json.load(open(outp2))["quality"].get("solution_score")
                        same = s1 == s2
                        what += f"; scores {s1} / {s2}"
                    except Exception as e:
                        same = False; what += f"; output unreadable: {e}"
                out.append(line("direct", ["C03", "C02", "C10"], ok=same, what=what, case=i, stream=stream, feat=["default-vs-one-worker"]))
            if not to and rc in (0, 1):
                # the statistics the program states add up and agree with its verdict
                pr = stats_problems(parse_log(se), rc)
                out.append(line("direct", ["C04"], ok=not pr, what="; ".join(pr) or "logged statistics add up and agree with the verdict", case=i, stream=stream))
            if rc == 1:
                wrote = c["output"] and os.path.exists(outp) and not c["stale"]
                out.append(line("direct", ["C10"], ok=not wrote, what="exit status 1 but an output file was written", case=i, stream=stream, nontrivial=False))
                continue
            if rc != 0:
                continue
            np_ = len(c["doc"]["participants"]); nc = len(c["doc"]["courses"])
            a = None
            if c["output"]:
                try:
                    res = json.load(open(outp, encoding="utf-8"))
                    a = res["assignment"]
                    shape = (isinstance(a, list) and len(a) == np_ and all(x is None or (isinstance(x, int) and not isinstance(x, bool) and 0 <= x < nc) for x in a)
                             and res.get("format") == "X-courseassignment-simple" and res.get("version") == "1.1" and isinstance(res.get("quality"), dict)
                             and set(res.keys()) == {"format", "version", "assignment", "quality"})
                    out.append(line("direct", ["C14", "C16", "C01"], ok=shape, what=f"output file: keys {sorted(res.keys())}, assignment {a} for {np_} participants and {nc} courses", case=i, stream=stream))
                    if not shape:
                        a = None
                except Exception as e:
                    out.append(line("direct", ["C14", "C16"], ok=False, what=f"exit 0 but the output file does not parse: {e}", case=i, stream=stream))
                    a = None
                if a is not None:
                    it = inst_text(c["doc"], c["rooms"])
                    q = res["quality"]
                    out.append(line("spec", ["C01", "C06", "C08", "C02"], "A", f"{it}#{fmt_assign(a)}", f"valid=true hard=true score={q.get('solution_score')} room=true", case=i, stream=stream))
                    out.append(line("spec", ["C08"], "Q", f"{it}#{fmt_assign(a)}", "QUALITY", case=i, stream=stream,
                                    what=json.dumps({"q": q})))
                    pr = quality_log_problems(parse_log(se), q)
                    out.append(line("direct", ["C08"], ok=not pr, what="; ".join(pr) or "logged score and quality figures equal the quality object of the file", case=i, stream=stream))
            if c["print"]:
                lst = parse_listing(so)
                if lst is None or len(lst) != nc:
                    out.append(line("direct", ["C14"], ok=False, what=f"--print output not understood: {so[:200]!r}", case=i, stream=stream))
                    continue
                if a is not None:
                    probs = []
                    for ci, (hdr, cnt, rooms_line, entries, hidden) in enumerate(lst):
                        cdoc = c["doc"]["courses"][ci]
                        want = [(c["doc"]["participants"][p]["name"], p in cdoc["instructors"]) for p in range(np_) if a[p] == ci]
                        if hdr != cdoc["name"]:
                            probs.append(f"header {hdr!r} != {cdoc['name']!r}")
                        if entries != want:
                            probs.append(f"course {ci}: listed {entries} expected {want}")
                        if hidden != cdoc.get("hidden_participant_names", []):
                            probs.append(f"course {ci}: hidden names {hidden}")
                        if cnt != len(want) + len(cdoc.get("hidden_participant_names", [])):
                            probs.append(f"course {ci}: count {cnt}")
                        if (rooms_line is not None) != (c["rooms"] is not None):
                            probs.append(f"course {ci}: rooms line {rooms_line!r}")
                    out.append(line("direct", ["C14"], ok=not probs, what="; ".join(probs[:3]) or "listing matches the assignment array", case=i, stream=stream,
                                    feat=["hidden" if any(x.get("hidden_participant_names") for x in c["doc"]["courses"]) else "nohidden"]))
                    # the Lean model of format_assignment renders the same text
                    names = {"c": [x["name"] for x in c["doc"]["courses"]], "p": [x["name"] for x in c["doc"]["participants"]],
                             "h": [x.get("hidden_participant_names", []) for x in c["doc"]["courses"]]}
                    payload = json.dumps({"inst": inst_text(c["doc"], c["rooms"]), "a": fmt_assign(a), "names": names,
                                          "rooms": [x[2] for x in lst] if c["rooms"] is not None else None}, ensure_ascii=False)
                    out.append(line("corr", ["C14"], "L", payload, json.dumps(so[len("The assignment is:\n"):], ensure_ascii=False), case=i, stream=stream))
                    if c["rooms"] is not None and not c.get("rooms_file"):
                        payload = json.dumps({"inst": inst_text(c["doc"], c["rooms"]), "a": fmt_assign(a), "rooms": c["rooms"], "listed": [x[2] for x in lst]})
                        out.append(line("spec", ["C18"], "RL", payload, "sound=true nonempty=true", case=i, stream=stream))
    finally:
        shutil.rmtree(d, ignore_errors=True)
    return out


# --------------------------------------------------------------------------------------------------
# stream: cli-malformed (C15)

SIMPLE_CORRUPTIONS = ["no-instructors", "instructors-misspelled", "no-choices-member", "choice-oob", "instr-oob", "instr-oob-twice", "instr-eq-len", "min>max", "no-participants", "no-courses", "part-not-list", "choice-str", "neg-penalty",
                     "no-name", "no-num-max", "num-max-str", "instr-str", "factor-str", "fixed-int", "course-null", "penalty-float", "choice-missing-course",
                     "huge-index", "neg-index", "top-array", "hidden-not-list"]


def corrupt_simple(r, doc, what=None):
    what = what or r.choice(SIMPLE_CORRUPTIONS)
    cs, ps = doc["courses"], doc["participants"]
    if what == "no-instructors":
        del r.choice(cs)["instructors"]
    elif what == "instructors-misspelled":
        c = r.choice(cs)
        c["instructor"] = c.pop("instructors")
    elif what == "no-choices-member":
        del r.choice(ps)["choices"]
    elif what == "choice-oob":
        r.choice(ps)["choices"].append({"course": len(cs) + r.randint(0, 2), "penalty": 0})
    elif what == "instr-oob":
        r.choice(cs)["instructors"].append(len(ps) + r.randint(1, 3))
    elif what == "instr-oob-twice":
        c = r.choice(cs); k = len(ps) + r.randint(0, 3)
        c["instructors"] += [k, k]
    elif what == "instr-eq-len":
        r.choice(cs)["instructors"].append(len(ps))
    elif what == "min>max":
        withinstr = [c for c in cs if c["instructors"]]
        c = r.choice(withinstr) if withinstr and r.random() < 0.7 else r.choice(cs)
        c["num_min"] = c["num_max"] + 1
    elif what == "no-participants":
        del doc["participants"]
    elif what == "no-courses":
        doc["courses"] = r.choice([None, 5, "x"]) if r.random() < 0.5 else doc.pop("courses") and None
        if "courses" in doc and doc["courses"] is None and r.random() < 0.5:
            del doc["courses"]
    elif what == "part-not-list":
        doc["participants"] = {"0": ps[0]}
    elif what == "choice-str":
        r.choice(ps)["choices"].append({"course": "0", "penalty": 0})
    elif what == "neg-penalty":
        r.choice(ps)["choices"].append({"course": 0, "penalty": -1})
    elif what == "no-name":
        del r.choice(ps)["name"]
    elif what == "no-num-max":
        del r.choice(cs)["num_max"]
    elif what == "num-max-str":
        r.choice(cs)["num_max"] = "3"
    elif what == "instr-str":
        r.choice(cs)["instructors"] = ["0"]
    elif what == "factor-str":
        r.choice(cs)["room_factor"] = "1.5"
    elif what == "fixed-int":
        r.choice(cs)["fixed_course"] = 1
    elif what == "course-null":
        cs[r.randrange(len(cs))] = None
    elif what == "penalty-float":
        r.choice(ps)["choices"].append({"course": 0, "penalty": 0.5})
    elif what == "choice-missing-course":
        r.choice(ps)["choices"].append({"penalty": 0})
    elif what == "huge-index":
        r.choice(ps)["choices"].append({"course": 2 ** 63, "penalty": 0})
    elif what == "neg-index":
        r.choice(cs)["instructors"].append(-1)
    elif what == "top-array":
        return what, [doc]
    elif what == "hidden-not-list":
        r.choice(cs)["hidden_participant_names"] = "Anna"
    return what, doc


def gen_rooms_input(r):
    """a `--rooms` string or a rooms file, mostly valid with one deviation; the expectation comes from
    the Lean model of the two parsers (driver op RI)"""
    doc, _ = gen_simple(r, rooms_mode=0)
    if r.random() < 0.5:
        items = [str(r.randint(0, 40)) for _ in range(r.randint(1, 6))]
        dev = r.choice(["none", "none", "plus", "zeros", "space", "empty-item", "trailing-comma", "letters", "minus", "float", "big", "max", "nonascii-digit",
                        "empty", "semicolon", "inner-plus", "double-plus", "underscore", "hex", "tab"])
        j = r.randrange(len(items))
        if dev == "plus": items[j] = "+" + items[j]
        elif dev == "zeros": items[j] = "000" + items[j]
        elif dev == "space": items[j] = r.choice([" " + items[j], items[j] + " "])
        elif dev == "empty-item": items.insert(j, "")
        elif dev == "trailing-comma": items.append("")
        elif dev == "letters": items[j] = r.choice(["abc", "1a", "x9", "ten"])
        elif dev == "minus": items[j] = "-" + items[j]
        elif dev == "float": items[j] = items[j] + r.choice([".0", ".5", "e1"])
        elif dev == "big": items[j] = r.choice(["18446744073709551616", "99999999999999999999999"])
        elif dev == "max": items[j] = r.choice(["18446744073709551615", "4294967296"])
        elif dev == "nonascii-digit": items[j] = r.choice(["\u0663", "\uff11\uff12", "1\u0660"])
        elif dev == "empty": items = [""]
        elif dev == "semicolon": items = [";".join(items)] if len(items) > 1 else ["1;2"]
        elif dev == "inner-plus": items[j] = "1+2"
        elif dev == "double-plus": items[j] = "++3"
        elif dev == "underscore": items[j] = "1_0"
        elif dev == "hex": items[j] = "0x10"
        elif dev == "tab": items[j] = items[j] + "\t"
        return {"kind": "roomsin", "doc": doc, "what": "str-" + dev, "str": ",".join(items)}
    kinds = [{"name": f"K{i}", "capacity": r.randint(0, 40), "quantity": r.randint(0, 4)} for i in range(r.randint(0, 4))]
    dev = r.choice(["none", "none", "extra-member", "seq-form", "seq-short", "seq-long", "missing-name", "missing-capacity", "missing-quantity", "name-number",
                    "capacity-string", "capacity-float", "capacity-neg", "capacity-big", "capacity-max", "quantity-float", "quantity-neg", "quantity-null",
                    "top-object", "top-null", "kind-null", "kind-string", "nested-array", "capacity-bool", "empty"])
    if dev not in ("none", "top-object", "top-null", "empty") and not kinds:
        kinds = [{"name": "K", "capacity": 10, "quantity": 2}]
    j = r.randrange(len(kinds)) if kinds else 0
    v = kinds
    if dev == "extra-member": kinds[j]["comment"] = r.choice(["x", 1, None, [1]])
    elif dev == "seq-form": kinds[j] = [kinds[j]["name"], kinds[j]["capacity"], kinds[j]["quantity"]]
    elif dev == "seq-short": kinds[j] = [kinds[j]["name"], kinds[j]["capacity"]]
    elif dev == "seq-long": kinds[j] = [kinds[j]["name"], kinds[j]["capacity"], kinds[j]["quantity"], 1]
    elif dev.startswith("missing-"): del kinds[j][dev[8:]]
    elif dev == "name-number": kinds[j]["name"] = 7
    elif dev == "capacity-string": kinds[j]["capacity"] = "10"
    elif dev == "capacity-float": kinds[j]["capacity"] = r.choice([10.0, 10.5, 1e2])
    elif dev == "capacity-neg": kinds[j]["capacity"] = -r.randint(1, 9)
    elif dev == "capacity-big": kinds[j]["capacity"] = r.choice([18446744073709551616, 10 ** 30])
    elif dev == "capacity-max": kinds[j]["capacity"] = r.choice([18446744073709551615, 2 ** 32])
    elif dev == "quantity-float": kinds[j]["quantity"] = 2.0
    elif dev == "quantity-neg": kinds[j]["quantity"] = -1
    elif dev == "quantity-null": kinds[j]["quantity"] = None
    elif dev == "top-object": v = {"rooms": kinds}
    elif dev == "top-null": v = None
    elif dev == "kind-null": kinds[j] = None
    elif dev == "kind-string": kinds[j] = "K"
    elif dev == "nested-array": v = [kinds]
    elif dev == "capacity-bool": kinds[j]["capacity"] = True
    elif dev == "empty": v = []
    return {"kind": "roomsin", "doc": doc, "what": "file-" + dev, "file": v}


def stream_cli_malformed(seed, tier, workdir, stream):
    r = random.Random(seed * 49979687 + 17)
    # systematic: every single-field corruption on `bases` fresh base documents
    bases = scale(tier, 2, 80)
    cases = []
    for b in range(bases):
        for w in SIMPLE_CORRUPTIONS:
            doc, rooms = gen_simple(r, rooms_mode=1)
            if b % 2 == 1:
                # long names with multi-byte characters at every byte offset (the error messages quote names)
                k = len(cases)
                for j, x in enumerate(doc["participants"] + doc["courses"]):
                    x["name"] = "x" * ((k + j) % 5) + "äö€ü𝄞ß" * 8 + " " + x["name"]
            what, doc = corrupt_simple(r, doc, w)
            cases.append({"kind": "simple", "doc": doc, "what": what, "rooms": rooms})
        for w in EXPORT_CORRUPTIONS:
            for attempt in range(20):
                doc, opts, info = gen_export(r)
                what = corrupt_export(r, doc, opts, info, w)
                if what is not None:
                    cases.append({"kind": "cde", "doc": doc, "opts": opts, "what": what})
                    break
        for k in range(12):
            cases.append(gen_rooms_input(r))
        if b % 2 == 0:
            for w in ["threads-0", "rooms-garbage", "rooms-empty-item", "rooms-neg", "rooms-file-missing", "rooms-file-garbage", "rooms-file-wrong-shape",
                      "both-rooms", "threads-neg", "threads-str", "threads-2^32", "threads-2^33", "threads-huge", "track-str", "input-missing"]:
                doc, rooms = gen_simple(r, rooms_mode=0)
                cases.append({"kind": "option", "doc": doc, "what": w})
            for w in ["empty", "truncated", "binary", "not-json", "nested-deep", "bom"]:
                doc, rooms = gen_simple(r, rooms_mode=0)
                cases.append({"kind": "garbage", "doc": doc, "what": w, "cde": r.random() < 0.5})
        # a complete, valid document with bytes the JSON grammar does not allow around it (in the right format
        # for the reader that gets it, so that only those bytes stand between the file and an accepted run)
        for w in [["tail-brace", "tail-bracket", "tail-comma", "tail-letter", "tail-second-document", "tail-number-after-space", "tail-nul",
                   "head-letter", "head-comma", "comment-tail", "tail-brace-rooms-file"][(b * 3 + k) % 11] for k in range(3)]:
            if r.random() < 0.5 and not w.endswith("rooms-file"):
                doc, opts, info = gen_export(r)
                cases.append({"kind": "garbage", "doc": doc, "opts": opts, "what": w, "cde": True})
            else:
                doc, rooms = gen_simple(r, rooms_mode=0)
                cases.append({"kind": "garbage", "doc": doc, "what": w, "cde": False})
    return cases


def lines_cli_malformed(cases, workdir, stream, binary):
    out = []
    d = tempfile.mkdtemp(prefix="clim", dir=workdir)
    try:
        for i, c in enumerate(cases):
            out.append({"kind": "case", "stream": stream, "case": i, "corpus": False, "data": c})
            inp = os.path.join(d, "in.json"); outp = os.path.join(d, "out.json")
            if os.path.exists(outp):
                os.remove(outp)
            args = ["--num-threads", "1"]
            allowed = {65}
            maybe_ok = False
            if c["kind"] == "simple":
                json.dump(c["doc"], open(inp, "w", encoding="utf-8"), ensure_ascii=False)
                if c.get("rooms") is not None:
                    args += ["--rooms", ",".join(map(str, c["rooms"]))]
                args += [inp, outp]
            elif c["kind"] == "cde":
                json.dump(c["doc"], open(inp, "w", encoding="utf-8"), ensure_ascii=False)
                args = cde_args(c["opts"], None, 1) + [inp, outp]
                maybe_ok = c["what"] == "tracks-missing-in-part?"
            elif c["kind"] == "option":
                json.dump(c["doc"], open(inp, "w", encoding="utf-8"), ensure_ascii=False)
                w = c["what"]
                args = []
                if w == "threads-0":
                    args = ["--num-threads", "0", inp, outp]; allowed = {64}
                elif w == "rooms-garbage":
                    args = ["--rooms", "10,abc", inp, outp]
                elif w == "rooms-empty-item":
                    args = ["--rooms", "10,,5", inp, outp]
                elif w == "rooms-neg":
                    args = ["--rooms=-3,4", inp, outp]; allowed = {65, 2}
                elif w == "rooms-file-missing":
                    args = ["--rooms-file", os.path.join(d, "nonexistent.json"), inp, outp]; allowed = {66}
                elif w == "rooms-file-garbage":
                    open(os.path.join(d, "rooms.json"), "w").write("[{\"name\": \"A\", \"capacity\": ")
                    args = ["--rooms-file", os.path.join(d, "rooms.json"), inp, outp]
                elif w == "rooms-file-wrong-shape":
                    open(os.path.join(d, "rooms.json"), "w").write(json.dumps([{"name": "A", "capacity": "ten", "quantity": 1}]))
                    args = ["--rooms-file", os.path.join(d, "rooms.json"), inp, outp]
                elif w == "both-rooms":
                    open(os.path.join(d, "rooms.json"), "w").write("[]")
                    args = ["--rooms", "3", "--rooms-file", os.path.join(d, "rooms.json"), inp, outp]; allowed = {64}
                elif w == "threads-neg":
                    args = ["--num-threads=-1", inp, outp]; allowed = {2}
                elif w == "threads-str":
                    args = ["--num-threads", "many", inp, outp]; allowed = {2}
                elif w in ("threads-2^32", "threads-2^33", "threads-huge"):
                    # does not fit the worker count's type: refused, never truncated to some other count
                    args = ["--num-threads", {"threads-2^32": "4294967296", "threads-2^33": "8589934592", "threads-huge": "99999999999999999999"}[w], inp, outp]; allowed = {2, 64}
                elif w == "track-str":
                    args = ["--cde", "--track", "three", inp, outp]; allowed = {65}
                elif w == "input-missing":
                    args = [os.path.join(d, "nonexistent-input.json"), outp]; allowed = {66}
            elif c["kind"] == "roomsin":
                # the two room inputs: accepted exactly when the Lean model of the parser accepts
                json.dump(c["doc"], open(inp, "w", encoding="utf-8"), ensure_ascii=False)
                if "str" in c:
                    args = ["--num-threads", "1", "--rooms=" + c["str"], inp, outp]
                    payload = {"str": c["str"]}
                else:
                    json.dump(c["file"], open(os.path.join(d, "rooms.json"), "w", encoding="utf-8"), ensure_ascii=False)
                    args = ["--num-threads", "1", "--rooms-file", os.path.join(d, "rooms.json"), inp, outp]
                    payload = {"file": tag(c["file"])}
                rc, so, se, to = run_bin(binary, args)
                verdict = "REFUSE" if (rc == 65 and "ERROR" in se and not os.path.exists(outp)) else ("ok" if (rc in (0, 1) and not to and "panicked" not in se) else f"exit {rc} timeout {to} {se[-200:]}")
                out.append(line("corr", ["C15"], "RI", json.dumps(payload, ensure_ascii=False), "PREFIX:" + verdict, case=i, stream=stream,
                                feat=[f"roomsin:{c['what']}", f"exit={rc}"]))
                continue
            else:
                raw = json.dumps(c["doc"]).encode()
                w = c["what"]
                data = {"empty": b"", "truncated": raw[: len(raw) // 2], "binary": bytes(range(256)) * 3, "not-json": b"participants: []\ncourses: []\n",
                        "nested-deep": b"[" * 300 + b"]" * 300, "bom": b"\xef\xbb\xbf" + raw,
                        "tail-brace": raw + b"}", "tail-bracket": raw + b"\n]", "tail-comma": raw + b",", "tail-letter": raw + b"\nx", "tail-second-document": raw + b"\n" + raw,
                        "tail-number-after-space": raw + b" 1", "tail-nul": raw + b"\x00", "head-letter": b"x" + raw, "head-comma": b"," + raw,
                        "comment-tail": raw + b" // end", "tail-brace-rooms-file": raw}[w]
                open(inp, "wb").write(data)
                if w == "tail-brace-rooms-file":
                    open(os.path.join(d, "rooms.json"), "wb").write(json.dumps([{"name": "A", "capacity": 100, "quantity": 50}]).encode() + b"]")
                    args += ["--rooms-file", os.path.join(d, "rooms.json")]
                if c.get("opts"):
                    ca = cde_args(c["opts"], None, 1)
                    args += ca[ca.index("1") + 1:]      # without "--cde --num-threads 1": given below / already there
                args += (["--cde"] if c.get("cde") else []) + [inp, outp]
            rc, so, se, to = run_bin(binary, args)
            refused = (not to) and rc in allowed and "panicked" not in se and not os.path.exists(outp) and ("ERROR" in se or rc == 2)
            if maybe_ok and rc in (0, 1):
                refused = "panicked" not in se
            out.append(line("direct", ["C15"], ok=refused, what=f"{c['kind']}/{c['what']}: exit {rc} (allowed {sorted(allowed)}), timeout {to}, output file {os.path.exists(outp)}, stderr tail: {se[-250:]}",
                            case=i, stream=stream, feat=[f"{c['kind']}:{c['what']}", f"exit={rc}"]))
            if c["kind"] == "simple" and not isinstance(c["doc"], list):
                # the Lean model of the simple reader + validation must refuse as well
                out.append(line("corr", ["C15"], "SR", json.dumps({"doc": tag(c["doc"])}, ensure_ascii=False), "REFUSE" if rc == 65 else "ACCEPT", case=i, stream=stream))
    finally:
        shutil.rmtree(d, ignore_errors=True)
    return out


# --------------------------------------------------------------------------------------------------
# stream: cli-fault (C16): failures of creating / writing the output file

FAULT_SIMPLE = {"format": "X-coursedata-simple", "version": "1.0",
              "participants": [{"name": f"P{i}", "choices": [{"course": i % 2, "penalty": 0}, {"course": (i + 1) % 2, "penalty": 1}]} for i in range(6)],
              "courses": [{"name": "A", "num_max": 5, "num_min": 1, "instructors": []}, {"name": "B", "num_max": 5, "num_min": 1, "instructors": []}]}


def stream_cli_fault(seed, tier, workdir, stream):
    r = random.Random(seed * 67867967 + 23)
    cases = []
    # a simple instance (FAULT_SIMPLE) and an export (TestAka) that certainly have a solution
    for fmt in ["simple", "cde"]:
        for fault in ["ok", "missing-dir", "is-dir", "name-too-long", "notdir-component", "dev-full", "readonly-dir", "fsize-limit", "stale-longer",
                      "bad-option-before-output", "empty-output-path", "output-is-input", "output-is-input-other-spelling"]:
            for pr in [False, True]:
                cases.append({"fmt": fmt, "fault": fault, "print": pr, "limit": r.choice([1, 50, 200])})
            # the listing's consumer has gone away (--print into a pipe whose read end is closed): the program
            # dies in `print!` (status 101) — in particular it never turns an output fault into status 0
            if fault != "bad-option-before-output":
                cases.append({"fmt": fmt, "fault": fault, "print": True, "limit": 50, "closed": True})
            # the exit status does not depend on what is logged: logging switched off / errors only / verbose
            for k, lg in enumerate(["off", "error", "debug"]):
                cases.append({"fmt": fmt, "fault": fault, "print": k == 1, "limit": r.choice([1, 50, 200]), "rust_log": lg})
    return cases


def lines_cli_fault(cases, workdir, stream, binary):
    out = []
    d = tempfile.mkdtemp(prefix="clif", dir=workdir)
    cde_doc = os.path.join("/repo", "src", "io", "test_ressources", "TestAka_partial_export_event.json")
    try:
        for i, c in enumerate(cases):
            out.append({"kind": "case", "stream": stream, "case": i, "corpus": False, "data": c})
            inp = os.path.join(d, "in.json")
            if c["fmt"] == "simple":
                json.dump(FAULT_SIMPLE, open(inp, "w"))
                args = ["--num-threads", "1"]
            else:
                shutil.copy(cde_doc, inp)
                args = ["--num-threads", "1", "--cde", "--track", "3"]
            if c["print"]:
                args.append("--print")
            fault = c["fault"]
            sub = os.path.join(d, "sub"); shutil.rmtree(sub, ignore_errors=True); os.makedirs(sub)
            outp = os.path.join(sub, "out.json")
            pre = None
            if fault == "missing-dir":
                outp = os.path.join(sub, "nodir", "out.json")
            elif fault == "is-dir":
                os.makedirs(outp)
            elif fault == "name-too-long":
                outp = os.path.join(sub, "x" * 300 + ".json")
            elif fault == "notdir-component":
                open(os.path.join(sub, "file"), "w").write("x")
                outp = os.path.join(sub, "file", "out.json")
            elif fault == "dev-full":
                outp = "/dev/full"
            elif fault == "readonly-dir":
                os.chmod(sub, 0o555)
                if os.access(sub, os.W_OK):   # running as root: a read-only directory does not stop us
                    fault = "readonly-dir-as-root"
            elif fault == "stale-longer":
                open(outp, "w").write("{" + " " * 5000 + "\"old\": true}" + "\n" * 100)
            elif fault in ("output-is-input", "output-is-input-other-spelling"):
                # the result is to replace the input file (same path, or the same file under another spelling)
                inp2 = os.path.join(sub, "data.json"); shutil.copy(inp, inp2); inp = inp2
                outp = inp2 if fault == "output-is-input" else os.path.join(sub, ".", "data.json")
            elif fault == "empty-output-path":
                outp = ""          # e.g. `cdecao "$IN" "$OUT"` with OUT unset: an output WAS requested and cannot be created
            elif fault == "bad-option-before-output":
                # a command line clap must refuse (unknown option / unparsable value) with the OUTPUT path to
                # its right: never a run that quietly goes on without the requested output
                args = args + [inp, c.get("bad", ["--frobnicate", "--num-threads=two", "--report-no-solution=yes"][i % 3])]
            preexec = None
            if fault == "fsize-limit":
                lim = c["limit"]
                def preexec():
                    import resource, signal
                    signal.signal(signal.SIGXFSZ, signal.SIG_IGN)
                    resource.setrlimit(resource.RLIMIT_FSIZE, (lim, lim))
            closed = bool(c.get("closed"))
            env = dict(os.environ, RUST_LOG=c["rust_log"]) if c.get("rust_log") else None
            try:
                if closed:
                    pr_, pw_ = os.pipe()
                    os.close(pr_)
                    try:
                        p = subprocess.run([binary] + args + [inp, outp], stdout=pw_, stderr=subprocess.PIPE, timeout=30, preexec_fn=preexec, env=env)
                    finally:
                        os.close(pw_)
                    rc, so, se = p.returncode, "", p.stderr.decode("utf-8", "replace")
                else:
                    tail = [outp] if fault == "bad-option-before-output" else [inp, outp]
                    p = subprocess.run([binary] + args + tail, stdout=subprocess.PIPE, stderr=subprocess.PIPE, timeout=30, preexec_fn=preexec, env=env)
                    rc, so, se = p.returncode, p.stdout.decode("utf-8", "replace"), p.stderr.decode("utf-8", "replace")
            except subprocess.TimeoutExpired:
                rc, so, se = None, "", "timeout"
            finally:
                os.chmod(sub, 0o755)
            complete = False
            if os.path.isfile(outp) and outp != "/dev/full":
                try:
                    j = json.load(open(outp, encoding="utf-8"))
                    # a complete document OF THE SELECTED OUTPUT FORMAT (an export left in place is not a result)
                    complete = (("assignment" in j and j.get("format") == "X-courseassignment-simple") if c["fmt"] == "simple"
                                else ("registrations" in j and "courses" in j and j.get("kind") == "partial" and "summary" in j and "event" not in j))
                except Exception:
                    complete = False
            if rc == 0:
                ok = complete
                what = f"{c['fmt']}/{fault}/print={c['print']}: exit 0 and the output file is {'complete' if complete else 'MISSING OR INCOMPLETE'}"
            elif closed:
                # the only acceptable non-zero outcome with the consumer gone is the death in `print!`
                ok = rc == 101 and "failed printing to stdout" in se
                what = f"{c['fmt']}/{fault}/print into a closed pipe: exit {rc}; stderr tail {se[-200:]}"
            else:
                expect_fail = fault not in ("ok", "stale-longer", "readonly-dir-as-root", "output-is-input", "output-is-input-other-spelling")
                ok = expect_fail and rc is not None and rc != 0 and "panicked" not in se
                what = f"{c['fmt']}/{fault}/print={c['print']}: exit {rc}; stderr tail {se[-200:]}"
            if fault == "bad-option-before-output":
                ok = rc not in (0, None) and "panicked" not in se and not os.path.exists(outp)
            elif c["print"] and rc is not None and not closed:
                ok = ok and so.startswith("The assignment is:")
            out.append(line("direct", ["C16"], ok=ok, what=what, case=i, stream=stream, feat=[f"{fault}:exit={rc}"] + (["stdout-closed"] if closed else [])))
            if fault == "bad-option-before-output":
                continue      # refused by clap (not modelled): the oracle above is all there is to say
            # decision logic of the output stage as modelled in Lean
            created = os.path.isfile(outp) or outp == "/dev/full"
            out.append(line("corr", ["C16"], "OS", json.dumps({"created": fault in ("ok", "dev-full", "fsize-limit", "stale-longer", "readonly-dir-as-root", "output-is-input", "output-is-input-other-spelling"),
                                                                "written": fault in ("ok", "stale-longer", "readonly-dir-as-root", "output-is-input", "output-is-input-other-spelling"), "print": c["print"], "closed": closed}),
                            f"exit={rc} listing={'true' if (c['print'] and so.startswith('The assignment is:')) else 'false'}", case=i, stream=stream))
    finally:
        shutil.rmtree(d, ignore_errors=True)
    return out


# --------------------------------------------------------------------------------------------------

# --------------------------------------------------------------------------------------------------
# stream: cli-main (C15, C10): main.rs as a whole. Option / environment / document combinations with
# zero, one or SEVERAL things wrong at once — which status wins is the stage order of main.rs — are run
# through the real binary and compared with the Lean model of the whole front of main (`MainM.front`,
# driver op MF): the exit status when the run ends before the solver, else the numbers of participants
# and courses main.rs logs before it calls the solver.

def stream_cli_main(seed, tier, workdir, stream):
    r = random.Random(seed * 86028121 + 29)
    n = scale(tier, 90, 1500)
    cases = []
    for k in range(n):
        c = {"kind": "main", "faults": []}
        nf = r.choice([0, 0, 1, 1, 1, 2, 2, 3])
        pool = ["threads-0", "rooms", "roomsfile", "both-rooms", "input", "doc", "track"]
        faults = r.sample(pool, nf)
        cde = r.random() < 0.45
        if k % 9 == 4:
            faults, cde = [], False        # an edge document (below), nothing else wrong
        if "track" in faults and not cde:
            cde = True
        c["cde"] = cde
        if cde:
            for attempt in range(30):
                doc, opts, info = gen_export(r, rich=r.random() < 0.5)
                if "doc" in faults:
                    what = corrupt_export(r, doc, opts, info)
                    if what is None or what == "tracks-missing-in-part?":
                        continue
                    c["docfault"] = what
                break
            else:
                faults = [f for f in faults if f != "doc"]
            c["doc"], c["opts"] = doc, opts
            c["track"] = None if opts["track"] is None else str(opts["track"])
            if "track" in faults:
                c["track"] = r.choice(["three", "", "1.0", "-1", "18446744073709551616", "0x1", " 1", "1 "])
            elif c["track"] is not None and r.random() < 0.2:
                c["track"] = r.choice(["+", "0", "00"]) + c["track"] if r.random() < 0.7 else c["track"]
        else:
            doc, _ = gen_simple(r, rooms_mode=0)
            if "doc" in faults:
                what, doc = corrupt_simple(r, doc)
                c["docfault"] = what
            elif k % 9 == 4:
                # documents at the edge of what the reader accepts: no course at all (then nobody can have a
                # choice), nobody with a choice, a single participant, a course list of zero-size courses
                e = (k // 9) % 4
                if e == 0:
                    doc["courses"] = []
                    for q in doc["participants"]:
                        q["choices"] = []
                elif e == 1:
                    for q in doc["participants"]:
                        q["choices"] = []
                elif e == 2:
                    doc["participants"] = doc["participants"][:1]
                    for co in doc["courses"]:
                        co["instructors"] = [x for x in co["instructors"] if x == 0]
                else:
                    for co in doc["courses"]:
                        co["num_max"] = 0; co["num_min"] = 0
                c["edge"] = e
            c["doc"] = doc
        c["input"] = "ok"
        if "input" in faults:
            c["input"] = r.choice(["missing", "missing", "missing", "empty", "truncated", "not-json"])
        c["threads"] = 0 if "threads-0" in faults else r.choice([None, 1, 1, 2, 3])
        c["rooms"], c["roomsfile"] = None, None
        if "both-rooms" in faults:
            c["rooms"] = r.choice(["10,8", "x", ""])
            c["roomsfile"] = r.choice([{"json": []}, "missing", "garbage", {"json": [{"name": "A", "capacity": 10, "quantity": 2}]}])
        else:
            if "rooms" in faults:
                c["rooms"] = r.choice(["10,abc", "10,,5", "", "5;4", "1.5", "3, 4", "99999999999999999999", "١٢", "+", "4,"])
            elif "roomsfile" in faults:
                c["roomsfile"] = r.choice(["missing", "missing", "missing", "garbage", {"json": {"rooms": []}}, {"json": [{"name": "A", "capacity": "ten", "quantity": 1}]},
                                           {"json": [{"name": "A", "capacity": 10}]}, {"json": None}, {"json": [["A", 10]]}, {"json": [{"name": 1, "capacity": 1, "quantity": 1}]}])
            else:
                m = r.randrange(4)
                if m == 1:
                    c["rooms"] = ",".join(r.choice(["", "+", "0"]) + str(r.randint(0, 30)) for _ in range(r.randint(1, 6)))
                elif m == 2:
                    c["roomsfile"] = {"json": [r.choice([{"name": f"K{i}", "capacity": r.randint(0, 30), "quantity": r.randint(0, 3), "x": 1},
                                                         [f"K{i}", r.randint(0, 30), r.randint(0, 3)]]) for i in range(r.randint(0, 4))]}
        c["print"] = r.random() < 0.3
        c["output"] = r.random() < 0.7
        c["faults"] = sorted(faults)
        cases.append(c)
    return cases


def lines_cli_main(cases, workdir, stream, binary):
    out = []
    d = tempfile.mkdtemp(prefix="clmn", dir=workdir)
    try:
        for i, c in enumerate(cases):
            out.append({"kind": "case", "stream": stream, "case": i, "corpus": False, "data": c})
            inp = os.path.join(d, "in.json"); outp = os.path.join(d, "out.json"); rf = os.path.join(d, "rooms.json")
            for f in (inp, outp, rf):
                if os.path.exists(f):
                    os.remove(f)
            raw = json.dumps(c["doc"], ensure_ascii=False).encode("utf-8")
            payload = {"cde": c["cde"], "print": c["print"], "output": c["output"], "cpus": 1}
            if c["input"] == "missing":
                payload["input"] = "missing"
            else:
                data = {"ok": raw, "empty": b"", "truncated": raw[: max(1, len(raw) // 2)], "not-json": b"participants: []\n"}[c["input"]]
                open(inp, "wb").write(data)
                payload["input"] = {"doc": tag(c["doc"])} if c["input"] == "ok" else "notjson"
            args = []
            if c["cde"]:
                o = c["opts"]
                args.append("--cde")
                if c["track"] is not None:
                    args.append("--track=" + c["track"]); payload["track"] = c["track"]
                if o["ic"]:
                    args.append("--ignore-cancelled")
                if o["ia"]:
                    args.append("--ignore-assigned")
                if o["rff"]:
                    args += ["--room-factor-field", o["rff"]]
                if o["rof"]:
                    args += ["--room-offset-field", o["rof"]]
                payload.update({"ic": o["ic"], "ia": o["ia"], "rff": o["rff"], "rof": o["rof"]})
            if c["threads"] is not None:
                args += ["--num-threads", str(c["threads"])]; payload["threads"] = c["threads"]
            if c["rooms"] is not None:
                args.append("--rooms=" + c["rooms"]); payload["rooms"] = c["rooms"]
            if c["roomsfile"] is not None:
                args += ["--rooms-file", rf]
                if c["roomsfile"] == "missing":
                    payload["roomsfile"] = "missing"
                elif c["roomsfile"] == "garbage":
                    open(rf, "w").write("[{\"name\": \"A\", \"capacity\": "); payload["roomsfile"] = "notjson"
                else:
                    json.dump(c["roomsfile"]["json"], open(rf, "w")); payload["roomsfile"] = {"doc": tag(c["roomsfile"]["json"])}
            if c["print"]:
                args.append("--print")
            args.append(inp)
            if c["output"]:
                args.append(outp)
            # without --num-threads the process is pinned to one CPU: the default worker count is then 1
            if want_report(c):
                args = ["--report-no-solution"] + args
            rc, so, se, to = run_bin(binary, args, pin=c["threads"] is None, timeout=20)
            panicked = "panicked" in se
            wrote = os.path.exists(outp)
            m = re.search(r"Found (\d+) courses and (\d+) participants", se)
            if to or panicked or rc is None:
                observed = f"timeout={to} panicked={panicked} exit={rc}"
            elif rc in (64, 65, 66) and not m:
                observed = f"exit={rc}"
            elif rc == 65 and m:
                observed = "exit=65"      # refused after the counts were logged (no participants)
            elif rc in (0, 1) and m:
                observed = f"solver P={m.group(2)} C={m.group(1)} "
            else:
                observed = f"exit={rc} found-line={bool(m)}"
            feat = [f"faults={len(c['faults'])}", "fmt=" + ("cde" if c["cde"] else "simple")] + [f"fault:{f}" for f in c["faults"]] + [f"exit={rc}"]
            if c["faults"]:
                ok = (not to) and (not panicked) and rc in (64, 65, 66) and "ERROR" in se and not wrote and so == ""
                out.append(line("direct", ["C15"], ok=ok, what=f"malformed ({c['faults']}, {c.get('docfault')}): exit {rc}, timeout {to}, output file {wrote}, stdout {len(so)} bytes, stderr tail: {se[-250:]}",
                                case=i, stream=stream, feat=feat))
            else:
                ok = (not to) and (not panicked) and rc in (0, 1, 65) and (wrote == (rc == 0 and c["output"]))
                if c["cde"] and ok:
                    # an export from which nobody is left for the selected track is refused (data error), whatever
                    # else the document contains
                    try:
                        exp = problem_of(c["doc"], c["opts"])
                    except Exception:
                        exp = None
                    if exp is not None and c["track"] in (None, str(c["opts"]["track"])):
                        nobody = len(exp[1]) == 0
                        if nobody != (rc == 65):
                            ok = False
                # (C15 as well: whatever the input, the program does not panic)
                out.append(line("direct", ["C10", "C15"], ok=ok, what=f"well-formed run: exit {rc}, timeout {to}, panicked {panicked}, output file {wrote} (requested {c['output']}), stderr tail: {se[-250:]}",
                                case=i, stream=stream, feat=feat, nontrivial=rc in (0, 1)))
            out.append(line("corr", ["C15", "C10", "C16"], "MF", json.dumps(payload, ensure_ascii=False), "PREFIX:" + observed, case=i, stream=stream,
                            feat=["mf:" + observed.split(" ")[0]]))
    finally:
        shutil.rmtree(d, ignore_errors=True)
    return out


# --------------------------------------------------------------------------------------------------
# stream: simple-read: the COMPLETE result of the real simple-format reader (in-process: every field of every
# course and participant incl. the stored indices, the de-duplicated instructor lists in their order, float bit
# patterns, hidden names) and of `check_data_consistency` against the Lean model `SM.read` (driver op SD)

def stream_simple_read(seed, tier, workdir, stream):
    r = random.Random(seed * 982451653 + 31)
    n = scale(tier, 300, 12000)
    cases = []
    for i in range(n):
        doc, _ = gen_simple(r, rooms_mode=0, big=(i % 5 == 4))
        what = None
        if i % 3 == 2:
            what, doc = corrupt_simple(r, doc, SIMPLE_CORRUPTIONS[(i // 3) % len(SIMPLE_CORRUPTIONS)])
        elif i % 3 == 1:
            # instructor lists as people write them: unsorted, with repeats (adjacent or not)
            for c in doc["courses"]:
                if c["instructors"] and r.random() < 0.6:
                    c["instructors"] = c["instructors"] + [r.choice(c["instructors"]) for _ in range(r.randint(0, 2))]
                    r.shuffle(c["instructors"])
            if r.random() < 0.3:
                doc["courses"][0]["unknown_member"] = {"x": [1, 2]}
        cases.append({"doc": doc, "what": what})
    return cases


def lines_simple_read(cases, workdir, stream):
    inf = os.path.join(workdir, f"simple-in-{os.getpid()}.jsonl")
    outf = os.path.join(workdir, f"simple-out-{os.getpid()}.jsonl")
    with open(inf, "w", encoding="utf-8") as f:
        for c in cases:
            f.write(json.dumps({"doc": c["doc"]}, ensure_ascii=False) + "\n")
    p = subprocess.run([HARNESS_EXE, "simple-read", inf, outf], stdout=subprocess.PIPE, stderr=subprocess.STDOUT)
    if p.returncode != 0:
        raise RuntimeError("simple-read runner failed: " + p.stdout.decode()[-2000:])
    res = [json.loads(l) for l in open(outf, encoding="utf-8")]
    os.remove(inf); os.remove(outf)
    out = []
    for i, (c, rr) in enumerate(zip(cases, res)):
        out.append({"kind": "case", "stream": stream, "case": i, "corpus": False, "data": c})
        result = rr["result"]
        payload = json.dumps({"doc": rr["tagged"]}, ensure_ascii=False)
        feat = ["corrupt:" + str(c["what"])] if c.get("what") else ["valid"]
        props = ["C14", "C15", "C01", "C08", "C10", "C17"]
        if "panic" in result:
            out.append(line("direct", ["C15"], ok=False, what="io::simple::read panicked: " + str(result["panic"])[:200], case=i, stream=stream))
            out.append(line("corr", props, "SD", payload, "PANIC", case=i, stream=stream, feat=feat))
        elif "err" in result:
            out.append(line("corr", props, "SD", payload, "ERR", case=i, stream=stream, feat=feat + ["refused"]))
        else:
            ok = result["ok"]
            # the stored indices are the positions (what `assert_data_consitency` checks in debug builds only)
            idx_ok = all(x[0] == k for k, x in enumerate(ok["courses"])) and all(x[0] == k for k, x in enumerate(ok["parts"]))
            out.append(line("direct", ["C14", "C01", "C17"], ok=idx_ok, what="stored course / participant indices are the positions" if idx_ok else
                            f"stored indices differ from the positions: courses {[x[0] for x in ok['courses']]}, participants {[x[0] for x in ok['parts']]}",
                            case=i, stream=stream))
            out.append(line("corr", props, "SD", payload, json.dumps(ok, ensure_ascii=False), case=i, stream=stream, feat=feat + ["consistent" if ok["consistent"] else "inconsistent"]))
    return out


def run(stream, seed, tier, binary, workdir, corpus, replay_case=None):
    gens = {"cdedb-read": stream_cdedb_read, "cdedb-pairs": stream_cdedb_pairs, "e2e-cde": stream_e2e_cde,
            "cli-simple": stream_cli_simple, "cli-malformed": stream_cli_malformed, "cli-fault": stream_cli_fault, "cli-main": stream_cli_main, "simple-read": stream_simple_read}
    if replay_case is not None:
        cases = [replay_case]
    else:
        cases = []
        # corpus first
        for root, _, files in os.walk(corpus):
            for f in sorted(files):
                try:
                    v = json.load(open(os.path.join(root, f), encoding="utf-8"))
                    if v.get("stream") == stream:
                        cases.append(v["case"])
                except Exception:
                    pass
        cases += gens[stream](seed, tier, workdir, stream)
    if stream == "cdedb-read":
        return lines_cdedb_read(cases, workdir, stream)
    if stream == "cdedb-pairs":
        return lines_cdedb_pairs(cases, workdir, stream)
    if stream == "e2e-cde":
        return lines_e2e_cde(cases, workdir, stream, binary)
    if stream == "cli-simple":
        return lines_cli_simple(cases, workdir, stream, binary)
    if stream == "cli-malformed":
        return lines_cli_malformed(cases, workdir, stream, binary)
    if stream == "cli-fault":
        return lines_cli_fault(cases, workdir, stream, binary)
    if stream == "cli-main":
        return lines_cli_main(cases, workdir, stream, binary)
    if stream == "simple-read":
        return lines_simple_read(cases, workdir, stream)
    raise RuntimeError("unknown cli stream " + stream)
