#!/usr/bin/env python3
"""save_seeded.py <ID> <mN> <short-name> "<needs>" : keep a confirmed seeded change under /verif/seeded/"""
import sys, os, shutil, glob, json, subprocess
pid, m, name, needs = sys.argv[1:5]
WT = os.environ.get("WT", "/tmp/wt")
src = f"{WT}/{pid}.out/{m}"
dst = f"/verif/seeded/{pid}-{name}"
os.makedirs(dst, exist_ok=True)
for f in glob.glob(src + "/*"):
    if os.path.isfile(f) and os.path.getsize(f) < 200000:
        shutil.copy(f, dst)
cached = f"{WT}/confirm/{pid}-{m}.json"
if os.path.exists(cached):
    t = open(cached).read()
    confj = json.loads(t[t.index("{"):t.rindex("}") + 1])
else:
    conf = subprocess.run([sys.executable, "/verif/bin/confirm_mutant.py", f"{WT}/{pid}", src], stdout=subprocess.PIPE).stdout.decode()
    try:
        confj = json.loads(conf[conf.index("{"):])
    except Exception:
        confj = {"raw": conf[-500:]}
assert confj.get("confirmed"), confj
meta = {"breaks_property": pid, "needs_to_manifest": needs,
        "origin": "fresh sub-agent given only the property text and a scratch worktree of /repo at the hook commit current at the time (0156c5e up to round 7, ca2c9a6 in round 8, a890f49 in rounds 9 to 11)" + (" (second round: asked for changes that are hard to find)" if WT.endswith("wt2") else " (third round: a second pair per property, hard to find)" if WT.endswith("wt3") else " (fourth round: asked to come from an unexpected direction — a file or function the anchors do not name, or two cooperating edits)" if WT.endswith("wt4") else " (fifth round: each change had to read like a legitimate improvement — optimisation, refactoring, API modernisation or robustness fix)" if WT.endswith("wt5") or WT.endswith("wt6") else " (seventh round: the breakage had to need something specific to manifest — an interleaving, a fault at a particular point, a multi-step sequence, an unusual input or two cooperating sites — and differ in site and trigger from all earlier deliveries)" if WT.endswith("wt7") else " (eighth round: the change had to come from an indirect direction — build configuration, clap definitions, process set-up, trait impls / derives / serde attributes on the data types, a shared helper, a constant or the type of a field — not from the functions the property's anchors name)" if WT.endswith("wt8") else " (ninth round: the breakage had to sit at a boundary of the property's own quantifier — zero, empty, exactly equal, the first or the last element, nobody or everybody — where the change still reads like a tidy-up)" if WT.endswith("wt9") else " (tenth round: the breakage had to sit in how a result is carried to the user — file, listing, log line, exit status, API value — with the computation untouched, or in the swap of a container / order / numeric type that is equivalent except under ties, duplicates or repeated keys)" if WT.endswith("wt10") else " (eleventh round: the breakage had to need TWO independent things at once — two options, an option and an input trait, two input traits, or an input trait and a run-time condition — each of which alone behaves as on the unchanged tree)" if WT.endswith("wt11") else ""),
        "confirmed_by": "bin/confirm_mutant.py in the scratch worktree: 35 baseline tests pass with the change, builds with --features verif, demonstration fails with the change and passes without",
        "confirmation": confj}
json.dump(meta, open(dst + "/meta.json", "w"), indent=1)
print(dst, confj.get("confirmed"))
