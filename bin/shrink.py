"""Greedy shrinking (delta debugging) of a failing case: candidate reductions are tried one at a
time; a candidate is kept when the case still fails in the same way (same property, same kind of
failure). Works on the materialised case JSON of the streams:
  * instances (`inst`): drop a participant / course / choice / room, lower sizes, plain room
    arithmetic, fewer schedules;
  * matrices (`m`): drop a row or a column;
  * synthetic trees (`tree`): cut a subtree, fewer schedules;
  * documents (`doc`): drop registrations, courses, other tracks, optional members."""
import copy, time


def _inst_candidates(case):
    inst = case["inst"]
    P = len(inst["participants"]); C = len(inst["courses"])
    # fewer schedules first (cheapest big win)
    if "scheds" in case and len(case["scheds"]) > 1:
        for j in range(len(case["scheds"])):
            c = copy.deepcopy(case)
            del c["scheds"][j]
            if isinstance(c.get("threads"), list) and len(c["threads"]) > j:
                del c["threads"][j]
            yield c
    for i in reversed(range(P)):
        c = copy.deepcopy(case); ins = c["inst"]
        del ins["participants"][i]
        for co in ins["courses"]:
            co["instructors"] = [j if j < i else j - 1 for j in co["instructors"] if j != i]
        yield c
    for k in reversed(range(C)):
        if C <= 1:
            break
        c = copy.deepcopy(case); ins = c["inst"]
        del ins["courses"][k]
        for p in ins["participants"]:
            p["choices"] = [[ch[0] if ch[0] < k else ch[0] - 1, ch[1]] for ch in p["choices"] if ch[0] != k]
        yield c
    for i in range(P):
        for j in reversed(range(len(inst["participants"][i]["choices"]))):
            c = copy.deepcopy(case)
            del c["inst"]["participants"][i]["choices"][j]
            yield c
    if inst.get("rooms"):
        for j in reversed(range(len(inst["rooms"]))):
            c = copy.deepcopy(case)
            del c["inst"]["rooms"][j]
            yield c
    for k in range(C):
        co = inst["courses"][k]
        if co.get("fixed"):
            c = copy.deepcopy(case); c["inst"]["courses"][k]["fixed"] = False; yield c
        if co.get("factor_bits", 0x3f800000) != 0x3f800000:
            c = copy.deepcopy(case); c["inst"]["courses"][k]["factor_bits"] = 0x3f800000; c["inst"]["courses"][k]["factor"] = 1.0; yield c
        if co.get("offset_bits", 0) != 0:
            c = copy.deepcopy(case); c["inst"]["courses"][k]["offset_bits"] = 0; c["inst"]["courses"][k]["offset"] = 0.0; yield c
        if co["num_min"] > 0:
            c = copy.deepcopy(case); c["inst"]["courses"][k]["num_min"] -= 1; yield c
        if co["num_max"] > co["num_min"]:
            c = copy.deepcopy(case); c["inst"]["courses"][k]["num_max"] -= 1; yield c
        for j in reversed(range(len(co["instructors"]))):
            c = copy.deepcopy(case); del c["inst"]["courses"][k]["instructors"][j]; yield c
    for i in range(P):
        for j, ch in enumerate(inst["participants"][i]["choices"]):
            if ch[1] != j:
                c = copy.deepcopy(case); c["inst"]["participants"][i]["choices"][j][1] = j; yield c


def _matrix_candidates(case):
    m = case["m"]
    nx, ny = m["nx"], m["ny"]
    for x in reversed(range(nx)):
        if nx <= 1:
            break
        c = copy.deepcopy(case); mm = c["m"]
        mm["w"] = [v for i, v in enumerate(mm["w"]) if i // ny != x]
        del mm["dummy"][x]; del mm["skipx"][x]; mm["nx"] = nx - 1
        yield c
    for y in reversed(range(ny)):
        if ny <= 1:
            break
        c = copy.deepcopy(case); mm = c["m"]
        mm["w"] = [v for i, v in enumerate(mm["w"]) if i % ny != y]
        del mm["mand"][y]; del mm["skipy"][y]; mm["ny"] = ny - 1
        yield c
    for i, v in enumerate(m["w"]):
        if v > 3:
            c = copy.deepcopy(case); c["m"]["w"][i] = v % 4; yield c


def _tree_candidates(case):
    if "scheds" in case and len(case["scheds"]) > 1:
        for j in range(len(case["scheds"])):
            c = copy.deepcopy(case)
            del c["scheds"][j]
            if isinstance(c.get("threads"), list) and len(c["threads"]) > j:
                del c["threads"][j]
            yield c
    tree = case["tree"]
    for i in reversed(range(1, len(tree))):
        if tree[i]["k"] == "i":
            c = copy.deepcopy(case); c["tree"][i] = {"k": "n"}; yield c
            if tree[i].get("kids"):
                for j in reversed(range(len(tree[i]["kids"]))):
                    c = copy.deepcopy(case); del c["tree"][i]["kids"][j]; yield c
        elif tree[i]["k"] == "f":
            c = copy.deepcopy(case); c["tree"][i] = {"k": "n"}; yield c
    if tree[0]["k"] == "i":
        for j in reversed(range(len(tree[0].get("kids", [])))):
            c = copy.deepcopy(case); del c["tree"][0]["kids"][j]; yield c


def _doc_candidates(case):
    doc = case["doc"]
    if isinstance(doc, dict):
        for key in ("registrations", "courses"):
            if isinstance(doc.get(key), dict):
                for k in sorted(doc[key].keys(), reverse=True):
                    c = copy.deepcopy(case); del c["doc"][key][k]; yield c
        if isinstance(doc.get("registrations"), dict):
            for rk, reg in doc["registrations"].items():
                if isinstance(reg, dict) and isinstance(reg.get("tracks"), dict):
                    for tk, tv in reg["tracks"].items():
                        if isinstance(tv, dict) and isinstance(tv.get("choices"), list):
                            for j in reversed(range(len(tv["choices"]))):
                                c = copy.deepcopy(case); del c["doc"]["registrations"][rk]["tracks"][tk]["choices"][j]; yield c
        for key in ("lodgements", "lodgement_groups"):
            if key in doc:
                c = copy.deepcopy(case); del c["doc"][key]; yield c
        if isinstance(doc.get("participants"), list):
            for i in reversed(range(len(doc["participants"]))):
                c = copy.deepcopy(case); del c["doc"]["participants"][i]
                yield c
    if case.get("twin") is not None:
        c = copy.deepcopy(case); c["twin"] = None; yield c
    if case.get("rooms"):
        c = copy.deepcopy(case); c["rooms"] = None; yield c


def candidates(case):
    if not isinstance(case, dict):
        return
    if "inst" in case:
        yield from _inst_candidates(case)
    elif "m" in case:
        yield from _matrix_candidates(case)
    elif "tree" in case:
        yield from _tree_candidates(case)
    elif "doc" in case:
        yield from _doc_candidates(case)


def shrink(case, still_fails, budget_s=20.0, max_tries=400):
    """returns (smaller case, tries, accepted)"""
    t0 = time.time()
    tries = accepted = 0
    progress = True
    while progress and time.time() - t0 < budget_s and tries < max_tries:
        progress = False
        for cand in candidates(case):
            if time.time() - t0 >= budget_s or tries >= max_tries:
                break
            tries += 1
            try:
                ok = still_fails(cand)
            except Exception:
                ok = False
            if ok:
                case = cand
                accepted += 1
                progress = True
                break
    return case, tries, accepted
