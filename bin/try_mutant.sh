#!/bin/sh
# try_mutant.sh <patch.diff> <ID>... : apply a seeded change to /repo, run the quick checks, undo it.
patch="$1"; shift
cd /repo || exit 2
git diff --quiet || { echo "/repo has uncommitted changes"; exit 2; }
git apply "$patch" || exit 2
for id in "$@"; do
  VERIF_NO_EVIDENCE=1 /verif/bin/check "$id" quick 2>&1 | grep -E "VIOLATION|KNOWN-FINDING|BUILD-FAILED|^$id " | sed "s/^/[$id] /"
done
git -C /repo checkout -- .
