#!/usr/bin/env python3
"""trystream.py <stream> [seed] [tier]: run one stream against the driver and print failing lines (debug aid)"""
import sys, os, json, importlib.machinery, importlib.util
here = os.path.dirname(os.path.abspath(__file__))
loader = importlib.machinery.SourceFileLoader("check", os.path.join(here, "check"))
spec = importlib.util.spec_from_loader("check", loader); check = importlib.util.module_from_spec(spec); loader.exec_module(check)
stream = sys.argv[1]; seed = int(sys.argv[2]) if len(sys.argv) > 2 else 1; tier = sys.argv[3] if len(sys.argv) > 3 else "quick"
cases, lines = check.run_stream(stream, seed, tier)
bad = [l for l in lines if not l["pass"]]
print(f"{stream}: cases {len(cases)} lines {len(lines)} failing {len(bad)}")
from collections import Counter
print(Counter((l["kind"], l["tag"]) for l in lines))
for l in bad[:8]:
    print("---", l["kind"], l["tag"], l["props"], "case", l["case"])
    print("   what  :", l["what"][:400])
    if l["tag"]:
        print("   expect:", l["expect"][:400]); print("   got   :", l["got"][:400])
feat = Counter(f for l in lines for f in l.get("feat", []))
print(dict(feat.most_common(40)))
