#!/usr/bin/env python3
"""Regenerate MANIFEST.json from bin/config.py (keeps the manifest consistent with the checks)."""
import json, os, sys
VERIF = os.path.dirname(os.path.dirname(os.path.abspath(__file__)))
sys.path.insert(0, os.path.join(VERIF, "bin"))
from config import PROPS, NOT_APPLICABLE, LEVELS
import clistreams

props = [json.loads(l) for l in open(os.path.join(VERIF, "properties.jsonl"))]
checks = []
for p in props:
    pid = p["id"]
    if pid not in PROPS:
        continue
    cfg = PROPS[pid]
    lv = LEVELS[pid]
    checks.append({
        "property_id": pid,
        "quick_cmd": f"bin/check {pid} quick",
        "thorough_cmd": f"bin/check {pid} thorough",
        "evidence_file": f"/verif/evidence/{pid}.json",
        "replay_cmd_template": f"bin/check {pid} --replay {{path}}",
        "engine": "lean+harness",
        "level_claimed": {"category": "proof", "text": lv["text"], "design_ref": lv.get("design_ref", "DESIGN.md §7 " + pid)},
        "level_note": lv["note"],
        "technique": lv.get("technique", "Lean 4 theorems over a hand-written executable model + differential correspondence check against the Rust code"),
    })
man = {
    "version": 1,
    "setup_cmd": "bin/setup",
    "hooks": {
        "guard": "verif (cargo feature of /repo, declared as `verif = []`)",
        "enable": "the harness crate /verif/harness depends on /repo by path with features = [\"verif\"]; CLI-level streams use the release binary built with the feature off",
        "baseline_off_cmd": "cd /repo && cargo test --workspace --no-fail-fast --offline",
        "source_commits": ["67eae4f", "68483e7", "0156c5e", "70c6f34", "ca2c9a6", "a890f49", "85759ce"],
        "add_only": False,
    },
    "engines": [
        {"name": "lean", "path": "/verif/lean", "serves_properties": sorted(PROPS.keys()), "kind_free_text": "Lean 4.33 library Cdecao (models, proofs, property theorems) and the compiled model driver"},
        {"name": "harness", "path": "/verif/harness", "serves_properties": sorted(PROPS.keys()), "kind_free_text": "Rust differential harness calling the real code in-process (feature verif) incl. the scheduler shim; bin/clistreams.py drives the real release binary"},
    ],
    "checks": checks,
    "notes": "bin/check <ID> quick|thorough; VERIF_SEED seeds every random choice. known_findings.json lists known and fixed defects. The hook commits split two import lines of src/bab.rs by cfg, hence add_only=false.",
    "not_applicable": [{"property_id": p["id"], "reason": NOT_APPLICABLE.get(p["id"], "check not built yet (work in progress)")} for p in props if p["id"] not in PROPS],
}
json.dump(man, open(os.path.join(VERIF, "MANIFEST.json"), "w"), indent=1, ensure_ascii=False)
print("manifest:", len(checks), "checks;", len(man["not_applicable"]), "not claimed")
