#!/usr/bin/env python3
"""confirm_mutant.py <worktree> <mutant-dir>: confirm a seeded change in a scratch worktree:
the 35 baseline tests pass with the change, the demonstration fails with it and passes without."""
import sys, os, subprocess, json, glob, shutil, re
wt, md = sys.argv[1], sys.argv[2]
ENV = dict(os.environ, CARGO_NET_OFFLINE="true")
base = set(t.replace("cdecao::", "") for t in json.load(open("/root/.vp/BASELINE.json"))["stable_pass"])
def sh(cmd, **kw):
    p = subprocess.run(cmd, cwd=wt, env=ENV, stdout=subprocess.PIPE, stderr=subprocess.STDOUT, shell=isinstance(cmd, str), **kw)
    return p.returncode, p.stdout.decode("utf-8", "replace")
def reset():
    sh("git checkout -q -- . && git clean -fdq -e target")
def place_demo():
    tag = re.sub(r"\W", "_", os.path.basename(os.path.dirname(md.rstrip("/") + "/")) + "_" + os.path.basename(md.rstrip("/")))
    placed = []
    for f in glob.glob(os.path.join(md, "demo*.diff")):
        rc, out = sh(["git", "apply", f]); assert rc == 0, out
        placed.append(f)
    for f in ([] if placed else glob.glob(os.path.join(md, "demo*.rs"))):
        if "sched" in os.path.basename(f):
            continue
        os.makedirs(os.path.join(wt, "tests"), exist_ok=True)
        shutil.copy(f, os.path.join(wt, "tests", f"demo_{tag}_{os.path.basename(f)}"))
        placed.append(f)
    for f in glob.glob(os.path.join(md, "*.json")):
        shutil.copy(f, wt)
    return placed
def run_tests():
    rc, out = sh("cargo test --workspace --no-fail-fast --offline 2>&1", timeout=1800)
    res = {}
    for m in re.finditer(r"^test (\S+) \.\.\. (ok|FAILED)", out, re.M):
        res[m.group(1)] = m.group(2)
    if "error: could not compile" in out or "error[" in out:
        return None, out
    return res, out
def run_sh():
    r = []
    for f in glob.glob(os.path.join(md, "demo*.sh")) + glob.glob(os.path.join(md, "demo*.py")):
        rc, out = sh(["bash" if f.endswith(".sh") else "python3", f], timeout=600)
        r.append((os.path.basename(f), rc))
    return r
report = {}
reset()
# without the change
placed = place_demo()
sh("cargo build --offline 2>&1", timeout=1800)
res0, out0 = run_tests()
sh0 = run_sh()
reset()
# with the change
rc, out = sh(["git", "apply", os.path.join(md, "patch.diff")]); assert rc == 0, out
rcf, outf = sh("cargo build --offline --features verif 2>&1", timeout=1800)
sh("cargo build --offline 2>&1; cargo build --release --offline 2>&1 | tail -1", timeout=1800)
place_demo()
res1, out1 = run_tests()
sh1 = run_sh()
reset()
if res0 is None or res1 is None:
    print("COMPILE ERROR", (out0 if res0 is None else out1)[-3000:]); sys.exit(1)
base0 = {t: r for t, r in res0.items() if t in base}; base1 = {t: r for t, r in res1.items() if t in base}
demo0 = {t: r for t, r in res0.items() if t not in base}; demo1 = {t: r for t, r in res1.items() if t not in base}
ok = (len(base1) == 35 and all(r == "ok" for r in base1.values()) and rcf == 0
      and ((demo0 and all(r == "ok" for r in demo0.values()) and any(r == "FAILED" for r in demo1.values()))
           or (sh0 and all(rc == 0 for _, rc in sh0) and any(rc != 0 for _, rc in sh1))))
print(json.dumps({"confirmed": bool(ok), "baseline_with_change": f"{sum(r=='ok' for r in base1.values())}/35", "verif_feature_builds": rcf == 0,
                  "demo_without": demo0, "demo_with": demo1, "script_without": sh0, "script_with": sh1}, indent=1))
