/-! Spike for C18: every room listed by `calculate_possible_course_room_sizes` (io/rooms.rs:91-126)
    is usable — membership characterisation of the double loop and the swap argument. Core only. -/
namespace RS

/-- push `r` onto the list at slot `k` -/
def pushAt : List (List Nat) → Nat → Nat → List (List Nat)
  | [], _, _ => []
  | l :: ls, 0, r => (l ++ [r]) :: ls
  | l :: ls, k+1, r => l :: pushAt ls k r

def slot (res : List (List Nat)) (x : Nat) : List Nat := res.getD x []

theorem mem_slot_pushAt (res : List (List Nat)) (k r x v : Nat) :
    v ∈ slot (pushAt res k r) x ↔ (v ∈ slot res x ∨ (x = k ∧ k < res.length ∧ v = r)) := by
  induction res generalizing k x with
  | nil => simp [pushAt, slot]
  | cons l ls ih =>
    cases k with
    | zero =>
      cases x with
      | zero => simp [pushAt, slot]
      | succ x => simp [pushAt, slot]
    | succ k =>
      cases x with
      | zero => simp [pushAt, slot]
      | succ x =>
        have := ih k x
        simp only [slot, pushAt, List.getD_cons_succ, List.length_cons] at this ⊢
        rw [this]
        constructor
        · rintro (h | ⟨h1, h2, h3⟩)
          · exact Or.inl h
          · exact Or.inr ⟨by omega, by omega, h3⟩
        · rintro (h | ⟨h1, h2, h3⟩)
          · exact Or.inl h
          · exact Or.inr ⟨by omega, by omega, h3⟩

theorem length_pushAt (res : List (List Nat)) (k r : Nat) : (pushAt res k r).length = res.length := by
  induction res generalizing k with
  | nil => simp [pushAt]
  | cons l ls ih => cases k <;> simp [pushAt, ih]

/-- sizes `S` by rank (descending), rooms `R` (descending); reads outside are 0 -/
structure In where
  S : List Nat
  R : List Nat
def In.num (I : In) : Nat := I.S.length
def In.s (I : In) (i : Nat) : Nat := I.S.getD i 0
def In.r (I : In) (j : Nat) : Nat := I.R.getD j 0

/-- the `j`s visited by the inner loop for rank `i` (up to the `break`) -/
def js (I : In) (i : Nat) : List Nat :=
  (List.range' i (I.R.length - i)).takeWhile (fun j => decide (I.s i ≤ I.r j))

theorem mem_takeWhile_imp {α : Type} {p : α → Bool} : ∀ {l : List α} {a : α}, a ∈ l.takeWhile p → p a = true := by
  intro l
  induction l with
  | nil => intro a h; simp at h
  | cons x xs ih =>
    intro a h
    simp only [List.takeWhile_cons] at h
    by_cases hp : p x = true
    · simp only [hp, if_true, List.mem_cons] at h
      rcases h with rfl | h
      · exact hp
      · exact ih h
    · simp [hp] at h

theorem mem_js {I : In} {i j : Nat} (h : j ∈ js I i) : i ≤ j ∧ j < I.R.length ∧ I.s i ≤ I.r j := by
  have h1 := mem_takeWhile_imp h
  have h2 := (List.takeWhile_sublist _).subset h
  simp only [List.mem_range'_1] at h2
  simp only [decide_eq_true_eq] at h1
  exact ⟨h2.1, by omega, h1⟩

def innerStep (I : In) (i : Nat) (res : List (List Nat)) (j : Nat) : List (List Nat) :=
  let res := pushAt res i (I.r j)
  if j < I.num then pushAt res j (I.r i) else res

def inner (I : In) (res : List (List Nat)) (i : Nat) : List (List Nat) :=
  (js I i).foldl (innerStep I i) res

def possible (I : In) : List (List Nat) :=
  (List.range I.num).foldl (inner I) (List.replicate I.num [])

/-- where an entry of slot `x` can come from -/
def Origin (I : In) (x v : Nat) : Prop :=
  (∃ j, j ∈ js I x ∧ v = I.r j) ∨ (∃ i, x ∈ js I i ∧ x < I.num ∧ v = I.r i)

theorem innerStep_len (I : In) (i j : Nat) (res : List (List Nat)) : (innerStep I i res j).length = res.length := by
  unfold innerStep; split <;> simp [length_pushAt]

theorem inner_mem (I : In) (i : Nat) : ∀ (l : List Nat) (res : List (List Nat)), (∀ j ∈ l, j ∈ js I i) →
    ∀ x v, v ∈ slot (l.foldl (innerStep I i) res) x → v ∈ slot res x ∨ Origin I x v := by
  intro l
  induction l with
  | nil => intro res _ x v h; exact Or.inl h
  | cons j l ih =>
    intro res hl x v h
    simp only [List.foldl_cons] at h
    rcases ih (innerStep I i res j) (fun j' hj' => hl j' (List.mem_cons_of_mem _ hj')) x v h with h | h
    · have hj := hl j List.mem_cons_self
      unfold innerStep at h
      by_cases hjn : j < I.num
      · simp only [hjn, if_true] at h
        rw [mem_slot_pushAt, mem_slot_pushAt] at h
        rcases h with (h | ⟨rfl, _, rfl⟩) | ⟨rfl, _, rfl⟩
        · exact Or.inl h
        · exact Or.inr (Or.inl ⟨j, hj, rfl⟩)
        · exact Or.inr (Or.inr ⟨i, hj, hjn, rfl⟩)
      · simp only [hjn, if_false] at h
        rw [mem_slot_pushAt] at h
        rcases h with h | ⟨rfl, _, rfl⟩
        · exact Or.inl h
        · exact Or.inr (Or.inl ⟨j, hj, rfl⟩)
    · exact Or.inr h

theorem possible_mem (I : In) (x v : Nat) (h : v ∈ slot (possible I) x) : Origin I x v := by
  have : ∀ (l : List Nat) (res : List (List Nat)) x v, v ∈ slot (l.foldl (inner I) res) x →
      v ∈ slot res x ∨ Origin I x v := by
    intro l
    induction l with
    | nil => intro res x v h; exact Or.inl h
    | cons i l ih =>
      intro res x v h
      simp only [List.foldl_cons] at h
      rcases ih (inner I res i) x v h with h | h
      · exact inner_mem I i (js I i) res (fun _ hj => hj) x v h
      · exact Or.inr h
  rcases this (List.range I.num) (List.replicate I.num []) x v h with h | h
  · exfalso
    simp only [slot, List.getD_eq_getElem?_getD, List.getElem?_replicate] at h
    split at h <;> simp at h
  · exact h

/-! ### the swap argument -/

def Desc (l : List Nat) : Prop := ∀ i j, i ≤ j → j < l.length → l.getD j 0 ≤ l.getD i 0

/-- rank-wise room feasibility of the assignment -/
def Feasible (I : In) : Prop := ∀ i, i < I.num → 0 < I.s i → i < I.R.length ∧ I.s i ≤ I.r i

/-- a complete allocation of distinct rooms (indices) to all courses that take place -/
structure Alloc (I : In) (f : Nat → Nat) : Prop where
  lt : ∀ i, i < I.num → 0 < I.s i → f i < I.R.length
  fits : ∀ i, i < I.num → 0 < I.s i → I.s i ≤ I.r (f i)
  inj : ∀ i1 i2, i1 < I.num → i2 < I.num → 0 < I.s i1 → 0 < I.s i2 → f i1 = f i2 → i1 = i2

def swap (a b : Nat) (i : Nat) : Nat := if i = a then b else if i = b then a else i

theorem swap_alloc (I : In) (hR : Desc I.R) (hF : Feasible I) (a b : Nat) (hab : a ≤ b) (hb : b < I.R.length)
    (hfit : I.s a ≤ I.r b) : Alloc I (swap a b) := by
  have sa : swap a b a = b := by simp [swap]
  have sb : swap a b b = a := by
    unfold swap; by_cases e : b = a
    · simp [e]
    · simp [e]
  have so : ∀ i, i ≠ a → i ≠ b → swap a b i = i := by
    intro i h1 h2; simp [swap, h1, h2]
  refine ⟨?_, ?_, ?_⟩
  · intro i hi hs
    by_cases h1 : i = a
    · rw [h1, sa]; exact hb
    · by_cases h2 : i = b
      · rw [h2, sb]; omega
      · rw [so i h1 h2]; exact (hF i hi hs).1
  · intro i hi hs
    by_cases h1 : i = a
    · rw [h1, sa]; exact hfit
    · by_cases h2 : i = b
      · rw [h2, sb]
        have h3 := (hF i hi hs).2
        have h4 := hR a b hab hb
        rw [h2] at h3
        simp only [In.r] at *; omega
      · rw [so i h1 h2]; exact (hF i hi hs).2
  · intro i1 i2 _ _ _ _ h
    by_cases h1 : i1 = a <;> by_cases h2 : i2 = a
    · rw [h1, h2]
    · by_cases h4 : i2 = b
      · rw [h1, h4, sa, sb] at h; rw [h1, h4]; exact h.symm
      · rw [h1, sa, so i2 h2 h4] at h; exact absurd h.symm h4
    · by_cases h3 : i1 = b
      · rw [h2, h3, sa, sb] at h; rw [h2, h3]; exact h.symm
      · rw [h2, sa, so i1 h1 h3] at h; exact absurd h h3
    · by_cases h3 : i1 = b <;> by_cases h4 : i2 = b
      · rw [h3, h4]
      · rw [h3, sb, so i2 h2 h4] at h; exact absurd h.symm h2
      · rw [h4, sb, so i1 h1 h3] at h; exact absurd h h1
      · rw [so i1 h1 h3, so i2 h2 h4] at h; exact h

/-- C18, soundness: every listed room is large enough and occurs in a complete allocation in which
    the course gets a room of exactly that size; and a course that takes place is offered a room. -/
theorem possible_sound (I : In) (hR : Desc I.R) (hF : Feasible I) (x v : Nat) (hx : x < I.num)
    (h : v ∈ slot (possible I) x) :
    I.s x ≤ v ∧ ∃ f, Alloc I f ∧ I.r (f x) = v := by
  rcases possible_mem I x v h with ⟨j, hj, rfl⟩ | ⟨i, hi, _, rfl⟩
  · obtain ⟨h1, h2, h3⟩ := mem_js hj
    exact ⟨h3, swap x j, swap_alloc I hR hF x j h1 h2 h3, by simp [swap]⟩
  · obtain ⟨h1, h2, h3⟩ := mem_js hi
    refine ⟨?_, swap i x, swap_alloc I hR hF i x h1 h2 h3, ?_⟩
    · by_cases hs : 0 < I.s x
      · have := (hF x hx hs).2
        have := hR i x h1 h2
        simp only [In.r] at *; omega
      · omega
    · unfold swap
      by_cases e : x = i
      · simp [e]
      · simp [e]

#print axioms possible_sound

/-! ### every course that takes place is offered at least its own rank's room -/

theorem innerStep_mono (I : In) (i j : Nat) (res : List (List Nat)) (x v : Nat) (h : v ∈ slot res x) :
    v ∈ slot (innerStep I i res j) x := by
  unfold innerStep
  split
  · rw [mem_slot_pushAt, mem_slot_pushAt]; exact Or.inl (Or.inl h)
  · rw [mem_slot_pushAt]; exact Or.inl h

theorem foldl_innerStep_mono (I : In) (i : Nat) (l : List Nat) (res : List (List Nat)) (x v : Nat)
    (h : v ∈ slot res x) : v ∈ slot (l.foldl (innerStep I i) res) x := by
  induction l generalizing res with
  | nil => exact h
  | cons j l ih => exact ih _ (innerStep_mono I i j res x v h)

theorem foldl_innerStep_len (I : In) (i : Nat) (l : List Nat) (res : List (List Nat)) :
    (l.foldl (innerStep I i) res).length = res.length := by
  induction l generalizing res with
  | nil => rfl
  | cons j l ih => simp only [List.foldl_cons]; rw [ih, innerStep_len]

theorem inner_mono (I : In) (i : Nat) (res : List (List Nat)) (x v : Nat) (h : v ∈ slot res x) :
    v ∈ slot (inner I res i) x := foldl_innerStep_mono I i _ res x v h

theorem foldl_inner_mono (I : In) (l : List Nat) (res : List (List Nat)) (x v : Nat)
    (h : v ∈ slot res x) : v ∈ slot (l.foldl (inner I) res) x := by
  induction l generalizing res with
  | nil => exact h
  | cons i l ih => exact ih _ (inner_mono I i res x v h)

theorem foldl_inner_len (I : In) (l : List Nat) (res : List (List Nat)) :
    (l.foldl (inner I) res).length = res.length := by
  induction l generalizing res with
  | nil => rfl
  | cons i l ih =>
    simp only [List.foldl_cons]; rw [ih]
    exact foldl_innerStep_len I i _ res

/-- the inner loop for rank `x` pushes `R[x]` onto slot `x` when the room at its rank fits -/
theorem inner_self (I : In) (x : Nat) (res : List (List Nat)) (hx : x < res.length) (hL : x < I.R.length)
    (hfit : I.s x ≤ I.r x) : I.r x ∈ slot (inner I res x) x := by
  have hjs : js I x = x :: ((List.range' (x + 1) (I.R.length - x - 1)).takeWhile (fun j => decide (I.s x ≤ I.r j))) := by
    unfold js
    have : I.R.length - x = (I.R.length - x - 1) + 1 := by omega
    rw [this, List.range'_succ, List.takeWhile_cons]
    simp [hfit]
  unfold inner
  rw [hjs, List.foldl_cons]
  apply foldl_innerStep_mono
  unfold innerStep
  split
  · rw [mem_slot_pushAt, mem_slot_pushAt]
    exact Or.inl (Or.inr ⟨rfl, hx, rfl⟩)
  · rw [mem_slot_pushAt]; exact Or.inr ⟨rfl, hx, rfl⟩

theorem possible_nonempty (I : In) (hF : Feasible I) (x : Nat) (hx : x < I.num) (hs : 0 < I.s x) :
    I.r x ∈ slot (possible I) x := by
  obtain ⟨hL, hfit⟩ := hF x hx hs
  unfold possible
  -- split the outer loop at x
  have hsplit : List.range I.num = List.range x ++ x :: List.range' (x + 1) (I.num - x - 1) := by
    have h1 : List.range I.num = List.range' 0 I.num := List.range_eq_range' ..
    have h2 : List.range x = List.range' 0 x := List.range_eq_range' ..
    rw [h1, h2]
    have : I.num = x + (1 + (I.num - x - 1)) := by omega
    conv => lhs; rw [this]
    rw [List.range'_append_1 (s := 0) (m := x) (n := 1 + (I.num - x - 1)) |>.symm]
    congr 1
    rw [show 1 + (I.num - x - 1) = (I.num - x - 1) + 1 by omega, List.range'_succ]
    simp
  rw [hsplit, List.foldl_append, List.foldl_cons]
  apply foldl_inner_mono
  apply inner_self I x _ _ hL hfit
  rw [foldl_inner_len]; simpa using hx

#print axioms possible_nonempty
end RS
