import Cdecao.Model.Hungarian
/-! Executable form of the C07 specification (evaluated by the driver on the matching the
    implementation returned). Core only. The `Prop`/`Finset` form is `H2.Perfect`/`H2.weight` in
    `Proofs/HungFinal.lean`; `Proofs/SpecExec.lean` proves the two agree. -/
namespace HSpec
open H2

def liveX (I : Inp) : List Nat := (List.range I.nx).filter (fun x => !I.skipx.get x)
def liveY (I : Inp) : List Nat := (List.range I.ny).filter (fun y => !I.skipy.get y)

/-- `σ` is a constrained perfect matching: maps non-skipped columns to non-skipped rows,
    injectively, through allowed pairs -/
def perfectb (I : Inp) (σ : Nat → Nat) : Bool :=
  (liveY I).all (fun y => decide (σ y < I.nx) && !I.skipx.get (σ y) && allowed I (σ y) y) &&
  (liveY I).all (fun y => (liveY I).all (fun y' => y == y' || σ y != σ y'))

/-- total weight over the non-skipped columns -/
def weight (I : Inp) (σ : Nat → Nat) : Int :=
  ((liveY I).map (fun y => I.wt (σ y) y)).sum

def square (I : Inp) : Bool := (liveX I).length == (liveY I).length

end HSpec
