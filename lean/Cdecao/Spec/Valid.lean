import Cdecao.Model.Node
/-! Decidable validity of an instance: the hypotheses under which the node-level theorems are
    stated (`InstOK2`, `numMin ≤ numMax`, the penalty bound), as one executable check that the
    driver evaluates on every input. `Proofs/SpecExec.lean` proves it sound (`validb_sound`).
    Core only. -/
namespace N2

/-- executable `List.Nodup` on naturals -/
def nodupb : List Nat → Bool
  | [] => true
  | x :: xs => !xs.contains x && nodupb xs

/-- all instructor entries of all courses, in order -/
def Inst.allInstructors (I : Inst) : List Nat := I.cs.flatMap (fun c => c.instructors)

/-- all penalties of all choices of all participants, in order -/
def Inst.allPenalties (I : Inst) : List Nat := I.ps.flatMap (fun p => p.choices.map (fun ch => ch.penalty))

/-- the largest penalty of the instance (0 if there is no choice at all) -/
def Inst.maxPenalty (I : Inst) : Nat := I.allPenalties.foldl max 0

/-- validity of an instance:
    * every choice names a course `< I.C`, every instructor entry a participant `< I.P`;
    * `numMin ≤ numMax` for every course;
    * every participant occurs at most once over all instructor lists together
      (instructs at most one course, and is listed there once);
    * no course occurs twice in the choice list of one participant;
    * `I.P * (largest penalty) < WEIGHT` (= 50000);
    * some participant has choices. -/
def validb (I : Inst) : Bool :=
  I.precomputeOk &&
  I.cs.all (fun c => decide (c.numMin ≤ c.numMax)) &&
  nodupb I.allInstructors &&
  I.ps.all (fun p => nodupb (p.choices.map (fun ch => ch.course))) &&
  decide (I.P * I.maxPenalty < WEIGHT) &&
  I.ps.any (fun p => !p.choices.isEmpty)

end N2

namespace N2
/-- the class outside the known finding F1, decidable: every instructor of a non-fixed course has
    an empty choice list -/
def noFreeableb (I : Inst) : Bool :=
  I.cs.all (fun c => c.fixed || c.instructors.all (fun p => (I.part p).choices.isEmpty))
end N2
