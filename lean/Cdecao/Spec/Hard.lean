import Cdecao.Model.Node
/-! Specification of C01 (hard constraints of a reported assignment) over the types of the node
    model, with an executable decision procedure for the driver. Core only. -/
namespace N2.G
open H2

def _root_.N2.Inst.instructs (I : Inst) (p c : Nat) : Bool := (I.course c).instructors.contains p
def _root_.N2.Inst.hasChoices (I : Inst) (p : Nat) : Bool := !(I.part p).choices.isEmpty
def _root_.N2.Inst.chose (I : Inst) (p c : Nat) : Bool := (I.part p).choices.any (fun ch => ch.course == c)

def _root_.N2.Inst.choseOpt (I : Inst) (p : Nat) (a : Option Nat) : Bool :=
  (I.part p).choices.any (fun ch => some ch.course == a)

/-! ### specification (C01) -/

def takesPlace (I : Inst) (a : Nat → Option Nat) (c : Nat) : Prop :=
  (I.course c).fixed = true ∨ ∃ p, p < I.P ∧ a p = some c

def attendees (I : Inst) (a : Nat → Option Nat) (c : Nat) : Nat :=
  (List.range I.P).countP (fun p => a p == some c && !I.instructs p c)

structure HardOK (I : Inst) (a : Nat → Option Nat) : Prop where
  range : ∀ p, p < I.P → ∀ c, a p = some c → c < I.C
  instr : ∀ c, c < I.C → takesPlace I a c → ∀ i, i < I.P → I.instructs i c = true → a i = some c
  min : ∀ c, c < I.C → takesPlace I a c → (I.course c).numMin ≤ attendees I a c
  max : ∀ c, c < I.C → takesPlace I a c → attendees I a c ≤ (I.course c).numMax
  chosen : ∀ p, p < I.P → I.hasChoices p = true →
      (¬ ∃ c, c < I.C ∧ I.instructs p c = true ∧ takesPlace I a c) →
      ∃ ch ∈ (I.part p).choices, a p = some ch.course
  only : ∀ p, p < I.P → I.hasChoices p = false → ∀ c, a p = some c → I.instructs p c = true


/-! ### executable versions (evaluated by the driver on the implementation's output) -/

def takesPlaceb (I : Inst) (a : Nat → Option Nat) (c : Nat) : Bool :=
  (I.course c).fixed || (List.range I.P).any (fun p => a p == some c)

/-- decision procedure for `HardOK` -/
def hardOKb (I : Inst) (a : Nat → Option Nat) : Bool :=
  (List.range I.P).all (fun p => match a p with | some c => decide (c < I.C) | none => true) &&
  (List.range I.C).all (fun c => !takesPlaceb I a c ||
    ((List.range I.P).all (fun i => !I.instructs i c || a i == some c) &&
     decide ((I.course c).numMin ≤ attendees I a c) && decide (attendees I a c ≤ (I.course c).numMax))) &&
  (List.range I.P).all (fun p =>
    if I.hasChoices p then
      ((List.range I.C).any (fun c => I.instructs p c && takesPlaceb I a c)) || I.choseOpt p (a p)
    else
      match a p with | some c => I.instructs p c | none => true)

end N2.G
