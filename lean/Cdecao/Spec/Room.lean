import Cdecao.Model.Node
/-! Executable form of the C06 specification: sorted descending, every effective course size fits
    the room of the same rank (missing rooms count as size 0). Core only. -/
namespace RSpec
open N2

def sortDesc (l : List Nat) : List Nat := l.mergeSort (fun a b => decide (b ≤ a))

/-- effective sizes by the documented rule: empty non-fixed courses need no room -/
def sizes (I : Inst) (R : RoomFns) (a : Nat → Option Nat) : List Nat :=
  (List.range I.C).map fun c =>
    let cnt := (List.range I.P).countP (fun p => a p == some c)
    if cnt == 0 && !(I.course c).fixed then 0 else R.eff c cnt

def roomOKb (I : Inst) (R : RoomFns) (a : Nat → Option Nat) (rooms : List Nat) : Bool :=
  let s := sortDesc (sizes I R a)
  let r := sortDesc rooms
  (List.range s.length).all (fun i => decide (s.getD i 0 ≤ r.getD i 0))

end RSpec
