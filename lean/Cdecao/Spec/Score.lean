import Cdecao.Spec.Hard
/-! Specification of the documented score rule (C02, C08) in executable form. Core only. -/
namespace N2.G
open H2

def W : Nat := 50000

/-- weight of placing participant `p` into course `c` (edge weight of the adjacency matrix) -/
def weightOf (I : Inst) (p c : Nat) : Nat :=
  match (I.part p).choices.reverse.find? (fun ch => ch.course == c) with
  | some ch => W - ch.penalty
  | none => 0


/-- the summand of participant `p` in the documented score of assignment `a` -/
def scoreTerm (I : Inst) (a : Nat → Option Nat) (p : Nat) : Nat :=
  match a p with
  | none => 0
  | some c => if I.instructs p c = true then (if I.hasChoices p = true then W else 0) else weightOf I p c

/-- the documented rule as a list sum (what the driver evaluates) -/
def scoreOfL (I : Inst) (a : Nat → Option Nat) : Nat :=
  ((List.range I.P).map (scoreTerm I a)).sum

end N2.G
