import Cdecao.Model.Listing
import Cdecao.Props.C01
/-! # C14 — simple-format output and printed listing line up with the input -/
namespace Props
open N2 LM

/-- the listing of course `c` contains exactly the participants the assignment puts into `c`
    (below `P`), each flagged exactly when listed among the course's instructors -/
theorem C14_entries (I : Inst) (a : Nat → Option Nat) (c p : Nat) (b : Bool) :
    (p, b) ∈ entries I a c ↔ (p < I.P ∧ a p = some c ∧ b = (I.course c).instructors.contains p) := by
  unfold entries
  simp only [List.mem_map, List.mem_filter, List.mem_range, beq_iff_eq, Prod.mk.injEq]
  constructor
  · rintro ⟨q, ⟨hq, hq2⟩, rfl, rfl⟩
    exact ⟨hq, hq2, rfl⟩
  · rintro ⟨h1, h2, h3⟩
    exact ⟨p, ⟨h1, h2⟩, rfl, h3.symm⟩

/-- in participant order, without repetition -/
theorem C14_entries_sorted (I : Inst) (a : Nat → Option Nat) (c : Nat) :
    ((entries I a c).map (·.1)).Pairwise (· < ·) := by
  unfold entries
  rw [List.map_map]
  have : (List.map ((fun x => x.1) ∘ fun p => (p, (I.course c).instructors.contains p))
      (List.filter (fun p => a p == some c) (List.range I.P))) = List.filter (fun p => a p == some c) (List.range I.P) := by
    simp [Function.comp_def]
  rw [this]
  exact List.Pairwise.filter _ List.pairwise_lt_range

/-- the `assignment` array of the simple-format output: one entry per participant, each `null`
    or a valid course index (for every valid instance, thread count and schedule) -/
theorem C14_array (I : Inst) (R : RoomFns) (hv : validb I = true) (top T : Nat) :
    letI := solverOf I R
    ∀ c : Eng3.Cfg Node (List (Option Nat)),
      Eng3.Reach rootNode top T c → ∀ al, c.best = some al →
      al.length = I.P ∧ ∀ x ∈ al, ∀ k, x = some k → k < I.C := by
  letI := solverOf I R
  intro c hr al hal
  obtain ⟨h1, a, h2, h3⟩ := C01_engine I R (validb_sound I hv).1.toInstOK top T c hr al hal
  refine ⟨h1, ?_⟩
  intro x hx k hk
  subst h2
  simp only [List.mem_map, List.mem_range] at hx
  obtain ⟨p, hp, rfl⟩ := hx
  exact h3.range p hp k hk

end Props
