import Cdecao.Model.Cdedb
import Cdecao.Proofs.ReaderProofs
/-! # C13 — the reader looks at nothing but the selected part and track (non-interference)

`CD.read` models io::cdedb::read from the JSON value on. All proofs are in
`Cdecao/Proofs/ReaderProofs.lean` (sections 3 and 6).

The *views* are the few members each per-record parser looks up:
* `statusView reg partId`  — `reg.parts[partId].status` (with the information whether the
  enclosing objects exist);
* `personaView reg`        — `reg.persona.given_names`, `reg.persona.family_name`;
* `trackView reg trackId`  — `reg.tracks[trackId].{course_id, course_instructor, choices}`;
* `segView c trackId`      — `c.segments[trackId]`.

Each parser is proved to be a function of its views (`…_eq_view`); the relation `CD.Agree` says two
exports have the same views record by record (same record keys in the same order), up to the two
option-dependent freedoms, and `C13_read` says the reader cannot tell such exports apart. -/
namespace Props
open JS CD

/-! ## locality of the per-record parsers -/

/-- `participantBase reg partId` depends only on `parts[partId].status` and the two persona names -/
theorem C13_participantBase (reg reg' : J) (partId : Nat)
    (h1 : statusView reg partId = statusView reg' partId) (h2 : personaView reg = personaView reg') :
    participantBase reg partId = participantBase reg' partId :=
  participantBase_local reg reg' partId h1 h2

/-- `participantCourseData reg trackId co` depends only on `tracks[trackId]`'s `course_id` /
    `course_instructor` / `choices` -/
theorem C13_participantCourseData (reg reg' : J) (trackId : Nat) (co : CoursesOut)
    (h : trackView reg trackId = trackView reg' trackId) :
    participantCourseData reg trackId co = participantCourseData reg' trackId co :=
  participantCourseData_local reg reg' trackId co h

/-- without `ignoreAssigned`, what the registration loop does with a parsed registration
    (`regApply` is the body of `readRegs.go`, see `readRegs_go_cons`) does not depend on
    `pc.assigned` -/
theorem C13_assigned_unused (td : List (String × J)) (o : Opts) (s : RState) (rid : Nat)
    (name : String) (pc : PCData) (h : o.ignoreAssigned = false) :
    regApply td o s rid name pc = regApply td o s rid name { pc with assigned := none } :=
  regApply_assigned_free td o s rid name pc h

/-- … and any two accepted `course_id` values give the same parse result up to `assigned` -/
theorem C13_course_id_free (co : CoursesOut) (cid cid' : J) (cin chs : Option J)
    (h : AssignedOk co cid) (h' : AssignedOk co cid') :
    (participantCourseDataV (some (some (some cid, cin, chs))) co).map forgetAssigned =
      (participantCourseDataV (some (some (some cid', cin, chs))) co).map forgetAssigned :=
  pcdV_assigned_free co cid cid' cin chs h h'

/-- `parseCourseBase cdata trackId` depends only on `segments[trackId]`, `nr`, `shortname`,
    `max_size`, `min_size` -/
theorem C13_parseCourseBase (c c' : J) (trackId : Nat)
    (hs : segView c trackId = segView c' trackId) (h1 : c.get "nr" = c'.get "nr")
    (h2 : c.get "shortname" = c'.get "shortname") (h3 : c.get "max_size" = c'.get "max_size")
    (h4 : c.get "min_size" = c'.get "min_size") :
    parseCourseBase c trackId = parseCourseBase c' trackId :=
  parseCourseBase_local c c' trackId hs h1 h2 h3 h4

/-- `roomFields` depends only on the `fields` member -/
theorem C13_roomFields (c c' : J) (o : Opts) (h : c.get "fields" = c'.get "fields") :
    roomFields c o = roomFields c' o :=
  roomFields_local c c' o h

/-! ## the two loops -/

/-- course records that agree (`CourseAgree`: same `segments[trackId]` — or, without
    `ignoreCancelled`, both a boolean — and same `nr`, `shortname`, `max_size`, `min_size`,
    `fields`) give the same `readCourses` result, hence the same `courseIndex`: in particular,
    without `ignoreCancelled`, flipping `segments[trackId]` between true and false changes neither -/
theorem C13_readCourses (o : Opts) (trackId : Nat) (l l' : List (String × J))
    (h : ObjAgree (CourseAgree o trackId) l l') :
    readCourses l trackId o = readCourses l' trackId o :=
  readCourses_agree o trackId l l' h

/-- registration records that agree (`RegAgree`: same views — or, without `ignoreAssigned`, any two
    accepted `course_id` values) give the same `readRegs` result -/
theorem C13_readRegs (partId trackId : Nat) (td : List (String × J)) (co : CoursesOut) (o : Opts)
    (l l' : List (String × J)) (h : ObjAgree (RegAgree o partId trackId co) l l') :
    readRegs l partId trackId td co o = readRegs l' partId trackId td co o :=
  readRegs_agree partId trackId td co o l l' h

/-! ## the whole reader -/

/-- **C13.** Two exports that agree on what the reader looks at (`CD.Agree`) are read to the same
    result — the same participants, courses and ambience data, or the same error. `Agree` lets them
    differ ONLY in:
    * members of each registration's `tracks` object other than the selected track's entry, and
      members of that entry other than `course_id` / `course_instructor` / `choices`;
    * members of each registration's `parts` object other than the selected part's entry, and
      members of that entry other than `status`;
    * `persona` members other than `given_names` / `family_name`;
    * any other top-level member of a registration (`fields`, `notes`, …);
    * each course's `segments` entries of other tracks, and course members other than `segments` /
      `nr` / `shortname` / `max_size` / `min_size` / `fields`;
    * top-level members other than kind / EVENT_SCHEMA_VERSION / CDEDB_EXPORT_EVENT_VERSION /
      timestamp / event / courses / registrations / id (e.g. lodgements);
    * when `o.ignoreAssigned = false`: the selected track's `course_id` value, among non-u64 values
      (null) and keys of the `courses` object;
    * when `o.ignoreCancelled = false`: true/false values of the selected track's segments. -/
theorem C13_read (o : Opts) (partId trackId : Nat) (e e' : J) (h : Agree o partId trackId e e') :
    CD.read e o = CD.read e' o :=
  read_agree o partId trackId e e' h

/-- `Agree` is reflexive for the part and track `findTrack` selects (such a pair always exists:
    `CD.exists_selected`) -/
theorem C13_agree_refl (o : Opts) (partId trackId : Nat) (e : J)
    (hsel : ∀ parts p t td, eventParts e = some parts → findTrack parts o.track = .ok (p, t, td) →
      p = partId ∧ t = trackId) : Agree o partId trackId e e :=
  Agree.refl o partId trackId e hsel

/-- instance: setting (adding or replacing) any top-level member the reader does not fetch —
    `lodgements`, `lodgement_groups`, … — does not change the result -/
theorem C13_toplevel (o : Opts) (kv : List (String × J)) (k : String) (v : J)
    (hk : k ∉ ["kind", "EVENT_SCHEMA_VERSION", "CDEDB_EXPORT_EVENT_VERSION", "timestamp", "event",
               "courses", "registrations", "id"]) :
    CD.read (.obj (setKey k v kv)) o = CD.read (.obj kv) o :=
  read_setKey_toplevel o kv k v hk

example : "lodgements" ∉ ["kind", "EVENT_SCHEMA_VERSION", "CDEDB_EXPORT_EVENT_VERSION", "timestamp",
    "event", "courses", "registrations", "id"] := by decide

/-! The views only depend on a few lookups (`statusView_congr`, `personaView_congr`,
    `trackView_congr`, `segView_congr`, `regAgreeE_of_get` in ReaderProofs), which is how `Agree` is
    established for concrete edits; ReaderProofs section 6 ends with a worked example of two
    exports differing in every way listed above and the resulting `read exE exO = read exE' exO`. -/

end Props

#print axioms Props.C13_participantBase
#print axioms Props.C13_participantCourseData
#print axioms Props.C13_assigned_unused
#print axioms Props.C13_course_id_free
#print axioms Props.C13_parseCourseBase
#print axioms Props.C13_readCourses
#print axioms Props.C13_readRegs
#print axioms Props.C13_read
#print axioms Props.C13_toplevel
