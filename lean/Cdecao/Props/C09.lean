import Cdecao.Engine.Core
/-! # C09 — the generic branch-and-bound engine returns the best leaf of any bounded tree

`Eng3` models bab.rs as a transition system over micro-steps of the worker loop; node type and
node solver are parameters (class `Solver`: verdict and children of a subproblem). `Bounded root`
is the premise of the property: the score attached to an inner node is at least the score of every
feasible node below it. `top` is `Score::max_value()`. -/
namespace Props
open Eng3
variable {ν σ : Type} [Solver ν σ]

/-- C09: for every thread count `T ≥ 1` and every schedule (`Reach`), once all workers have stopped
    (`AllDone`): every feasible node of the tree scores at most the returned best score and a
    solution is returned; and whatever is returned is the solution of a feasible node of the tree
    with exactly the returned score. In particular nothing is returned iff the tree has no feasible
    node. -/
theorem C09 {root : ν} {top T : Nat} {c : Cfg ν σ} (hT : 0 < T) (hb : Bounded root)
    (htop : ∀ f sc, Desc f root → IsFeas f sc → sc ≤ top)
    (hr : Reach root top T c) (hd : AllDone c) :
    (∀ f sc, Desc f root → IsFeas f sc → c.best ≠ none ∧ sc ≤ c.bestScore) ∧
    (c.best = none ∨
      (∃ f sol, Desc f root ∧ Solver.res f = .feasible sol c.bestScore ∧ c.best = some sol)) :=
  C09_final hT hb htop hr hd

/-- corollary: `None` is returned exactly when the tree contains no feasible node -/
theorem C09_none_iff {root : ν} {top T : Nat} {c : Cfg ν σ} (hT : 0 < T) (hb : Bounded root)
    (htop : ∀ f sc, Desc f root → IsFeas f sc → sc ≤ top)
    (hr : Reach root top T c) (hd : AllDone c) :
    c.best = none ↔ ∀ f sc, Desc f root → ¬ IsFeas f sc := by
  obtain ⟨h1, h2⟩ := C09_final hT hb htop hr hd
  constructor
  · intro hn f sc hdf hf
    exact (h1 f sc hdf hf).1 hn
  · intro hno
    rcases h2 with h | ⟨f, sol, hdf, hres, _⟩
    · exact h
    · exact absurd ⟨sol, hres⟩ (hno f _ hdf)

end Props
