import Cdecao.Proofs.Sel
/-! # C20 — k-subset enumeration used for room branching is exact -/
namespace Props
open S

/-- the binomial helper is exact, for all `n`, `k` -/
theorem C20_binom (n k : Nat) : binom n k = Nat.choose n k := binom_eq n k

/-- for `1 ≤ k ≤ n` the enumerator yields exactly `choose n k` index lists; the `i`-th is strictly
    increasing (list order), below `n`, of length `k`, and has combinatorial rank `i` — so they are
    pairwise different, hence every `k`-subset occurs exactly once -/
theorem C20_selections (n k : Nat) (hk : 1 ≤ k) (hkn : k ≤ n) :
    (selections n k).length = Nat.choose n k ∧
    ∀ i, i < Nat.choose n k → ∃ l, (selections n k)[i]? = some l ∧ Valid n 0 l ∧ l.length = k ∧ rank 0 l = i :=
  selections_spec n k hk hkn

/-- the iterator stops by itself right after the last selection -/
theorem C20_stops (n k : Nat) (l : List Nat) (hne : l ≠ []) (hv : Valid n 0 l) (hlen : l.length = k)
    (hr : rank 0 l + 1 = Nat.choose n k) : next n l = none :=
  stops_after_last n k l hne hv hlen hr

/-- for `k = 0` or `k > n` nothing is yielded -/
theorem C20_empty (n k : Nat) (h : k = 0 ∨ k > n) : selections n k = [] := selections_empty n k h

/-- the reported remainder is exact: `choose n k` before the first call, `choose n k - (i+1)` after
    the selection of rank `i` -/
theorem C20_size_hint (n k i : Nat) (l : List Nat) (hr : rank 0 l = i) :
    sizeHint n k none = Nat.choose n k ∧ sizeHint n k (some l) = Nat.choose n k - (i + 1) :=
  sizeHint_exact n k i l hr

end Props
