import Cdecao.Proofs.Sel
import Cdecao.Proofs.SelComplete
/-! # C20 — k-subset enumeration used for room branching is exact -/
namespace Props
open S

/-- the binomial helper is exact, for all `n`, `k` -/
theorem C20_binom (n k : Nat) : binom n k = Nat.choose n k := binom_eq n k

/-- for `1 ≤ k ≤ n` the enumerator yields exactly `choose n k` index lists; the `i`-th is strictly
    increasing (list order), below `n`, of length `k`, and has combinatorial rank `i` — so they are
    pairwise different, hence every `k`-subset occurs exactly once -/
theorem C20_selections (n k : Nat) (hk : 1 ≤ k) (hkn : k ≤ n) :
    (selections n k).length = Nat.choose n k ∧
    ∀ i, i < Nat.choose n k → ∃ l, (selections n k)[i]? = some l ∧ Valid n 0 l ∧ l.length = k ∧ rank 0 l = i :=
  selections_spec n k hk hkn

/-- the iterator stops by itself right after the last selection -/
theorem C20_stops (n k : Nat) (l : List Nat) (hne : l ≠ []) (hv : Valid n 0 l) (hlen : l.length = k)
    (hr : rank 0 l + 1 = Nat.choose n k) : next n l = none :=
  stops_after_last n k l hne hv hlen hr

/-- for `k = 0` or `k > n` nothing is yielded -/
theorem C20_empty (n k : Nat) (h : k = 0 ∨ k > n) : selections n k = [] := selections_empty n k h

/-- the reported remainder is exact: `choose n k` before the first call, `choose n k - (i+1)` after
    the selection of rank `i` -/
theorem C20_size_hint (n k i : Nat) (l : List Nat) (hr : rank 0 l = i) :
    sizeHint n k none = Nat.choose n k ∧ sizeHint n k (some l) = Nat.choose n k - (i + 1) :=
  sizeHint_exact n k i l hr

/-! ## completeness (Proofs/SelComplete.lean) -/

/-- (i) the yielded lists are pairwise distinct -/
theorem C20_nodup (n k : Nat) : (selections n k).Nodup := selections_nodup n k

/-- membership characterisation, `k ≥ 1`: exactly the strictly increasing lists of `k` indices
    below `n` -/
theorem C20_mem (n k : Nat) (hk : 1 ≤ k) (l : List Nat) :
    l ∈ selections n k ↔ l.Pairwise (· < ·) ∧ (∀ a ∈ l, a < n) ∧ l.length = k :=
  mem_selections n k hk l

/-- (ii) completeness: every strictly increasing list of `k ≥ 1` naturals below `n` is yielded
    exactly once -/
theorem C20_complete (n k : Nat) (hk : 1 ≤ k) (l : List Nat) (hinc : l.Pairwise (· < ·))
    (hlt : ∀ a ∈ l, a < n) (hlen : l.length = k) :
    l ∈ selections n k ∧ (selections n k).count l = 1 :=
  ⟨selections_complete n k hk l hinc hlt hlen, selections_count n k hk l hinc hlt hlen⟩

/-- the same with the vocabulary of `C20_selections` -/
theorem C20_complete_valid (n k : Nat) (hk : 1 ≤ k) (l : List Nat) (hv : Valid n 0 l)
    (hlen : l.length = k) : l ∈ selections n k :=
  selections_complete_valid n k hk l hv hlen

example : (selections 5 3).count [0, 2, 3] = 1 :=
  (C20_complete 5 3 (by omega) [0, 2, 3] (by decide) (by decide) rfl).2

/-- in terms of subsets: every `k`-subset of `{0, …, n-1}`, as its sorted list, is yielded exactly
    once, and only such lists are yielded -/
theorem C20_subsets (n k : Nat) (hk : 1 ≤ k) :
    (∀ s : Finset Nat, s ⊆ Finset.range n → s.card = k → (selections n k).count (s.sort (· ≤ ·)) = 1) ∧
    (∀ l ∈ selections n k, ∃ s : Finset Nat, s ⊆ Finset.range n ∧ s.card = k ∧ s.sort (· ≤ ·) = l) :=
  ⟨fun s hs hc => selections_finset n k hk s hs hc, fun l hl => selections_finset_conv n k l hl⟩

/-- the combinatorial rank is a bijection from the selections onto `[0, choose n k)` -/
theorem C20_rank_bij (n k : Nat) :
    (∀ l₁ l₂, Sel n k l₁ → Sel n k l₂ → rank 0 l₁ = rank 0 l₂ → l₁ = l₂) ∧
    (∀ l, Sel n k l → rank 0 l < Nat.choose n k) ∧
    (∀ i, i < Nat.choose n k → ∃ l, Sel n k l ∧ rank 0 l = i) :=
  ⟨rank_inj n k, rank_lt n k, rank_surj n k⟩

/-- (iii) the iterator of util.rs and the recursive colex enumeration of the node model agree, in
    order, for `k ≥ 1` (for `k = 0` the iterator yields nothing, `colexIdx n 0 = [[]]`) -/
theorem C20_eq_colexIdx (n k : Nat) (hk : 1 ≤ k) : selections n k = N2.colexIdx n k :=
  selections_eq_colexIdx n k hk

/-- hence the element selections used by the node model are the iterator's index selections applied
    to the list, for every `k` -/
theorem C20_node_selections.{u} {α : Type u} (l : List α) (k : Nat) :
    N2.selections l k = (selections l.length k).map (fun idx => idx.filterMap (fun i => l[i]?)) :=
  node_selections_eq l k

#print axioms C20_nodup
#print axioms C20_complete
#print axioms C20_subsets
#print axioms C20_eq_colexIdx
#print axioms C20_node_selections

end Props
