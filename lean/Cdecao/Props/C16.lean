import Cdecao.Model.Cli
/-! # C16 — exit status 0 means the requested output was written completely

Decision logic of the output stage of main.rs (`CLI.outputStage`): a function of (solution found,
`--print`, output requested / created / written). The faults themselves (which errno, partial
writes) are runtime behaviour the model cannot exhibit; they are injected on the real binary by
the `cli-fault` stream and compared with this function. -/
namespace Props
open CLI

/-- exit status 0 with an output file requested implies: created and written completely -/
theorem C16 (found print : Bool) (f : OutFaults) (hreq : f.requested = true)
    (h : (outputStage found print f).exit = 0) :
    found = true ∧ f.created = true ∧ f.written = true ∧ (outputStage found print f).fileComplete = true := by
  unfold outputStage at h ⊢
  cases found <;> cases hc : f.created <;> cases hw : f.written <;> simp_all [EX_CANTCREAT, EX_IOERR]

/-- conversely every fault gives a non-zero status: creation failure 73, write failure 74 —
    and the `--print` listing is still produced -/
theorem C16_faults (print : Bool) (f : OutFaults) (hreq : f.requested = true) :
    (f.created = false → (outputStage true print f).exit = EX_CANTCREAT) ∧
    (f.created = true → f.written = false → (outputStage true print f).exit = EX_IOERR) ∧
    (outputStage true print f).listing = print := by
  unfold outputStage
  cases hc : f.created <;> cases hw : f.written <;> simp_all

example : (outputStage true true { requested := true, created := true, written := false }).exit = 74 := by decide

/-- with the listing's consumer gone (`--print` into a closed pipe) the program dies in `print!`
    with status 101 whatever happened to the file; status 0 still implies a complete file -/
theorem C16_stdout (found print : Bool) (f : OutFaults) (closed : Bool) (hreq : f.requested = true)
    (h : (outputStage2 found print f closed).exit = 0) :
    found = true ∧ f.created = true ∧ f.written = true ∧ (outputStage2 found print f closed).fileComplete = true := by
  unfold outputStage2 at h ⊢
  split at h
  · simp at h
  · rename_i hc
    simp only [hc]
    exact C16 found print f hreq h

theorem C16_stdout_faults (f : OutFaults) (closed : Bool) (print : Bool) (hreq : f.requested = true)
    (hb : f.created = false ∨ f.written = false) : (outputStage2 true print f closed).exit ≠ 0 := by
  unfold outputStage2 outputStage
  cases hc : f.created <;> cases hw : f.written <;> cases print <;> cases closed <;> simp_all [EX_CANTCREAT, EX_IOERR]

end Props
