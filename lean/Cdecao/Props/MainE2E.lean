import Cdecao.Props.Main
import Cdecao.Props.C05E2E
import Cdecao.Props.C01
import Cdecao.Props.C08
import Cdecao.Props.C10
import Cdecao.Props.C02
/-! # The whole program on the CdE path: main ∘ reader ∘ search ∘ writer ∘ exit status

`Props/Main.lean` gives the front of `main` (options, files, readers, validation) as a function
`MainM.front`; `Props/C05E2E.lean` gives reader ∘ search ∘ writer with termination. Composed here:
for EVERY command line and environment on which the front of the program passes with `--cde`
(whatever the options, the rooms input, the export), with at least one CPU reported,

* the problem handed to the solver is the one `CD.read` built from the input document with the
  parsed `--track`, the worker count is positive, the room list is the one the rooms input denotes;
* the parallel search has a run from its initial configuration — no wake-up needed, within the
  explicit bound — after which every worker has returned normally and `solve` returns normally;
* what `main` then writes is nothing or an import file satisfying every clause of C05 and C11;
* and the exit status is 0 if a solution was found and 1 otherwise (absent output faults).

The only hypotheses left are the two of `C05_total_from_start` about the export itself
(`ChoiceLen`: at most 50001 choices per registration; `NodupKeys`: course keys distinct as numbers). -/
set_option linter.style.haveILetI false
namespace Props
open CD N2 Eng3

theorem main_cde_total {o : MainM.Opts} {e : MainM.Env} {pb : MainM.Problem}
    (h : MainM.front o e = .ok pb) (hc : o.cde = true) (hcpu : 0 < e.cpus) :
    ∃ (j : JS.J) (track : Option Nat) (ps : List CD.Part) (cs : List CD.Course) (amb : Ambience),
      e.input = .doc j ∧ MainM.parseTrack o.track = .ok track ∧ pb.data = .cde ps cs amb ∧ 0 < pb.threads ∧
      CD.read j { track := track, ignoreCancelled := o.ignoreCancelled, ignoreAssigned := o.ignoreAssigned,
                  factorField := o.factorField, offsetField := o.offsetField } = .ok (ps, cs, amb) ∧
      ∀ (_ : ChoiceLen j amb) (_ : NodupKeys j) (R : RoomFns) (top : Nat),
        letI := solverOf (toInstR ps cs pb.rooms) R
        ∃ (evs : List Ev) (c : Cfg Node (List (Option Nat))),
          Run (init rootNode top pb.threads) evs c ∧ (∀ ev ∈ evs, ev.isWake = false) ∧
          AllFinished c ∧ AllDone c ∧
          evs.length ≤ 5 * treeSize (toInstR ps cs pb.rooms) R rootNode + 3 * pb.threads + 3 * (pb.threads * pb.threads) ∧
          outcome c.pcs = some false ∧
          WrittenConsistent j { track := track, ignoreCancelled := o.ignoreCancelled, ignoreAssigned := o.ignoreAssigned,
                                factorField := o.factorField, offsetField := o.offsetField } ps cs amb c.best ∧
          (MainM.run o e (fun _ => c.best.isSome) true true).exit = (if c.best.isSome then 0 else 1) := by
  obtain ⟨j, track, ps, cs, amb, hj, ht, hrd, hdata, -⟩ := C15_main_cde h hc
  have hthr := C10_main_threads h hcpu
  refine ⟨j, track, ps, cs, amb, hj, ht, hdata, hthr, hrd, ?_⟩
  intro hlen hkeys R top
  letI := solverOf (toInstR ps cs pb.rooms) R
  obtain ⟨evs, c, hrun, hwf, hfin, hdone, hle, hout, hw⟩ :=
    C05_total_from_start hrd hlen hkeys pb.rooms R top hthr
  refine ⟨evs, c, hrun, hwf, hfin, hdone, hle, hout, hw, ?_⟩
  have := C10_main h (fun _ => c.best.isSome)
  cases hb : c.best.isSome
  · simpa [hb] using (this.2 hb).1
  · simpa [hb] using (this.1 hb).1

/-! ## the simple format

`SM.accepts` (reader + `check_data_consistency` + at least one participant) is all that `main`
checks; the validity conditions of the property list beyond that (each participant instructs at
most one course and is listed once, no course twice in a choice list, the penalty bound, some
participant with choices) are the hypothesis `validb`, the decidable predicate the check evaluates
on every generated input. -/

/-- **the whole program on the simple format**: for every command line and environment on which the
    front of `main` passes without `--cde`, with at least one CPU reported, and a VALID instance:
    no subproblem makes the node solver panic; the search has a wake-free run from the start, within
    the explicit bound, after which every worker has returned normally and `solve` returns normally;
    the incumbent, if any, has one entry per participant, satisfies the hard constraints and carries
    its documented score; the exit status is 0 with a solution and 1 without (absent output
    faults) -/
theorem main_simple_total {o : MainM.Opts} {e : MainM.Env} {pb : MainM.Problem}
    (h : MainM.front o e = .ok pb) (hc : o.cde = false) (hcpu : 0 < e.cpus) :
    ∃ (j : JS.J) (ps : List SM.PartD) (cs : List SM.CourseD),
      e.input = .doc j ∧ SM.read j = .ok (ps, cs) ∧ pb.data = .simple ps cs ∧ SM.accepts j = true ∧ 0 < pb.threads ∧
      ∀ (_ : validb (SM.toInst ps cs pb.rooms) = true) (R : RoomFns) (top : Nat),
        letI := solverOf (SM.toInst ps cs pb.rooms) R
        (∀ n : Node, Desc n rootNode → isPanic (Solver.res n : Res (List (Option Nat))) = false) ∧
        ∃ (evs : List Ev) (c : Cfg Node (List (Option Nat))),
          Run (init rootNode top pb.threads) evs c ∧ (∀ ev ∈ evs, ev.isWake = false) ∧ AllDone c ∧
          evs.length ≤ 5 * treeSize (SM.toInst ps cs pb.rooms) R rootNode + 3 * pb.threads + 3 * (pb.threads * pb.threads) ∧
          outcome c.pcs = some false ∧
          (∀ al, c.best = some al → al.length = ps.length ∧
            ∃ a : Nat → Option Nat, al = (List.range ps.length).map a ∧
              G.hardOKb (SM.toInst ps cs pb.rooms) a = true ∧ c.bestScore = G.scoreOfL (SM.toInst ps cs pb.rooms) a) ∧
          (MainM.run o e (fun _ => c.best.isSome) true true).exit = (if c.best.isSome then 0 else 1) := by
  obtain ⟨j, ps, cs, hj, hrd, hdata, hacc⟩ := C15_main_simple h hc
  have hthr := C10_main_threads h hcpu
  refine ⟨j, ps, cs, hj, hrd, hdata, hacc, hthr, ?_⟩
  intro hv R top
  letI := solverOf (SM.toInst ps cs pb.rooms) R
  have hs := validb_sound _ hv
  have hnp : ∀ n : Node, Desc n rootNode → isPanic (Solver.res n : Res (List (Option Nat))) = false := by
    intro n hd
    have hne := C10_tree (SM.toInst ps cs pb.rooms) R hs.1.toInstOK hs.2.1 n hd
    cases hres : (Solver.res n : Res (List (Option Nat))) with
    | panic => exact absurd hres hne
    | noSol => rfl
    | infeasible sc => rfl
    | feasible sol sc => rfl
  refine ⟨hnp, ?_⟩
  obtain ⟨evs, c, hrun, hwf, hd, hle, hout⟩ :=
    C04_terminates_done (fun n : Node => 5 * treeSize (SM.toInst ps cs pb.rooms) R n)
      (caobab_budget_treeSize (SM.toInst ps cs pb.rooms) R) hthr (Run.nil (init rootNode top pb.threads))
      (Nat.le_refl 0) hnp [] _ (Run.nil _) (fun _ hm => by cases hm)
  have hr : Reach rootNode top pb.threads c := reach_iff_run.2 ⟨_, hrun⟩
  have hP : (SM.toInst ps cs pb.rooms).P = ps.length := by simp [SM.toInst, Inst.P]
  refine ⟨evs, c, hrun, hwf, hd, by simpa using hle, hout, ?_, ?_⟩
  · intro al hal
    obtain ⟨hl, -⟩ := C01_valid _ R hv top pb.threads c hr al hal
    obtain ⟨a, h1, h2, h3⟩ := C08_score_valid _ R hv top pb.threads c hr al hal
    rw [hP] at hl h1
    exact ⟨hl, a, h1, h2, h3⟩
  · have := C10_main h (fun _ => c.best.isSome)
    cases hb : c.best.isSome
    · simpa [hb] using (this.2 hb).1
    · simpa [hb] using (this.1 hb).1

/-- **the whole program, optimality (C02 at program level)**: simple format, no room option, a valid
    instance outside the class of the known finding F1 (`noFreeableb`). Whenever the search has ended
    with all workers returned (any thread count the front delivers, any schedule), the exit status
    is 1 ONLY IF no assignment satisfies the hard constraints, and with status 0 the reported
    assignment satisfies them, its score is its documented score and no assignment satisfying the
    hard constraints scores more -/
theorem main_simple_optimal {o : MainM.Opts} {e : MainM.Env} {pb : MainM.Problem}
    (h : MainM.front o e = .ok pb) (hc : o.cde = false) (hcpu : 0 < e.cpus)
    (hr1 : o.rooms = none) (hr2 : o.roomsFile = false) :
    ∃ (j : JS.J) (ps : List SM.PartD) (cs : List SM.CourseD),
      e.input = .doc j ∧ SM.read j = .ok (ps, cs) ∧ pb.data = .simple ps cs ∧ pb.rooms = none ∧
      ∀ (_ : validb (SM.toInst ps cs none) = true) (_ : noFreeableb (SM.toInst ps cs none) = true)
        (R : RoomFns) (top : Nat) (_ : ps.length * G.W ≤ top),
        letI := solverOf (SM.toInst ps cs none) R
        ∀ c : Cfg Node (List (Option Nat)), Reach rootNode top pb.threads c → AllDone c →
          ((MainM.run o e (fun _ => c.best.isSome) true true).exit = 1 →
              ∀ a, G.hardOKb (SM.toInst ps cs none) a = false) ∧
          ((MainM.run o e (fun _ => c.best.isSome) true true).exit = 0 →
              ∃ (al : List (Option Nat)) (a : Nat → Option Nat), c.best = some al ∧
                al = (List.range ps.length).map a ∧ G.hardOKb (SM.toInst ps cs none) a = true ∧
                c.bestScore = G.scoreOfL (SM.toInst ps cs none) a ∧
                ∀ a', G.hardOKb (SM.toInst ps cs none) a' = true → G.scoreOfL (SM.toInst ps cs none) a' ≤ c.bestScore) := by
  obtain ⟨j, ps, cs, hj, hrd, hdata, -⟩ := C15_main_simple h hc
  have hthr := C10_main_threads h hcpu
  have hnr := front_no_rooms h hr1 hr2
  refine ⟨j, ps, cs, hj, hrd, hdata, hnr, ?_⟩
  intro hv hnf R top htop
  letI := solverOf (SM.toInst ps cs none) R
  intro c hr hd
  have hP : (SM.toInst ps cs none).P = ps.length := by simp [SM.toInst, Inst.P]
  obtain ⟨h1, h2⟩ := C02_partial (SM.toInst ps cs none) R rfl hv hnf top pb.threads hthr (by rw [hP]; exact htop) c hr hd
  have hm := C10_main h (fun _ => c.best.isSome)
  rcases Option.eq_none_or_eq_some c.best with hb | ⟨al, hb⟩
  · refine ⟨fun _ => h1 hb, fun h0 => ?_⟩
    have := (hm.2 (by simp [hb])).1
    rw [this] at h0; cases h0
  · refine ⟨fun h1' => ?_, fun _ => ?_⟩
    · have := (hm.1 (by simp [hb])).1
      rw [this] at h1'; cases h1'
    · obtain ⟨a, ha, hh, hs, hopt⟩ := h2 al hb
      rw [hP] at ha
      exact ⟨al, a, hb, ha, hh, hs, hopt⟩

end Props
