import Cdecao.Engine.OneWorker
/-! # C13, after the reader: one worker leaves nothing to chance but the queue

`C13_read` (Props/C13.lean) gives equal problems for `Agree`ing exports; the search on equal
problems is the same transition system (same solver, same root). With ONE worker that system has no
scheduling freedom at all: the worker never sleeps (`C13_one_worker_never_waits`: no wake-up choice,
no spurious wake-up), at most one kind of event is enabled, and two enabled events differ only in
WHICH pending entry the priority queue hands out (`C13_one_worker_step`). So for any fixed behaviour
of the queue — `pol`, a function of the configurations visited so far, as
`std::collections::BinaryHeap` is — every complete run ends in the same configuration: same
incumbent, hence the same written assignments and course segments (`C13_one_worker_outcome`). What
remains trusted after the reader is that `BinaryHeap` and the node solver are functions of their
inputs. -/
namespace Props
open Eng3

theorem C13_one_worker_step {ν σ : Type} [Solver ν σ] {c c1 c2 : Cfg ν σ} {e1 e2 : Ev}
    (hlen : c.pcs.length = 1) (h1 : step? c e1 = some c1) (h2 : step? c e2 = some c2) :
    c1 = c2 ∨ ∃ k1 k2, e1 = .top 0 k1 ∧ e2 = .top 0 k2 ∧ k1 ≠ k2 ∧ k1 < c.pending.length ∧ k2 < c.pending.length :=
  one_worker_step_det hlen h1 h2

theorem C13_one_worker_never_waits {ν σ : Type} [Solver ν σ] {root : ν} {top : Nat} {c : Cfg ν σ}
    (hr : Reach root top 1 c) : c.pcs[0]? ≠ some Pc.waiting :=
  one_worker_never_waits hr

/-- one worker, any fixed queue behaviour: two complete runs of the search end in the same
    configuration, in particular with the same incumbent and score -/
theorem C13_one_worker_outcome {ν σ : Type} [Solver ν σ] (root : ν) (top : Nat)
    (pol : List (Cfg ν σ) → Nat) (es1 es2 : List Ev) (c1 c2 : Cfg ν σ)
    (h1 : execP pol [] (init root top 1) es1 = some c1) (h2 : execP pol [] (init root top 1) es2 = some c2)
    (f1 : AllFinished c1) (f2 : AllFinished c2) :
    c1 = c2 ∧ c1.best = c2.best ∧ c1.bestScore = c2.bestScore := by
  have := one_worker_final_det pol es1 es2 [] (init root top 1) c1 c2 (by simp [init]) h1 h2 f1 f2
  subst this
  exact ⟨rfl, rfl, rfl⟩

/-! non-vacuity: a complete one-worker run of a one-node tree under the policy "always index 0" -/
namespace OW
instance : Solver Unit Nat := ⟨fun _ => .feasible 7 3, fun _ => []⟩
example : ∃ c : Cfg Unit Nat,
    execP (fun _ => 0) [] (init () 0 1) [.acquire 0, .top 0 0, .solve 0, .acquire 0, .after 0] = some c ∧
    c.best = some 7 ∧ c.pcs = [Pc.done] := ⟨_, rfl, rfl, rfl⟩
end OW

end Props
