import Cdecao.Model.Simple
import Cdecao.Model.Cli
import Cdecao.Model.RoomsInput
/-! # C15 — malformed input is refused with an error, never with a panic (simple format, from the
    JSON value on)

`SM.accepts` models `io::simple::read` followed by the validation main.rs performs before calling
the solver. Whatever is accepted is an instance on which the solver's totality theorem applies
(C10): indices in range, `num_min ≤ num_max`, at least one participant. The bytes → JSON value
step is serde_json's and is only enumerated (raw garbage is fed to the real binary). -/
namespace Props
open SM

theorem C15_accept_sound (j : JS.J) (h : accepts j = true) (rooms : Option (List Nat)) :
    ∃ parts courses, read j = .ok (parts, courses) ∧
      (toInst parts courses rooms).precomputeOk = true ∧
      (∀ c ∈ courses, c.numMin ≤ c.numMax) ∧ parts ≠ [] := by
  unfold accepts at h
  split at h
  · contradiction
  · rename_i parts courses hr
    refine ⟨parts, courses, hr, ?_, ?_, ?_⟩
    · simp only [validate, Bool.and_eq_true, List.all_eq_true, decide_eq_true_eq] at h
      obtain ⟨⟨h1, h2⟩, _⟩ := h
      simp only [N2.Inst.precomputeOk, toInst, N2.Inst.P, N2.Inst.C, List.all_map, Bool.and_eq_true,
        List.all_eq_true, Function.comp_apply, decide_eq_true_eq, List.length_map]
      exact ⟨fun c hc i hi => (h2 c hc).1 i hi, fun p hp ch hch => h1 p hp ch hch⟩
    · simp only [validate, Bool.and_eq_true, List.all_eq_true, decide_eq_true_eq] at h
      exact fun c hc => (h.1.2 c hc).2
    · simp only [validate, Bool.and_eq_true, Bool.not_eq_true', List.isEmpty_eq_false_iff] at h
      exact h.2

/-- a document without a `participants` or `courses` member is refused -/
theorem C15_missing_member (j : JS.J) (h : j.get "participants" = none ∨ j.get "courses" = none) :
    accepts j = false := by
  unfold accepts SM.read
  rcases h with h | h
  · simp [h]
  · cases hp : j.get "participants" with
    | none => simp
    | some pv =>
      simp only [h]
      cases asVec partOf pv <;> simp

/-! ### the two room inputs (`--rooms`, `--rooms-file`): all or nothing

`RI.parseRoomsStr` (main.rs `parse_rooms`) and `RI.kindsOf` (io/rooms.rs `read` from the JSON value
on) either refuse the whole input or deliver one entry per item, each within `usize`; a single bad
item refuses everything (no item is silently dropped or defaulted). -/

theorem mapOpt_some {α β : Type} (f : α → Option β) :
    ∀ (l : List α) (r : List β), RI.mapOpt f l = some r →
      r.length = l.length ∧ ∀ i (h : i < l.length) (h' : i < r.length), f l[i] = some r[i]
  | [], r, h => by
    simp only [RI.mapOpt, Option.some.injEq] at h; subst h
    exact ⟨rfl, fun i h _ => absurd h (Nat.not_lt_zero i)⟩
  | x :: xs, r, h => by
    simp only [RI.mapOpt] at h
    split at h
    · rename_i y ys hy hys
      simp only [Option.some.injEq] at h; subst h
      obtain ⟨hl, hi⟩ := mapOpt_some f xs ys hys
      refine ⟨by simp [hl], fun i h h' => ?_⟩
      cases i with
      | zero => simpa using hy
      | succ i => simpa using hi i (by simpa using h) (by simpa using h')
    · exact absurd h (by simp)

theorem mapOpt_none_of_bad {α β : Type} (f : α → Option β) :
    ∀ (l : List α) (x : α), x ∈ l → f x = none → RI.mapOpt f l = none
  | [], _, h, _ => by simp at h
  | y :: ys, x, h, hx => by
    simp only [RI.mapOpt]
    rcases List.mem_cons.1 h with rfl | h
    · simp [hx]
    · rw [mapOpt_none_of_bad f ys x h hx]; split <;> simp_all

theorem digitsVal_bound (ds : List Char) (n : Nat) (h : RI.digitsVal ds = some n) : n ≤ JS.J.U64_MAX := by
  unfold RI.digitsVal at h
  split at h
  · exact absurd h (by simp)
  · split at h
    · split at h
      · rename_i hle
        simp only [Option.some.injEq] at h; subst h; exact hle
      · exact absurd h (by simp)
    · exact absurd h (by simp)

theorem parseUsize_bound (cs : List Char) (n : Nat) (h : RI.parseUsizeL cs = some n) : n ≤ JS.J.U64_MAX := by
  unfold RI.parseUsizeL at h
  split at h <;> exact digitsVal_bound _ _ h

/-- an accepted item is an optional `+` followed by at least one character, all of them ASCII digits -/
theorem parseUsize_shape (cs : List Char) (n : Nat) (h : RI.parseUsizeL cs = some n) :
    ∃ ds, (cs = ds ∨ cs = '+' :: ds) ∧ ds ≠ [] ∧ (∀ c ∈ ds, c.isDigit = true) ∧ n = RI.digitsNat ds := by
  have key : ∀ ds, RI.digitsVal ds = some n → ds ≠ [] ∧ (∀ c ∈ ds, c.isDigit = true) ∧ n = RI.digitsNat ds := by
    intro ds hd
    unfold RI.digitsVal at hd
    split at hd
    · exact absurd hd (by simp)
    · rename_i hne
      split at hd
      · rename_i hall
        split at hd
        · simp only [Option.some.injEq] at hd
          exact ⟨by intro h0; subst h0; simp at hne, by simpa using hall, hd.symm⟩
        · exact absurd hd (by simp)
      · exact absurd hd (by simp)
  unfold RI.parseUsizeL at h
  split at h
  · rename_i rest
    exact ⟨rest, Or.inr rfl, key _ h⟩
  · exact ⟨cs, Or.inl rfl, key _ h⟩

theorem parseUsize_empty : RI.parseUsizeL [] = none := by decide

/-- `--rooms`: accepted ⇒ one room per comma-separated item, each the value of that item and within
    `usize`; any item that is not a number refuses the whole option -/
theorem C15_rooms_str (s : String) (l : List Nat) (h : RI.parseRoomsStr s = some l) :
    l.length = (RI.splitComma s.toList).length ∧
    (∀ i (h1 : i < (RI.splitComma s.toList).length) (h2 : i < l.length),
        RI.parseUsizeL (RI.splitComma s.toList)[i] = some l[i]) ∧
    ∀ n ∈ l, n ≤ JS.J.U64_MAX := by
  obtain ⟨hl, hi⟩ := mapOpt_some _ _ _ h
  refine ⟨hl, hi, fun n hn => ?_⟩
  obtain ⟨i, hi', rfl⟩ := List.getElem_of_mem hn
  exact parseUsize_bound _ _ (hi i (by omega) hi')

theorem C15_rooms_str_refuse (s : String) (x : List Char) (hx : x ∈ RI.splitComma s.toList)
    (hbad : RI.parseUsizeL x = none) : RI.parseRoomsStr s = none :=
  mapOpt_none_of_bad _ _ x hx hbad

/-- the pieces contain no comma and joining them with commas gives the text back: nothing is lost
    or merged by the split -/
theorem splitComma_spec : ∀ cs : List Char,
    (∀ x ∈ RI.splitComma cs, ',' ∉ x) ∧ cs = List.intercalate [','] (RI.splitComma cs) ∧ RI.splitComma cs ≠ []
  | [] => by simp [RI.splitComma, List.intercalate]
  | c :: cs => by
    obtain ⟨h1, h2, h3⟩ := splitComma_spec cs
    unfold RI.splitComma
    split
    · rename_i he; exact absurd he h3
    · rename_i x xs he
      rw [he] at h1 h2
      by_cases hc : c = ','
      · subst hc
        refine ⟨?_, ?_, by simp⟩
        · intro y hy
          simp only [if_true, List.mem_cons] at hy
          rcases hy with rfl | hy
          · simp
          · exact h1 y (by simpa using hy)
        · simp only [if_true]
          rw [h2]
          cases xs <;> simp [List.intercalate, List.intersperse]
      · refine ⟨?_, ?_, by simp [hc]⟩
        · intro y hy
          simp only [hc, if_false, List.mem_cons] at hy
          rcases hy with rfl | hy
          · intro hm
            rcases List.mem_cons.1 hm with h | h
            · exact hc h.symm
            · exact h1 x (by simp) h
          · exact h1 y (by simp [hy])
        · simp only [hc, if_false]
          rw [h2]
          cases xs <;> simp [List.intercalate, List.intersperse]

/-- `--rooms-file`: accepted ⇒ the document is an array and there is one kind per element, each the
    reading of that element; one unreadable element refuses the whole file -/
theorem C15_rooms_file (j : JS.J) (ks : List RM.Kind) (h : RI.kindsOf j = some ks) :
    ∃ l, j = .arr l ∧ ks.length = l.length ∧
      ∀ i (h1 : i < l.length) (h2 : i < ks.length), RI.kindOf l[i] = some ks[i] := by
  unfold RI.kindsOf at h
  split at h
  · rename_i l
    obtain ⟨hl, hi⟩ := mapOpt_some _ _ _ h
    exact ⟨l, rfl, hl, hi⟩
  · exact absurd h (by simp)

theorem C15_rooms_file_refuse (l : List JS.J) (x : JS.J) (hx : x ∈ l) (hbad : RI.kindOf x = none) :
    RI.kindsOf (.arr l) = none := by
  simp only [RI.kindsOf]; exact mapOpt_none_of_bad _ _ x hx hbad

/-- a kind that is read has a text name and both numbers within `usize` -/
theorem C15_rooms_kind (j : JS.J) (k : RM.Kind) (h : RI.kindOf j = some k) :
    k.capacity ≤ JS.J.U64_MAX ∧ k.quantity ≤ JS.J.U64_MAX := by
  have hu : ∀ (v : JS.J) (n : Nat), RI.asUsize v = some n → n ≤ JS.J.U64_MAX := by
    intro v n hv
    unfold RI.asUsize at hv
    split at hv
    · split at hv
      · simp only [Option.some.injEq] at hv; omega
      · exact absurd hv (by simp)
    · exact absurd hv (by simp)
  unfold RI.kindOf at h
  split at h
  · split at h
    · rename_i name cap q _ hc hq
      simp only [Option.some.injEq] at h; subst h
      obtain ⟨v, _, hv⟩ := Option.bind_eq_some_iff.1 hc
      obtain ⟨w, _, hw⟩ := Option.bind_eq_some_iff.1 hq
      exact ⟨hu _ _ hv, hu _ _ hw⟩
    · exact absurd h (by simp)
  · split at h
    · rename_i name cap q _ hc hq
      simp only [Option.some.injEq] at h; subst h
      exact ⟨hu _ _ hc, hu _ _ hq⟩
    · exact absurd h (by simp)
  · exact absurd h (by simp)

example : RI.parseRoomsL "10,+5,007".toList = some [10, 5, 7] := by decide
example : RI.parseRoomsL ['1', '0', ',', ' ', '5'] = none := by decide
example : RI.parseRoomsL ['1', '0', ',', ',', '5'] = none := by decide
example : RI.parseRoomsL [] = none := by decide

end Props
