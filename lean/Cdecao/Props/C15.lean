import Cdecao.Model.Simple
import Cdecao.Model.Cli
/-! # C15 — malformed input is refused with an error, never with a panic (simple format, from the
    JSON value on)

`SM.accepts` models `io::simple::read` followed by the validation main.rs performs before calling
the solver. Whatever is accepted is an instance on which the solver's totality theorem applies
(C10): indices in range, `num_min ≤ num_max`, at least one participant. The bytes → JSON value
step is serde_json's and is only enumerated (raw garbage is fed to the real binary). -/
namespace Props
open SM

theorem C15_accept_sound (j : JS.J) (h : accepts j = true) (rooms : Option (List Nat)) :
    ∃ parts courses, read j = .ok (parts, courses) ∧
      (toInst parts courses rooms).precomputeOk = true ∧
      (∀ c ∈ courses, c.numMin ≤ c.numMax) ∧ parts ≠ [] := by
  unfold accepts at h
  split at h
  · contradiction
  · rename_i parts courses hr
    refine ⟨parts, courses, hr, ?_, ?_, ?_⟩
    · simp only [validate, Bool.and_eq_true, List.all_eq_true, decide_eq_true_eq] at h
      obtain ⟨⟨h1, h2⟩, _⟩ := h
      simp only [N2.Inst.precomputeOk, toInst, N2.Inst.P, N2.Inst.C, List.all_map, Bool.and_eq_true,
        List.all_eq_true, Function.comp_apply, decide_eq_true_eq, List.length_map]
      exact ⟨fun c hc i hi => (h2 c hc).1 i hi, fun p hp ch hch => h1 p hp ch hch⟩
    · simp only [validate, Bool.and_eq_true, List.all_eq_true, decide_eq_true_eq] at h
      exact fun c hc => (h.1.2 c hc).2
    · simp only [validate, Bool.and_eq_true, Bool.not_eq_true', List.isEmpty_eq_false_iff] at h
      exact h.2

/-- a document without a `participants` or `courses` member is refused -/
theorem C15_missing_member (j : JS.J) (h : j.get "participants" = none ∨ j.get "courses" = none) :
    accepts j = false := by
  unfold accepts SM.read
  rcases h with h | h
  · simp [h]
  · cases hp : j.get "participants" with
    | none => simp
    | some pv =>
      simp only [h]
      cases asVec partOf pv <;> simp

end Props
