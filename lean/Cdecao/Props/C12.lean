import Cdecao.Model.Cdedb
import Cdecao.Reader.Spec
/-! # C12 — the problem built from a CdE export is exactly what the export says

`CD.read` models io::cdedb::read from the JSON value on. `RD.read` is the registration loop on a
typed view of the registrations (the part of `CD.readRegs` that keeps the running index). -/
namespace Props
open JS CD

/-- the registration loop: participants are exactly the kept registrations in document order,
    `index = position`, and `(c, k)` is a stored instructor entry iff the `k`-th participant is the
    registration whose `course_instructor` names course `c` — ignored and dropped registrations
    change neither the counter nor the lists -/
theorem C12_loop (ia : Bool) (regs : List RD.Reg) : RD.Inv ia regs (RD.read ia regs) :=
  RD.read_spec ia regs

/-- files of the wrong kind are refused -/
theorem C12_refuse_kind (data : J) (o : Opts) (h : (data.get "kind").bind J.asStr ≠ some "partial") :
    ∃ e, CD.read data o = .error e := by
  have hv : ∃ e, checkVersion data = .error e := by
    unfold checkVersion
    cases hk : (data.get "kind").bind J.asStr with
    | none => exact ⟨_, rfl⟩
    | some kind =>
      have : kind ≠ "partial" := by intro e; rw [hk, e] at h; exact h rfl
      simp [this]
  obtain ⟨e, he⟩ := hv
  exact ⟨e, by unfold CD.read; rw [he]⟩

/-- a schema version below 7.0 or above 19.x is refused -/
theorem C12_refuse_version (data : J) (o : Opts) (a b : Nat)
    (hk : (data.get "kind").bind J.asStr = some "partial")
    (hv : data.get "EVENT_SCHEMA_VERSION" = some (.arr [.num (.pos a), .num (.pos b)]))
    (ha : a ≤ J.U64_MAX) (hb : b ≤ J.U64_MAX)
    (hr : a < Const.MIN_VERSION_MAJOR ∨ a > Const.MAX_VERSION_MAJOR) :
    ∃ e, CD.read data o = .error e := by
  have hcv : ∃ e, checkVersion data = .error e := by
    unfold checkVersion
    simp only [hk, hv, J.asArray, J.asU64, ha, hb, if_true, List.getD_cons_zero, List.getD_cons_succ]
    rcases hr with h | h
    · exact ⟨"not within the supported version range", by simp [h]⟩
    · exact ⟨"not within the supported version range", by simp [h]⟩
  obtain ⟨e, he⟩ := hcv
  exact ⟨e, by unfold CD.read; rw [he]⟩

/-- size limits: defaults 0 and 25 when absent or not a non-negative integer -/
theorem C12_defaults : Const.DEFAULT_MIN_SIZE = 0 ∧ Const.DEFAULT_MAX_SIZE = 25 ∧ Const.STATUS_PARTICIPANT = 2 := by
  decide

end Props
