import Cdecao.Model.Cdedb
import Cdecao.Reader.Spec
import Cdecao.Proofs.ReaderProofs
import Cdecao.Proofs.ReaderValid
/-! # C12 — the problem built from a CdE export is exactly what the export says

`CD.read` models io::cdedb::read from the JSON value on. `RD.read` is the registration loop on a
typed view of the registrations (the part of `CD.readRegs` that keeps the running index). -/
namespace Props
open JS CD

/-- the registration loop: participants are exactly the kept registrations in document order,
    `index = position`, and `(c, k)` is a stored instructor entry iff the `k`-th participant is the
    registration whose `course_instructor` names course `c` — ignored and dropped registrations
    change neither the counter nor the lists -/
theorem C12_loop (ia : Bool) (regs : List RD.Reg) : RD.Inv ia regs (RD.read ia regs) :=
  RD.read_spec ia regs

/-- files of the wrong kind are refused -/
theorem C12_refuse_kind (data : J) (o : Opts) (h : (data.get "kind").bind J.asStr ≠ some "partial") :
    ∃ e, CD.read data o = .error e := by
  have hv : ∃ e, checkVersion data = .error e := by
    unfold checkVersion
    cases hk : (data.get "kind").bind J.asStr with
    | none => exact ⟨_, rfl⟩
    | some kind =>
      have : kind ≠ "partial" := by intro e; rw [hk, e] at h; exact h rfl
      simp [this]
  obtain ⟨e, he⟩ := hv
  exact ⟨e, by unfold CD.read; rw [he]⟩

/-- a schema version below 7.0 or above 19.x is refused -/
theorem C12_refuse_version (data : J) (o : Opts) (a b : Nat)
    (hk : (data.get "kind").bind J.asStr = some "partial")
    (hv : data.get "EVENT_SCHEMA_VERSION" = some (.arr [.num (.pos a), .num (.pos b)]))
    (ha : a ≤ J.U64_MAX) (hb : b ≤ J.U64_MAX)
    (hr : a < Const.MIN_VERSION_MAJOR ∨ a > Const.MAX_VERSION_MAJOR) :
    ∃ e, CD.read data o = .error e := by
  have hcv : ∃ e, checkVersion data = .error e := by
    unfold checkVersion
    simp only [hk, hv, J.asArray, J.asU64, ha, hb, if_true, List.getD_cons_zero, List.getD_cons_succ]
    rcases hr with h | h
    · exact ⟨"not within the supported version range", by simp [h]⟩
    · exact ⟨"not within the supported version range", by simp [h]⟩
  obtain ⟨e, he⟩ := hcv
  exact ⟨e, by unfold CD.read; rw [he]⟩

/-- size limits: defaults 0 and 25 when absent or not a non-negative integer -/
theorem C12_defaults : Const.DEFAULT_MIN_SIZE = 0 ∧ Const.DEFAULT_MAX_SIZE = 25 ∧ Const.STATUS_PARTICIPANT = 2 := by
  decide

/-! ## refusals of `findTrack` (proofs in `Cdecao/Proofs/ReaderProofs.lean`, section 5)

`CD.eventParts data` is the `event.parts` object, `CD.partTracks pv` the `tracks` object of one
event part and `CD.trackCount parts` the total number of course tracks over all parts. -/

/-- no track selected and the event has no course track at all: refused -/
theorem C12_refuse_no_track (data : J) (o : Opts) (ht : o.track = none)
    (h : ∀ parts, eventParts data = some parts → trackCount parts = 0) :
    ∃ e, CD.read data o = .error e :=
  read_refuse_of_findTrack data o (fun parts hp => by
    rw [ht]; exact findTrack_none_no_track parts (h parts hp))

/-- no track selected and the event has two or more course tracks (in one part or in different
    parts): refused -/
theorem C12_refuse_two_tracks (data : J) (o : Opts) (ht : o.track = none)
    (h : ∀ parts, eventParts data = some parts → 2 ≤ trackCount parts) :
    ∃ e, CD.read data o = .error e :=
  read_refuse_of_findTrack data o (fun parts hp => by
    rw [ht]; exact findTrack_none_two_tracks parts (h parts hp))

/-- a selected track id that no event part has: refused -/
theorem C12_refuse_unknown_track (data : J) (o : Opts) (t : Nat) (ht : o.track = some t)
    (h : ∀ parts, eventParts data = some parts →
      ∀ kv ∈ parts, ∀ tr, partTracks kv.2 = some tr → ∀ tk ∈ tr, parseNat tk.1 ≠ some t) :
    ∃ e, CD.read data o = .error e :=
  read_refuse_of_findTrack data o (fun parts hp => by
    rw [ht]; exact findTrack_some_absent parts t (h parts hp))

/-- the same three refusals on `findTrack` itself -/
theorem C12_findTrack_refusals (parts : List (String × J)) :
    (trackCount parts = 0 → ∃ e, findTrack parts none = .error e) ∧
    (2 ≤ trackCount parts → ∃ e, findTrack parts none = .error e) ∧
    (∀ t, (∀ kv ∈ parts, ∀ tr, partTracks kv.2 = some tr → ∀ tk ∈ tr, parseNat tk.1 ≠ some t) →
      ∃ e, findTrack parts (some t) = .error e) :=
  ⟨findTrack_none_no_track parts, findTrack_none_two_tracks parts,
   fun t h => findTrack_some_absent parts t h⟩

section Examples
private def exParts2 : List (String × J) :=
  [("1", .obj [("tracks", .obj [("3", .obj [])])]), ("2", .obj [("tracks", .obj [("4", .obj [])])])]
example : 2 ≤ trackCount exParts2 := by decide
example : ∀ kv ∈ exParts2, ∀ tr, partTracks kv.2 = some tr → ∀ tk ∈ tr, parseNat tk.1 ≠ some 5 := by
  decide
example : trackCount [("1", .obj [("tracks", .obj [])])] = 0 := by decide
end Examples

/-! ## choices -/

/-- **choices.** When a registration's course data parse, the track's `choices` array is a list
    of u64 ids all known to `courseIndex`, and the stored choices are exactly the entries whose id
    is a kept course, in order, each with penalty = its position in the ORIGINAL array
    (`choiceEntry co (id, i) = some (c, i)` iff `courseIndex co id = some (some c)`). -/
theorem C12_choices (reg : J) (trackId : Nat) (co : CoursesOut) (pc : PCData)
    (h : participantCourseData reg trackId co = .ok pc) :
    ∃ ids : List Nat, choicesArr reg trackId = some (ids.map (fun id => J.num (.pos id))) ∧
      (∀ id ∈ ids, id ≤ J.U64_MAX ∧ courseIndex co id ≠ none) ∧
      pc.choices = ids.zipIdx.filterMap (choiceEntry co) :=
  pcd_choices reg trackId co pc h

/-- **choices, pointwise.** `(c, i)` is stored iff position `i` of the original array holds the id
    of kept course `c`; penalties are strictly increasing along the list. -/
theorem C12_choices_mem (reg : J) (trackId : Nat) (co : CoursesOut) (pc : PCData)
    (h : participantCourseData reg trackId co = .ok pc) :
    ∃ ids : List Nat, choicesArr reg trackId = some (ids.map (fun id => J.num (.pos id))) ∧
      (∀ c i, (c, i) ∈ pc.choices ↔ ∃ id, ids[i]? = some id ∧ courseIndex co id = some (some c)) ∧
      pc.choices.Pairwise (fun a b => a.2 < b.2) :=
  pcd_choices_mem reg trackId co pc h

/-! ## courses -/

/-- **courses.** All course entries parse; `co.courses` are the kept entries (`courseEntry`) stably
    sorted by the padded number; `co.skipped` are the ids of the other entries (`courseSkipped`) in
    document order; `co.numIgnored` counts the ignored cancelled ones. -/
theorem C12_courses (cdata : List (String × J)) (trackId : Nat) (o : Opts) (co : CoursesOut)
    (h : readCourses cdata trackId o = .ok co) :
    (∀ kv ∈ cdata, CourseParses trackId o kv) ∧
    co.courses = ((cdata.filterMap (courseEntry trackId o)).mergeSort keyLe).map (·.2) ∧
    co.skipped = cdata.filterMap (courseSkipped trackId o) ∧
    co.numIgnored = cdata.countP (courseIgnored trackId o) :=
  readCourses_spec cdata trackId o co h

/-- **courses, order.** The sorted entry list is a permutation of the kept entries, ordered by the
    padded key, and stable with respect to document order. -/
theorem C12_courses_sorted (cdata : List (String × J)) (trackId : Nat) (o : Opts) (co : CoursesOut)
    (h : readCourses cdata trackId o = .ok co) :
    ∃ S : List (String × Course), co.courses = S.map (·.2) ∧
      S.Perm (cdata.filterMap (courseEntry trackId o)) ∧
      S.Pairwise (fun a b => a.1 ≤ b.1) ∧
      (∀ a b, a.1 ≤ b.1 → [a, b].Sublist (cdata.filterMap (courseEntry trackId o)) → [a, b].Sublist S) :=
  readCourses_sorted cdata trackId o co h

/-- **courses, kept entries.** A kept entry is a course whose segment of the track is `true` — or
    `false` when cancelled courses are not ignored; it carries the export's id, `nr. shortname`,
    the export's size limits with defaults `DEFAULT_MIN_SIZE`/`DEFAULT_MAX_SIZE`, and is sorted under
    `sortKey nr`. -/
theorem C12_course_entry (trackId : Nat) (o : Opts) (kv : String × J) (e : String × Course)
    (h : courseEntry trackId o kv = some e) :
    ∃ cid nr sn s f off, parseNat kv.1 = some cid ∧
      (kv.2.get "nr").bind J.asStr = some nr ∧ (kv.2.get "shortname").bind J.asStr = some sn ∧
      statusOfSeg (segView kv.2 trackId) = some s ∧ keptStatus o s = true ∧
      roomFields kv.2 o = .ok (f, off) ∧
      e = (sortKey nr, mkCourse cid (nr ++ ". " ++ sn)
            (((kv.2.get "min_size").bind J.asU64).getD Const.DEFAULT_MIN_SIZE)
            (((kv.2.get "max_size").bind J.asU64).getD Const.DEFAULT_MAX_SIZE) f off) ∧
      e.2.numMin ≤ e.2.numMax :=
  courseEntry_spec trackId o kv e h

/-- **courses, skipped ids.** A skipped id is the id of a course not offered in the track, or
    cancelled while cancelled courses are ignored. -/
theorem C12_course_skipped (trackId : Nat) (o : Opts) (kv : String × J) (id : Nat)
    (h : courseSkipped trackId o kv = some id) :
    parseNat kv.1 = some id ∧
      ∃ s, statusOfSeg (segView kv.2 trackId) = some s ∧ keptStatus o s = false :=
  courseSkipped_spec trackId o kv id h

/-- the ids `courseIndex` knows are exactly the keys of the `courses` object -/
theorem C12_known_ids (cdata : List (String × J)) (trackId : Nat) (o : Opts) (co : CoursesOut)
    (h : readCourses cdata trackId o = .ok co) (id : Nat) :
    courseIndex co id ≠ none ↔ id ∈ cdata.filterMap (fun kv => parseNat kv.1) :=
  courseIndex_known cdata trackId o co h id

/-- **repeated ids: the last kept course wins.** The reader collects its `id → index` map from the
    kept courses in sorted order, so if two kept courses carry the same database id (two keys of the
    `courses` object that denote the same number, such as "01" and "1") the later one overwrites the
    earlier: an id resolved to index `i` is the id of course `i`, and of no later course. -/
theorem C12_courseIndex_last (co : CoursesOut) (id i : Nat)
    (h : courseIndex co id = some (some i)) :
    ∃ hi : i < co.courses.length, (co.courses[i]).dbid = id ∧
      ∀ j (hj : j < co.courses.length), i < j → (co.courses[j]).dbid ≠ id := by
  obtain ⟨_, hi, hd, hl⟩ := (courseIndex_eq_some_some_iff co id i).1 h
  exact ⟨hi, hd, hl⟩

/-- two kept courses with the same database id 1: the id resolves to the second (index 1) -/
example :
    courseIndex
      { courses :=
          [{ dbid := 1, name := "a", numMin := 0, numMax := 5, instructors := [],
             factor := .dflt, offset := .dflt, fixed := false, hidden := [] },
           { dbid := 1, name := "b", numMin := 0, numMax := 5, instructors := [],
             factor := .dflt, offset := .dflt, fixed := false, hidden := [] }],
        skipped := [], numIgnored := 0 } 1 = some (some 1) := by
  decide

/-! ## registrations -/

/-- **registrations, refinement.** A successful `readRegs` is simulated by the typed loop `RD.read`
    on the typed views `toReg` of the registration entries (running index, (dbid, choices) of the
    participants, per-course instructor lists, untouched course members), so `C12_loop` transfers. -/
theorem C12_regs_refine (rdata : List (String × J)) (partId trackId : Nat) (td : List (String × J))
    (co : CoursesOut) (o : Opts) (s : RState)
    (h : readRegs rdata partId trackId td co o = .ok s) :
    Sim co.courses s (RD.read o.ignoreAssigned (rdata.map (toReg partId trackId co))) :=
  readRegs_refines rdata partId trackId td co o s h

/-- **registrations.** With `K` the kept registrations in document order: the running index ends
    at `K.length`; participants are `K` (id, choices); the loop leaves id / name / size limits /
    room data of the courses alone; the instructor indices pushed into course `ci` are exactly
    the positions in `K` of the registrations whose `course_instructor` resolves to `ci`. -/
theorem C12_regs (rdata : List (String × J)) (partId trackId : Nat) (td : List (String × J))
    (co : CoursesOut) (o : Opts) (s : RState)
    (h : readRegs rdata partId trackId td co o = .ok s) :
    let K := RD.kept o.ignoreAssigned (rdata.map (toReg partId trackId co))
    s.i = K.length ∧
    s.parts.map (fun p => (p.dbid, p.choices)) = K.map (fun r => (r.id, r.choices)) ∧
    s.courses.map courseCore = co.courses.map courseCore ∧
    ∀ (ci : Nat) (c : Course), s.courses[ci]? = some c →
      ∃ (c0 : Course) (pushed : List Nat), co.courses[ci]? = some c0 ∧
        c.instructors = c0.instructors ++ pushed ∧
        ∀ k, k ∈ pushed ↔ ∃ r : RD.Reg, K[k]? = some r ∧ r.instructed = some ci :=
  readRegs_spec rdata partId trackId td co o s h

/-- **participants.** They are exactly the kept registration entries, in document order, with the
    registration id, the name and the choices the per-registration parsers produce. -/
theorem C12_participants (rdata : List (String × J)) (partId trackId : Nat) (td : List (String × J))
    (co : CoursesOut) (o : Opts) (s : RState)
    (h : readRegs rdata partId trackId td co o = .ok s) :
    s.parts = (rdata.filter (fun kv => RD.keep o.ignoreAssigned (toReg partId trackId co kv))).map
      (partOf partId trackId co) :=
  readRegs_parts rdata partId trackId td co o s h

/-- "kept" on the export: status participant in the track's part, course data parse, not ignored
    as already assigned, and a valid choice or instructing a kept course -/
theorem C12_kept_iff (ia : Bool) (partId trackId : Nat) (co : CoursesOut) (kv : String × J) :
    RD.keep ia (toReg partId trackId co kv) = true ↔
      ∃ name pc, participantBase kv.2 partId = .ok (true, name) ∧
        participantCourseData kv.2 trackId co = .ok pc ∧
        ¬ (ia = true ∧ pc.assigned.isSome = true) ∧
        (pc.choices ≠ [] ∨ pc.instructed.isSome = true) :=
  keep_toReg_iff ia partId trackId co kv

/-- **ignored registrations.** With `regs` the typed views: the loop adds to `invInstr` / `invAtt`
    of course `ci` the number of ignored (already assigned, `ignoreAssigned`) registrations assigned
    to `ci` that do / do not instruct it (`invisibleIn`), and `numIgnored` counts them — the
    quantities C11's arithmetic is about. -/
theorem C12_ignored (rdata : List (String × J)) (partId trackId : Nat) (td : List (String × J))
    (co : CoursesOut) (o : Opts) (s : RState)
    (h : readRegs rdata partId trackId td co o = .ok s) :
    let regs := rdata.map (toReg partId trackId co)
    (∀ ci, (s.courses[ci]?).map invOf = (co.courses[ci]?).map (fun c =>
        ((invOf c).1 + regs.countP (invisibleIn o.ignoreAssigned ci true),
         (invOf c).2 + regs.countP (invisibleIn o.ignoreAssigned ci false)))) ∧
    s.numIgnored = regs.countP (isIgnored o.ignoreAssigned) :=
  readRegs_invisible rdata partId trackId td co o s h

/-! ## the whole reader -/

/-- **C12, assembled**: see `CD.read_spec` for the reading of each clause. -/
theorem C12_read (data : J) (o : Opts) (parts : List Part) (courses : List Course) (amb : Ambience)
    (h : CD.read data o = .ok (parts, courses, amb)) :
    ∃ evparts partId trackId td cdata rdata co,
      eventParts data = some evparts ∧ findTrack evparts o.track = .ok (partId, trackId, td) ∧
      coursesOf data = some cdata ∧ readCourses cdata trackId o = .ok co ∧
      regsOf data = some rdata ∧ amb.trackId = trackId ∧
      parts = (rdata.filter (fun kv => RD.keep o.ignoreAssigned (toReg partId trackId co kv))).map
        (partOf partId trackId co) ∧
      courses.map (fun c => (c.dbid, c.name, c.factor, c.offset)) =
        co.courses.map (fun c => (c.dbid, c.name, c.factor, c.offset)) ∧
      ∀ (ci : Nat) (c : Course), courses[ci]? = some c → ∀ k, k ∈ c.instructors ↔
        ∃ r : RD.Reg, (RD.kept o.ignoreAssigned (rdata.map (toReg partId trackId co)))[k]? = some r ∧
          r.instructed = some ci :=
  CD.read_spec data o parts courses amb h

/-! ## the reader delivers a well-formed problem (`Proofs/ReaderValid.lean`) -/

/-- whenever `read` succeeds, its result is well formed against the `registrations` object of the
    export and the selected track:
    (i) every choice names a course `< courses.length`, every instructor entry a participant
        `< parts.length`;
    (ii) `numMin ≤ numMax` for every course (also after the invisible attendees were subtracted);
    (iii) over all courses together no participant index occurs twice in the instructor lists;
    (iv) every participant stems from a registration whose key is its `dbid`, and each penalty is
        `<` the length of that registration's `choices` array -/
theorem C12_read_wellformed (data : J) (o : Opts) (parts : List Part) (courses : List Course)
    (amb : Ambience) (h : CD.read data o = .ok (parts, courses, amb)) :
    ∃ rdata, (data.get "registrations").bind J.asObject = some rdata ∧
      (∀ p ∈ parts, ∀ ch ∈ p.choices, ch.1 < courses.length) ∧
      (∀ c ∈ courses, ∀ i ∈ c.instructors, i < parts.length) ∧
      (∀ c ∈ courses, c.numMin ≤ c.numMax) ∧
      (courses.flatMap (fun c => c.instructors)).Nodup ∧
      (∀ p ∈ parts, ∃ k v, (k, v) ∈ rdata ∧ parseNat k = some p.dbid ∧
        ∃ chs, CD.regChoices v amb.trackId = some chs ∧ ∀ ch ∈ p.choices, ch.2 < chs.length) := by
  obtain ⟨rdata, hrd, wf⟩ := CD.read_wellformed h
  exact ⟨rdata, hrd, wf.choice_lt, wf.instr_lt, wf.min_le_max, wf.nodup, wf.pen⟩

/-- the same in the executable vocabulary of `Spec/Valid.lean` on the converted instance: the
    first three conjuncts of `N2.validb` hold for every room list -/
theorem C12_read_wellformed_checks (data : J) (o : Opts) (parts : List Part) (courses : List Course)
    (amb : Ambience) (rooms : Option (List Nat)) (h : CD.read data o = .ok (parts, courses, amb)) :
    (CD.toInstR parts courses rooms).precomputeOk = true ∧
      (CD.toInstR parts courses rooms).cs.all (fun c => decide (c.numMin ≤ c.numMax)) = true ∧
      N2.nodupb (CD.toInstR parts courses rooms).allInstructors = true := by
  obtain ⟨rdata, -, wf⟩ := CD.read_wellformed h
  exact ⟨wf.precomputeOk rooms, wf.minMaxb rooms, wf.nodupb rooms⟩

/-- the hypotheses of the node-level theorems hold for the instance built from an export, provided
    no penalty exceeds the weight offset 50000 -/
theorem C12_read_wellformed_instOK2 (data : J) (o : Opts) (parts : List Part) (courses : List Course)
    (amb : Ambience) (rooms : Option (List Nat)) (h : CD.read data o = .ok (parts, courses, amb))
    (hpen : ∀ p ∈ parts, ∀ ch ∈ p.choices, ch.2 ≤ N2.WEIGHT) :
    N2.InstOK2 (CD.toInstR parts courses rooms) ∧
      ∀ c, c < (CD.toInstR parts courses rooms).C →
        ((CD.toInstR parts courses rooms).course c).numMin ≤ ((CD.toInstR parts courses rooms).course c).numMax :=
  CD.read_instOK2 h rooms hpen

/-- … or, as a condition on the export alone, provided no registration lists more than 50001
    choices in the selected track -/
theorem C12_read_wellformed_of_len (data : J) (o : Opts) (parts : List Part) (courses : List Course)
    (amb : Ambience) (rooms : Option (List Nat)) (h : CD.read data o = .ok (parts, courses, amb))
    (hlen : ∀ rdata, (data.get "registrations").bind J.asObject = some rdata →
      ∀ kv ∈ rdata, ∀ chs, CD.regChoices kv.2 amb.trackId = some chs → chs.length ≤ N2.WEIGHT + 1) :
    N2.InstOK2 (CD.toInstR parts courses rooms) ∧
      ∀ c, c < (CD.toInstR parts courses rooms).C →
        ((CD.toInstR parts courses rooms).course c).numMin ≤ ((CD.toInstR parts courses rooms).course c).numMax :=
  CD.read_instOK2_of_len h rooms hlen

#print axioms C12_read_wellformed
#print axioms C12_read_wellformed_checks
#print axioms C12_read_wellformed_instOK2
#print axioms C12_read_wellformed_of_len
end Props

#print axioms Props.C12_refuse_no_track
#print axioms Props.C12_refuse_two_tracks
#print axioms Props.C12_refuse_unknown_track
#print axioms Props.C12_choices
#print axioms Props.C12_choices_mem
#print axioms Props.C12_courses
#print axioms Props.C12_courses_sorted
#print axioms Props.C12_course_entry
#print axioms Props.C12_regs
#print axioms Props.C12_participants
#print axioms Props.C12_ignored
#print axioms Props.C12_read
