import Cdecao.Engine.SyncTie
/-! The synchronisation skeleton of bab.rs, re-extracted from the source on every run, is the one
    the engine model was written against (see Engine/SyncTie.lean). Part of the obligations of
    every property whose theorem is about the engine model (C02, C03, C04, C09, C19). -/
namespace Props

theorem engine_sync_tie :
    Const.BAB_SHARED_FIELDS = Eng3.sharedFields ∧ Const.BAB_SYNC_IMPORTS = Eng3.syncImports ∧
    Const.BAB_SYNC_OPS = Eng3.syncOps ∧ Const.BAB_SYNC_OTHER = [] ∧ Const.BAB_SHARED_TYPES = Eng3.sharedTypes :=
  Eng3.sync_tie

/-- `caobab::solve` hands the engine exactly `run_bab_node` on the precomputed problem (see
    Engine/SyncTie.lean) -/
theorem solve_wiring_tie : Const.CAOBAB_SOLVE_WIRING = Eng3.solveWiring := Eng3.solve_wiring_tie

end Props
