import Cdecao.Proofs.NodeWrong
import Cdecao.Engine.BabOpt
/-! # C02 — without room limits the result is optimal; "no solution" means none exists

The full statement is FALSE for the code (known finding F1: the branching never cancels a course
in order to free its instructor). Class outside F1: `NoFreeable I` — a participant with own
choices instructs only fixed courses. In that class every clause of the node specification
`Eng3.NodeSpec` holds for `runNodeS`; `bab_optimal` composes them into optimality of the finished
parallel search for every thread count and schedule. `SolIn I nd a`: `a` satisfies the hard
constraints and the restrictions of node `nd`. -/
namespace Props
open N2 H2 Finset

theorem C02_node_bound (I : Inst) (nd : Node) (hI : InstOK2 I)
    (hmm : ∀ c, c < I.C → (I.course c).numMin ≤ (I.course c).numMax) (hn2 : NodeOK2 I nd) (hnf : NoFreeable I)
    (hg : guards I nd = none) (mm : Vec Nat) (hsc : Int) (hrun : H2.run (nodeInp I nd) = some (mm, hsc))
    (a : Nat → Option Nat) (hs : SolIn I nd a) : G.scoreOf I a ≤ hsc.toNat + bonusOf I nd :=
  node_bound I nd hI hmm hn2 hnf hg mm hsc hrun a hs

theorem C02_node_mono (I : Inst) (R : RoomFns) (nd : Node) (kids : List Node) (sc : Nat)
    (h : runNodeS I R nd = .ok (.infeasible kids sc)) (k : Node) (hk : k ∈ kids) (a : Nat → Option Nat)
    (hs : SolIn I k a) : SolIn I nd a :=
  node_mono I R nd kids sc h k hk a hs

theorem C02_cover (I : Inst) (nd : Node) (a : Nat → Option Nat) (hs : SolIn I nd a) (c : Nat) (hc : c < I.C) :
    SolIn I { nd with enforced := nd.enforced ++ [c] } a ∨
    ((I.course c).fixed = false ∧ SolIn I { nd with cancelled := nd.cancelled ++ [c] } a) :=
  cover_min I nd a hs c hc

theorem C02_node_none (I : Inst) (nd : Node) (hI : InstOK I) (hn2 : NodeOK2 I nd) (hnd : nd.enforced.Nodup)
    (hnf : NoFreeable I) (hg : guards I nd = some (.ok .noSol)) (a : Nat → Option Nat) : ¬ SolIn I nd a :=
  node_none I nd hI hn2 hnd hnf hg a

theorem C02_feas_in_sol (I : Inst) (R : RoomFns) (nd : Node) (hI : InstOK2 I)
    (hmm : ∀ c, c < I.C → (I.course c).numMin ≤ (I.course c).numMax) (hn2 : NodeOK2 I nd)
    (al : List (Option Nat)) (sc : Nat) (h : runNodeS I R nd = .ok (.feasible al sc)) :
    ∃ a : Nat → Option Nat, al = (List.range I.P).map a ∧ SolIn I nd a ∧ sc = G.scoreOf I a :=
  feas_in_sol I R nd hI hmm hn2 al sc h

theorem C02_feas_optimal (I : Inst) (R : RoomFns) (nd : Node) (hI : InstOK2 I)
    (hmm : ∀ c, c < I.C → (I.course c).numMin ≤ (I.course c).numMax) (hn2 : NodeOK2 I nd) (hnf : NoFreeable I)
    (al : List (Option Nat)) (sc : Nat) (h : runNodeS I R nd = .ok (.feasible al sc))
    (a' : Nat → Option Nat) (hs : SolIn I nd a') : G.scoreOf I a' ≤ sc :=
  feas_optimal I R nd hI hmm hn2 hnf al sc h a' hs

theorem C02_wrong_empty (I : Inst) (nd : Node) (hI : InstOK2 I)
    (hmm : ∀ c, c < I.C → (I.course c).numMin ≤ (I.course c).numMax) (hn2 : NodeOK2 I nd) (hnf : NoFreeable I)
    (hpen : ∑ p ∈ range I.P, maxPen I p < G.W)
    (hg : guards I nd = none) (mm : Vec Nat) (hsc : Int) (hrun : H2.run (nodeInp I nd) = some (mm, hsc))
    (p0 : Nat) (hp0 : p0 < I.P) (hact0 : skipXBase I nd p0 = false)
    (hwrong : ∀ c, assign I nd mm.get p0 = some c → ¬ ∃ ch ∈ (I.part p0).choices, ch.course = c)
    (a : Nat → Option Nat) : ¬ SolIn I nd a :=
  wrong_empty I nd hI hmm hn2 hnf hpen hg mm hsc hrun p0 hp0 hact0 hwrong a

/-- composition: a node solver satisfying `NodeSpec` makes the finished parallel search optimal —
    nothing is returned only if the root's solution set is empty; what is returned is in the set,
    has the reported score, and nothing in the set scores more. Every `T ≥ 1`, every schedule. -/
theorem C02_compose {ν σ : Type} [Eng3.Solver ν σ] {S : Type} {score : S → Nat} {Sol : ν → S → Prop}
    {sem : σ → S} {μ : ν → Nat} (h : Eng3.NodeSpec S score Sol sem μ) {root : ν} {top T : Nat}
    {c : Eng3.Cfg ν σ} (hT : 0 < T) (htop : ∀ s, Sol root s → score s ≤ top)
    (hr : Eng3.Reach root top T c) (hd : Eng3.AllDone c) :
    (c.best = none → ∀ s, ¬ Sol root s) ∧
    (∀ sol, c.best = some sol → Sol root (sem sol) ∧ score (sem sol) = c.bestScore ∧
      ∀ s, Sol root s → score s ≤ c.bestScore) :=
  Eng3.bab_optimal h hT htop hr hd

end Props
