import Cdecao.Proofs.NodeWrong
import Cdecao.Engine.BabOpt
import Cdecao.Proofs.NodeSpecAsm
import Cdecao.Proofs.SpecExec
import Cdecao.Props.C02F1
/-! # C02 — without room limits the result is optimal; "no solution" means none exists

The full statement is FALSE for the code (known finding F1: the branching never cancels a course
in order to free its instructor). Class outside F1: `NoFreeable I` — a participant with own
choices instructs only fixed courses. In that class every clause of the node specification
`Eng3.NodeSpec` holds for `runNodeS`; `bab_optimal` composes them into optimality of the finished
parallel search for every thread count and schedule. `SolIn I nd a`: `a` satisfies the hard
constraints and the restrictions of node `nd`. -/
namespace Props
open N2 H2 Finset

theorem C02_node_bound (I : Inst) (nd : Node) (hI : InstOK2 I)
    (hmm : ∀ c, c < I.C → (I.course c).numMin ≤ (I.course c).numMax) (hn2 : NodeOK2 I nd) (hnf : NoFreeable I)
    (hg : guards I nd = none) (mm : Vec Nat) (hsc : Int) (hrun : H2.run (nodeInp I nd) = some (mm, hsc))
    (a : Nat → Option Nat) (hs : SolIn I nd a) : G.scoreOf I a ≤ hsc.toNat + bonusOf I nd :=
  node_bound I nd hI hmm hn2 hnf hg mm hsc hrun a hs

theorem C02_node_mono (I : Inst) (R : RoomFns) (nd : Node) (kids : List Node) (sc : Nat)
    (h : runNodeS I R nd = .ok (.infeasible kids sc)) (k : Node) (hk : k ∈ kids) (a : Nat → Option Nat)
    (hs : SolIn I k a) : SolIn I nd a :=
  node_mono I R nd kids sc h k hk a hs

theorem C02_cover (I : Inst) (nd : Node) (a : Nat → Option Nat) (hs : SolIn I nd a) (c : Nat) (hc : c < I.C) :
    SolIn I { nd with enforced := nd.enforced ++ [c] } a ∨
    ((I.course c).fixed = false ∧ SolIn I { nd with cancelled := nd.cancelled ++ [c] } a) :=
  cover_min I nd a hs c hc

theorem C02_node_none (I : Inst) (nd : Node) (hI : InstOK I) (hn2 : NodeOK2 I nd) (hnd : nd.enforced.Nodup)
    (hnf : NoFreeable I) (hg : guards I nd = some (.ok .noSol)) (a : Nat → Option Nat) : ¬ SolIn I nd a :=
  node_none I nd hI hn2 hnd hnf hg a

theorem C02_feas_in_sol (I : Inst) (R : RoomFns) (nd : Node) (hI : InstOK2 I)
    (hmm : ∀ c, c < I.C → (I.course c).numMin ≤ (I.course c).numMax) (hn2 : NodeOK2 I nd)
    (al : List (Option Nat)) (sc : Nat) (h : runNodeS I R nd = .ok (.feasible al sc)) :
    ∃ a : Nat → Option Nat, al = (List.range I.P).map a ∧ SolIn I nd a ∧ sc = G.scoreOf I a :=
  feas_in_sol I R nd hI hmm hn2 al sc h

theorem C02_feas_optimal (I : Inst) (R : RoomFns) (nd : Node) (hI : InstOK2 I)
    (hmm : ∀ c, c < I.C → (I.course c).numMin ≤ (I.course c).numMax) (hn2 : NodeOK2 I nd) (hnf : NoFreeable I)
    (al : List (Option Nat)) (sc : Nat) (h : runNodeS I R nd = .ok (.feasible al sc))
    (a' : Nat → Option Nat) (hs : SolIn I nd a') : G.scoreOf I a' ≤ sc :=
  feas_optimal I R nd hI hmm hn2 hnf al sc h a' hs

theorem C02_wrong_empty (I : Inst) (nd : Node) (hI : InstOK2 I)
    (hmm : ∀ c, c < I.C → (I.course c).numMin ≤ (I.course c).numMax) (hn2 : NodeOK2 I nd) (hnf : NoFreeable I)
    (hpen : ∑ p ∈ range I.P, maxPen I p < G.W)
    (hg : guards I nd = none) (mm : Vec Nat) (hsc : Int) (hrun : H2.run (nodeInp I nd) = some (mm, hsc))
    (p0 : Nat) (hp0 : p0 < I.P) (hact0 : skipXBase I nd p0 = false)
    (hwrong : ∀ c, assign I nd mm.get p0 = some c → ¬ ∃ ch ∈ (I.part p0).choices, ch.course = c)
    (a : Nat → Option Nat) : ¬ SolIn I nd a :=
  wrong_empty I nd hI hmm hn2 hnf hpen hg mm hsc hrun p0 hp0 hact0 hwrong a

/-- composition: a node solver satisfying `NodeSpec` makes the finished parallel search optimal —
    nothing is returned only if the root's solution set is empty; what is returned is in the set,
    has the reported score, and nothing in the set scores more. Every `T ≥ 1`, every schedule. -/
theorem C02_compose {ν σ : Type} [Eng3.Solver ν σ] {S : Type} {score : S → Nat} {Sol : ν → S → Prop}
    {sem : σ → S} {μ : ν → Nat} (h : Eng3.NodeSpec S score Sol sem μ) {root : ν} {top T : Nat}
    {c : Eng3.Cfg ν σ} (hT : 0 < T) (htop : ∀ s, Sol root s → score s ≤ top)
    (hr : Eng3.Reach root top T c) (hd : Eng3.AllDone c) :
    (c.best = none → ∀ s, ¬ Sol root s) ∧
    (∀ sol, c.best = some sol → Sol root (sem sol) ∧ score (sem sol) = c.bestScore ∧
      ∀ s, Sol root s → score s ≤ c.bestScore) :=
  Eng3.bab_optimal h hT htop hr hd

theorem noFreeableb_sound (I : Inst) (h : noFreeableb I = true) : NoFreeable I := by
  intro c p hc hin hch
  simp only [noFreeableb, List.all_eq_true, Bool.or_eq_true] at h
  have hmem : I.course c ∈ I.cs := by
    simp only [Inst.course, Inst.C] at hc ⊢
    rw [List.getD_eq_getElem?_getD, List.getElem?_eq_getElem hc]
    exact List.getElem_mem hc
  rcases h _ hmem with hf | hall
  · exact hf
  · exfalso
    have hp : p ∈ (I.course c).instructors := by
      simpa [Inst.instructs, List.contains_iff_mem] using hin
    have := hall p hp
    simp only [Inst.hasChoices, Bool.not_eq_true'] at hch
    rw [hch] at this
    contradiction

/-- **C02 on the class outside F1** (assembled end to end): no room list, valid instance
    (`validb`), no participant with own choices instructs a non-fixed course (`noFreeableb`).
    For every thread count `T ≥ 1`, every `top ≥ P · 50000`, every schedule: when all workers have
    stopped, (i) nothing is reported only if NO assignment satisfies the hard constraints, and
    (ii) what is reported satisfies them, its reported score is its documented score, and no
    assignment satisfying the hard constraints (any subset of non-fixed courses cancelled) scores
    more. -/
theorem C02_partial (I : Inst) (R : RoomFns) (hrooms : I.rooms = none) (hv : validb I = true)
    (hnf : noFreeableb I = true) (top T : Nat) (hT : 0 < T) (htop : I.P * G.W ≤ top) :
    letI := solverOf I R
    ∀ c : Eng3.Cfg Node (List (Option Nat)), Eng3.Reach rootNode top T c → Eng3.AllDone c →
      (c.best = none → ∀ a, G.hardOKb I a = false) ∧
      (∀ al, c.best = some al → ∃ a : Nat → Option Nat, al = (List.range I.P).map a ∧ G.hardOKb I a = true ∧
        c.bestScore = G.scoreOfL I a ∧ ∀ a', G.hardOKb I a' = true → G.scoreOfL I a' ≤ c.bestScore) := by
  letI := solverOf I R
  intro c hr hd
  obtain ⟨hI, hmm, hpen⟩ := validb_sound I hv
  obtain ⟨h1, h2⟩ := N2.C02_partial_top I R hrooms hI hmm (noFreeableb_sound I hnf) hpen top T hT htop c hr hd
  refine ⟨?_, ?_⟩
  · intro hn a
    have := h1 hn a
    rw [← G.hardOKb_iff] at this
    simpa using this
  · intro al hal
    obtain ⟨a, ha, hh, hs, hopt⟩ := h2 al hal
    refine ⟨a, ha, (G.hardOKb_iff I a).2 hh, by rw [G.scoreOfL_eq]; exact hs, ?_⟩
    intro a' ha'
    rw [G.scoreOfL_eq]
    exact hopt a' ((G.hardOKb_iff I a').1 ha')

/-- non-vacuity: an instance in the class (the instructor of the non-fixed course 0 has no choices) -/
example : validb { cs := [⟨1, 2, false, [0]⟩, ⟨0, 3, true, []⟩], ps := [⟨[]⟩, ⟨[⟨0, 0⟩, ⟨1, 5⟩]⟩, ⟨[⟨1, 0⟩]⟩], rooms := none } = true ∧
    noFreeableb { cs := [⟨1, 2, false, [0]⟩, ⟨0, 3, true, []⟩], ps := [⟨[]⟩, ⟨[⟨0, 0⟩, ⟨1, 5⟩]⟩, ⟨[⟨1, 0⟩]⟩], rooms := none } = true := by
  decide

/-- the witness of the known finding F1 is a valid instance OUTSIDE the class (so `C02_partial`
    does not apply to it), and an assignment satisfying the hard constraints exists for it
    (`[X, X]`, course Y cancelled) — the model's and the code's answer "no solution" on it is
    replayed by the check on every run (corpus/C02/F1_freeable_instructor.json) -/
example : validb { cs := [⟨2, 2, false, []⟩, ⟨0, 5, false, [1]⟩], ps := [⟨[⟨0, 0⟩]⟩, ⟨[⟨0, 0⟩]⟩], rooms := none } = true ∧
    noFreeableb { cs := [⟨2, 2, false, []⟩, ⟨0, 5, false, [1]⟩], ps := [⟨[⟨0, 0⟩]⟩, ⟨[⟨0, 0⟩]⟩], rooms := none } = false ∧
    G.hardOKb { cs := [⟨2, 2, false, []⟩, ⟨0, 5, false, [1]⟩], ps := [⟨[⟨0, 0⟩]⟩, ⟨[⟨0, 0⟩]⟩], rooms := none }
      (fun _ => some 0) = true := by
  decide

end Props
