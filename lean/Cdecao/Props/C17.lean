import Cdecao.Proofs.NodeEng2
/-! # C17 — room limits can only restrict the result -/
namespace Props
open N2

/-- with ANY room list (and any float behaviour), every thread count and schedule: the reported
    score is the documented score of an assignment that satisfies the hard constraints of the
    room-free problem — hence it never exceeds an upper bound `opt` of the room-free optimum -/
theorem C17_rooms_le_opt (I : Inst) (R : RoomFns) (hI : InstOK2 I) (top T : Nat) (opt : Nat)
    (hopt : ∀ a, G.HardOK I a → G.scoreOf I a ≤ opt) :
    letI := solverOf I R
    ∀ c : Eng3.Cfg Node (List (Option Nat)),
      Eng3.Reach rootNode top T c → ∀ al, c.best = some al → c.bestScore ≤ opt := by
  letI := solverOf I R
  intro c hr al hal
  obtain ⟨a, _, hh, hs⟩ := C01_C08_engine I R hI top T c hr al hal
  rw [hs]
  exact hopt a hh

end Props
