import Cdecao.Proofs.NodeEng2
import Cdecao.Proofs.RoomsNonbinding
/-! # C17 — room limits can only restrict the result -/
namespace Props
open N2

/-- with ANY room list (and any float behaviour), every thread count and schedule: the reported
    score is the documented score of an assignment that satisfies the hard constraints of the
    room-free problem — hence it never exceeds an upper bound `opt` of the room-free optimum -/
theorem C17_rooms_le_opt (I : Inst) (R : RoomFns) (hI : InstOK2 I) (top T : Nat) (opt : Nat)
    (hopt : ∀ a, G.HardOK I a → G.scoreOf I a ≤ opt) :
    letI := solverOf I R
    ∀ c : Eng3.Cfg Node (List (Option Nat)),
      Eng3.Reach rootNode top T c → ∀ al, c.best = some al → c.bestScore ≤ opt := by
  letI := solverOf I R
  intro c hr al hal
  obtain ⟨a, _, hh, hs⟩ := C01_C08_engine I R hI top T c hr al hal
  rw [hs]
  exact hopt a hh

/-! ## `rooms_nonbinding`: a room list that cannot bind changes nothing (`Proofs/RoomsNonbinding.lean`)

The non-binding hypothesis `hnb` says: every room among the `I.C` largest (`padded = I.roomSizes`, the
given rooms sorted descending, padded with zeros / truncated to `I.C` entries — so it implicitly needs
at least `I.C` rooms) is at least as large as the effective size of any course with any number of
people up to `numMax + #instructors`. `nonBinding_of_all` derives it from "at least `I.C` rooms, each of
them large enough". -/

/-- node level: the node solver returns literally the same result — verdict, score, assignment,
    children, panic message — as on the problem without room list -/
theorem C17_rooms_nonbinding (I : Inst) (R : RoomFns) (nd : Node) (rooms padded : List Nat)
    (hr : I.rooms = some rooms) (hp : I.roomSizes = some padded) (hI : InstOK2 I) (hn : NodeOK2 I nd)
    (hnb : ∀ c, c < I.C → ∀ n, n ≤ (I.course c).numMax + (I.course c).instructors.length →
      ∀ r ∈ padded, R.eff c n ≤ r) :
    runNodeS I R nd = runNodeS { I with rooms := none } R nd :=
  rooms_nonbinding' I R nd rooms padded hr hp hI hn hnb

/-- the counting bound behind it: after the matching of any node, the number of participants
    assigned to a course (instructors included) is at most `numMax + #instructors` -/
theorem C17_count_le (I : Inst) (nd : Node) (hI : InstOK I) (hn : NodeOK I nd) (mm : H2.Vec Nat)
    (hperf : H2.Perfect (H2.probOf (nodeInp I nd)) mm.get) (c : Nat) (hc : c < I.C) :
    (List.range I.P).countP (fun p => (H2.Vec.tab I.P (assign I nd mm.get)).get p == some c)
      ≤ (I.course c).numMax + (I.course c).instructors.length :=
  node_count_le I nd hI hn mm hperf c hc

/-- the two `Solver` instances agree on `res` and `kids` at every node satisfying `NodeOK2` -/
theorem C17_rooms_nonbinding_solver (I : Inst) (R : RoomFns) (padded : List Nat)
    (hp : I.roomSizes = some padded) (hI : InstOK2 I) (hnb : NonBinding I R padded)
    (nd : Node) (hn : NodeOK2 I nd) :
    (solverOf I R).res nd = (solverOf { I with rooms := none } R).res nd ∧
      (solverOf I R).kids nd = (solverOf { I with rooms := none } R).kids nd :=
  solver_agree I R padded hp hI.toInstOK hnb nd hn

/-- whole search tree: below the root the two search trees are identical — the same nodes, and at
    every node the same verdict and the same children -/
theorem C17_rooms_nonbinding_tree (I : Inst) (R : RoomFns) (padded : List Nat)
    (hp : I.roomSizes = some padded) (hI : InstOK2 I) (hnb : NonBinding I R padded) (f : Node) :
    ((letI := solverOf I R; Eng3.Desc f rootNode) ↔
      (letI := solverOf { I with rooms := none } R; Eng3.Desc f rootNode)) ∧
    ((letI := solverOf I R; Eng3.Desc f rootNode) →
      (solverOf I R).res f = (solverOf { I with rooms := none } R).res f ∧
      (solverOf I R).kids f = (solverOf { I with rooms := none } R).kids f) :=
  rooms_nonbinding_tree I R padded hp hI.toInstOK hnb f

/-- parallel search: for every thread count `T` and every schedule, the engine passes through
    exactly the same configurations (pending list, incumbent and its score, thread states) as on the
    room-free problem — in particular it reports the same result -/
theorem C17_rooms_nonbinding_search (I : Inst) (R : RoomFns) (padded : List Nat)
    (hp : I.roomSizes = some padded) (hI : InstOK2 I) (hnb : NonBinding I R padded) (top T : Nat)
    (c : Eng3.Cfg Node (List (Option Nat))) :
    (letI := solverOf I R; Eng3.Reach rootNode top T c) ↔
      (letI := solverOf { I with rooms := none } R; Eng3.Reach rootNode top T c) :=
  rooms_nonbinding_reach I R padded hp hI.toInstOK hnb top T c

/-- non-vacuity of the hypotheses: two courses, three rooms of which the two largest hold 5 and 4 -/
example :
    let I : Inst := { cs := [⟨1, 2, false, [0]⟩, ⟨0, 3, true, []⟩]
                      ps := [⟨[]⟩, ⟨[⟨0, 0⟩, ⟨1, 5⟩]⟩, ⟨[⟨1, 0⟩]⟩]
                      rooms := some [4, 1, 5] }
    let R : RoomFns := ⟨fun _ n => n + 1, fun _ r => r - 1⟩
    I.rooms = some [4, 1, 5] ∧ I.roomSizes = some [5, 4] ∧ InstOK2 I ∧ NodeOK2 I rootNode ∧
      NonBinding I R [5, 4] := by
  intro I R
  refine ⟨rfl, by decide, (validb_sound I (by decide)).1, rootNode_ok2 I, ?_⟩
  intro c hc n hn r hr
  have hC : I.C = 2 := rfl
  rw [hC] at hc
  simp only [List.mem_cons, List.not_mem_nil, or_false] at hr
  show n + 1 ≤ r
  have h0 : (I.course 0).numMax + (I.course 0).instructors.length = 3 := rfl
  have h1 : (I.course 1).numMax + (I.course 1).instructors.length = 3 := rfl
  have hn3 : n ≤ 3 := by
    rcases Nat.lt_succ_iff_lt_or_eq.1 hc with h | h
    · have : c = 0 := by omega
      subst this; omega
    · subst h; omega
  omega

#print axioms C17_rooms_nonbinding
#print axioms C17_rooms_nonbinding_tree
#print axioms C17_rooms_nonbinding_search
end Props
