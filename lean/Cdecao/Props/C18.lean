import Cdecao.Rooms.Possible
import Cdecao.Model.Rooms
/-! # C18 — every room listed as possible for a course is really usable

`RS.possible` is the double loop of `calculate_possible_course_room_sizes` on sizes by rank
(descending, by ANY sorting permutation — ties in any order) and rooms in descending order.
`RM.possibleByCourse` adds the re-ordering by course index and `dedup`. -/
namespace Props
open RS

/-- soundness: every listed room is at least the course's effective size and occurs in a complete
    allocation of distinct rooms (`Alloc`) in which the course gets a room of exactly that size -/
theorem C18_sound (I : In) (hR : Desc I.R) (hF : Feasible I) (x v : Nat) (hx : x < I.num)
    (h : v ∈ slot (possible I) x) :
    I.s x ≤ v ∧ ∃ f, Alloc I f ∧ I.r (f x) = v :=
  possible_sound I hR hF x v hx h

/-- every course that takes place (positive size) is offered at least the room of its own rank -/
theorem C18_nonempty (I : In) (hF : Feasible I) (x : Nat) (hx : x < I.num) (hs : 0 < I.s x) :
    I.r x ∈ slot (possible I) x :=
  possible_nonempty I hF x hx hs

/-- `dedup` preserves membership -/
theorem C18_dedup (l : List Nat) (v : Nat) : v ∈ RM.dedupAdj l ↔ v ∈ l := by
  induction l using RM.dedupAdj.induct with
  | case1 => simp [RM.dedupAdj]
  | case2 x => simp [RM.dedupAdj]
  | case3 x y rest heq ih =>
    have : x = y := by simpa using heq
    subst this
    simp only [RM.dedupAdj, heq, if_true, ih, List.mem_cons]
    constructor
    · rintro (h | h)
      · exact Or.inl h
      · exact Or.inr (Or.inr h)
    · rintro (h | h | h)
      · exact Or.inl h
      · exact Or.inl h
      · exact Or.inr h
  | case4 x y rest hne ih =>
    have hne' : (x == y) = false := by simpa using hne
    rw [RM.dedupAdj, hne']
    simp only [Bool.false_eq_true, if_false, List.mem_cons]
    rw [ih]
    simp

end Props
