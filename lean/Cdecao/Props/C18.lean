import Cdecao.Rooms.Possible
import Cdecao.Model.Rooms
import Cdecao.Proofs.RoomsProofs
/-! # C18 — every room listed as possible for a course is really usable

`RS.possible` is the double loop of `calculate_possible_course_room_sizes` on sizes by rank
(descending, by ANY sorting permutation — ties in any order) and rooms in descending order.
`RM.possibleByCourse` adds the re-ordering by course index and `dedup`. -/
namespace Props
open RS

/-- soundness: every listed room is at least the course's effective size and occurs in a complete
    allocation of distinct rooms (`Alloc`) in which the course gets a room of exactly that size -/
theorem C18_sound (I : In) (hR : Desc I.R) (hF : Feasible I) (x v : Nat) (hx : x < I.num)
    (h : v ∈ slot (possible I) x) :
    I.s x ≤ v ∧ ∃ f, Alloc I f ∧ I.r (f x) = v :=
  possible_sound I hR hF x v hx h

/-- every course that takes place (positive size) is offered at least the room of its own rank -/
theorem C18_nonempty (I : In) (hF : Feasible I) (x : Nat) (hx : x < I.num) (hs : 0 < I.s x) :
    I.r x ∈ slot (possible I) x :=
  possible_nonempty I hF x hx hs

/-- `dedup` preserves membership -/
theorem C18_dedup (l : List Nat) (v : Nat) : v ∈ RM.dedupAdj l ↔ v ∈ l := by
  induction l using RM.dedupAdj.induct with
  | case1 => simp [RM.dedupAdj]
  | case2 x => simp [RM.dedupAdj]
  | case3 x y rest heq ih =>
    have : x = y := by simpa using heq
    subst this
    simp only [RM.dedupAdj, heq, if_true, ih, List.mem_cons]
    constructor
    · rintro (h | h)
      · exact Or.inl h
      · exact Or.inr (Or.inr h)
    · rintro (h | h | h)
      · exact Or.inl h
      · exact Or.inl h
      · exact Or.inr h
  | case4 x y rest hne ih =>
    have hne' : (x == y) = false := by simpa using hne
    rw [RM.dedupAdj, hne']
    simp only [Bool.false_eq_true, if_false, List.mem_cons]
    rw [ih]
    simp

/-! ## end to end: the listing by course (`RM.possibleByCourse`) -/

/-- `RM.orderOk` says exactly: `order` is a permutation of the course indices that sorts the sizes
    descending (ties in any order) -/
theorem C18_orderOk_iff (sizes order : List Nat) :
    RM.orderOk sizes order = true ↔
      order.length = sizes.length ∧ (List.range sizes.length).Perm order ∧
      (order.map (fun c => sizes.getD c 0)).Pairwise (fun a b => b ≤ a) :=
  RMP.orderOk_iff.trans ⟨fun ⟨a, b, c⟩ => ⟨a, b, c⟩, fun ⟨a, b, c⟩ => ⟨a, b, c⟩⟩

/-- the room sort yields a descending permutation, so `RS.Desc` holds for the derived instance -/
theorem C18_sortDesc (rooms : List Nat) :
    (RM.sortDesc rooms).Perm rooms ∧ Desc (RM.sortDesc rooms) :=
  ⟨RMP.sortDesc_perm rooms, RMP.sortDesc_desc rooms⟩

/-- the executable feasibility check `RM.fits` is `RS.Feasible` of the derived rank-wise instance -/
theorem C18_fits_iff_feasible (sizes order rooms : List Nat) (hO : RM.orderOk sizes order = true) :
    RM.fits sizes rooms = true ↔ Feasible (RMP.inst sizes order rooms) :=
  RMP.fits_iff_feasible (RMP.orderOk_facts hO) rooms

/-- `RM.fits` compares ANY descending arrangement of the sizes with ANY descending arrangement of
    the rooms rank by rank (reads outside are 0) -/
theorem C18_fits_iff (sizes rooms S R : List Nat) (hS : S.Pairwise (fun a b => b ≤ a)) (hSp : S.Perm sizes)
    (hR : R.Pairwise (fun a b => b ≤ a)) (hRp : R.Perm rooms) :
    RM.fits sizes rooms = true ↔ ∀ i, S.getD i 0 ≤ R.getD i 0 :=
  RMP.fits_iff hS hSp hR hRp

/-- **C18 end to end (soundness).** For a sorting permutation `order` and a room-feasible assignment:
    every room size `v` listed for course `c` is at least the course's effective size, is the size of
    an existing room, and there is a complete allocation `g` of distinct room indices to all courses
    that take place (`RMP.CAlloc`: in range, large enough, injective) in which `c` gets a room of
    size `v` (in range and not shared with any other course, even if `c` does not take place). -/
theorem C18_byCourse_sound (sizes order rooms : List Nat) (hO : RM.orderOk sizes order = true)
    (hF : RM.fits sizes rooms = true) (c : Nat) (hc : c < sizes.length) (v : Nat)
    (hv : v ∈ (RM.possibleByCourse sizes order rooms).getD c []) :
    sizes.getD c 0 ≤ v ∧ v ∈ rooms ∧
    ∃ g : Nat → Nat, RMP.CAlloc sizes rooms g ∧ g c < rooms.length ∧ rooms.getD (g c) 0 = v ∧
      ∀ c', c' < sizes.length → g c' = g c → c' = c :=
  RMP.possibleByCourse_sound hO hF c hc v hv

/-- **C18 end to end (non-emptiness).** Every course that takes place is offered a room size. -/
theorem C18_byCourse_nonempty (sizes order rooms : List Nat) (hO : RM.orderOk sizes order = true)
    (hF : RM.fits sizes rooms = true) (c : Nat) (hc : c < sizes.length) (hpos : 0 < sizes.getD c 0) :
    (RM.possibleByCourse sizes order rooms).getD c [] ≠ [] :=
  (RMP.possibleByCourse_nonempty hO hF c hc hpos).2

/-- the executable specification evaluated by the driver holds for the model's listing -/
theorem C18_specSound (sizes order rooms : List Nat) (hO : RM.orderOk sizes order = true)
    (hF : RM.fits sizes rooms = true) :
    RM.specSound sizes rooms (RM.possibleByCourse sizes order rooms) = true ∧
    RM.specNonempty sizes (RM.possibleByCourse sizes order rooms) = true :=
  ⟨RMP.possibleByCourse_specSound hO hF, RMP.possibleByCourse_specNonempty hO hF⟩

/-- the executable specification is itself sound: ANY listing that passes the driver's check
    `RM.specSound` (e.g. the one printed by the Rust program) consists of room sizes that are large
    enough, present, and realised by a complete allocation of distinct rooms -/
theorem C18_spec_meaning (sizes rooms : List Nat) (listed : List (List Nat))
    (h : RM.specSound sizes rooms listed = true) (c : Nat) (hc : c < sizes.length) (v : Nat)
    (hv : v ∈ listed.getD c []) :
    sizes.getD c 0 ≤ v ∧ v ∈ rooms ∧
    ∃ g : Nat → Nat, RMP.CAlloc sizes rooms g ∧ g c < rooms.length ∧ rooms.getD (g c) 0 = v ∧
      ∀ c', c' < sizes.length → 0 < sizes.getD c' 0 → g c' = g c → c' = c :=
  RMP.specSound_sound h c hc v hv

/-- rank-wise fit (`RM.fits`, the room check of the solver) yields a complete allocation -/
theorem C18_fits_alloc (sizes rooms : List Nat) (hF : RM.fits sizes rooms = true) :
    ∃ g, RMP.CAlloc sizes rooms g := RMP.fits_alloc hF

/-- the hypotheses are satisfiable with a non-trivial listing (see `Proofs/RoomsProofs.lean` for the
    evaluation of `fits` and `possibleByCourse` on this instance) -/
example : RM.orderOk [3, 0, 5, 3] [2, 3, 0, 1] = true := by decide

/-- **kind names.** `RM.kindNames` is the comma-joined `RMP.kindNameLists`, and a name is listed for
    course `c` exactly if it names a kind with at least one room whose capacity is a possible room
    size listed for `c` (after fix F8). -/
theorem C18_kindNames (sizes order : List Nat) (kinds : List RM.Kind) :
    RM.kindNames sizes order kinds = (RMP.kindNameLists sizes order kinds).map RM.joinComma ∧
    ∀ c name, name ∈ (RMP.kindNameLists sizes order kinds).getD c [] ↔
      ∃ k ∈ kinds, k.name = name ∧ 0 < k.quantity ∧
        k.capacity ∈ (RM.possibleByCourse sizes order (RMP.kindRooms kinds)).getD c [] :=
  ⟨RMP.kindNames_eq sizes order kinds, RMP.mem_kindNameLists sizes order kinds⟩

/-- every course that takes place is offered at least one kind name -/
theorem C18_kindNames_nonempty (sizes order : List Nat) (kinds : List RM.Kind)
    (hO : RM.orderOk sizes order = true) (hF : RM.fits sizes (RMP.kindRooms kinds) = true) (c : Nat)
    (hc : c < sizes.length) (hpos : 0 < sizes.getD c 0) :
    (RMP.kindNameLists sizes order kinds).getD c [] ≠ [] :=
  RMP.kindNameLists_nonempty hO hF c hc hpos

/-- `io::rooms::read`: the kinds are a permutation of the input in descending capacity order, and the
    room list is their expansion, already descending -/
theorem C18_readKinds (ks : List RM.Kind) :
    (RM.readKinds ks).2.Perm ks ∧
    (RM.readKinds ks).2.Pairwise (fun a b => b.capacity ≤ a.capacity) ∧
    (RM.readKinds ks).1 = RMP.kindRooms (RM.readKinds ks).2 ∧
    RM.sortDesc (RM.readKinds ks).1 = (RM.readKinds ks).1 :=
  ⟨RMP.readKinds_snd_perm ks, RMP.readKinds_snd_desc ks, RMP.readKinds_fst ks, RMP.sortDesc_readKinds ks⟩

#print axioms C18_byCourse_sound
#print axioms C18_byCourse_nonempty
#print axioms C18_specSound
#print axioms C18_kindNames
#print axioms C18_spec_meaning

end Props
