import Cdecao.Props.MainE2E
import Cdecao.Props.C03
/-! # C03 at program level: the worker count changes neither what is solved nor the outcome

`--num-threads` (or the number of CPUs, when the option is absent) reaches exactly one place: the
`threads` field of the problem `main` hands to `caobab::solve`. Everything else — the document
read, the room list, the kinds — is the same (`front_threads_irrelevant`); and for a valid instance
outside the class of the known finding F11, two finished searches with ANY two positive worker
counts and any schedules agree on verdict and score, hence the program's exit status is the same
(`main_simple_threads_irrelevant`). Rooms are allowed. -/
set_option linter.style.haveILetI false
namespace Props
open MainM N2 Eng3

/-- `front` looks at the worker count only for the zero check and to fill `Problem.threads` -/
theorem front_threads_irrelevant {o : MainM.Opts} {e : MainM.Env} {pb₁ pb₂ : MainM.Problem} (t₂ : Option Nat) (n₂ : Nat)
    (h₁ : MainM.front o e = .ok pb₁) (h₂ : MainM.front { o with threads := t₂ } { e with cpus := n₂ } = .ok pb₂) :
    pb₁.data = pb₂.data ∧ pb₁.rooms = pb₂.rooms ∧ pb₁.kinds = pb₂.kinds := by
  have r₁ := front_rooms h₁
  have r₂ := front_rooms h₂
  have hpr : parseRooms { o with threads := t₂ } { e with cpus := n₂ } = parseRooms o e := rfl
  rw [hpr, r₁] at r₂
  simp only [Except.ok.injEq, Prod.mk.injEq] at r₂
  obtain ⟨j₁, hj₁, hd₁, -⟩ := front_input h₁
  obtain ⟨j₂, hj₂, hd₂, -⟩ := front_input h₂
  have hj : j₁ = j₂ := by
    have : e.input = .doc j₂ := hj₂
    rw [hj₁] at this
    exact FileIn.doc.inj this
  subst hj
  have hri : readInput { o with threads := t₂ } (.doc j₁) = readInput o (.doc j₁) := rfl
  rw [hri, hd₁] at hd₂
  exact ⟨Except.ok.inj hd₂, r₂.1, r₂.2⟩

/-- a refusal does not depend on the worker count either, as long as the other count is not 0 -/
theorem front_refusal_threads_irrelevant {o : MainM.Opts} {e : MainM.Env} {c : Nat} (t₂ : Option Nat) (n₂ : Nat)
    (h₁ : MainM.front o e = .error c) (hz₁ : o.threads ≠ some 0) (hz₂ : t₂ ≠ some 0) :
    MainM.front { o with threads := t₂ } { e with cpus := n₂ } = .error c := by
  unfold MainM.front at h₁ ⊢
  have hpr : parseRooms { o with threads := t₂ } { e with cpus := n₂ } = parseRooms o e := rfl
  have e1 : (o.threads == some 0) = false := by
    cases ht : o.threads with
    | none => rfl
    | some n => cases n with
      | zero => exact absurd ht hz₁
      | succ k => rfl
  have e2 : (t₂ == some 0) = false := by
    cases t₂ with
    | none => rfl
    | some n => cases n with
      | zero => exact absurd rfl hz₂
      | succ k => rfl
  simp only [e1, e2, Bool.false_eq_true, ↓reduceIte, hpr] at h₁ ⊢
  repeat' split at h₁
  all_goals first
    | contradiction
    | (simp only [Except.error.injEq] at h₁; subst h₁; simp_all [readInput])

/-- **C03, the whole program, simple format**: two runs of the program on the same command line
    except for `--num-threads` (any two values, or none and any two CPU counts ≥ 1), a valid instance
    outside the class of F11, with or without rooms: whenever both searches have ended with all
    workers returned — whatever the two schedules were — they agree on whether a solution exists and
    on its score, and the program ends with the same exit status -/
theorem main_simple_threads_irrelevant {o : MainM.Opts} {e : MainM.Env} {pb₁ pb₂ : MainM.Problem} (t₂ : Option Nat) (n₂ : Nat)
    (h₁ : MainM.front o e = .ok pb₁) (h₂ : MainM.front { o with threads := t₂ } { e with cpus := n₂ } = .ok pb₂)
    (hc : o.cde = false) (hcpu₁ : 0 < e.cpus) (hcpu₂ : 0 < n₂) :
    ∃ (ps : List SM.PartD) (cs : List SM.CourseD), pb₁.data = .simple ps cs ∧ pb₂.data = .simple ps cs ∧ pb₂.rooms = pb₁.rooms ∧
      ∀ (_ : validb (SM.toInst ps cs pb₁.rooms) = true) (_ : noFreeableb (SM.toInst ps cs pb₁.rooms) = true)
        (R : RoomFns) (top : Nat) (_ : ps.length * G.W ≤ top),
        letI := solverOf (SM.toInst ps cs pb₁.rooms) R
        ∀ c₁ c₂ : Cfg Node (List (Option Nat)),
          Reach rootNode top pb₁.threads c₁ → AllDone c₁ → Reach rootNode top pb₂.threads c₂ → AllDone c₂ →
          (c₁.best = none ↔ c₂.best = none) ∧ (c₁.best ≠ none → c₁.bestScore = c₂.bestScore) ∧
          (MainM.run o e (fun _ => c₁.best.isSome) true true).exit =
            (MainM.run { o with threads := t₂ } { e with cpus := n₂ } (fun _ => c₂.best.isSome) true true).exit := by
  obtain ⟨hdata, hrooms, -⟩ := front_threads_irrelevant t₂ n₂ h₁ h₂
  obtain ⟨j, ps, cs, -, -, hd₁, -⟩ := C15_main_simple h₁ hc
  have ht₁ := C10_main_threads h₁ hcpu₁
  have ht₂ : 0 < pb₂.threads := C10_main_threads h₂ (by simpa using hcpu₂)
  refine ⟨ps, cs, hd₁, by rw [← hdata]; exact hd₁, hrooms.symm, ?_⟩
  intro hv hnf R top htop
  letI := solverOf (SM.toInst ps cs pb₁.rooms) R
  intro c₁ c₂ hr₁ hdn₁ hr₂ hdn₂
  have hP : (SM.toInst ps cs pb₁.rooms).P = ps.length := by simp [SM.toInst, Inst.P]
  obtain ⟨hv1, hv2⟩ := C03_caobab (SM.toInst ps cs pb₁.rooms) R hv hnf top pb₁.threads pb₂.threads ht₁ ht₂
    (by rw [hP]; exact htop) c₁ c₂ hr₁ hdn₁ hr₂ hdn₂
  refine ⟨hv1, hv2, ?_⟩
  have m₁ := C10_main h₁ (fun _ => c₁.best.isSome)
  have m₂ := C10_main h₂ (fun _ => c₂.best.isSome)
  rcases Option.eq_none_or_eq_some c₁.best with hb | ⟨al, hb⟩
  · have hb2 := hv1.1 hb
    rw [(m₁.2 (by simp [hb])).1, (m₂.2 (by simp [hb2])).1]
  · have hb2 : c₂.best ≠ none := fun hn => by rw [hv1.2 hn] at hb; cases hb
    obtain ⟨al2, hb2'⟩ := Option.ne_none_iff_exists'.1 hb2
    rw [(m₁.1 (by simp [hb])).1, (m₂.1 (by simp [hb2'])).1]

/-- **C03, the whole program, CdE format**: the same for `--cde` (the instance is the one `CD.read`
    built; `validb` adds what the reader does not guarantee by itself — the penalty bound, some
    participant with choices —, `noFreeableb` keeps outside the class of F11) -/
theorem main_cde_threads_irrelevant {o : MainM.Opts} {e : MainM.Env} {pb₁ pb₂ : MainM.Problem} (t₂ : Option Nat) (n₂ : Nat)
    (h₁ : MainM.front o e = .ok pb₁) (h₂ : MainM.front { o with threads := t₂ } { e with cpus := n₂ } = .ok pb₂)
    (hc : o.cde = true) (hcpu₁ : 0 < e.cpus) (hcpu₂ : 0 < n₂) :
    ∃ (ps : List CD.Part) (cs : List CD.Course) (amb : CD.Ambience), pb₁.data = .cde ps cs amb ∧ pb₂.data = .cde ps cs amb ∧
      pb₂.rooms = pb₁.rooms ∧
      ∀ (_ : validb (CD.toInstR ps cs pb₁.rooms) = true) (_ : noFreeableb (CD.toInstR ps cs pb₁.rooms) = true)
        (R : RoomFns) (top : Nat) (_ : ps.length * G.W ≤ top),
        letI := solverOf (CD.toInstR ps cs pb₁.rooms) R
        ∀ c₁ c₂ : Cfg Node (List (Option Nat)),
          Reach rootNode top pb₁.threads c₁ → AllDone c₁ → Reach rootNode top pb₂.threads c₂ → AllDone c₂ →
          (c₁.best = none ↔ c₂.best = none) ∧ (c₁.best ≠ none → c₁.bestScore = c₂.bestScore) ∧
          (MainM.run o e (fun _ => c₁.best.isSome) true true).exit =
            (MainM.run { o with threads := t₂ } { e with cpus := n₂ } (fun _ => c₂.best.isSome) true true).exit := by
  obtain ⟨hdata, hrooms, -⟩ := front_threads_irrelevant t₂ n₂ h₁ h₂
  obtain ⟨j, track, ps, cs, amb, -, -, -, hd₁, -⟩ := C15_main_cde h₁ hc
  have ht₁ := C10_main_threads h₁ hcpu₁
  have ht₂ : 0 < pb₂.threads := C10_main_threads h₂ (by simpa using hcpu₂)
  refine ⟨ps, cs, amb, hd₁, by rw [← hdata]; exact hd₁, hrooms.symm, ?_⟩
  intro hv hnf R top htop
  letI := solverOf (CD.toInstR ps cs pb₁.rooms) R
  intro c₁ c₂ hr₁ hdn₁ hr₂ hdn₂
  have hP : (CD.toInstR ps cs pb₁.rooms).P = ps.length := CD.toInstR_P ps cs pb₁.rooms
  obtain ⟨hv1, hv2⟩ := C03_caobab (CD.toInstR ps cs pb₁.rooms) R hv hnf top pb₁.threads pb₂.threads ht₁ ht₂
    (by rw [hP]; exact htop) c₁ c₂ hr₁ hdn₁ hr₂ hdn₂
  refine ⟨hv1, hv2, ?_⟩
  have m₁ := C10_main h₁ (fun _ => c₁.best.isSome)
  have m₂ := C10_main h₂ (fun _ => c₂.best.isSome)
  rcases Option.eq_none_or_eq_some c₁.best with hb | ⟨al, hb⟩
  · have hb2 := hv1.1 hb
    rw [(m₁.2 (by simp [hb])).1, (m₂.2 (by simp [hb2])).1]
  · have hb2 : c₂.best ≠ none := fun hn => by rw [hv1.2 hn] at hb; cases hb
    obtain ⟨al2, hb2'⟩ := Option.ne_none_iff_exists'.1 hb2
    rw [(m₁.1 (by simp [hb])).1, (m₂.1 (by simp [hb2'])).1]

end Props
