import Cdecao.Props.C01Cde
import Cdecao.Props.C04
import Cdecao.Props.C05
import Cdecao.Props.C11
import Cdecao.Proofs.NodeSpecAsm
/-! # C05 / C11 end to end on the CdE path: reader ∘ search ∘ writer

The pieces composed here:
* `C01_C08_cde` (Props/C01Cde.lean): whatever the reader model `CD.read` accepts, the incumbent of
  the parallel search (engine model on the caobab node solver, any thread count, any schedule)
  satisfies the hard constraints of the problem that was read, `CD.toInstR parts courses rooms`;
* `C05_consistent` / `C11_consistent` (Props/C05.lean, Props/C11.lean): for ANY assignment list
  satisfying the hard constraints of `CD.toInst parts courses`, the objects `CD.writeRegs` /
  `CD.writeCourses` of the import file are consistent with the export;
* `C10_cde`: no node of the search tree makes the node solver panic;
* `C04_caobab_terminates` / `C04_terminates_done` (Props/C04.lean): the search terminates.

Sections:
 1. the two conversions `CD.toInstR` (with a room list) and `CD.toInst` (without) denote the same
    problem as far as the specification is concerned: `toInstR parts courses none = toInst parts
    courses` by `rfl`, and `HardOK`, `takesPlace`, `attendees`, `scoreOf` do not read the `rooms`
    field;
 2. the conclusions of `C05_consistent` / `C11_consistent` as predicates `C05Clauses` / `C11Clauses`
    (definitionally the conclusions: `C05_consistent_clauses` / `C11_consistent_clauses` have
    `C05_consistent` / `C11_consistent` themselves as proof terms);
 3. `cde_incumbent`: the incumbent as the writer sees it (a list of the right length whose
    `getD`-function satisfies `HardOK (toInst parts courses)`);
 4. `C05_end_to_end`, `C11_end_to_end`;
 5. `cde_finished_done`, `C05_total_end_to_end`, `C05_total_from_start`: the search terminates, all
    workers return normally, and what is written is consistent; a concrete run on `CD.Ex`.

Hypotheses that remain, and why:
* `ChoiceLen data amb` — the `hlen` of `C01_C08_cde`: no registration lists more than
  `N2.WEIGHT + 1 = 50001` choices in the selected track. The reader does not check this (neither
  does io::cdedb::read), so it cannot be discharged from `CD.read … = .ok …`; it keeps the penalties
  below the weight offset.
* `NodupKeys data` — the keys of the `courses` object are distinct as parsed numbers. Not derivable
  in the model (`J.obj` is an arbitrary association list; `"7"` and `"07"` parse alike); see
  Props/C05.lean. `C05_end_to_end_anyKeys` is the composition without it. -/
set_option linter.style.haveILetI false
namespace Props
open CD N2

/-! ## 1. `toInstR` against `toInst`: the `rooms` field is not read by the specification -/

/-- without a room list the two conversions are the same instance (definitionally) -/
theorem toInstR_none (parts : List CD.Part) (courses : List CD.Course) :
    toInstR parts courses none = toInst parts courses := rfl

/-- with a room list they differ in the `rooms` field only -/
theorem toInstR_eq (parts : List CD.Part) (courses : List CD.Course) (rooms : Option (List Nat)) :
    toInstR parts courses rooms = { toInst parts courses with rooms := rooms } := rfl

theorem toInstR_cs (parts : List CD.Part) (courses : List CD.Course) (rooms : Option (List Nat)) :
    (toInstR parts courses rooms).cs = (toInst parts courses).cs := rfl

theorem toInstR_ps (parts : List CD.Part) (courses : List CD.Course) (rooms : Option (List Nat)) :
    (toInstR parts courses rooms).ps = (toInst parts courses).ps := rfl

/-- `takesPlace` does not read the `rooms` field (for every instance, not only the reader's) -/
theorem takesPlace_rooms (cs : List N2.Course) (ps : List N2.Part) (r r' : Option (List Nat))
    (a : Nat → Option Nat) (c : Nat) :
    G.takesPlace ⟨cs, ps, r⟩ a c ↔ G.takesPlace ⟨cs, ps, r'⟩ a c := Iff.rfl

/-- `attendees` does not read the `rooms` field -/
theorem attendees_rooms (cs : List N2.Course) (ps : List N2.Part) (r r' : Option (List Nat))
    (a : Nat → Option Nat) (c : Nat) :
    G.attendees ⟨cs, ps, r⟩ a c = G.attendees ⟨cs, ps, r'⟩ a c := rfl

/-- the documented score does not read the `rooms` field -/
theorem scoreOf_rooms (cs : List N2.Course) (ps : List N2.Part) (r r' : Option (List Nat))
    (a : Nat → Option Nat) :
    G.scoreOf ⟨cs, ps, r⟩ a = G.scoreOf ⟨cs, ps, r'⟩ a := rfl

/-- `HardOK` does not read the `rooms` field -/
theorem hardOK_rooms (cs : List N2.Course) (ps : List N2.Part) (r r' : Option (List Nat))
    (a : Nat → Option Nat) :
    G.HardOK ⟨cs, ps, r⟩ a ↔ G.HardOK ⟨cs, ps, r'⟩ a :=
  ⟨fun h => ⟨h.range, h.instr, h.min, h.max, h.chosen, h.only⟩,
   fun h => ⟨h.range, h.instr, h.min, h.max, h.chosen, h.only⟩⟩

/-- for every room list: the hard constraints of the solver's instance `toInstR parts courses rooms`
    are those of the writer theorems' instance `toInst parts courses` -/
theorem hardOK_toInstR_iff (parts : List CD.Part) (courses : List CD.Course)
    (rooms : Option (List Nat)) (a : Nat → Option Nat) :
    G.HardOK (toInstR parts courses rooms) a ↔ G.HardOK (toInst parts courses) a :=
  hardOK_rooms _ _ rooms none a

theorem takesPlace_toInstR_iff (parts : List CD.Part) (courses : List CD.Course)
    (rooms : Option (List Nat)) (a : Nat → Option Nat) (c : Nat) :
    G.takesPlace (toInstR parts courses rooms) a c ↔ G.takesPlace (toInst parts courses) a c :=
  Iff.rfl

theorem attendees_toInstR (parts : List CD.Part) (courses : List CD.Course)
    (rooms : Option (List Nat)) (a : Nat → Option Nat) (c : Nat) :
    G.attendees (toInstR parts courses rooms) a c = G.attendees (toInst parts courses) a c := rfl

theorem scoreOf_toInstR (parts : List CD.Part) (courses : List CD.Course)
    (rooms : Option (List Nat)) (a : Nat → Option Nat) :
    G.scoreOf (toInstR parts courses rooms) a = G.scoreOf (toInst parts courses) a := rfl

theorem toInstR_P_eq (parts : List CD.Part) (courses : List CD.Course) (rooms : Option (List Nat)) :
    (toInstR parts courses rooms).P = (toInst parts courses).P := rfl

theorem toInstR_C_eq (parts : List CD.Part) (courses : List CD.Course) (rooms : Option (List Nat)) :
    (toInstR parts courses rooms).C = (toInst parts courses).C := rfl

/-! ## 2. the conclusions of `C05_consistent` and `C11_consistent` as predicates -/

/-- the `hlen` of `C01_C08_cde` / `C10_cde`: in the `registrations` object of the export no
    registration lists more than `N2.WEIGHT + 1 = 50001` choices in the track `amb.trackId` -/
def ChoiceLen (data : JS.J) (amb : Ambience) : Prop :=
  ∀ rdata, (data.get "registrations").bind JS.J.asObject = some rdata →
    ∀ kv ∈ rdata, ∀ chs, regChoices kv.2 amb.trackId = some chs → chs.length ≤ N2.WEIGHT + 1

open N2.G in
/-- the conclusion of `C05_consistent`, verbatim: the registrations / courses objects written from
    the assignment list `al` are consistent with the export `data` (shape, (a)–(e); see the doc
    comment of `C05_consistent`) -/
def C05Clauses (data : JS.J) (o : Opts) (parts : List CD.Part) (courses : List CD.Course)
    (amb : Ambience) (al : List (Option Nat)) : Prop :=
  ∃ partId trackId cdata rdata, Selected data o amb partId trackId cdata rdata ∧
    -- shape of the registration entries
    (∀ rid cid, (rid, cid) ∈ writeRegs parts courses al ↔
      ∃ (p : Nat) (pp : CD.Part) (c : Nat), parts[p]? = some pp ∧ al[p]? = some (some c) ∧
        rid = pp.dbid ∧ cid = (courses.getD c default).dbid) ∧
    -- (a), (b), (c)
    (∀ rid cid, (rid, cid) ∈ writeRegs parts courses al →
      ∃ rkv ∈ rdata, ∃ ckv ∈ cdata,
        RegNamed o partId trackId cdata rkv rid ∧ CourseNamed o trackId ckv cid ∧
        (cid, true) ∈ writeCourses courses al ∧ ChoseOrInstructs trackId rkv.2 cid) ∧
    -- (d)
    (∀ c cid b, (writeCourses courses al)[c]? = some (cid, b) →
      ∃ ckv ∈ cdata, CourseNamed o trackId ckv cid ∧
        (b = true ↔ takesPlace (toInst parts courses) (fun p => al.getD p none) c) ∧
        (b = true → courseMinSize ckv.2 ≤
          attendees (toInst parts courses) (fun p => al.getD p none) c +
            ignoredCount o partId trackId rdata cid false) ∧
        (attendees (toInst parts courses) (fun p => al.getD p none) c = 0 ∨
          attendees (toInst parts courses) (fun p => al.getD p none) c +
            ignoredCount o partId trackId rdata cid false ≤ courseMaxSize ckv.2)) ∧
    -- (e)
    (∀ cid, (cid, false) ∈ writeCourses courses al →
      ∀ rid, (rid, cid) ∉ writeRegs parts courses al)

open N2.G in
/-- the conclusion of `C05_consistent_anyKeys`, verbatim ((a)–(d) without key distinctness) -/
def C05ClausesAnyKeys (data : JS.J) (o : Opts) (parts : List CD.Part) (courses : List CD.Course)
    (amb : Ambience) (al : List (Option Nat)) : Prop :=
  ∃ partId trackId cdata rdata co, Selected data o amb partId trackId cdata rdata ∧
    readCourses cdata trackId o = .ok co ∧
    (∀ rid cid, (rid, cid) ∈ writeRegs parts courses al →
      ∃ rkv ∈ rdata, ∃ ckv ∈ cdata,
        RegNamed o partId trackId cdata rkv rid ∧ CourseNamed o trackId ckv cid ∧
        (cid, true) ∈ writeCourses courses al ∧ ChoseOrInstructs trackId rkv.2 cid) ∧
    (∀ c cid b, (writeCourses courses al)[c]? = some (cid, b) →
      ∃ ckv ∈ cdata, CourseNamed o trackId ckv cid ∧
        (b = true ↔ takesPlace (toInst parts courses) (fun p => al.getD p none) c) ∧
        (b = true → courseMinSize ckv.2 ≤
          attendees (toInst parts courses) (fun p => al.getD p none) c +
            invCount o partId trackId co rdata c false) ∧
        (attendees (toInst parts courses) (fun p => al.getD p none) c = 0 ∨
          attendees (toInst parts courses) (fun p => al.getD p none) c +
            invCount o partId trackId co rdata c false ≤ courseMaxSize ckv.2))

open N2.G in
/-- the conclusion of `C11_consistent`, verbatim: ignored registrations are never named, their
    places are reserved, courses with ignored people are fixed and written as taking place, ignored
    cancelled courses appear nowhere in the import file (see the doc comment of `C11_consistent`) -/
def C11Clauses (data : JS.J) (o : Opts) (parts : List CD.Part) (courses : List CD.Course)
    (amb : Ambience) (al : List (Option Nat)) : Prop :=
  ∃ partId trackId cdata rdata, Selected data o amb partId trackId cdata rdata ∧
    -- (a)
    (∀ rid cid, (rid, cid) ∈ writeRegs parts courses al →
      ∃ rkv ∈ rdata, RegNamed o partId trackId cdata rkv rid ∧
        (o.ignoreAssigned = true → ∀ cid' b, (cid', b) ∈ writeCourses courses al →
          regCourseId rkv.2 trackId ≠ some cid')) ∧
    -- (f) fixed, (d) sizes
    (∀ c cid b, (writeCourses courses al)[c]? = some (cid, b) →
      ∃ ckv ∈ cdata, CourseNamed o trackId ckv cid ∧
        (ignoredCount o partId trackId rdata cid true +
            ignoredCount o partId trackId rdata cid false ≠ 0 →
          ((toInst parts courses).course c).fixed = true ∧
          takesPlace (toInst parts courses) (fun p => al.getD p none) c ∧ b = true) ∧
        (b = true → courseMinSize ckv.2 ≤
          attendees (toInst parts courses) (fun p => al.getD p none) c +
            ignoredCount o partId trackId rdata cid false) ∧
        (attendees (toInst parts courses) (fun p => al.getD p none) c = 0 ∨
          attendees (toInst parts courses) (fun p => al.getD p none) c +
            ignoredCount o partId trackId rdata cid false ≤ courseMaxSize ckv.2)) ∧
    -- (f) cancelled courses
    (o.ignoreCancelled = true → ∀ ckv ∈ cdata, courseSegment ckv.2 trackId = some false →
      ∀ cid, JS.parseNat ckv.1 = some cid →
        (∀ b, (cid, b) ∉ writeCourses courses al) ∧
        (∀ rid, (rid, cid) ∉ writeRegs parts courses al))

/-- `C05_consistent` with its conclusion folded into `C05Clauses` (the two are definitionally the
    same proposition: the proof term is `C05_consistent` itself) -/
theorem C05_consistent_clauses (data : JS.J) (o : Opts) (parts : List CD.Part)
    (courses : List CD.Course) (amb : Ambience) (al : List (Option Nat))
    (hread : CD.read data o = .ok (parts, courses, amb)) (hlen : al.length = parts.length)
    (hok : G.HardOK (toInst parts courses) (fun p => al.getD p none)) (hkeys : NodupKeys data) :
    C05Clauses data o parts courses amb al :=
  C05_consistent data o parts courses amb al hread hlen hok hkeys

theorem C05_consistent_anyKeys_clauses (data : JS.J) (o : Opts) (parts : List CD.Part)
    (courses : List CD.Course) (amb : Ambience) (al : List (Option Nat))
    (hread : CD.read data o = .ok (parts, courses, amb)) (hlen : al.length = parts.length)
    (hok : G.HardOK (toInst parts courses) (fun p => al.getD p none)) :
    C05ClausesAnyKeys data o parts courses amb al :=
  C05_consistent_anyKeys data o parts courses amb al hread hlen hok

/-- `C11_consistent` with its conclusion folded into `C11Clauses` -/
theorem C11_consistent_clauses (data : JS.J) (o : Opts) (parts : List CD.Part)
    (courses : List CD.Course) (amb : Ambience) (al : List (Option Nat))
    (hread : CD.read data o = .ok (parts, courses, amb)) (hlen : al.length = parts.length)
    (hok : G.HardOK (toInst parts courses) (fun p => al.getD p none)) (hkeys : NodupKeys data) :
    C11Clauses data o parts courses amb al :=
  C11_consistent data o parts courses amb al hread hlen hok hkeys

/-! ## 3. the incumbent of the search, as the writer sees it -/

/-- the list the search reports denotes, through `getD`, the assignment function it was built
    from, below the number of participants -/
theorem getD_range_map (P : Nat) (a : Nat → Option Nat) (p : Nat) (hp : p < P) :
    ((List.range P).map a).getD p none = a p :=
  N2.semOf_map P a p hp

/-- For every export `data` and options `o` the reader accepts (with result `parts`, `courses`,
    `amb`) under the bound `ChoiceLen` on choice lists, every room list `rooms`, float behaviour
    `R`, initial bound `top`, thread count `T`, every configuration `c` the engine reaches on the
    caobab node solver (every schedule) and every incumbent `al` of `c`: `al` has one entry per
    participant, the assignment `p ↦ al.getD p none` that the writer theorems speak about satisfies
    the hard constraints of `toInst parts courses`, and the stored score is its documented score.
    These are exactly the hypotheses `hlen`, `hok` of `C05_consistent` / `C11_consistent`. -/
theorem cde_incumbent {data : JS.J} {o : Opts} {parts : List CD.Part} {courses : List CD.Course}
    {amb : Ambience} (h : CD.read data o = .ok (parts, courses, amb)) (hlen : ChoiceLen data amb)
    (rooms : Option (List Nat)) (R : RoomFns) (top T : Nat) :
    letI := solverOf (toInstR parts courses rooms) R
    ∀ c : Eng3.Cfg Node (List (Option Nat)),
      Eng3.Reach rootNode top T c → ∀ al, c.best = some al →
      al.length = parts.length ∧
      G.HardOK (toInst parts courses) (fun p => al.getD p none) ∧
      c.bestScore = G.scoreOf (toInst parts courses) (fun p => al.getD p none) := by
  letI := solverOf (toInstR parts courses rooms) R
  intro c hr al hal
  obtain ⟨a, hal', hhard, hsc⟩ := C01_C08_cde h rooms R hlen top T c hr al hal
  have hP : (toInstR parts courses rooms).P = parts.length := toInstR_P parts courses rooms
  have hag : ∀ p, p < (toInst parts courses).P → a p = al.getD p none := by
    intro p hp
    rw [hal']
    exact (getD_range_map (toInstR parts courses rooms).P a p hp).symm
  refine ⟨?_, ?_, ?_⟩
  · rw [hal', List.length_map, List.length_range, hP]
  · exact N2.hardOK_congr (toInst parts courses) a _ hag
      ((hardOK_toInstR_iff parts courses rooms a).1 hhard)
  · rw [hsc, scoreOf_toInstR parts courses rooms a]
    exact N2.scoreOf_congr (toInst parts courses) a _ hag

/-! ## 4. reader ∘ search ∘ writer -/

/-- **C05 end to end.** Quantified: every export value `data` and options `o` on which the reader
    model succeeds with `(parts, courses, amb)`; the bound `ChoiceLen` on the choice lists and
    distinct course keys `NodupKeys` (the two hypotheses the reader's acceptance does not give);
    every room list `rooms`, float behaviour `R`, initial bound `top`, thread count `T`; every
    configuration `c` reachable in the engine model on the caobab node solver for the problem that
    was read (= every schedule, at every moment, finished or not); every incumbent `al` of `c`.
    Then the registrations / courses objects `writeRegs parts courses al` / `writeCourses courses al`
    of the import file satisfy all clauses of `C05_consistent` against the export: shape, (a)–(e). -/
theorem C05_end_to_end {data : JS.J} {o : Opts} {parts : List CD.Part} {courses : List CD.Course}
    {amb : Ambience} (h : CD.read data o = .ok (parts, courses, amb)) (hlen : ChoiceLen data amb)
    (hkeys : NodupKeys data) (rooms : Option (List Nat)) (R : RoomFns) (top T : Nat) :
    letI := solverOf (toInstR parts courses rooms) R
    ∀ c : Eng3.Cfg Node (List (Option Nat)),
      Eng3.Reach rootNode top T c → ∀ al, c.best = some al →
      C05Clauses data o parts courses amb al := by
  letI := solverOf (toInstR parts courses rooms) R
  intro c hr al hal
  obtain ⟨hl, hok, _⟩ := cde_incumbent h hlen rooms R top T c hr al hal
  exact C05_consistent data o parts courses amb al h hl hok hkeys

/-- **C05 end to end without key distinctness**: the same composition with
    `C05_consistent_anyKeys` — clauses (a)–(d), the ignored attendees counted through the reader's
    course table; no hypothesis on the keys of the `courses` object. -/
theorem C05_end_to_end_anyKeys {data : JS.J} {o : Opts} {parts : List CD.Part}
    {courses : List CD.Course} {amb : Ambience} (h : CD.read data o = .ok (parts, courses, amb))
    (hlen : ChoiceLen data amb) (rooms : Option (List Nat)) (R : RoomFns) (top T : Nat) :
    letI := solverOf (toInstR parts courses rooms) R
    ∀ c : Eng3.Cfg Node (List (Option Nat)),
      Eng3.Reach rootNode top T c → ∀ al, c.best = some al →
      C05ClausesAnyKeys data o parts courses amb al := by
  letI := solverOf (toInstR parts courses rooms) R
  intro c hr al hal
  obtain ⟨hl, hok, _⟩ := cde_incumbent h hlen rooms R top T c hr al hal
  exact C05_consistent_anyKeys data o parts courses amb al h hl hok

/-- **C11 end to end.** Quantified exactly as `C05_end_to_end`. Then the import file written from
    the incumbent satisfies all clauses of `C11_consistent`: an ignored registration is never named;
    a course with ignored pre-assigned people is fixed, takes place and is written as taking place;
    the places of ignored attendees are reserved in `min_size` / `max_size`; with
    `--ignore-cancelled` a cancelled course appears nowhere in the file. -/
theorem C11_end_to_end {data : JS.J} {o : Opts} {parts : List CD.Part} {courses : List CD.Course}
    {amb : Ambience} (h : CD.read data o = .ok (parts, courses, amb)) (hlen : ChoiceLen data amb)
    (hkeys : NodupKeys data) (rooms : Option (List Nat)) (R : RoomFns) (top T : Nat) :
    letI := solverOf (toInstR parts courses rooms) R
    ∀ c : Eng3.Cfg Node (List (Option Nat)),
      Eng3.Reach rootNode top T c → ∀ al, c.best = some al →
      C11Clauses data o parts courses amb al := by
  letI := solverOf (toInstR parts courses rooms) R
  intro c hr al hal
  obtain ⟨hl, hok, _⟩ := cde_incumbent h hlen rooms R top T c hr al hal
  exact C11_consistent data o parts courses amb al h hl hok hkeys

/-! ### the hypotheses on the export hold on a concrete one (`CD.Ex`, see Props/C05.lean) -/

/-- `ChoiceLen` on the example export: the four registrations list 2, 1, 1, 0 choices -/
theorem Ex_choiceLen : ChoiceLen Ex.doc Ex.amb := by
  intro rdata hrd kv hkv chs hchs
  have e : (Ex.doc.get "registrations").bind JS.J.asObject = some Ex.rdata := rfl
  rw [e] at hrd
  cases hrd
  simp only [Ex.rdata, List.mem_cons, List.not_mem_nil, or_false] at hkv
  have hw : ∀ n, n ≤ 2 → n ≤ N2.WEIGHT + 1 := fun n hn => Nat.le_trans hn (by decide)
  rcases hkv with rfl | rfl | rfl | rfl <;>
    · cases hchs
      exact hw _ (by decide)

/-- the hypotheses of `C05_end_to_end` / `C11_end_to_end` on the export are satisfiable: on `CD.Ex`
    (track 3, `--ignore-cancelled`, `--ignore-assigned`) the reader succeeds, the choice lists are
    short and the course keys distinct — so for every room list, float behaviour, thread count and
    schedule the file written from any incumbent is consistent with `Ex.doc` -/
example := C05_end_to_end Ex.read_eq Ex_choiceLen Ex.nodupKeys
example := C11_end_to_end Ex.read_eq Ex_choiceLen Ex.nodupKeys

/-! ## 5. the program terminates and what it writes is consistent

`Eng3.Run c evs c'`: the event list `evs` (one event = one atomic step of one worker thread, or a
`wake` = `notify_one` / spurious wake-up) drives the engine from `c` to `c'`; `Reach` = reachable by
some run from `Eng3.init rootNode top T` (`C04_run_bound_reach`). `AllFinished`: every worker has
stopped (returned or died); `AllDone`: every worker has returned; `outcome pcs = some false`: the
join loop of `solve` passes every worker, i.e. `solve` returns normally. `c.best` in such a
configuration is what `solve` returns, and `writeRegs parts courses al` / `writeCourses courses al`
for `c.best = some al` is what the program then writes (for `c.best = none` it writes no file). -/
open Eng3

/-- what the program writes from the result `best` of the search is consistent with the export:
    either nothing is written, or the file written from the reported list satisfies all clauses of
    `C05_consistent` and of `C11_consistent` -/
def WrittenConsistent (data : JS.J) (o : Opts) (parts : List CD.Part) (courses : List CD.Course)
    (amb : Ambience) (best : Option (List (Option Nat))) : Prop :=
  best = none ∨ ∃ al, best = some al ∧
    C05Clauses data o parts courses amb al ∧ C11Clauses data o parts courses amb al

/-- `C05_end_to_end` and `C11_end_to_end` together, as a statement about `c.best`: quantified as
    `C05_end_to_end`, for every reachable configuration `c` -/
theorem written_consistent {data : JS.J} {o : Opts} {parts : List CD.Part}
    {courses : List CD.Course} {amb : Ambience} (h : CD.read data o = .ok (parts, courses, amb))
    (hlen : ChoiceLen data amb) (hkeys : NodupKeys data) (rooms : Option (List Nat)) (R : RoomFns)
    (top T : Nat) :
    letI := solverOf (toInstR parts courses rooms) R
    ∀ c : Cfg Node (List (Option Nat)), Reach rootNode top T c →
      WrittenConsistent data o parts courses amb c.best := by
  letI := solverOf (toInstR parts courses rooms) R
  intro c hr
  cases hb : c.best with
  | none => exact Or.inl rfl
  | some al =>
    exact Or.inr ⟨al, rfl, C05_end_to_end h hlen hkeys rooms R top T c hr al hb,
      C11_end_to_end h hlen hkeys rooms R top T c hr al hb⟩

/-- `C10_cde` in the form the termination theorems take: on the CdE path no node of the search tree
    has the verdict `panic` -/
theorem cde_no_panic {data : JS.J} {o : Opts} {parts : List CD.Part} {courses : List CD.Course}
    {amb : Ambience} (h : CD.read data o = .ok (parts, courses, amb)) (hlen : ChoiceLen data amb)
    (rooms : Option (List Nat)) (R : RoomFns) :
    letI := solverOf (toInstR parts courses rooms) R
    ∀ n : Node, Desc n rootNode →
      isPanic (Solver.res n : Res (List (Option Nat))) = false := by
  letI := solverOf (toInstR parts courses rooms) R
  intro n hd
  have hne := C10_cde h rooms R hlen n hd
  cases hres : (Solver.res n : Res (List (Option Nat))) with
  | panic => exact absurd hres hne
  | noSol => rfl
  | infeasible sc => rfl
  | feasible sol sc => rfl

/-- **a finished search on the CdE path has ended normally and what is written is consistent.**
    Quantified: every export the reader accepts (with `ChoiceLen`, `NodupKeys`), every room list,
    float behaviour, initial bound, thread count; every reachable configuration `c` in which every
    worker has stopped (`AllFinished`: returned or died). Then in fact no worker died (`AllDone`;
    by `C10_cde` no node panics), `solve` returns normally (`outcome = some false`), the queue is
    empty and nobody is busy, and either the search reports nothing or the file written from the
    reported list satisfies the clauses of C05 and C11. -/
theorem cde_finished_done {data : JS.J} {o : Opts} {parts : List CD.Part}
    {courses : List CD.Course} {amb : Ambience} (h : CD.read data o = .ok (parts, courses, amb))
    (hlen : ChoiceLen data amb) (hkeys : NodupKeys data) (rooms : Option (List Nat)) (R : RoomFns)
    (top T : Nat) :
    letI := solverOf (toInstR parts courses rooms) R
    ∀ c : Cfg Node (List (Option Nat)), Reach rootNode top T c → AllFinished c →
      AllDone c ∧ outcome c.pcs = some false ∧
      WrittenConsistent data o parts courses amb c.best := by
  letI := solverOf (toInstR parts courses rooms) R
  intro c hr hf
  have hd : AllDone c := by
    intro t pc hpc
    rcases hf t pc hpc with e | e
    · exact e
    · have := no_panic_no_gone (cde_no_panic h hlen rooms R) hr t pc hpc
      rw [e] at this
      cases this
  exact ⟨hd, (outcome_false_iff_allDone c).2 hd, written_consistent h hlen hkeys rooms R top T c hr⟩

/-- **C05 total, end to end: the program terminates and what it writes is consistent.**
    Quantified: every export `data` / options `o` the reader accepts (result `parts`, `courses`,
    `amb`; hypotheses `ChoiceLen`, `NodupKeys`), every room list `rooms`, float behaviour `R`,
    initial bound `top`, thread count `T ≥ 1`; every configuration `c` reached from the start by a
    history `evs0` with at most `s` `wake` events (`notify_one` or spurious); every continuation
    `evs` of `c` without `wake` events — whatever the scheduler has done so far. Then the
    continuation can be extended, without `wake` events, to a configuration `c''` in which every
    worker has returned normally, the whole within `5 * treeSize + 3T + 3(T² + s)` steps (so no
    scheduler choice among the non-wake events avoids termination); `solve` returns normally; and
    either it reports nothing or the file written from what it reports satisfies all clauses of
    `C05_consistent` and `C11_consistent` against the export. -/
theorem C05_total_end_to_end {data : JS.J} {o : Opts} {parts : List CD.Part}
    {courses : List CD.Course} {amb : Ambience} (h : CD.read data o = .ok (parts, courses, amb))
    (hlen : ChoiceLen data amb) (hkeys : NodupKeys data) (rooms : Option (List Nat)) (R : RoomFns)
    {top T s : Nat} (hT : 0 < T) :
    letI := solverOf (toInstR parts courses rooms) R
    ∀ {c : Cfg Node (List (Option Nat))} {evs0 : List Ev},
      Run (init rootNode top T) evs0 c → wakeEvents evs0 ≤ s →
      ∀ (evs : List Ev) (c' : Cfg Node (List (Option Nat))), Run c evs c' →
        (∀ ev ∈ evs, ev.isWake = false) →
        ∃ (evs' : List Ev) (c'' : Cfg Node (List (Option Nat))), Run c' evs' c'' ∧
          (∀ ev ∈ evs', ev.isWake = false) ∧ AllDone c'' ∧
          evs.length + evs'.length ≤
            5 * treeSize (toInstR parts courses rooms) R rootNode + 3 * T + 3 * (T * T + s) ∧
          outcome c''.pcs = some false ∧
          WrittenConsistent data o parts courses amb c''.best := by
  letI := solverOf (toInstR parts courses rooms) R
  intro c evs0 h0 hs evs c' hrun hwf
  obtain ⟨evs', c'', h', hwf', hd, hle, hout⟩ :=
    C04_terminates_done (fun n : Node => 5 * treeSize (toInstR parts courses rooms) R n)
      (caobab_budget_treeSize (toInstR parts courses rooms) R) hT h0 hs
      (cde_no_panic h hlen rooms R) evs c' hrun hwf
  have hr'' : Reach rootNode top T c'' := reach_iff_run.2 ⟨_, (h0.append hrun).append h'⟩
  exact ⟨evs', c'', h', hwf', hd, hle, hout, written_consistent h hlen hkeys rooms R top T c'' hr''⟩

/-- **from the start**: the special case `c = init`, empty history, empty continuation. Quantified:
    every accepted export (with `ChoiceLen`, `NodupKeys`), room list, float behaviour, initial
    bound, thread count `T ≥ 1`. There IS a run of the program from its initial configuration, of
    at most `5 * treeSize + 3T + 3T²` steps, to a configuration in which every worker has returned
    normally and `solve` returns normally; there the program writes nothing or a file that
    satisfies all clauses of C05 and C11. (That every other finished configuration is as good is
    `cde_finished_done`; that every wake-free schedule ends up in one is `C05_total_end_to_end`.) -/
theorem C05_total_from_start {data : JS.J} {o : Opts} {parts : List CD.Part}
    {courses : List CD.Course} {amb : Ambience} (h : CD.read data o = .ok (parts, courses, amb))
    (hlen : ChoiceLen data amb) (hkeys : NodupKeys data) (rooms : Option (List Nat)) (R : RoomFns)
    (top : Nat) {T : Nat} (hT : 0 < T) :
    letI := solverOf (toInstR parts courses rooms) R
    ∃ (evs : List Ev) (c : Cfg Node (List (Option Nat))), Run (init rootNode top T) evs c ∧
      (∀ ev ∈ evs, ev.isWake = false) ∧ AllFinished c ∧ AllDone c ∧
      evs.length ≤ 5 * treeSize (toInstR parts courses rooms) R rootNode + 3 * T + 3 * (T * T) ∧
      outcome c.pcs = some false ∧ WrittenConsistent data o parts courses amb c.best := by
  letI := solverOf (toInstR parts courses rooms) R
  obtain ⟨evs', c'', h', hwf', hd, hle, hout, hw⟩ :=
    C05_total_end_to_end h hlen hkeys rooms R (top := top) (s := 0) hT
      (Run.nil (init rootNode top T)) (Nat.le_refl 0) [] _ (Run.nil _) (fun _ hm => by cases hm)
  refine ⟨evs', c'', h', hwf', ?_, hd, ?_, hout, hw⟩
  · intro t pc hpc
    exact Or.inl (hd t pc hpc)
  · simpa using hle

/-- the hypotheses of the termination theorems hold on `CD.Ex` with two threads, for every room
    list and float behaviour -/
example (rooms : Option (List Nat)) (R : RoomFns) :=
  C05_total_from_start Ex.read_eq Ex_choiceLen Ex.nodupKeys rooms R 0 (T := 2) (by decide)
example (rooms : Option (List Nat)) (R : RoomFns) :=
  @C05_total_end_to_end _ _ _ _ _ Ex.read_eq Ex_choiceLen Ex.nodupKeys rooms R 0 2 0 (by decide)
example (rooms : Option (List Nat)) (R : RoomFns) :=
  cde_finished_done Ex.read_eq Ex_choiceLen Ex.nodupKeys rooms R 0 2

/-! ### all hypotheses at once on `CD.Ex`: a concrete run with an incumbent

One thread, no room list, initial bound 100000. The root node of the problem read from `Ex.doc` is
feasible (`runNodeS … rootNode = .ok (.feasible [some 0, some 0] 49999)`: participant 0 gets its
second choice, weight `50000 - 1`; participant 1 instructs course 0 and has no choices, weight 0),
so the run lock – pop – solve – lock/apply – finish ends with `best = some Ex.al`. -/

/-- the final configuration of the one-thread run on `CD.Ex` -/
def exFinal : Cfg Node (List (Option Nat)) :=
  { pending := [], busy := 0, best := some Ex.al, bestScore := 49999, lock := none, pcs := [.done] }

set_option maxRecDepth 1000000 in
/-- the run (every `step?` is evaluated by the kernel, the node solver included) -/
theorem exRun (R : RoomFns) :
    letI := solverOf (toInstR Ex.parts Ex.courses none) R
    Run (init rootNode 100000 1) [.acquire 0, .top 0 0, .solve 0, .acquire 0, .after 0] exFinal := by
  letI := solverOf (toInstR Ex.parts Ex.courses none) R
  iterate 5 refine Run.cons rfl ?_
  exact Run.nil _

/-- non-vacuity of `C05_end_to_end` / `C11_end_to_end` / `cde_finished_done` including the
    hypotheses `Reach …` and `c.best = some al`: on `CD.Ex` the configuration `exFinal` is reachable,
    finished, and its incumbent is `Ex.al`; the theorems give the clauses for the file written from
    `Ex.al`, and the stored score is the documented one -/
example (R : RoomFns) :
    C05Clauses Ex.doc Ex.opts Ex.parts Ex.courses Ex.amb Ex.al ∧
    C11Clauses Ex.doc Ex.opts Ex.parts Ex.courses Ex.amb Ex.al ∧
    G.scoreOf (toInst Ex.parts Ex.courses) (fun p => Ex.al.getD p none) = 49999 := by
  letI := solverOf (toInstR Ex.parts Ex.courses none) R
  have hr : Reach rootNode 100000 1 exFinal := reach_iff_run.2 ⟨_, exRun R⟩
  exact ⟨C05_end_to_end Ex.read_eq Ex_choiceLen Ex.nodupKeys none R 100000 1 exFinal hr Ex.al rfl,
    C11_end_to_end Ex.read_eq Ex_choiceLen Ex.nodupKeys none R 100000 1 exFinal hr Ex.al rfl,
    ((cde_incumbent Ex.read_eq Ex_choiceLen none R 100000 1 exFinal hr Ex.al rfl).2.2).symm⟩

example (R : RoomFns) :
    letI := solverOf (toInstR Ex.parts Ex.courses none) R
    AllFinished exFinal ∧ Reach rootNode 100000 1 exFinal := by
  letI := solverOf (toInstR Ex.parts Ex.courses none) R
  refine ⟨?_, reach_iff_run.2 ⟨_, exRun R⟩⟩
  intro t pc hpc
  match t, hpc with
  | 0, hpc => exact Or.inl (Option.some.inj hpc).symm

end Props

#print axioms Props.hardOK_toInstR_iff
#print axioms Props.cde_incumbent
#print axioms Props.C05_end_to_end
#print axioms Props.C05_end_to_end_anyKeys
#print axioms Props.C11_end_to_end
#print axioms Props.written_consistent
#print axioms Props.cde_no_panic
#print axioms Props.cde_finished_done
#print axioms Props.C05_total_end_to_end
#print axioms Props.C05_total_from_start
