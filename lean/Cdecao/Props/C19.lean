import Cdecao.Engine.Core
import Cdecao.Engine.Term
/-! # C19 — a failing worker makes the search fail, not hang

The solver's verdict may be `Res.panic`. `acquire t` on such a verdict gives the busy count back
under the lock (`dying`), `die t` performs the `notify_all` and ends the thread (`dead`). -/
namespace Props
open Eng3
variable {ν σ : Type} [Solver ν σ]

/-- with failing subproblems anywhere in the tree, for every `T ≥ 1` and every schedule: as long as
    some worker is neither `done` nor `dead`, some non-wake step is enabled (nobody waits forever) -/
theorem C19_no_hang {root : ν} {top T : Nat} {c : Cfg ν σ} (hT : 0 < T)
    (hr : Reach root top T c) (hnd : ¬ AllFinished c) :
    ∃ ev, ev.isWake = false ∧ (step? c ev).isSome = true :=
  Eng3.C04_no_deadlock hT hr hnd

/-- and the work stays bounded (the potential argument covers `dying`/`die`) -/
theorem C19_bounded_work (W : ν → Nat) (hW : Budget W) {c c' : Cfg ν σ} {ev : Ev} (hs : step? c ev = some c') :
    Psi W c' + (if ev.isWake then 0 else 1) ≤ Psi W c + 3 * wakes c ev :=
  psi_step W hW hs

end Props
