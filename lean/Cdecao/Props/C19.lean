import Cdecao.Engine.Core
import Cdecao.Engine.Term
import Cdecao.Engine.Final
/-! # C19 — a failing worker makes the search fail, not hang

The solver's verdict may be `Res.panic`. `acquire t` on such a verdict gives the busy count back
under the lock (`dying`), `die t` performs the `notify_all` and ends the thread (`dead`). -/
namespace Props
open Eng3
variable {ν σ : Type} [Solver ν σ]

/-- with failing subproblems anywhere in the tree, for every `T ≥ 1` and every schedule: as long as
    some worker is neither `done` nor `dead`, some non-wake step is enabled (nobody waits forever) -/
theorem C19_no_hang {root : ν} {top T : Nat} {c : Cfg ν σ} (hT : 0 < T)
    (hr : Reach root top T c) (hnd : ¬ AllFinished c) :
    ∃ ev, ev.isWake = false ∧ (step? c ev).isSome = true :=
  Eng3.C04_no_deadlock hT hr hnd

/-- and the work stays bounded (the potential argument covers `dying`/`die`) -/
theorem C19_bounded_work (W : ν → Nat) (hW : Budget W) {c c' : Cfg ν σ} {ev : Ev} (hs : step? c ev = some c') :
    Psi W c' + (if ev.isWake then 0 else 1) ≤ Psi W c + 3 * wakes c ev :=
  psi_step W hW hs

/-- `dead` is absorbing -/
theorem C19_dead_absorbing {c c' : Cfg ν σ} {ev : Ev} (hs : step? c ev = some c') {t : Nat}
    (hp : c.pcs[t]? = some Pc.dead) : c'.pcs[t]? = some Pc.dead :=
  dead_absorbing hs hp

/-- the failure is reported: `outcome` models the join loop of `bab::solve`
    (`for worker in workers { worker.join().unwrap(); }`; `some true` = the `unwrap` panics,
    `some false` = `solve` returns, `none` = blocked in a `join`). If a worker is dead in a
    reachable configuration, then in every later configuration it is still dead, `solve` does not
    return normally, some non-wake step is enabled until every worker has stopped, and once every
    worker has stopped `solve` panics. -/
theorem C19_failure_reported {root : ν} {top T : Nat} {c c' : Cfg ν σ} {t : Nat} (hT : 0 < T)
    (hr : Reach root top T c) (hdead : c.pcs[t]? = some Pc.dead) (hs : Steps c c') :
    c'.pcs[t]? = some Pc.dead ∧
    outcome c'.pcs ≠ some false ∧
    (¬ AllFinished c' → ∃ ev, ev.isWake = false ∧ (step? c' ev).isSome = true) ∧
    (AllFinished c' → outcome c'.pcs = some true) :=
  failure_reported hT hr hdead hs

/-- a join loop that is blocked is blocked on a running worker, and the system can move -/
theorem C19_join_not_stuck {root : ν} {top T : Nat} {c : Cfg ν σ} (hT : 0 < T)
    (hr : Reach root top T c) (h : outcome c.pcs = none) :
    ∃ ev, ev.isWake = false ∧ (step? c ev).isSome = true :=
  outcome_none_progress hT hr h

/-- the verdict of the join loop, once there is one, never changes -/
theorem C19_outcome_final {c c' : Cfg ν σ} {b : Bool} (hs : Steps c c') (h : outcome c.pcs = some b) :
    outcome c'.pcs = some b :=
  outcome_stable hs h

/-- a panic is counted: `panicked > 0` iff some worker is `dying` or `dead` -/
theorem C19_panicked_pos {root : ν} {top T : Nat} {c : Cfg ν σ} {st : Stats}
    (h : ReachS root top T (c, st)) :
    0 < st.panicked ↔ ∃ t : Nat, c.pcs[t]? = some Pc.dying ∨ c.pcs[t]? = some Pc.dead :=
  panicked_pos_iff h

end Props
