import Cdecao.Engine.Core
import Cdecao.Engine.Term
import Cdecao.Engine.Final
import Cdecao.Engine.Account
import Cdecao.Engine.Terminate
/-! # C19 — a failing worker makes the search fail, not hang

The solver's verdict may be `Res.panic`. `acquire t` on such a verdict gives the busy count back
under the lock (`dying`), `die t` performs the `notify_all` and ends the thread (`dead`). -/
namespace Props
open Eng3
variable {ν σ : Type} [Solver ν σ]

/-- with failing subproblems anywhere in the tree, for every `T ≥ 1` and every schedule: as long as
    some worker is neither `done` nor `dead`, some non-wake step is enabled (nobody waits forever) -/
theorem C19_no_hang {root : ν} {top T : Nat} {c : Cfg ν σ} (hT : 0 < T)
    (hr : Reach root top T c) (hnd : ¬ AllFinished c) :
    ∃ ev, ev.isWake = false ∧ (step? c ev).isSome = true :=
  Eng3.C04_no_deadlock hT hr hnd

/-- and the work stays bounded (the potential argument covers `dying`/`die`) -/
theorem C19_bounded_work (W : ν → Nat) (hW : Budget W) {c c' : Cfg ν σ} {ev : Ev} (hs : step? c ev = some c') :
    Psi W c' + (if ev.isWake then 0 else 1) ≤ Psi W c + 3 * wakes c ev :=
  psi_step W hW hs

/-- `dead` is absorbing -/
theorem C19_dead_absorbing {c c' : Cfg ν σ} {ev : Ev} (hs : step? c ev = some c') {t : Nat}
    (hp : c.pcs[t]? = some Pc.dead) : c'.pcs[t]? = some Pc.dead :=
  dead_absorbing hs hp

/-- the failure is reported: `outcome` models the join loop of `bab::solve`
    (`for worker in workers { worker.join().unwrap(); }`; `some true` = the `unwrap` panics,
    `some false` = `solve` returns, `none` = blocked in a `join`). If a worker is dead in a
    reachable configuration, then in every later configuration it is still dead, `solve` does not
    return normally, some non-wake step is enabled until every worker has stopped, and once every
    worker has stopped `solve` panics. -/
theorem C19_failure_reported {root : ν} {top T : Nat} {c c' : Cfg ν σ} {t : Nat} (hT : 0 < T)
    (hr : Reach root top T c) (hdead : c.pcs[t]? = some Pc.dead) (hs : Steps c c') :
    c'.pcs[t]? = some Pc.dead ∧
    outcome c'.pcs ≠ some false ∧
    (¬ AllFinished c' → ∃ ev, ev.isWake = false ∧ (step? c' ev).isSome = true) ∧
    (AllFinished c' → outcome c'.pcs = some true) :=
  failure_reported hT hr hdead hs

/-- a join loop that is blocked is blocked on a running worker, and the system can move -/
theorem C19_join_not_stuck {root : ν} {top T : Nat} {c : Cfg ν σ} (hT : 0 < T)
    (hr : Reach root top T c) (h : outcome c.pcs = none) :
    ∃ ev, ev.isWake = false ∧ (step? c ev).isSome = true :=
  outcome_none_progress hT hr h

/-- the verdict of the join loop, once there is one, never changes -/
theorem C19_outcome_final {c c' : Cfg ν σ} {b : Bool} (hs : Steps c c') (h : outcome c.pcs = some b) :
    outcome c'.pcs = some b :=
  outcome_stable hs h

/-- a panic is counted: `panicked > 0` iff some worker is `dying` or `dead` -/
theorem C19_panicked_pos {root : ν} {top T : Nat} {c : Cfg ν σ} {st : Stats}
    (h : ReachS root top T (c, st)) :
    0 < st.panicked ↔ ∃ t : Nat, c.pcs[t]? = some Pc.dying ∨ c.pcs[t]? = some Pc.dead :=
  panicked_pos_iff h

/-! ### termination with failing solvers (Engine/Terminate.lean)

`AllFinished` allows `dead` workers, so the termination theorems cover failing solvers: `c` is any
configuration reached from the start by a run `evs0` with at most `s` `wake` events, the tree is
finite (`Budget W`), `T ≥ 1`; any subproblem may panic. -/

/-- with failing subproblems anywhere in the tree: some continuation of `c` without `wake` events
    ends with every worker stopped (`done` or `dead`) within `W root + 3 * T + 3 * (T * T + s)`
    steps, and every continuation without `wake` events can be extended to such a one within the
    same bound -/
theorem C19_terminates (W : ν → Nat) (hW : Budget W) {root : ν} {top T s : Nat} {c : Cfg ν σ}
    {evs0 : List Ev} (hT : 0 < T) (h0 : Run (init root top T) evs0 c) (hs : wakeEvents evs0 ≤ s) :
    (∃ (evs : List Ev) (c' : Cfg ν σ), Run c evs c' ∧ (∀ ev ∈ evs, ev.isWake = false) ∧
        AllFinished c' ∧ evs.length ≤ W root + 3 * T + 3 * (T * T + s)) ∧
    (∀ (evs : List Ev) (c' : Cfg ν σ), Run c evs c' → (∀ ev ∈ evs, ev.isWake = false) →
      ∃ (evs' : List Ev) (c'' : Cfg ν σ), Run c' evs' c'' ∧ (∀ ev ∈ evs', ev.isWake = false) ∧
        AllFinished c'' ∧ evs.length + evs'.length ≤ W root + 3 * T + 3 * (T * T + s)) :=
  terminates W hW hT h0 hs

/-- **the search fails, it does not hang**: if some worker is `dead` in `c`, every continuation
    without `wake` events extends within the bound to a configuration in which every worker has
    stopped, and there the join loop of `solve` panics (`outcome = some true`) -/
theorem C19_terminates_dead (W : ν → Nat) (hW : Budget W) {root : ν} {top T s : Nat}
    {c : Cfg ν σ} {evs0 : List Ev} {t : Nat} (hT : 0 < T) (h0 : Run (init root top T) evs0 c)
    (hs : wakeEvents evs0 ≤ s) (hdead : c.pcs[t]? = some Pc.dead) :
    ∀ (evs : List Ev) (c' : Cfg ν σ), Run c evs c' → (∀ ev ∈ evs, ev.isWake = false) →
      ∃ (evs' : List Ev) (c'' : Cfg ν σ), Run c' evs' c'' ∧ (∀ ev ∈ evs', ev.isWake = false) ∧
        AllFinished c'' ∧ evs.length + evs'.length ≤ W root + 3 * T + 3 * (T * T + s) ∧
        outcome c''.pcs = some true ∧ c''.pcs[t]? = some Pc.dead := by
  intro evs c' h hwf
  obtain ⟨evs', c'', h', hwf', hf, hle, hout⟩ :=
    terminates_failure W hW hT h0 hs (Or.inr hdead) evs c' h hwf
  have hst : Steps c c'' := steps_iff_run.2 ⟨_, h.append h'⟩
  exact ⟨evs', c'', h', hwf', hf, hle, hout, steps_keep_stopped hst hdead (Or.inr rfl)⟩

/-- the same as soon as the panic is registered (`dying`: the busy count has been given back, the
    `notify_all` is still to come) -/
theorem C19_terminates_dying (W : ν → Nat) (hW : Budget W) {root : ν} {top T s : Nat}
    {c : Cfg ν σ} {evs0 : List Ev} {t : Nat} (hT : 0 < T) (h0 : Run (init root top T) evs0 c)
    (hs : wakeEvents evs0 ≤ s) (hgone : c.pcs[t]? = some Pc.dying ∨ c.pcs[t]? = some Pc.dead) :
    ∀ (evs : List Ev) (c' : Cfg ν σ), Run c evs c' → (∀ ev ∈ evs, ev.isWake = false) →
      ∃ (evs' : List Ev) (c'' : Cfg ν σ), Run c' evs' c'' ∧ (∀ ev ∈ evs', ev.isWake = false) ∧
        AllFinished c'' ∧ evs.length + evs'.length ≤ W root + 3 * T + 3 * (T * T + s) ∧
        outcome c''.pcs = some true :=
  terminates_failure W hW hT h0 hs hgone

/-- whatever the schedule (wake-ups included): a finished configuration reached from a reachable
    configuration with a `dying` or `dead` worker has a dead worker, and `solve` panics -/
theorem C19_terminates_verdict {root : ν} {top T : Nat} {c c' : Cfg ν σ} {evs : List Ev} {t : Nat}
    (hr : Reach root top T c) (hgone : c.pcs[t]? = some Pc.dying ∨ c.pcs[t]? = some Pc.dead)
    (h : Run c evs c') (hf : AllFinished c') :
    (∃ u : Nat, c'.pcs[u]? = some Pc.dead) ∧ outcome c'.pcs = some true :=
  finished_after_failure hr hgone h hf

/-- conversely, a search in which no subproblem below the root panics never loses a worker -/
theorem C19_terminates_no_panic {root : ν} {top T : Nat} {c : Cfg ν σ}
    (hnp : ∀ n, Desc n root → isPanic (Solver.res n) = false) (hr : Reach root top T c) :
    ∀ (t : Nat) (pc : Pc ν), c.pcs[t]? = some pc → pc ≠ Pc.dying ∧ pc ≠ Pc.dead := by
  intro t pc hpc
  have := no_panic_no_gone hnp hr t pc hpc
  constructor <;> (intro e; rw [e] at this; cases this)

#print axioms C19_terminates
#print axioms C19_terminates_dead
#print axioms C19_terminates_dying
#print axioms C19_terminates_verdict
#print axioms C19_terminates_no_panic

end Props
