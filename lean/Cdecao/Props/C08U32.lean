import Cdecao.Proofs.SumU32
/-! # C08 (u32 half) — `combined_quality` / `get_quality` sum the external penalties in u32
    (`iter().sum::<u32>() as usize`, wrapping in release builds). Below 2^32 the code's figures are
    the `Nat` figures of the model; beyond the bound they differ. -/
namespace Props
open N2

/-- the wrapping u32 sum is the exact sum as long as the exact sum fits in a u32 -/
theorem C08_sumU32_exact (l : List Nat) (h : l.sum < 2^32) : QM.sumU32 l = l.sum :=
  QM.sumU32_exact l h

/-- `combined_quality` as the code computes it equals the model's `QM.combined` under the bound -/
theorem C08_combined_u32 (I : Inst) (score extInstr : Nat) (extPen : List Nat)
    (h : extPen.sum < 2^32) :
    QM.combinedU32 I score extInstr extPen = QM.combined I score extInstr extPen := by
  simp [QM.combinedU32, QM.combined, QM.W_sub_INSTRUCTOR_SCORE, QM.sumU32_exact extPen h]

/-- `get_quality` as the code computes it equals the model's `QM.getQuality` under the bound -/
theorem C08_getQuality_u32 (q : Nat × List Nat) (h : q.2.sum < 2^32) :
    QM.getQualityU32 q = QM.getQuality q := by
  simp [QM.getQualityU32, QM.getQuality, QM.sumU32_exact q.2 h]

/-- beyond the bound the code's sum differs from the exact sum: two ignored attendees with the
    fall-back penalty `2^32 - 1` -/
theorem C08_sumU32_wraps :
    QM.sumU32 [2^32 - 1, 2^32 - 1] = 2^32 - 2 ∧ [2^32 - 1, 2^32 - 1].sum = 2^33 - 2 := by
  decide

/-- a sufficient condition: every penalty at most `b` and `length * b` below 2^32 -/
theorem C08_sumU32_exact_of_bound (l : List Nat) (b : Nat) (hb : ∀ x ∈ l, x ≤ b)
    (h : l.length * b < 2^32) : QM.sumU32 l = l.sum :=
  QM.sumU32_exact l (Nat.lt_of_le_of_lt (QM.sum_le_length_mul l b hb) h)

end Props
