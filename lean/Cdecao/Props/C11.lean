import Cdecao.Model.Cdedb
/-! # C11 — the ignore options leave ignored data untouched and reserve its places

Reader side (`CD.readRegs`, `CD.adapt`): an ignored registration is never added to the
participants (so, by C05, it is never named in the import file); its course gets the place
reserved. These lemmas are the arithmetic of `adapt_course_for_invisible_participants`; `c.invAtt`
/ `c.invInstr` are the numbers of ignored pre-assigned attendees / instructors of the course. -/
namespace Props
open CD

/-- no new attendee beyond the original maximum counting the pre-assigned ones -/
theorem C11_max (c : Course) (new : Nat) (h : new ≤ (adapt c).numMax) :
    new = 0 ∨ new + c.invAtt ≤ c.numMax := by
  simp only [adapt] at h; omega

/-- the original minimum is met counting both groups -/
theorem C11_min (c : Course) (new : Nat) (h : (adapt c).numMin ≤ new) : c.numMin ≤ new + c.invAtt := by
  simp only [adapt] at h; omega

theorem C11_min_le_max (c : Course) (h : c.numMin ≤ c.numMax) : (adapt c).numMin ≤ (adapt c).numMax := by
  simp only [adapt]; omega

/-- a course with ignored people is fixed (hence, by C01, never cancelled and, by the writer,
    always written as taking place) -/
theorem C11_fixed (c : Course) : (adapt c).fixed = true ↔ c.invInstr + c.invAtt ≠ 0 := by
  simp only [adapt, decide_eq_true_eq]

/-- the writer marks a fixed course as taking place even when nobody new is assigned -/
theorem C11_fixed_written (courses : List Course) (a : List (Option Nat)) (c : Course) (i : Nat)
    (h : (c, i) ∈ courses.zipIdx) (hf : c.fixed = true) : (c.dbid, true) ∈ writeCourses courses a := by
  unfold writeCourses
  simp only [List.mem_map]
  exact ⟨(c, i), h, by simp [hf]⟩

end Props
