import Cdecao.Model.Cdedb
import Cdecao.Proofs.ImportConsistent
/-! # C11 — the ignore options leave ignored data untouched and reserve its places

Reader side (`CD.readRegs`, `CD.adapt`): an ignored registration is never added to the
participants (so, by C05, it is never named in the import file); its course gets the place
reserved. These lemmas are the arithmetic of `adapt_course_for_invisible_participants`; `c.invAtt`
/ `c.invInstr` are the numbers of ignored pre-assigned attendees / instructors of the course. -/
namespace Props
open CD

/-- no new attendee beyond the original maximum counting the pre-assigned ones -/
theorem C11_max (c : Course) (new : Nat) (h : new ≤ (adapt c).numMax) :
    new = 0 ∨ new + c.invAtt ≤ c.numMax := by
  simp only [adapt] at h; omega

/-- the original minimum is met counting both groups -/
theorem C11_min (c : Course) (new : Nat) (h : (adapt c).numMin ≤ new) : c.numMin ≤ new + c.invAtt := by
  simp only [adapt] at h; omega

theorem C11_min_le_max (c : Course) (h : c.numMin ≤ c.numMax) : (adapt c).numMin ≤ (adapt c).numMax := by
  simp only [adapt]; omega

/-- a course with ignored people is fixed (hence, by C01, never cancelled and, by the writer,
    always written as taking place) -/
theorem C11_fixed (c : Course) : (adapt c).fixed = true ↔ c.invInstr + c.invAtt ≠ 0 := by
  simp only [adapt, decide_eq_true_eq]

/-- the writer marks a fixed course as taking place even when nobody new is assigned -/
theorem C11_fixed_written (courses : List Course) (a : List (Option Nat)) (c : Course) (i : Nat)
    (h : (c, i) ∈ courses.zipIdx) (hf : c.fixed = true) : (c.dbid, true) ∈ writeCourses courses a := by
  unfold writeCourses
  simp only [List.mem_map]
  exact ⟨(c, i), h, by simp [hf]⟩

/-! ## the ignore options against the export (proofs in `Cdecao/Proofs/ImportConsistent.lean`;
    vocabulary as in `Props/C05.lean`)

`ignoredCount o partId trackId rdata cid true / false` is, with `--ignore-assigned`, the number of
registrations of the export that are participants of the selected part, have `course_id = cid` in
the selected track and do / do not instruct `cid` — the registrations the reader ignored for that
course (`CD.Link.invCount_eq` ties it to `invInstr` / `invAtt` of `readRegs_invisible`); it is 0
without the option. `NodupKeys` (distinct course keys) is a hypothesis, see `Props/C05.lean`. -/

open N2.G in
/-- **C11, assembled.** For the problem read from an export and any assignment satisfying the hard
    constraints:
    * (a) an ignored registration is never named: every registration entry of the import file is a
      participant of the selected part whose `course_id` in the selected track, with
      `--ignore-assigned`, is absent/null or names a course that is not kept — in particular it is
      not the id of any course of the import file;
    * (f) a course with ignored pre-assigned people is fixed in the problem, hence takes place in the
      sense of `HardOK` and is written as taking place;
    * (d) the places of the ignored attendees are reserved: a course written as taking place meets
      the export's `min_size` counting new and ignored attendees, and either gets no new attendee or
      respects the export's `max_size` counting both;
    * (f) with `--ignore-cancelled`, every course entry of the import file is a course of the export
      whose segment in the selected track is `true` (`CourseNamed`), and a course of the export
      that is cancelled in the selected track appears neither in the courses object nor in the
      registrations object of the import file. -/
theorem C11_consistent (data : JS.J) (o : Opts) (parts : List Part) (courses : List Course)
    (amb : Ambience) (al : List (Option Nat))
    (hread : CD.read data o = .ok (parts, courses, amb))
    (hlen : al.length = parts.length)
    (hok : HardOK (toInst parts courses) (fun p => al.getD p none))
    (hkeys : NodupKeys data) :
    ∃ partId trackId cdata rdata, Selected data o amb partId trackId cdata rdata ∧
      -- (a)
      (∀ rid cid, (rid, cid) ∈ writeRegs parts courses al →
        ∃ rkv ∈ rdata, RegNamed o partId trackId cdata rkv rid ∧
          (o.ignoreAssigned = true → ∀ cid' b, (cid', b) ∈ writeCourses courses al →
            regCourseId rkv.2 trackId ≠ some cid')) ∧
      -- (f) fixed, (d) sizes
      (∀ c cid b, (writeCourses courses al)[c]? = some (cid, b) →
        ∃ ckv ∈ cdata, CourseNamed o trackId ckv cid ∧
          (ignoredCount o partId trackId rdata cid true +
              ignoredCount o partId trackId rdata cid false ≠ 0 →
            ((toInst parts courses).course c).fixed = true ∧
            takesPlace (toInst parts courses) (fun p => al.getD p none) c ∧ b = true) ∧
          (b = true → courseMinSize ckv.2 ≤
            attendees (toInst parts courses) (fun p => al.getD p none) c +
              ignoredCount o partId trackId rdata cid false) ∧
          (attendees (toInst parts courses) (fun p => al.getD p none) c = 0 ∨
            attendees (toInst parts courses) (fun p => al.getD p none) c +
              ignoredCount o partId trackId rdata cid false ≤ courseMaxSize ckv.2)) ∧
      -- (f) cancelled courses
      (o.ignoreCancelled = true → ∀ ckv ∈ cdata, courseSegment ckv.2 trackId = some false →
        ∀ cid, JS.parseNat ckv.1 = some cid →
          (∀ b, (cid, b) ∉ writeCourses courses al) ∧
          (∀ rid, (rid, cid) ∉ writeRegs parts courses al)) := by
  obtain ⟨partId, trackId, cdata, rdata, co, L⟩ := read_link data o parts courses amb hread
  have hn : (courseIds cdata).Nodup := hkeys cdata L.hcdata
  refine ⟨partId, trackId, cdata, rdata, L.selected, ?_, ?_, ?_⟩
  · intro rid cid h
    obtain ⟨rkv, hm, _, _, hreg, _⟩ := L.regs_entry al hok rid cid h
    exact ⟨rkv, hm, hreg, fun hia cid' b hw => L.named_not_preassigned hn al rkv rid hreg hia cid' b hw⟩
  · intro c cid b h
    obtain ⟨ckv, hm, hnamed, h1, h2, h3, h4⟩ := L.courses_entry al hlen hok c cid b h
    have hcc : ∃ cc, courses[c]? = some cc ∧ cc.dbid = cid := by
      rw [writeCourses_getElem?] at h
      cases hcc : courses[c]? with
      | none => rw [hcc] at h; cases h
      | some cc =>
        rw [hcc] at h
        simp only [Option.map_some, Option.some.injEq, Prod.mk.injEq] at h
        exact ⟨cc, rfl, h.1⟩
    obtain ⟨cc, hcc, rfl⟩ := hcc
    have hfix := L.fixed_of_invisible c cc hcc
    rw [L.invCount_eq_ignoredCount hn c cc hcc false] at h2 h3 h4 hfix
    rw [L.invCount_eq_ignoredCount hn c cc hcc true] at h4 hfix
    exact ⟨ckv, hm, hnamed, fun hne => ⟨hfix hne, h1.1 (h4 hne), h4 hne⟩, h2, h3⟩
  · intro hic ckv hm hseg cid hk
    exact L.cancelled_untouched hn hic al hok ckv hm cid hk hseg

/-- a concrete instance of the hypotheses (`CD.Ex`, see `Props/C05.lean`): registration 101 is
    pre-assigned to course 7 and ignored, course 8 is cancelled and ignored -/
example := C11_consistent Ex.doc Ex.opts Ex.parts Ex.courses Ex.amb Ex.al Ex.read_eq rfl Ex.hardOK
  Ex.nodupKeys

/-- on that instance the reserved place is visible: one ignored attendee of course 7 -/
example : ignoredCount Ex.opts 1 3 Ex.rdata 7 false = 1 ∧ ignoredCount Ex.opts 1 3 Ex.rdata 7 true = 0 := by
  decide

end Props

#print axioms Props.C11_consistent
