import Cdecao.Props.C01Cde
import Cdecao.Proofs.NodeEng2
import Cdecao.Proofs.SpecExec
/-! # C01 — every reported assignment satisfies all hard course-assignment constraints

Model: `N2.runNodeS` (caobab.rs `run_bab_node` with `H2.run` = hungarian.rs inside) as the node
solver of the engine model `Eng3` (bab.rs). `Reach rootNode top T c` ranges over every thread count
`T`, every order of critical sections, every pop choice, every wake-up choice and spurious wake-ups.
`c.best` is what `bab::solve` returns once all workers have stopped (and at any time before). -/
namespace Props
open N2

/-- C01: whatever the parallel search holds as incumbent — for every well-formed instance, with or
    without room list (`I.rooms`), every float behaviour `R`, every thread count and schedule —
    has one entry per participant and satisfies the hard constraints `HardOK`. -/
theorem C01 (I : Inst) (R : RoomFns) (hI : InstOK I) (top T : Nat) :
    letI := solverOf I R
    ∀ c : Eng3.Cfg Node (List (Option Nat)),
      Eng3.Reach rootNode top T c → ∀ al, c.best = some al →
      al.length = I.P ∧ ∃ a : Nat → Option Nat, al = (List.range I.P).map a ∧ G.HardOK I a :=
  C01_engine I R hI top T

/-- node level: a `Feasible` verdict of any node whose cancelled courses are not fixed -/
theorem C01_node (I : Inst) (R : RoomFns) (nd : Node) (hI : InstOK I) (hnd : NodeOK I nd)
    (al : List (Option Nat)) (sc : Nat) (h : runNodeS I R nd = .ok (.feasible al sc)) :
    ∃ mm : Nat → Nat, al = (List.range I.P).map (assign I nd mm) ∧ G.HardOK I (assign I nd mm) := by
  obtain ⟨mm, h1, h2⟩ := N2.C01_node I R nd hI hnd al sc h
  exact ⟨mm.get, h1, h2⟩

/-- C01 in the form the check evaluates: the premise is the decidable validity predicate `validb`
    (exactly the quantifier of the property: indices in range, `num_min ≤ num_max`, each participant
    instructs at most one course and is listed once, no course twice in a choice list,
    `P · maxPenalty < 50000`, some participant has choices); the conclusion is the executable
    decision procedure `hardOKb` that the driver runs on every assignment the real code returns. -/
theorem C01_valid (I : Inst) (R : RoomFns) (hv : validb I = true) (top T : Nat) :
    letI := solverOf I R
    ∀ c : Eng3.Cfg Node (List (Option Nat)),
      Eng3.Reach rootNode top T c → ∀ al, c.best = some al →
      al.length = I.P ∧ ∃ a : Nat → Option Nat, al = (List.range I.P).map a ∧ G.hardOKb I a = true := by
  letI := solverOf I R
  intro c hr al hal
  obtain ⟨h1, a, h2, h3⟩ := C01_engine I R (validb_sound I hv).1.toInstOK top T c hr al hal
  exact ⟨h1, a, h2, (G.hardOKb_iff I a).2 h3⟩

/-- non-vacuity: a concrete instance (two courses, one with an instructor and a minimum, room list)
    satisfies the premise -/
example : validb { cs := [⟨1, 2, false, [0]⟩, ⟨0, 3, true, []⟩], ps := [⟨[]⟩, ⟨[⟨0, 0⟩, ⟨1, 5⟩]⟩, ⟨[⟨1, 0⟩]⟩],
                   rooms := some [3, 2] } = true := by decide

end Props
