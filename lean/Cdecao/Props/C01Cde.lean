import Cdecao.Proofs.ReaderValid
import Cdecao.Proofs.NodeEng3
/-! # C01 / C08 / C10 on the CdE path: reader ∘ solver

Whatever `io::cdedb::read` (model `CD.read`) accepts is a problem on which the solver theorems
apply WITHOUT any further validity hypothesis except a bound on the length of choice lists
(≤ 50001 entries, so that penalties stay below the weight offset): indices in range, every
registration instructs at most one course and is listed once (`C12_read_wellformed`). -/
namespace Props
open CD N2

/-- for every export the reader accepts, every room list and float behaviour, every thread count
    and schedule: the incumbent of the parallel search satisfies the hard constraints of the
    problem that was read, and the stored score is its documented score -/
theorem C01_C08_cde {data : JS.J} {o : Opts} {parts : List CD.Part} {courses : List CD.Course} {amb : Ambience}
    (h : CD.read data o = .ok (parts, courses, amb)) (rooms : Option (List Nat)) (R : RoomFns)
    (hlen : ∀ rdata, (data.get "registrations").bind JS.J.asObject = some rdata →
      ∀ kv ∈ rdata, ∀ chs, regChoices kv.2 amb.trackId = some chs → chs.length ≤ N2.WEIGHT + 1)
    (top T : Nat) :
    letI := solverOf (toInstR parts courses rooms) R
    ∀ c : Eng3.Cfg Node (List (Option Nat)),
      Eng3.Reach rootNode top T c → ∀ al, c.best = some al →
      ∃ a : Nat → Option Nat, al = (List.range (toInstR parts courses rooms).P).map a ∧
        G.HardOK (toInstR parts courses rooms) a ∧ c.bestScore = G.scoreOf (toInstR parts courses rooms) a :=
  C01_C08_engine (toInstR parts courses rooms) R (read_instOK2_of_len h rooms hlen).1 top T

/-- and no node of the search tree makes the solver panic (C10 on the CdE path) -/
theorem C10_cde {data : JS.J} {o : Opts} {parts : List CD.Part} {courses : List CD.Course} {amb : Ambience}
    (h : CD.read data o = .ok (parts, courses, amb)) (rooms : Option (List Nat)) (R : RoomFns)
    (hlen : ∀ rdata, (data.get "registrations").bind JS.J.asObject = some rdata →
      ∀ kv ∈ rdata, ∀ chs, regChoices kv.2 amb.trackId = some chs → chs.length ≤ N2.WEIGHT + 1) :
    letI := solverOf (toInstR parts courses rooms) R
    ∀ f : Node, Eng3.Desc f rootNode → Eng3.Solver.res f ≠ (Eng3.Res.panic : Eng3.Res (List (Option Nat))) :=
  tree_no_panic (toInstR parts courses rooms) R (read_instOK2_of_len h rooms hlen).1.toInstOK
    (read_instOK2_of_len h rooms hlen).2

end Props
