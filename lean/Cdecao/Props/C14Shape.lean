import Cdecao.Proofs.SimpleShape
import Cdecao.Props.C14
/-! # C14, strengthened — the simple-format reader, the output array and the listing line up with
    the DOCUMENT

`C14.lean` speaks about the instance `I`. Here the chain is closed back to the JSON document:

* `SM.read` delivers ONE problem entry per document entry, IN DOCUMENT ORDER, all or nothing
  (`C14_mapM'_shape`, `C14_mapM'_all_or_nothing`, `C14_read_shape`, `C14_read_complete`,
  `C14_read_all_or_nothing`);
* every field of a parsed participant / choice / course is the document's member
  (`C14_choice_fields`, `C14_part_fields`, `C14_course_fields`), the instructor list being the
  document's list with later repetitions removed (`C14_dedup_*`);
* the printed listing is the concatenation of one block per course (`C14_render_blocks`), and the
  blocks carry exactly what the property says (`C14_blocks_length`, `C14_block`,
  `C14_simple_listing`);
* the output array has one entry per entry of the document's `participants` array, each `null` or
  an index into the document's `courses` array (`C14_simple_end_to_end`). -/
namespace Props
open N2 LM JS

/-! ### 1. `mapM'` (serde's `Vec<T>` from an array): entry by entry, all or nothing -/

theorem C14_mapM'_shape {α β : Type} (f : α → SM.M β) (l : List α) (r : List β)
    (h : SM.mapM' f l = .ok r) :
    r.length = l.length ∧ ∀ i (hi : i < l.length) (hi' : i < r.length), f l[i] = .ok r[i] :=
  SM.mapM'_some f l r h

theorem C14_mapM'_complete {α β : Type} (f : α → SM.M β) (l : List α) (r : List β)
    (hl : r.length = l.length)
    (hi : ∀ i (hi : i < l.length) (hi' : i < r.length), f l[i] = .ok r[i]) :
    SM.mapM' f l = .ok r :=
  SM.mapM'_ok_of_all f l r hl hi

theorem C14_mapM'_all_or_nothing {α β : Type} (f : α → SM.M β) (l : List α) (x : α) (e : String)
    (hx : x ∈ l) (he : f x = .error e) : ∃ e', SM.mapM' f l = .error e' :=
  SM.mapM'_error_of_bad f l x e hx he

/-! ### 2. `read`: one problem entry per document entry, in document order -/

theorem C14_read_shape (j : J) (ps : List SM.PartD) (cs : List SM.CourseD)
    (h : SM.read j = .ok (ps, cs)) :
    ∃ pv cv : List J,
      j.get "participants" = some (.arr pv) ∧ j.get "courses" = some (.arr cv) ∧
      ps.length = pv.length ∧ cs.length = cv.length ∧
      (∀ i (hi : i < pv.length) (hi' : i < ps.length), SM.partOf pv[i] = .ok ps[i]) ∧
      (∀ i (hi : i < cv.length) (hi' : i < cs.length), SM.courseOf cv[i] = .ok cs[i]) :=
  SM.read_shape h

/-- conversely: whenever both arrays parse entry by entry, `read` delivers exactly these entries -/
theorem C14_read_complete (j : J) (pv cv : List J) (ps : List SM.PartD) (cs : List SM.CourseD)
    (hp : j.get "participants" = some (.arr pv)) (hc : j.get "courses" = some (.arr cv))
    (hpl : ps.length = pv.length) (hcl : cs.length = cv.length)
    (hpi : ∀ i (hi : i < pv.length) (hi' : i < ps.length), SM.partOf pv[i] = .ok ps[i])
    (hci : ∀ i (hi : i < cv.length) (hi' : i < cs.length), SM.courseOf cv[i] = .ok cs[i]) :
    SM.read j = .ok (ps, cs) :=
  SM.read_of_shape hp hc hpl hcl hpi hci

/-- one participant entry that does not parse refuses the whole document (none is dropped) -/
theorem C14_read_all_or_nothing (j : J) (pv : List J) (x : J) (e : String)
    (hp : j.get "participants" = some (.arr pv)) (hx : x ∈ pv) (he : SM.partOf x = .error e) :
    ∃ e', SM.read j = .error e' :=
  SM.read_error_of_bad_participant hp hx he

/-! ### 3. the fields are the document's members -/

theorem C14_choice_fields (j : J) (ch : Choice) (h : SM.choiceOf j = .ok ch) :
    ∃ kv, j = .obj kv ∧
      J.lookup "course" kv = some (.num (.pos ch.course)) ∧ ch.course ≤ J.U64_MAX ∧
      J.lookup "penalty" kv = some (.num (.pos ch.penalty)) ∧ ch.penalty ≤ SM.U32_MAX :=
  SM.choiceOf_fields h

theorem C14_part_obj (j : J) (p : SM.PartD) (h : SM.partOf j = .ok p) : ∃ kv, j = .obj kv :=
  SM.partOf_obj h

/-- name = the `name` member; choices = the `choices` array, entry by entry, in order -/
theorem C14_part_fields (kv : List (String × J)) (p : SM.PartD) (h : SM.partOf (.obj kv) = .ok p) :
    J.lookup "name" kv = some (.str p.name) ∧
    ∃ cl, J.lookup "choices" kv = some (.arr cl) ∧ p.choices.length = cl.length ∧
      ∀ i (hi : i < cl.length) (hi' : i < p.choices.length), SM.choiceOf cl[i] = .ok p.choices[i] :=
  SM.partOf_fields h

theorem C14_course_obj (j : J) (c : SM.CourseD) (h : SM.courseOf j = .ok c) : ∃ kv, j = .obj kv :=
  SM.courseOf_obj h

/-- name, num_max, num_min: the members; instructors: the `instructors` array (`l`, entry by
    entry) de-duplicated; room_factor / room_offset / fixed_course / hidden_participant_names: the
    member, or the default (`none`, `none`, `false`, `[]`) when the member is absent -/
theorem C14_course_fields (kv : List (String × J)) (c : SM.CourseD)
    (h : SM.courseOf (.obj kv) = .ok c) :
    J.lookup "name" kv = some (.str c.name) ∧
    (J.lookup "num_max" kv = some (.num (.pos c.numMax)) ∧ c.numMax ≤ J.U64_MAX) ∧
    (J.lookup "num_min" kv = some (.num (.pos c.numMin)) ∧ c.numMin ≤ J.U64_MAX) ∧
    (∃ l : List Nat, J.lookup "instructors" kv = some (.arr (l.map (fun n => .num (.pos n)))) ∧
        (∀ n ∈ l, n ≤ J.U64_MAX) ∧ c.instructors = SM.dedup [] l) ∧
    ((J.lookup "room_factor" kv = none ∧ c.factor = none) ∨
      ∃ n, J.lookup "room_factor" kv = some (.num n) ∧ c.factor = some n) ∧
    ((J.lookup "room_offset" kv = none ∧ c.offset = none) ∨
      ∃ n, J.lookup "room_offset" kv = some (.num n) ∧ c.offset = some n) ∧
    ((J.lookup "fixed_course" kv = none ∧ c.fixed = false) ∨
      J.lookup "fixed_course" kv = some (.bool c.fixed)) ∧
    ((J.lookup "hidden_participant_names" kv = none ∧ c.hidden = []) ∨
      J.lookup "hidden_participant_names" kv = some (.arr (c.hidden.map .str))) :=
  SM.courseOf_fields h

/-! ### 4. `dedup` (F10): same people, none twice, order of first occurrence -/

theorem C14_dedup_nodup (l seen : List Nat) : (SM.dedup seen l).Nodup :=
  SM.dedup_nodup l seen

theorem C14_dedup_mem (l seen : List Nat) (x : Nat) : x ∈ SM.dedup seen l ↔ x ∈ l ∧ x ∉ seen :=
  SM.mem_dedup x l seen

theorem C14_dedup_mem_nil (l : List Nat) (x : Nat) : x ∈ SM.dedup [] l ↔ x ∈ l := by
  simp [SM.mem_dedup]

theorem C14_dedup_sublist (l seen : List Nat) : List.Sublist (SM.dedup seen l) l :=
  SM.dedup_sublist l seen

/-- exactly: each value stays at its first occurrence (`List.eraseDups` of core) -/
theorem C14_dedup_first_occurrences (l : List Nat) : SM.dedup [] l = l.eraseDups :=
  SM.dedup_nil_eq_eraseDups l

/-! ### 5. the printed listing, block by block -/

/-- the printed text is literally the concatenation of the blocks' texts, in course order -/
theorem C14_render_blocks (I : Inst) (a : Nat → Option Nat) (cnames pnames : List String)
    (hidden : List (List String)) (rooms : Option (List String)) :
    render I a cnames pnames hidden rooms =
      String.join ((LM'.blocks I a cnames hidden rooms).map
        (LM'.renderBlock (fun p => pnames.getD p ""))) :=
  LM'.render_eq_blocks I a cnames pnames hidden rooms

/-- one block per course -/
theorem C14_blocks_length (I : Inst) (a : Nat → Option Nat) (cnames : List String)
    (hidden : List (List String)) (rooms : Option (List String)) :
    (LM'.blocks I a cnames hidden rooms).length = I.C :=
  LM'.blocks_length I a cnames hidden rooms

/-- the `c`-th block is course `c`'s: its header name; its count = (number of participants the
    array puts into `c`) + (number of hidden names); its lines = exactly the participants the array
    puts into `c`, in participant order, without repetition, flagged exactly when instructor of
    `c`; its hidden names = the course's, in order -/
theorem C14_block (I : Inst) (a : Nat → Option Nat) (cnames : List String)
    (hidden : List (List String)) (rooms : Option (List String)) (c : Nat)
    (hc : c < (LM'.blocks I a cnames hidden rooms).length) :
    let b := (LM'.blocks I a cnames hidden rooms)[c]
    b.name = cnames.getD c "" ∧
    b.count = (List.range I.P).countP (fun p => a p == some c) + (hidden.getD c []).length ∧
    b.rooms = rooms.map (fun r => r.getD c "") ∧
    b.entries = entries I a c ∧
    (∀ p f, (p, f) ∈ b.entries ↔
      (p < I.P ∧ a p = some c ∧ f = (I.course c).instructors.contains p)) ∧
    (b.entries.map (·.1)).Pairwise (· < ·) ∧
    b.hidden = hidden.getD c [] := by
  intro b
  have hb : b = LM'.block I a cnames hidden rooms c := LM'.blocks_getElem I a cnames hidden rooms c hc
  rw [hb]
  refine ⟨rfl, ?_, rfl, rfl, fun p f => C14_entries I a c p f, C14_entries_sorted I a c, rfl⟩
  show (entries I a c).length + _ = _
  rw [LM'.entries_length]

/-- the same for the simple format, tied to the parsed document entries: with the instance, course
    names and hidden names taken from `read`'s result, block `c` carries course `c`'s name, its
    hidden names, the count, and flags exactly the participants in the course's (de-duplicated)
    instructor list -/
theorem C14_simple_listing (ps : List SM.PartD) (cs : List SM.CourseD) (rooms : Option (List Nat))
    (a : Nat → Option Nat) (rnames : Option (List String)) :
    let I := SM.toInst ps cs rooms
    let bl := LM'.blocks I a (cs.map (·.name)) (cs.map (·.hidden)) rnames
    bl.length = cs.length ∧
    ∀ c (hc : c < cs.length) (hc' : c < bl.length),
      bl[c].name = cs[c].name ∧
      bl[c].hidden = cs[c].hidden ∧
      bl[c].count = (List.range ps.length).countP (fun p => a p == some c) + cs[c].hidden.length ∧
      (∀ p f, (p, f) ∈ bl[c].entries ↔
        (p < ps.length ∧ a p = some c ∧ f = cs[c].instructors.contains p)) ∧
      (bl[c].entries.map (·.1)).Pairwise (· < ·) := by
  intro I bl
  have hC : I.C = cs.length := SM.toInst_C ps cs rooms
  have hP : I.P = ps.length := SM.toInst_P ps cs rooms
  refine ⟨by rw [C14_blocks_length, hC], fun c hc hc' => ?_⟩
  obtain ⟨h1, h2, _, _, h5, h6, h7⟩ := C14_block I a (cs.map (·.name)) (cs.map (·.hidden)) rnames c hc'
  have hn : (cs.map (·.name)).getD c "" = cs[c].name := by
    simp [List.getD, hc]
  have hh : (cs.map (·.hidden)).getD c [] = cs[c].hidden := by
    simp [List.getD, hc]
  have hi : (I.course c).instructors = cs[c].instructors := by
    simp [I, SM.toInst, Inst.course, List.getD, hc]
  rw [hn] at h1
  rw [hh] at h2 h7
  rw [hP] at h2
  refine ⟨h1, h7, h2, fun p f => ?_, h6⟩
  rw [h5 p f, hP, hi]

/-! ### 6. end to end: the output array against the document -/

/-- for a document the reader accepts and that yields a valid instance: in every reachable engine
    configuration (any thread count, any schedule) the incumbent — what the simple-format writer
    emits as `assignment` — has exactly one entry per entry of the DOCUMENT's `participants` array,
    each `null` or an index below the length of the DOCUMENT's `courses` array -/
theorem C14_simple_end_to_end (j : J) (ps : List SM.PartD) (cs : List SM.CourseD)
    (rooms : Option (List Nat)) (R : RoomFns)
    (hread : SM.read j = .ok (ps, cs))
    (hv : validb (SM.toInst ps cs rooms) = true) (top T : Nat) :
    letI := solverOf (SM.toInst ps cs rooms) R
    ∀ c : Eng3.Cfg Node (List (Option Nat)),
      Eng3.Reach rootNode top T c → ∀ al, c.best = some al →
      ∃ pv cv : List J,
        j.get "participants" = some (.arr pv) ∧ j.get "courses" = some (.arr cv) ∧
        al.length = pv.length ∧
        (∀ x ∈ al, x = none ∨ ∃ k, x = some k ∧ k < cv.length) ∧
        (∀ i (hi : i < pv.length), ∃ p, SM.partOf pv[i] = .ok p) ∧
        (∀ k (hk : k < cv.length), ∃ co, SM.courseOf cv[k] = .ok co) := by
  intro c hr al hal
  obtain ⟨pv, cv, hp, hc, hpl, hcl, hpi, hci⟩ := SM.read_shape hread
  obtain ⟨h1, h2⟩ := C14_array (SM.toInst ps cs rooms) R hv top T c hr al hal
  rw [SM.toInst_P, hpl] at h1
  refine ⟨pv, cv, hp, hc, h1, fun x hx => ?_, fun i hi => ⟨_, hpi i hi (hpl ▸ hi)⟩,
    fun k hk => ⟨_, hci k hk (hcl ▸ hk)⟩⟩
  cases x with
  | none => exact Or.inl rfl
  | some k =>
    refine Or.inr ⟨k, rfl, ?_⟩
    have := h2 _ hx k rfl
    rwa [SM.toInst_C, hcl] at this

/-! ### 7. non-vacuity -/

/-- a small document: two participants, two courses (one with a repeated instructor, hidden names
    and the optional members) -/
def C14_doc : J :=
  .obj [("courses", .arr [
          .obj [("instructors", .arr [.num (.pos 0), .num (.pos 0)]), ("name", .str "K1"),
                ("num_max", .num (.pos 2)), ("num_min", .num (.pos 1))],
          .obj [("fixed_course", .bool true), ("hidden_participant_names", .arr [.str "X", .str "Y"]),
                ("instructors", .arr []), ("name", .str "K2"),
                ("num_max", .num (.pos 3)), ("num_min", .num (.pos 0))]]),
        ("participants", .arr [
          .obj [("choices", .arr []), ("name", .str "A")],
          .obj [("choices", .arr [.obj [("course", .num (.pos 1)), ("penalty", .num (.pos 5))],
                                  .obj [("course", .num (.pos 0)), ("penalty", .num (.pos 0))]]),
                ("name", .str "B")]])]

def C14_doc_ps : List SM.PartD := [⟨"A", []⟩, ⟨"B", [⟨1, 5⟩, ⟨0, 0⟩]⟩]
def C14_doc_cs : List SM.CourseD :=
  [⟨"K1", 2, 1, [0], none, none, false, []⟩, ⟨"K2", 3, 0, [], none, none, true, ["X", "Y"]⟩]

example : SM.read C14_doc = .ok (C14_doc_ps, C14_doc_cs) := rfl
example : validb (SM.toInst C14_doc_ps C14_doc_cs (some [3, 2])) = true := by decide
example : SM.dedup [] [3, 1, 3, 2, 1] = [3, 1, 2] := by decide
/-- a bad entry refuses the document -/
example : ∃ e, SM.read (.obj [("courses", .arr []), ("participants", .arr [.obj [("name", .str "A")]])])
    = .error e := ⟨_, rfl⟩
/-- the blocks of the listing for the assignment A→K1, B→K2 -/
example :
    (LM'.blocks (SM.toInst C14_doc_ps C14_doc_cs none) (fun p => [some 0, some 1].getD p none)
        (C14_doc_cs.map (·.name)) (C14_doc_cs.map (·.hidden)) none).map
      (fun b => (b.name, b.count, b.entries, b.hidden)) =
    [("K1", 1, [(0, true)], []), ("K2", 3, [(1, false)], ["X", "Y"])] := by decide

/-- the end-to-end theorem instantiated on the small document: whatever the engine holds as
    incumbent has two entries, each `null`, `0` or `1` -/
example (R : RoomFns) (top T : Nat) :
    letI := solverOf (SM.toInst C14_doc_ps C14_doc_cs (some [3, 2])) R
    ∀ c : Eng3.Cfg Node (List (Option Nat)),
      Eng3.Reach rootNode top T c → ∀ al, c.best = some al →
      al.length = 2 ∧ ∀ x ∈ al, x = none ∨ ∃ k, x = some k ∧ k < 2 := by
  intro c hr al hal
  obtain ⟨pv, cv, hp, hc, h1, h2, _, _⟩ :=
    C14_simple_end_to_end C14_doc C14_doc_ps C14_doc_cs (some [3, 2]) R rfl (by decide) top T c hr al hal
  have hp' : C14_doc.get "participants" = some (.arr pv) := hp
  have hc' : C14_doc.get "courses" = some (.arr cv) := hc
  simp only [C14_doc, J.get, J.lookup] at hp' hc'
  simp at hp' hc'
  subst hp' hc'
  exact ⟨h1, h2⟩

#print axioms C14_mapM'_shape
#print axioms C14_mapM'_complete
#print axioms C14_mapM'_all_or_nothing
#print axioms C14_read_shape
#print axioms C14_read_complete
#print axioms C14_read_all_or_nothing
#print axioms C14_choice_fields
#print axioms C14_part_obj
#print axioms C14_part_fields
#print axioms C14_course_obj
#print axioms C14_course_fields
#print axioms C14_dedup_nodup
#print axioms C14_dedup_mem
#print axioms C14_dedup_mem_nil
#print axioms C14_dedup_sublist
#print axioms C14_dedup_first_occurrences
#print axioms C14_render_blocks
#print axioms C14_blocks_length
#print axioms C14_block
#print axioms C14_simple_listing
#print axioms C14_simple_end_to_end

end Props
