import Cdecao.Proofs.AssignQuality
/-! # C08 (assignment half) — `AssignmentQualityInfo::from_caobab_assignment(..).get_quality()`
    yields the figure of `solution_quality(score, ..)` -/
namespace Props
open N2

/-- for an assignment satisfying the hard constraints, with no participant naming a course twice,
    the quality figure computed from the assignment by `from_caobab_assignment` + `get_quality`
    is the (numerator, denominator) pair `solution_quality` computes from the documented score.
    The fall-back penalties `u` (unassigned) and `f` (unfulfilled) are arbitrary: they are never
    used under the hard constraints. -/
theorem C08_assignment_quality (I : Inst) (hpen : QM.PenOK I) (a : Nat → Option Nat)
    (h : G.HardOK I a)
    (hnd : ∀ p, p < I.P → ((I.part p).choices.map (fun ch => ch.course)).Nodup) (u f : Nat) :
    QM.getQuality (QM.fromAssignment I a u f) = QM.quality I (G.scoreOfL I a) :=
  QM.assignment_quality I hpen a h hnd u f

/-- the data collected by the loop: instructors + penalties pushed = participants with choices,
    and the pushed penalties sum to the penalties paid -/
theorem C08_assignment_quality_shape (I : Inst) (a : Nat → Option Nat) (h : G.HardOK I a)
    (hnd : ∀ p, p < I.P → ((I.part p).choices.map (fun ch => ch.course)).Nodup) (u f : Nat) :
    (QM.fromAssignment I a u f).1 + (QM.fromAssignment I a u f).2.length = (QM.realParts I).length ∧
    (QM.fromAssignment I a u f).2.sum = QM.totalPenalty I a :=
  QM.fromAssignment_shape I a h hnd u f

/-- the `Nodup` hypothesis cannot be dropped: participant 0 of `QM.dupI` names course 0 twice
    (penalty 3, then 1) and is assigned to it; the penalties do not exceed `W`, the hard
    constraints hold, but the loop finds the first choice (3) while the score was built from the
    last one (1). (`HardOK` is established through its decision procedure `hardOKb`, evaluated by
    `decide`; both figures are evaluated by the kernel.) -/
theorem C08_assignment_quality_needs_nodup :
    QM.PenOK QM.dupI ∧ G.HardOK QM.dupI QM.dupA ∧
    ∀ u f, QM.getQuality (QM.fromAssignment QM.dupI QM.dupA u f) = (3, 1) ∧
      QM.quality QM.dupI (G.scoreOfL QM.dupI QM.dupA) = (1, 1) ∧
      QM.getQuality (QM.fromAssignment QM.dupI QM.dupA u f) ≠
        QM.quality QM.dupI (G.scoreOfL QM.dupI QM.dupA) := by
  refine ⟨?_, (G.hardOKb_iff _ _).1 (by decide), fun u f => ⟨rfl, by decide, ?_⟩⟩
  · intro p ch hm
    match p with
    | 0 =>
      have : ∀ ch ∈ (QM.dupI.part 0).choices, ch.penalty ≤ G.W := by decide
      exact this ch hm
    | p + 1 =>
      have e : (QM.dupI.part (p + 1)).choices = [] := rfl
      rw [e] at hm; cases hm
  · have e1 : QM.getQuality (QM.fromAssignment QM.dupI QM.dupA u f) = (3, 1) := rfl
    rw [e1]; decide

/-- non-vacuity: an instance and assignment satisfying every hypothesis of
    `C08_assignment_quality`, with both sides equal to 4/3 -/
example : validb QM.nvI = true := by decide
example : QM.PenOK QM.nvI := QM.penOK_of_valid (by decide)
example : G.HardOK QM.nvI QM.nvA := (G.hardOKb_iff _ _).1 (by decide)
example : ∀ p, p < QM.nvI.P → ((QM.nvI.part p).choices.map (fun ch => ch.course)).Nodup := by decide
example : QM.fromAssignment QM.nvI QM.nvA 7 9 = (1, [1, 3]) := by decide
example : QM.getQuality (QM.fromAssignment QM.nvI QM.nvA 7 9) = (4, 3) ∧
    QM.quality QM.nvI (G.scoreOfL QM.nvI QM.nvA) = (4, 3) := by decide

end Props
