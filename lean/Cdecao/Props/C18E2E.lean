import Cdecao.Props.C06
import Cdecao.Props.C18
/-! # C18 end to end: the possible-rooms listing of every REPORTED solution is sound

`C06_exec` says that the incumbent of the parallel search passes the room check `RSpec.roomOKb`;
`C18_specSound` says that for every room-feasible vector of effective sizes (`RM.fits`) the listing
`RM.possibleByCourse` satisfies the executable C18 specification. The bridge `roomOKb_fits` (the two
rank-wise comparisons are the same: zeros sort last) composes them: for every instance with a room
list, every float behaviour, thread count and schedule, whatever the search reports gets a listing in
which every listed room is large enough, exists, and occurs in a complete allocation of distinct
rooms, and every course that takes place is offered a room. -/
set_option linter.style.haveILetI false
namespace Props
open N2

/-- the solver's room check implies the premise of the listing theorems -/
theorem roomOKb_fits (I : Inst) (R : RoomFns) (a : Nat → Option Nat) (rooms : List Nat)
    (h : RSpec.roomOKb I R a rooms = true) : RM.fits (RSpec.sizes I R a) rooms = true := by
  rw [RMP.fits_iff (RMP.sortDesc_GE (RSpec.sizes I R a)) (RMP.sortDesc_perm _) (RMP.sortDesc_GE rooms) (RMP.sortDesc_perm _)]
  intro i
  simp only [RSpec.roomOKb, List.all_eq_true, List.mem_range, decide_eq_true_eq] at h
  by_cases hi : i < (RSpec.sortDesc (RSpec.sizes I R a)).length
  · exact h i hi
  · have hi' : (RM.sortDesc (RSpec.sizes I R a)).length ≤ i := Nat.le_of_not_lt hi
    have : (RM.sortDesc (RSpec.sizes I R a)).getD i 0 = 0 := by
      rw [List.getD_eq_getElem?_getD, List.getElem?_eq_none hi']; rfl
    rw [this]; exact Nat.zero_le _

theorem length_sizes (I : Inst) (R : RoomFns) (a : Nat → Option Nat) : (RSpec.sizes I R a).length = I.C := by
  simp [RSpec.sizes]

/-- **C18 end to end (executable specification)**: whatever the search reports under a room list —
    any thread count, any schedule, any float behaviour — the listing computed from its effective
    sizes (for ANY sorting order of equally sized courses) passes `specSound` and `specNonempty` -/
theorem C18_end_to_end (I : Inst) (R : RoomFns) (rooms padded : List Nat) (hr : I.rooms = some rooms)
    (hp : I.roomSizes = some padded) (top T : Nat) :
    letI := solverOf I R
    ∀ c : Eng3.Cfg Node (List (Option Nat)),
      Eng3.Reach rootNode top T c → ∀ al, c.best = some al →
      ∃ a : Nat → Option Nat, al = (List.range I.P).map a ∧
        ∀ order, RM.orderOk (RSpec.sizes I R a) order = true →
          RM.specSound (RSpec.sizes I R a) rooms (RM.possibleByCourse (RSpec.sizes I R a) order rooms) = true ∧
          RM.specNonempty (RSpec.sizes I R a) (RM.possibleByCourse (RSpec.sizes I R a) order rooms) = true := by
  letI := solverOf I R
  intro c hreach al hal
  obtain ⟨a, h1, h2⟩ := C06_exec I R rooms padded hr hp top T c hreach al hal
  exact ⟨a, h1, fun order hO => C18_specSound _ order rooms hO (roomOKb_fits I R a rooms h2)⟩

/-- **C18 end to end, spelled out**: every room size listed for a course of a reported solution is
    at least the course's effective size, is the size of an existing room, and occurs in a complete
    allocation of distinct rooms to all courses that take place; every course that takes place
    (positive effective size) is offered at least one room -/
theorem C18_end_to_end_meaning (I : Inst) (R : RoomFns) (rooms padded : List Nat) (hr : I.rooms = some rooms)
    (hp : I.roomSizes = some padded) (top T : Nat) :
    letI := solverOf I R
    ∀ c : Eng3.Cfg Node (List (Option Nat)),
      Eng3.Reach rootNode top T c → ∀ al, c.best = some al →
      ∃ a : Nat → Option Nat, al = (List.range I.P).map a ∧
        ∀ order, RM.orderOk (RSpec.sizes I R a) order = true → ∀ crs, crs < I.C →
          (∀ v, v ∈ (RM.possibleByCourse (RSpec.sizes I R a) order rooms).getD crs [] →
            (RSpec.sizes I R a).getD crs 0 ≤ v ∧ v ∈ rooms ∧
            ∃ g : Nat → Nat, RMP.CAlloc (RSpec.sizes I R a) rooms g ∧ g crs < rooms.length ∧ rooms.getD (g crs) 0 = v ∧
              ∀ c', c' < (RSpec.sizes I R a).length → g c' = g crs → c' = crs) ∧
          (0 < (RSpec.sizes I R a).getD crs 0 → (RM.possibleByCourse (RSpec.sizes I R a) order rooms).getD crs [] ≠ []) := by
  letI := solverOf I R
  intro c hreach al hal
  obtain ⟨a, h1, h2⟩ := C06_exec I R rooms padded hr hp top T c hreach al hal
  have hF := roomOKb_fits I R a rooms h2
  refine ⟨a, h1, fun order hO crs hc => ⟨fun v hv => ?_, fun hpos => ?_⟩⟩
  · exact C18_byCourse_sound _ order rooms hO hF crs (by rw [length_sizes]; exact hc) v hv
  · exact C18_byCourse_nonempty _ order rooms hO hF crs (by rw [length_sizes]; exact hc) hpos

end Props
