import Cdecao.Engine.Core
import Cdecao.Engine.BabOpt
/-! # C03 — verdict and score do not depend on thread count or thread interleaving -/
namespace Props
open Eng3
variable {ν σ : Type} [Solver ν σ]

/-- C03 for the engine: two finished runs on the same bounded tree — any two thread counts, any
    two schedules (critical-section orders, pop choices, wake-up choices, spurious wake-ups) — agree
    on whether a solution is found and on its score. -/
theorem C03 {root : ν} {top T₁ T₂ : Nat} {c₁ c₂ : Cfg ν σ} (h1 : 0 < T₁) (h2 : 0 < T₂)
    (hb : Bounded root) (htop : ∀ f sc, Desc f root → IsFeas f sc → sc ≤ top)
    (hr1 : Reach root top T₁ c₁) (hd1 : AllDone c₁) (hr2 : Reach root top T₂ c₂) (hd2 : AllDone c₂) :
    (c₁.best = none ↔ c₂.best = none) ∧ (c₁.best ≠ none → c₁.bestScore = c₂.bestScore) :=
  C03_engine h1 h2 hb htop hr1 hd1 hr2 hd2

/-- the premise `Bounded` follows from a node-level specification of the solver (`NodeSpec`) -/
theorem C03_bounded_of_spec {S : Type} {score : S → Nat} {Sol : ν → S → Prop} {sem : σ → S} {μ : ν → Nat}
    (h : NodeSpec S score Sol sem μ) (root : ν) : Bounded root :=
  bounded_of_spec h root

end Props
