import Cdecao.Props.C03F11
import Cdecao.Engine.Core
import Cdecao.Engine.BabOpt
import Cdecao.Proofs.NodeSpecAsm
import Cdecao.Proofs.SpecExec
import Cdecao.Props.C02
/-! # C03 — verdict and score do not depend on thread count or thread interleaving -/
namespace Props
open Eng3
variable {ν σ : Type} [Solver ν σ]

/-- C03 for the engine: two finished runs on the same bounded tree — any two thread counts, any
    two schedules (critical-section orders, pop choices, wake-up choices, spurious wake-ups) — agree
    on whether a solution is found and on its score. -/
theorem C03 {root : ν} {top T₁ T₂ : Nat} {c₁ c₂ : Cfg ν σ} (h1 : 0 < T₁) (h2 : 0 < T₂)
    (hb : Bounded root) (htop : ∀ f sc, Desc f root → IsFeas f sc → sc ≤ top)
    (hr1 : Reach root top T₁ c₁) (hd1 : AllDone c₁) (hr2 : Reach root top T₂ c₂) (hd2 : AllDone c₂) :
    (c₁.best = none ↔ c₂.best = none) ∧ (c₁.best ≠ none → c₁.bestScore = c₂.bestScore) :=
  C03_engine h1 h2 hb htop hr1 hd1 hr2 hd2

/-- the premise `Bounded` follows from a node-level specification of the solver (`NodeSpec`) -/
theorem C03_bounded_of_spec {S : Type} {score : S → Nat} {Sol : ν → S → Prop} {sem : σ → S} {μ : ν → Nat}
    (h : NodeSpec S score Sol sem μ) (root : ν) : Bounded root :=
  bounded_of_spec h root

/-- **C03 for caobab**, class outside F1, WITH OR WITHOUT a room list and for every float
    behaviour `R`: two finished runs of the parallel search on the same valid instance — any two
    thread counts, any two schedules — agree on whether a solution is found and on its score. -/
theorem C03_caobab (I : N2.Inst) (R : N2.RoomFns) (hv : N2.validb I = true) (hnf : N2.noFreeableb I = true)
    (top T₁ T₂ : Nat) (h1 : 0 < T₁) (h2 : 0 < T₂) (htop : I.P * N2.G.W ≤ top) :
    letI := N2.solverOf I R
    ∀ c₁ c₂ : Cfg N2.Node (List (Option Nat)),
      Reach N2.rootNode top T₁ c₁ → AllDone c₁ → Reach N2.rootNode top T₂ c₂ → AllDone c₂ →
      (c₁.best = none ↔ c₂.best = none) ∧ (c₁.best ≠ none → c₁.bestScore = c₂.bestScore) := by
  letI := N2.solverOf I R
  intro c₁ c₂ hr1 hd1 hr2 hd2
  obtain ⟨hI, hmm, _⟩ := N2.validb_sound I hv
  have hb := N2.caobab_bounded I R hI hmm (noFreeableb_sound I hnf)
  refine C03_engine h1 h2 hb ?_ hr1 hd1 hr2 hd2
  -- every feasible node of the tree scores at most P · W
  intro f sc hdf ⟨sol, hf⟩
  have hok := N2.desc_ok2 I R f N2.rootNode hdf (N2.nodeOK2_root I)
  have hrun := N2.res_feasible I R f sol sc hf
  obtain ⟨a, _, _, hsc⟩ := N2.feas_in_sol I R f hI hmm hok sol sc hrun
  rw [hsc]
  exact Nat.le_trans (N2.scoreOf_le I a) htop

end Props
