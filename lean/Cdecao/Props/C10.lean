import Cdecao.Proofs.NodeEng3
/-! # C10 (solver half) — valid instances never reach a panic site of the node solver -/
namespace Props
open N2

/-- for a well-formed instance with `num_min ≤ num_max` and a node satisfying the tree invariant,
    `run_bab_node` (including the Hungarian routine inside) reaches none of its panic sites -/
theorem C10_node (I : Inst) (R : RoomFns) (nd : Node) (hI : InstOK I)
    (hmm : ∀ c, c < I.C → (I.course c).numMin ≤ (I.course c).numMax) (hn : NodeOK2 I nd) :
    ∃ r, runNodeS I R nd = .ok r :=
  node_total I R nd hI hmm hn

/-- no node of the search tree (whatever the room list and the float behaviour) makes the solver
    panic: over-subscribed instances, zero-size courses and courses without candidates included -/
theorem C10_tree (I : Inst) (R : RoomFns) (hI : InstOK I)
    (hmm : ∀ c, c < I.C → (I.course c).numMin ≤ (I.course c).numMax) :
    letI := solverOf I R
    ∀ f : Node, Eng3.Desc f rootNode → Eng3.Solver.res f ≠ (Eng3.Res.panic : Eng3.Res (List (Option Nat))) :=
  tree_no_panic I R hI hmm

end Props
