import Cdecao.Props.C01Cde
import Cdecao.Proofs.NodeEng3
import Cdecao.Model.Cli
/-! # C10 (solver half) — valid instances never reach a panic site of the node solver -/
namespace Props
open N2

/-- for a well-formed instance with `num_min ≤ num_max` and a node satisfying the tree invariant,
    `run_bab_node` (including the Hungarian routine inside) reaches none of its panic sites -/
theorem C10_node (I : Inst) (R : RoomFns) (nd : Node) (hI : InstOK I)
    (hmm : ∀ c, c < I.C → (I.course c).numMin ≤ (I.course c).numMax) (hn : NodeOK2 I nd) :
    ∃ r, runNodeS I R nd = .ok r :=
  node_total I R nd hI hmm hn

/-- no node of the search tree (whatever the room list and the float behaviour) makes the solver
    panic: over-subscribed instances, zero-size courses and courses without candidates included -/
theorem C10_tree (I : Inst) (R : RoomFns) (hI : InstOK I)
    (hmm : ∀ c, c < I.C → (I.course c).numMin ≤ (I.course c).numMax) :
    letI := solverOf I R
    ∀ f : Node, Eng3.Desc f rootNode → Eng3.Solver.res f ≠ (Eng3.Res.panic : Eng3.Res (List (Option Nat))) :=
  tree_no_panic I R hI hmm

end Props

namespace Props
open CLI

/-- CLI half (decision logic of main.rs after the solver returned): without a solution the exit
    status is 1 and no file is written; with a solution and no output fault it is 0 and the file,
    if requested, is complete -/
theorem C10_cli (found print : Bool) (f : OutFaults) (hc : f.created = true) (hw : f.written = true) :
    (found = false → (outputStage found print f).exit = 1 ∧ (outputStage found print f).fileComplete = false) ∧
    (found = true → (outputStage found print f).exit = 0 ∧ (outputStage found print f).fileComplete = f.requested) := by
  cases found <;> cases hr : f.requested <;> simp [outputStage, hc, hw, hr]

end Props
