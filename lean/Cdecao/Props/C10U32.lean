import Cdecao.Proofs.ScoreBounds
import Cdecao.Proofs.QualityProofs
/-! # C10 (arithmetic half) — the scores fit the machine types

The model computes scores in unbounded `Nat`; the Rust program holds them in `u32` (`Score = u32`)
and computes the solution quality in `usize`. Under an explicit size bound on the instance no score
the model ever computes reaches `2^32`, and the subtraction in `solution_quality` does not underflow.
`I.m` is the total number of course places (the number of matrix columns), `I.P` the number of
participants, `50000` the constant `WEIGHT`. -/
namespace Props
open N2

/-- explicit bound, node level: whatever the node (inside the search tree or not) and whatever the
    room arithmetic, a score reported by `run_bab_node` — with an infeasible or a feasible verdict — is
    at most `(number of course places + number of instructor entries) * WEIGHT` -/
theorem C10_node_score_le (I : Inst) (R : RoomFns) (nd : Node)
    (hpen : ∀ p ch, ch ∈ (I.part p).choices → ch.penalty ≤ WEIGHT) :
    (∀ kids s, runNodeS I R nd = .ok (.infeasible kids s) →
      s ≤ (I.m + I.allInstructors.length) * WEIGHT) ∧
    (∀ al s, runNodeS I R nd = .ok (.feasible al s) →
      s ≤ (I.m + I.allInstructors.length) * WEIGHT) :=
  node_score_le I R nd hpen

/-- explicit bound, engine level: at every reachable configuration of the parallel search — any thread
    count `T`, any schedule, any initial parent score `top` of the root — the incumbent's score and
    the parent score stored with every pending node obey the node bound (resp. `top`) -/
theorem C10_engine_scores_le (I : Inst) (R : RoomFns)
    (hpen : ∀ p ch, ch ∈ (I.part p).choices → ch.penalty ≤ WEIGHT) (top T : Nat) :
    letI := solverOf I R
    ∀ c : Eng3.Cfg Node (List (Option Nat)), Eng3.Reach rootNode top T c →
      c.bestScore ≤ (I.m + I.allInstructors.length) * WEIGHT ∧
      ∀ e ∈ c.pending, e.2 ≤ max top ((I.m + I.allInstructors.length) * WEIGHT) :=
  engine_scores_le I R hpen top T

/-- a valid instance lists at most `I.P` instructor entries over all courses together -/
theorem C10_instructor_entries_le (I : Inst) (hv : validb I = true) :
    I.allInstructors.length ≤ I.P :=
  allInstructors_length_le_of_valid I hv

/-- node level: for a valid instance with `(I.m + I.P) * 50000 < 2^32` every score `run_bab_node`
    reports, on any node, fits `u32` -/
theorem C10_node_scores_fit_u32 (I : Inst) (R : RoomFns) (nd : Node) (hv : validb I = true)
    (hsz : (I.m + I.P) * 50000 < 2 ^ 32) :
    (∀ kids s, runNodeS I R nd = .ok (.infeasible kids s) → s < 2 ^ 32) ∧
    (∀ al s, runNodeS I R nd = .ok (.feasible al s) → s < 2 ^ 32) := by
  have hpen := (validb_sound I hv).1.pen
  have hb := scoreBound_le_of_valid I hv
  obtain ⟨h1, h2⟩ := node_score_le I R nd hpen
  exact ⟨fun kids s h => Nat.lt_of_le_of_lt (Nat.le_trans (h1 kids s h) hb) hsz,
    fun al s h => Nat.lt_of_le_of_lt (Nat.le_trans (h2 al s h) hb) hsz⟩

/-- C10, `u32` scores: for a valid instance with `(I.m + I.P) * 50000 < 2^32`
    * every score the node solver reports on any node fits `u32`, and
    * at every reachable configuration of the parallel search (any thread count, any schedule, root
      pushed with a parent score `top < 2^32`; the program uses `u32::MAX`) the incumbent's score and
      the parent score of every pending node fit `u32` -/
theorem C10_scores_fit_u32 (I : Inst) (R : RoomFns) (hv : validb I = true)
    (hsz : (I.m + I.P) * 50000 < 2 ^ 32) :
    (∀ nd : Node,
      (∀ kids s, runNodeS I R nd = .ok (.infeasible kids s) → s < 2 ^ 32) ∧
      (∀ al s, runNodeS I R nd = .ok (.feasible al s) → s < 2 ^ 32)) ∧
    (∀ top T : Nat, top < 2 ^ 32 →
      letI := solverOf I R
      ∀ c : Eng3.Cfg Node (List (Option Nat)), Eng3.Reach rootNode top T c →
        c.bestScore < 2 ^ 32 ∧ ∀ e ∈ c.pending, e.2 < 2 ^ 32) := by
  refine ⟨fun nd => C10_node_scores_fit_u32 I R nd hv hsz, ?_⟩
  intro top T htop
  have hpen := (validb_sound I hv).1.pen
  have hb := scoreBound_le_of_valid I hv
  intro c hr
  obtain ⟨h1, h2⟩ := engine_scores_le I R hpen top T c hr
  refine ⟨Nat.lt_of_le_of_lt (Nat.le_trans h1 hb) hsz, ?_⟩
  intro e he
  have := h2 e he
  rcases Nat.le_total top ((I.m + I.allInstructors.length) * WEIGHT) with hle | hle
  · rw [Nat.max_eq_right hle] at this
    exact Nat.lt_of_le_of_lt (Nat.le_trans this hb) hsz
  · rw [Nat.max_eq_left hle] at this
    exact Nat.lt_of_le_of_lt this htop

/-- C10, quality arithmetic: with all penalties at most `WEIGHT` (true of every valid instance)
    * the theoretical maximum score is at most `I.P * 50000`,
    * the number of participants with choices is at most `I.P`, and
    * the documented score of every assignment is at most `numReal I * 50000`, so the subtraction
      `numReal * WEIGHT - score` in `solution_quality` does not underflow -/
theorem C10_quality_fits (I : Inst)
    (hpen : ∀ p ch, ch ∈ (I.part p).choices → ch.penalty ≤ 50000) :
    QM.theoreticalMax I ≤ I.P * 50000 ∧
    QM.numReal I ≤ I.P ∧
    (∀ a : Nat → Option Nat, G.scoreOfL I a ≤ QM.numReal I * 50000) := by
  have hn : QM.numReal I ≤ I.P := by
    unfold QM.numReal
    exact Nat.le_trans List.countP_le_length (by simp)
  refine ⟨?_, hn, fun a => QM.score_le I hpen a⟩
  exact Nat.le_trans (QM.theoreticalMax_le I) (Nat.mul_le_mul_right _ hn)

/-- the same for a valid instance, with the machine bound: if `I.P * 50000 < 2^32` every quantity of
    the quality computation is below `2^32` -/
theorem C10_quality_fits_valid (I : Inst) (hv : validb I = true) (hsz : I.P * 50000 < 2 ^ 32) :
    QM.theoreticalMax I < 2 ^ 32 ∧
    QM.numReal I * 50000 < 2 ^ 32 ∧
    (∀ a : Nat → Option Nat, G.scoreOfL I a ≤ QM.numReal I * 50000 ∧ G.scoreOfL I a < 2 ^ 32) := by
  obtain ⟨h1, h2, h3⟩ := C10_quality_fits I (validb_sound I hv).1.pen
  have h4 : QM.numReal I * 50000 ≤ I.P * 50000 := Nat.mul_le_mul_right _ h2
  exact ⟨Nat.lt_of_le_of_lt h1 hsz, Nat.lt_of_le_of_lt h4 hsz,
    fun a => ⟨h3 a, Nat.lt_of_le_of_lt (Nat.le_trans (h3 a) h4) hsz⟩⟩

/-! ### non-vacuity: a concrete instance satisfying the hypotheses -/

section Example
/-- course 0 (1–2 attendees, instructor 0), course 1 (fixed, 0–3 attendees);
    participant 0 instructor-only, 1 chose 0 (penalty 0) and 1 (penalty 5), 2 chose 1 (penalty 7) -/
def exU32 : Inst :=
  { cs := [⟨1, 2, false, [0]⟩, ⟨0, 3, true, []⟩]
    ps := [⟨[]⟩, ⟨[⟨0, 0⟩, ⟨1, 5⟩]⟩, ⟨[⟨1, 7⟩]⟩]
    rooms := none }

example : validb exU32 = true ∧ (exU32.m + exU32.P) * 50000 < 2 ^ 32 := by decide
example : exU32.m = 5 ∧ exU32.P = 3 ∧ exU32.allInstructors.length = 1 := by decide
example : exU32.P * 50000 < 2 ^ 32 := by decide

/-- the theorems apply to it -/
example (R : RoomFns) (nd : Node) (al : List (Option Nat)) (s : Nat)
    (h : runNodeS exU32 R nd = .ok (.feasible al s)) : s < 2 ^ 32 :=
  ((C10_scores_fit_u32 exU32 R (by decide) (by decide)).1 nd).2 al s h

/-- and the conclusion is not vacuous either: the root node of this instance reports a score -/
example (R : RoomFns) :
    runNodeS exU32 R rootNode = .ok (.feasible [some 0, some 0, some 1] 99993) := by rfl
end Example

end Props
