import Cdecao.Engine.Core
import Cdecao.Engine.Term
import Cdecao.Engine.Final
/-! # C04 — the parallel search always terminates and accounts for every subproblem once -/
namespace Props
open Eng3
variable {ν σ : Type} [Solver ν σ]

/-- no deadlock, no lost wake-up: in every reachable configuration in which some worker has not
    stopped, some thread can take a step that is not a wake-up — so a state in which everybody
    sleeps and nobody will notify is unreachable. Every `T ≥ 1`, every schedule, spurious wake-ups
    included (a `wake` event may hit any sleeper at any time). -/
theorem C04_no_deadlock {root : ν} {top T : Nat} {c : Cfg ν σ} (hT : 0 < T)
    (hr : Reach root top T c) (hnd : ¬ AllFinished c) :
    ∃ ev, ev.isWake = false ∧ (step? c ev).isSome = true :=
  Eng3.C04_no_deadlock hT hr hnd

/-- a worker never stops while work remains: if some worker is `done`, the queue is empty and
    nobody is busy -/
theorem C04_done_means_finished {root : ν} {top T : Nat} {c : Cfg ν σ} (hT : 0 < T)
    (hr : Reach root top T c) (t : Nat) (h : c.pcs[t]? = some Pc.done) :
    c.pending = [] ∧ c.busy = 0 :=
  (reach_linv hT hr).fin2 t h

/-- the statistics equations are an invariant of the product system (`statsUpd` mirrors the
    counter updates of bab.rs): executed = no-solution + infeasible + feasible and
    generated = executed + bound + pending + busy + panicked -/
theorem C04_stats_step {c c' : Cfg ν σ} {st : Stats} {ev : Ev} (hl : LInv c) (h : SInv c st)
    (hs : step? c ev = some c') : SInv c' (statsUpd c st ev) :=
  sinv_step hl h hs

/-- bounded work: with a budget `W` on subproblems (exists iff the tree is finite), every event
    other than a wake-up lowers the potential `Psi`, up to 3 per sleeper the event wakes -/
theorem C04_bounded_work (W : ν → Nat) (hW : Budget W) {c c' : Cfg ν σ} {ev : Ev} (hs : step? c ev = some c') :
    Psi W c' + (if ev.isWake then 0 else 1) ≤ Psi W c + 3 * wakes c ev :=
  psi_step W hW hs

/-- the statistics equations hold in every reachable state of the product system (configuration,
    counters), started with `gen = 1` for the root -/
theorem C04_stats_reach {root : ν} {top T : Nat} {c : Cfg ν σ} {st : Stats} (hT : 0 < T)
    (hr : ReachS root top T (c, st)) : SInv c st :=
  reachS_sinv hT hr

/-- the ghost counter `panicked` is the number of workers that are `dying` or `dead` -/
theorem C04_panicked {root : ν} {top T : Nat} {c : Cfg ν σ} {st : Stats}
    (hr : ReachS root top T (c, st)) : st.panicked = c.pcs.countP isGone :=
  reachS_pinv hr

/-- every subproblem is accounted for exactly once: when all workers have stopped normally,
    executed = no-solution + infeasible + feasible and generated = executed + bound -/
theorem C04_stats_at_done {root : ν} {top T : Nat} {c : Cfg ν σ} {st : Stats} (hT : 0 < T)
    (hr : ReachS root top T (c, st)) (hd : AllDone c) :
    st.executed = st.noSol + st.infeasible + st.feasible ∧ st.gen = st.executed + st.bound :=
  stats_at_done hT hr hd

/-- with panics: when every worker has stopped, the generated subproblems not executed or bounded
    are those left in the queue and one per dead worker -/
theorem C04_stats_at_finished {root : ν} {top T : Nat} {c : Cfg ν σ} {st : Stats} (hT : 0 < T)
    (hr : ReachS root top T (c, st)) (hd : AllFinished c) :
    st.executed = st.noSol + st.infeasible + st.feasible ∧
    st.gen = st.executed + st.bound + c.pending.length + st.panicked ∧
    st.panicked = c.pcs.countP (fun pc => match pc with | .dead => true | _ => false) :=
  stats_at_finished hT hr hd

/-- a worker that has returned stays returned: `done` is absorbing -/
theorem C04_done_absorbing {c c' : Cfg ν σ} {ev : Ev} (hs : step? c ev = some c') {t : Nat}
    (hp : c.pcs[t]? = some Pc.done) : c'.pcs[t]? = some Pc.done :=
  done_absorbing hs hp

/-- `solve` returns normally (the join loop passes every worker) exactly when all are `done`, and
    that verdict is final -/
theorem C04_join {c c' : Cfg ν σ} (hs : Steps c c') (h : AllDone c) :
    outcome c.pcs = some false ∧ outcome c'.pcs = some false :=
  ⟨(outcome_false_iff_allDone c).2 h, outcome_stable hs ((outcome_false_iff_allDone c).2 h)⟩

end Props
