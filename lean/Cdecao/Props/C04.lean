import Cdecao.Engine.Core
import Cdecao.Engine.Term
import Cdecao.Engine.Final
import Cdecao.Engine.Account
/-! # C04 — the parallel search always terminates and accounts for every subproblem once -/
namespace Props
open Eng3
variable {ν σ : Type} [Solver ν σ]

/-- no deadlock, no lost wake-up: in every reachable configuration in which some worker has not
    stopped, some thread can take a step that is not a wake-up — so a state in which everybody
    sleeps and nobody will notify is unreachable. Every `T ≥ 1`, every schedule, spurious wake-ups
    included (a `wake` event may hit any sleeper at any time). -/
theorem C04_no_deadlock {root : ν} {top T : Nat} {c : Cfg ν σ} (hT : 0 < T)
    (hr : Reach root top T c) (hnd : ¬ AllFinished c) :
    ∃ ev, ev.isWake = false ∧ (step? c ev).isSome = true :=
  Eng3.C04_no_deadlock hT hr hnd

/-- a worker never stops while work remains: if some worker is `done`, the queue is empty and
    nobody is busy -/
theorem C04_done_means_finished {root : ν} {top T : Nat} {c : Cfg ν σ} (hT : 0 < T)
    (hr : Reach root top T c) (t : Nat) (h : c.pcs[t]? = some Pc.done) :
    c.pending = [] ∧ c.busy = 0 :=
  (reach_linv hT hr).fin2 t h

/-- the statistics equations are an invariant of the product system (`statsUpd` mirrors the
    counter updates of bab.rs): executed = no-solution + infeasible + feasible and
    generated = executed + bound + pending + busy + panicked -/
theorem C04_stats_step {c c' : Cfg ν σ} {st : Stats} {ev : Ev} (hl : LInv c) (h : SInv c st)
    (hs : step? c ev = some c') : SInv c' (statsUpd c st ev) :=
  sinv_step hl h hs

/-- bounded work: with a budget `W` on subproblems (exists iff the tree is finite), every event
    other than a wake-up lowers the potential `Psi`, up to 3 per sleeper the event wakes -/
theorem C04_bounded_work (W : ν → Nat) (hW : Budget W) {c c' : Cfg ν σ} {ev : Ev} (hs : step? c ev = some c') :
    Psi W c' + (if ev.isWake then 0 else 1) ≤ Psi W c + 3 * wakes c ev :=
  psi_step W hW hs

/-- the statistics equations hold in every reachable state of the product system (configuration,
    counters), started with `gen = 1` for the root -/
theorem C04_stats_reach {root : ν} {top T : Nat} {c : Cfg ν σ} {st : Stats} (hT : 0 < T)
    (hr : ReachS root top T (c, st)) : SInv c st :=
  reachS_sinv hT hr

/-- the ghost counter `panicked` is the number of workers that are `dying` or `dead` -/
theorem C04_panicked {root : ν} {top T : Nat} {c : Cfg ν σ} {st : Stats}
    (hr : ReachS root top T (c, st)) : st.panicked = c.pcs.countP isGone :=
  reachS_pinv hr

/-- every subproblem is accounted for exactly once: when all workers have stopped normally,
    executed = no-solution + infeasible + feasible and generated = executed + bound -/
theorem C04_stats_at_done {root : ν} {top T : Nat} {c : Cfg ν σ} {st : Stats} (hT : 0 < T)
    (hr : ReachS root top T (c, st)) (hd : AllDone c) :
    st.executed = st.noSol + st.infeasible + st.feasible ∧ st.gen = st.executed + st.bound :=
  stats_at_done hT hr hd

/-- with panics: when every worker has stopped, the generated subproblems not executed or bounded
    are those left in the queue and one per dead worker -/
theorem C04_stats_at_finished {root : ν} {top T : Nat} {c : Cfg ν σ} {st : Stats} (hT : 0 < T)
    (hr : ReachS root top T (c, st)) (hd : AllFinished c) :
    st.executed = st.noSol + st.infeasible + st.feasible ∧
    st.gen = st.executed + st.bound + c.pending.length + st.panicked ∧
    st.panicked = c.pcs.countP (fun pc => match pc with | .dead => true | _ => false) :=
  stats_at_finished hT hr hd

/-- a worker that has returned stays returned: `done` is absorbing -/
theorem C04_done_absorbing {c c' : Cfg ν σ} {ev : Ev} (hs : step? c ev = some c') {t : Nat}
    (hp : c.pcs[t]? = some Pc.done) : c'.pcs[t]? = some Pc.done :=
  done_absorbing hs hp

/-- `solve` returns normally (the join loop passes every worker) exactly when all are `done`, and
    that verdict is final -/
theorem C04_join {c c' : Cfg ν σ} (hs : Steps c c') (h : AllDone c) :
    outcome c.pcs = some false ∧ outcome c'.pcs = some false :=
  ⟨(outcome_false_iff_allDone c).2 h, outcome_stable hs ((outcome_false_iff_allDone c).2 h)⟩

/-! ### every generated subproblem is solved exactly once or bounded exactly once

`Ghost` (Engine/Account.lean) is a history computed alongside the transition system: `gen` (the root,
then every child in the order it is pushed), `solved` (results applied), `bounded` (popped and
discarded by bounding), `failed` (solver panicked).  `ReachG` is reachability in the product of the
transition system with `statsUpd` and `ghostUpd`. -/

/-- the accounting invariant, in every reachable state, every `T`, every schedule: as multisets,
    generated = solved + bounded + failed + in flight + queued -/
theorem C04_exactly_once {root : ν} {top T : Nat} {c : Cfg ν σ} {st : Stats} {g : Ghost ν}
    (hr : ReachG root top T (c, st, g)) :
    List.Perm g.gen (g.solved ++ g.bounded ++ g.failed ++ flying c.pcs ++ pendNodes c.pending) :=
  reachG_ainv hr

/-- the invariant is inductive: one step of the product system preserves it -/
theorem C04_exactly_once_step {c c' : Cfg ν σ} {g : Ghost ν} {ev : Ev} (h : AInv c g)
    (hs : step? c ev = some c') : AInv c' (ghostUpd c g ev) :=
  ainv_step h hs

/-- the ghost layer does not restrict the system: every reachable configuration carries a history -/
theorem C04_exactly_once_total {root : ν} {top T : Nat} {c : Cfg ν σ} (hr : Reach root top T c) :
    ∃ st g, ReachG root top T (c, st, g) :=
  reach_reachG hr

/-- when all workers have returned normally (`T ≥ 1`): every generated subproblem has been popped
    exactly once and then either solved once or discarded by bounding once — none twice, none lost,
    none both; nobody panicked; and the statistics counters are the lengths of the ghost lists -/
theorem C04_exactly_once_at_done {root : ν} {top T : Nat} {c : Cfg ν σ} {st : Stats} {g : Ghost ν}
    (hT : 0 < T) (hr : ReachG root top T (c, st, g)) (hd : AllDone c) :
    List.Perm g.gen (g.solved ++ g.bounded) ∧ g.failed = [] ∧
    st.gen = g.gen.length ∧ st.executed = g.solved.length ∧ st.bound = g.bounded.length :=
  account_at_done hT hr hd

/-- with panics: when every worker has stopped, the generated subproblems are those solved, those
    bounded, those whose solver panicked (one per dead worker) and those left in the queue -/
theorem C04_exactly_once_at_finished {root : ν} {top T : Nat} {c : Cfg ν σ} {st : Stats}
    {g : Ghost ν} (hr : ReachG root top T (c, st, g)) (hd : AllFinished c) :
    List.Perm g.gen (g.solved ++ g.bounded ++ g.failed ++ pendNodes c.pending) ∧
    g.failed.length = c.pcs.countP (fun pc => match pc with | .dead => true | _ => false) :=
  account_at_finished hr hd

/-- the counters of bab.rs are the lengths of the ghost lists, in every reachable state -/
theorem C04_exactly_once_stats {root : ν} {top T : Nat} {c : Cfg ν σ} {st : Stats} {g : Ghost ν}
    (hr : ReachG root top T (c, st, g)) :
    st.executed = g.solved.length ∧ st.bound = g.bounded.length ∧ st.gen = g.gen.length ∧
    st.panicked = g.failed.length :=
  let h := ghost_stats hr
  ⟨h.executed, h.bound, h.gen, h.panicked⟩

/-- everything generated is a descendant of the root -/
theorem C04_exactly_once_desc {root : ν} {top T : Nat} {c : Cfg ν σ} {st : Stats} {g : Ghost ν}
    (hr : ReachG root top T (c, st, g)) : ∀ n ∈ g.gen, Desc n root :=
  gen_desc hr

/-- `solved` holds nodes with a verdict, `failed` nodes whose solver panics -/
theorem C04_exactly_once_verdicts {root : ν} {top T : Nat} {c : Cfg ν σ} {st : Stats} {g : Ghost ν}
    (hr : ReachG root top T (c, st, g)) :
    (∀ n ∈ g.solved, isPanic (Solver.res n) = false) ∧ (∀ n ∈ g.failed, isPanic (Solver.res n) = true) :=
  let h := reachG_gres hr
  ⟨h.solved, h.failed⟩

/-- "none twice": if the generated subproblems are pairwise distinct, so are the entries of
    solved, bounded, failed, in flight and queued taken together -/
theorem C04_exactly_once_nodup {root : ν} {top T : Nat} {c : Cfg ν σ} {st : Stats} {g : Ghost ν}
    (hr : ReachG root top T (c, st, g)) (hn : g.gen.Nodup) :
    (g.solved ++ g.bounded ++ g.failed ++ flying c.pcs ++ pendNodes c.pending).Nodup :=
  account_nodup hr hn

/-- with multiplicities: at the end each node occurs among the solved and bounded ones exactly as
    often as it was generated -/
theorem C04_exactly_once_count [BEq ν] {root : ν} {top T : Nat} {c : Cfg ν σ} {st : Stats}
    {g : Ghost ν} (hT : 0 < T) (hr : ReachG root top T (c, st, g)) (hd : AllDone c) (n : ν) :
    g.gen.count n = g.solved.count n + g.bounded.count n :=
  account_count hT hr hd n

/-! ### work bound over whole runs

`Budget W` (`5 + Σ_{k ∈ pushed n} W k ≤ W n` for every `n`) says that the search tree is finite:
`W` drops by at least 5 along every edge, the tree below `n` unfolded to any depth has at most
`W n / 5` entries (`C04_run_bound_budget`), and at most `W root / 5` subproblems are ever generated
(`C04_run_bound_gen`).  `Run c evs c'`: the event list `evs` drives `c` to `c'`; `work evs` counts
the events that are not wake-ups, `wakeEvents evs` the `wake` events (`notify_one` or spurious). -/

/-- what a budget means: no infinite branch, and at most `W n / 5` nodes below `n` -/
theorem C04_run_bound_budget {W : ν → Nat} (hW : Budget W) :
    WellFounded (fun k n : ν => k ∈ pushed n) ∧
    (∀ d n, 5 * (subtree d n).length ≤ W n) ∧ (∀ m n : ν, Desc m n → ∃ d, m ∈ subtree d n) :=
  ⟨budget_wf hW, budget_subtree hW, fun _ _ h => desc_subtree h⟩

/-- at most `W root / 5` subproblems are generated -/
theorem C04_run_bound_gen (W : ν → Nat) (hW : Budget W) {root : ν} {top T : Nat} {c : Cfg ν σ}
    {st : Stats} {g : Ghost ν} (hr : ReachG root top T (c, st, g)) :
    5 * g.gen.length ≤ W root ∧ 5 * st.gen ≤ W root :=
  gen_le_budget W hW hr

/-- `psi_step` summed over a run -/
theorem C04_run_bound_psi (W : ν → Nat) (hW : Budget W) {c c' : Cfg ν σ} {evs : List Ev}
    (h : Run c evs c') : work evs + Psi W c' ≤ Psi W c + 3 * wakesRun c evs :=
  psi_run W hW h

/-- the wake-ups the code causes itself: an `after`/`die` event that wakes anybody stops its own
    thread for good and wakes fewer than `T` sleepers, so over a run of `T` threads at most
    `T * T` sleepers are woken by `notify_all` -/
theorem C04_run_bound_wakes {T : Nat} {c c' : Cfg ν σ} {evs : List Ev} (h : Run c evs c')
    (hT : c.pcs.length = T) : wakesRun c evs ≤ T * T + wakeEvents evs :=
  wakesRun_le h hT

/-- work bound for a run of `T` threads from any configuration -/
theorem C04_run_bound (W : ν → Nat) (hW : Budget W) {T : Nat} {c c' : Cfg ν σ} {evs : List Ev}
    (h : Run c evs c') (hT : c.pcs.length = T) :
    work evs + Psi W c' ≤ Psi W c + 3 * (T * T + wakeEvents evs) :=
  run_bound W hW h hT

/-- work bound from the start: with budget `W` and at most `s` wake events, a run of `T` threads
    takes at most `W root + 3 * T + 3 * (T * T + s)` steps that are not wake-ups; the initial
    potential is `Psi W (init root top T) = W root + 3 * T` -/
theorem C04_run_bound_init (W : ν → Nat) (hW : Budget W) {root : ν} {top T s : Nat} {c : Cfg ν σ}
    {evs : List Ev} (h : Run (init root top T) evs c) (hs : wakeEvents evs ≤ s) :
    Psi W (init root top T : Cfg ν σ) = W root + 3 * T ∧
    work evs ≤ W root + 3 * T + 3 * (T * T + s) ∧
    evs.length ≤ W root + 3 * T + 3 * (T * T + s) + s :=
  ⟨psi_init W root top T, run_bound_init W hW h hs, run_length_init W hW h hs⟩

/-- runs with explicit events are exactly the reachable configurations -/
theorem C04_run_bound_reach {root : ν} {top T : Nat} {c : Cfg ν σ} :
    Reach root top T c ↔ ∃ evs, Run (init root top T) evs c :=
  reach_iff_run

#print axioms C04_exactly_once
#print axioms C04_exactly_once_at_done
#print axioms C04_exactly_once_at_finished
#print axioms C04_exactly_once_stats
#print axioms C04_exactly_once_desc
#print axioms C04_exactly_once_nodup
#print axioms C04_run_bound_budget
#print axioms C04_run_bound_gen
#print axioms C04_run_bound
#print axioms C04_run_bound_init

end Props
