import Cdecao.Engine.Core
import Cdecao.Engine.Term
/-! # C04 — the parallel search always terminates and accounts for every subproblem once -/
namespace Props
open Eng3
variable {ν σ : Type} [Solver ν σ]

/-- no deadlock, no lost wake-up: in every reachable configuration in which some worker has not
    stopped, some thread can take a step that is not a wake-up — so a state in which everybody
    sleeps and nobody will notify is unreachable. Every `T ≥ 1`, every schedule, spurious wake-ups
    included (a `wake` event may hit any sleeper at any time). -/
theorem C04_no_deadlock {root : ν} {top T : Nat} {c : Cfg ν σ} (hT : 0 < T)
    (hr : Reach root top T c) (hnd : ¬ AllFinished c) :
    ∃ ev, ev.isWake = false ∧ (step? c ev).isSome = true :=
  Eng3.C04_no_deadlock hT hr hnd

/-- a worker never stops while work remains: if some worker is `done`, the queue is empty and
    nobody is busy -/
theorem C04_done_means_finished {root : ν} {top T : Nat} {c : Cfg ν σ} (hT : 0 < T)
    (hr : Reach root top T c) (t : Nat) (h : c.pcs[t]? = some Pc.done) :
    c.pending = [] ∧ c.busy = 0 :=
  (reach_linv hT hr).fin2 t h

/-- the statistics equations are an invariant of the product system (`statsUpd` mirrors the
    counter updates of bab.rs): executed = no-solution + infeasible + feasible and
    generated = executed + bound + pending + busy + panicked -/
theorem C04_stats_step {c c' : Cfg ν σ} {st : Stats} {ev : Ev} (hl : LInv c) (h : SInv c st)
    (hs : step? c ev = some c') : SInv c' (statsUpd c st ev) :=
  sinv_step hl h hs

/-- bounded work: with a budget `W` on subproblems (exists iff the tree is finite), every event
    other than a wake-up lowers the potential `Psi`, up to 3 per sleeper the event wakes -/
theorem C04_bounded_work (W : ν → Nat) (hW : Budget W) {c c' : Cfg ν σ} {ev : Ev} (hs : step? c ev = some c') :
    Psi W c' + (if ev.isWake then 0 else 1) ≤ Psi W c + 3 * wakes c ev :=
  psi_step W hW hs

end Props
