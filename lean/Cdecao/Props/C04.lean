import Cdecao.Engine.Core
import Cdecao.Engine.Term
import Cdecao.Engine.Final
import Cdecao.Engine.Account
import Cdecao.Proofs.CaobabFinite
import Cdecao.Engine.Terminate
/-! # C04 — the parallel search always terminates and accounts for every subproblem once -/
namespace Props
open Eng3
variable {ν σ : Type} [Solver ν σ]

/-- no deadlock, no lost wake-up: in every reachable configuration in which some worker has not
    stopped, some thread can take a step that is not a wake-up — so a state in which everybody
    sleeps and nobody will notify is unreachable. Every `T ≥ 1`, every schedule, spurious wake-ups
    included (a `wake` event may hit any sleeper at any time). -/
theorem C04_no_deadlock {root : ν} {top T : Nat} {c : Cfg ν σ} (hT : 0 < T)
    (hr : Reach root top T c) (hnd : ¬ AllFinished c) :
    ∃ ev, ev.isWake = false ∧ (step? c ev).isSome = true :=
  Eng3.C04_no_deadlock hT hr hnd

/-- a worker never stops while work remains: if some worker is `done`, the queue is empty and
    nobody is busy -/
theorem C04_done_means_finished {root : ν} {top T : Nat} {c : Cfg ν σ} (hT : 0 < T)
    (hr : Reach root top T c) (t : Nat) (h : c.pcs[t]? = some Pc.done) :
    c.pending = [] ∧ c.busy = 0 :=
  (reach_linv hT hr).fin2 t h

/-- the statistics equations are an invariant of the product system (`statsUpd` mirrors the
    counter updates of bab.rs): executed = no-solution + infeasible + feasible and
    generated = executed + bound + pending + busy + panicked -/
theorem C04_stats_step {c c' : Cfg ν σ} {st : Stats} {ev : Ev} (hl : LInv c) (h : SInv c st)
    (hs : step? c ev = some c') : SInv c' (statsUpd c st ev) :=
  sinv_step hl h hs

/-- bounded work: with a budget `W` on subproblems (exists iff the tree is finite), every event
    other than a wake-up lowers the potential `Psi`, up to 3 per sleeper the event wakes -/
theorem C04_bounded_work (W : ν → Nat) (hW : Budget W) {c c' : Cfg ν σ} {ev : Ev} (hs : step? c ev = some c') :
    Psi W c' + (if ev.isWake then 0 else 1) ≤ Psi W c + 3 * wakes c ev :=
  psi_step W hW hs

/-- the statistics equations hold in every reachable state of the product system (configuration,
    counters), started with `gen = 1` for the root -/
theorem C04_stats_reach {root : ν} {top T : Nat} {c : Cfg ν σ} {st : Stats} (hT : 0 < T)
    (hr : ReachS root top T (c, st)) : SInv c st :=
  reachS_sinv hT hr

/-- the ghost counter `panicked` is the number of workers that are `dying` or `dead` -/
theorem C04_panicked {root : ν} {top T : Nat} {c : Cfg ν σ} {st : Stats}
    (hr : ReachS root top T (c, st)) : st.panicked = c.pcs.countP isGone :=
  reachS_pinv hr

/-- every subproblem is accounted for exactly once: when all workers have stopped normally,
    executed = no-solution + infeasible + feasible and generated = executed + bound -/
theorem C04_stats_at_done {root : ν} {top T : Nat} {c : Cfg ν σ} {st : Stats} (hT : 0 < T)
    (hr : ReachS root top T (c, st)) (hd : AllDone c) :
    st.executed = st.noSol + st.infeasible + st.feasible ∧ st.gen = st.executed + st.bound :=
  stats_at_done hT hr hd

/-- with panics: when every worker has stopped, the generated subproblems not executed or bounded
    are those left in the queue and one per dead worker -/
theorem C04_stats_at_finished {root : ν} {top T : Nat} {c : Cfg ν σ} {st : Stats} (hT : 0 < T)
    (hr : ReachS root top T (c, st)) (hd : AllFinished c) :
    st.executed = st.noSol + st.infeasible + st.feasible ∧
    st.gen = st.executed + st.bound + c.pending.length + st.panicked ∧
    st.panicked = c.pcs.countP (fun pc => match pc with | .dead => true | _ => false) :=
  stats_at_finished hT hr hd

/-- a worker that has returned stays returned: `done` is absorbing -/
theorem C04_done_absorbing {c c' : Cfg ν σ} {ev : Ev} (hs : step? c ev = some c') {t : Nat}
    (hp : c.pcs[t]? = some Pc.done) : c'.pcs[t]? = some Pc.done :=
  done_absorbing hs hp

/-- `solve` returns normally (the join loop passes every worker) exactly when all are `done`, and
    that verdict is final -/
theorem C04_join {c c' : Cfg ν σ} (hs : Steps c c') (h : AllDone c) :
    outcome c.pcs = some false ∧ outcome c'.pcs = some false :=
  ⟨(outcome_false_iff_allDone c).2 h, outcome_stable hs ((outcome_false_iff_allDone c).2 h)⟩

/-! ### every generated subproblem is solved exactly once or bounded exactly once

`Ghost` (Engine/Account.lean) is a history computed alongside the transition system: `gen` (the root,
then every child in the order it is pushed), `solved` (results applied), `bounded` (popped and
discarded by bounding), `failed` (solver panicked).  `ReachG` is reachability in the product of the
transition system with `statsUpd` and `ghostUpd`. -/

/-- the accounting invariant, in every reachable state, every `T`, every schedule: as multisets,
    generated = solved + bounded + failed + in flight + queued -/
theorem C04_exactly_once {root : ν} {top T : Nat} {c : Cfg ν σ} {st : Stats} {g : Ghost ν}
    (hr : ReachG root top T (c, st, g)) :
    List.Perm g.gen (g.solved ++ g.bounded ++ g.failed ++ flying c.pcs ++ pendNodes c.pending) :=
  reachG_ainv hr

/-- the invariant is inductive: one step of the product system preserves it -/
theorem C04_exactly_once_step {c c' : Cfg ν σ} {g : Ghost ν} {ev : Ev} (h : AInv c g)
    (hs : step? c ev = some c') : AInv c' (ghostUpd c g ev) :=
  ainv_step h hs

/-- the ghost layer does not restrict the system: every reachable configuration carries a history -/
theorem C04_exactly_once_total {root : ν} {top T : Nat} {c : Cfg ν σ} (hr : Reach root top T c) :
    ∃ st g, ReachG root top T (c, st, g) :=
  reach_reachG hr

/-- when all workers have returned normally (`T ≥ 1`): every generated subproblem has been popped
    exactly once and then either solved once or discarded by bounding once — none twice, none lost,
    none both; nobody panicked; and the statistics counters are the lengths of the ghost lists -/
theorem C04_exactly_once_at_done {root : ν} {top T : Nat} {c : Cfg ν σ} {st : Stats} {g : Ghost ν}
    (hT : 0 < T) (hr : ReachG root top T (c, st, g)) (hd : AllDone c) :
    List.Perm g.gen (g.solved ++ g.bounded) ∧ g.failed = [] ∧
    st.gen = g.gen.length ∧ st.executed = g.solved.length ∧ st.bound = g.bounded.length :=
  account_at_done hT hr hd

/-- with panics: when every worker has stopped, the generated subproblems are those solved, those
    bounded, those whose solver panicked (one per dead worker) and those left in the queue -/
theorem C04_exactly_once_at_finished {root : ν} {top T : Nat} {c : Cfg ν σ} {st : Stats}
    {g : Ghost ν} (hr : ReachG root top T (c, st, g)) (hd : AllFinished c) :
    List.Perm g.gen (g.solved ++ g.bounded ++ g.failed ++ pendNodes c.pending) ∧
    g.failed.length = c.pcs.countP (fun pc => match pc with | .dead => true | _ => false) :=
  account_at_finished hr hd

/-- the counters of bab.rs are the lengths of the ghost lists, in every reachable state -/
theorem C04_exactly_once_stats {root : ν} {top T : Nat} {c : Cfg ν σ} {st : Stats} {g : Ghost ν}
    (hr : ReachG root top T (c, st, g)) :
    st.executed = g.solved.length ∧ st.bound = g.bounded.length ∧ st.gen = g.gen.length ∧
    st.panicked = g.failed.length :=
  let h := ghost_stats hr
  ⟨h.executed, h.bound, h.gen, h.panicked⟩

/-- everything generated is a descendant of the root -/
theorem C04_exactly_once_desc {root : ν} {top T : Nat} {c : Cfg ν σ} {st : Stats} {g : Ghost ν}
    (hr : ReachG root top T (c, st, g)) : ∀ n ∈ g.gen, Desc n root :=
  gen_desc hr

/-- `solved` holds nodes with a verdict, `failed` nodes whose solver panics -/
theorem C04_exactly_once_verdicts {root : ν} {top T : Nat} {c : Cfg ν σ} {st : Stats} {g : Ghost ν}
    (hr : ReachG root top T (c, st, g)) :
    (∀ n ∈ g.solved, isPanic (Solver.res n) = false) ∧ (∀ n ∈ g.failed, isPanic (Solver.res n) = true) :=
  let h := reachG_gres hr
  ⟨h.solved, h.failed⟩

/-- "none twice": if the generated subproblems are pairwise distinct, so are the entries of
    solved, bounded, failed, in flight and queued taken together -/
theorem C04_exactly_once_nodup {root : ν} {top T : Nat} {c : Cfg ν σ} {st : Stats} {g : Ghost ν}
    (hr : ReachG root top T (c, st, g)) (hn : g.gen.Nodup) :
    (g.solved ++ g.bounded ++ g.failed ++ flying c.pcs ++ pendNodes c.pending).Nodup :=
  account_nodup hr hn

/-- with multiplicities: at the end each node occurs among the solved and bounded ones exactly as
    often as it was generated -/
theorem C04_exactly_once_count [BEq ν] {root : ν} {top T : Nat} {c : Cfg ν σ} {st : Stats}
    {g : Ghost ν} (hT : 0 < T) (hr : ReachG root top T (c, st, g)) (hd : AllDone c) (n : ν) :
    g.gen.count n = g.solved.count n + g.bounded.count n :=
  account_count hT hr hd n

/-! ### work bound over whole runs

`Budget W` (`5 + Σ_{k ∈ pushed n} W k ≤ W n` for every `n`) says that the search tree is finite:
`W` drops by at least 5 along every edge, the tree below `n` unfolded to any depth has at most
`W n / 5` entries (`C04_run_bound_budget`), and at most `W root / 5` subproblems are ever generated
(`C04_run_bound_gen`).  `Run c evs c'`: the event list `evs` drives `c` to `c'`; `work evs` counts
the events that are not wake-ups, `wakeEvents evs` the `wake` events (`notify_one` or spurious). -/

/-- what a budget means: no infinite branch, and at most `W n / 5` nodes below `n` -/
theorem C04_run_bound_budget {W : ν → Nat} (hW : Budget W) :
    WellFounded (fun k n : ν => k ∈ pushed n) ∧
    (∀ d n, 5 * (subtree d n).length ≤ W n) ∧ (∀ m n : ν, Desc m n → ∃ d, m ∈ subtree d n) :=
  ⟨budget_wf hW, budget_subtree hW, fun _ _ h => desc_subtree h⟩

/-- at most `W root / 5` subproblems are generated -/
theorem C04_run_bound_gen (W : ν → Nat) (hW : Budget W) {root : ν} {top T : Nat} {c : Cfg ν σ}
    {st : Stats} {g : Ghost ν} (hr : ReachG root top T (c, st, g)) :
    5 * g.gen.length ≤ W root ∧ 5 * st.gen ≤ W root :=
  gen_le_budget W hW hr

/-- `psi_step` summed over a run -/
theorem C04_run_bound_psi (W : ν → Nat) (hW : Budget W) {c c' : Cfg ν σ} {evs : List Ev}
    (h : Run c evs c') : work evs + Psi W c' ≤ Psi W c + 3 * wakesRun c evs :=
  psi_run W hW h

/-- the wake-ups the code causes itself: an `after`/`die` event that wakes anybody stops its own
    thread for good and wakes fewer than `T` sleepers, so over a run of `T` threads at most
    `T * T` sleepers are woken by `notify_all` -/
theorem C04_run_bound_wakes {T : Nat} {c c' : Cfg ν σ} {evs : List Ev} (h : Run c evs c')
    (hT : c.pcs.length = T) : wakesRun c evs ≤ T * T + wakeEvents evs :=
  wakesRun_le h hT

/-- work bound for a run of `T` threads from any configuration -/
theorem C04_run_bound (W : ν → Nat) (hW : Budget W) {T : Nat} {c c' : Cfg ν σ} {evs : List Ev}
    (h : Run c evs c') (hT : c.pcs.length = T) :
    work evs + Psi W c' ≤ Psi W c + 3 * (T * T + wakeEvents evs) :=
  run_bound W hW h hT

/-- work bound from the start: with budget `W` and at most `s` wake events, a run of `T` threads
    takes at most `W root + 3 * T + 3 * (T * T + s)` steps that are not wake-ups; the initial
    potential is `Psi W (init root top T) = W root + 3 * T` -/
theorem C04_run_bound_init (W : ν → Nat) (hW : Budget W) {root : ν} {top T s : Nat} {c : Cfg ν σ}
    {evs : List Ev} (h : Run (init root top T) evs c) (hs : wakeEvents evs ≤ s) :
    Psi W (init root top T : Cfg ν σ) = W root + 3 * T ∧
    work evs ≤ W root + 3 * T + 3 * (T * T + s) ∧
    evs.length ≤ W root + 3 * T + 3 * (T * T + s) + s :=
  ⟨psi_init W root top T, run_bound_init W hW h hs, run_length_init W hW h hs⟩

/-- runs with explicit events are exactly the reachable configurations -/
theorem C04_run_bound_reach {root : ν} {top T : Nat} {c : Cfg ν σ} :
    Reach root top T c ↔ ∃ evs, Run (init root top T) evs c :=
  reach_iff_run

/-! ### the budget exists for caobab: the search tree of every instance is finite

The hypothesis `Budget W` of the work bounds above is discharged for the caobab node solver
(`N2.solverOf I R`, Proofs/NodeEng.lean), for **every** instance `I` and room arithmetic `R` — no
validity hypothesis: every child of an infeasible verdict is strictly smaller in the measure
`N2.mu I B` (`N2.node_prog`), so the child relation is well-founded, `N2.treeSize I R n` (the number
of nodes of the tree below `n`, by well-founded recursion; `N2.treeSize_eq`) is well defined and
`W n = 5 * N2.treeSize I R n` is a budget (Proofs/CaobabFinite.lean). -/

/-- no infinite branch in the caobab search tree -/
theorem C04_caobab_wf (I : N2.Inst) (R : N2.RoomFns) :
    letI := N2.solverOf I R
    WellFounded (fun k n : N2.Node => k ∈ pushed n) :=
  N2.pushed_wf I R

/-- the size of the tree below a node: one for the node plus the sizes below its pushed children -/
theorem C04_caobab_treeSize (I : N2.Inst) (R : N2.RoomFns) (n : N2.Node) :
    letI := N2.solverOf I R
    N2.treeSize I R n = 1 + ((pushed n).map (N2.treeSize I R)).sum :=
  N2.treeSize_eq I R n

/-- **the caobab search tree is finite**: a budget exists for every instance, namely
    `5 * treeSize` -/
theorem C04_caobab_budget (I : N2.Inst) (R : N2.RoomFns) :
    letI := N2.solverOf I R
    (∃ W : N2.Node → Nat, Budget W) ∧ Budget (fun n : N2.Node => 5 * N2.treeSize I R n) :=
  ⟨N2.caobab_budget I R, N2.caobab_budget_treeSize I R⟩

set_option linter.style.haveILetI false in
/-- **work bound for caobab, unconditionally**: every run of the engine on the caobab node solver
    from the root node — every thread count `T`, every schedule — with at most `s` wake events
    takes at most `5 * treeSize + 3 * T + 3 * (T * T + s)` steps that are not wake-ups, and has at
    most that many plus `s` events in all -/
theorem C04_caobab_run_bound (I : N2.Inst) (R : N2.RoomFns) {top T s : Nat} :
    letI := N2.solverOf I R
    ∀ {c : Cfg N2.Node (List (Option Nat))} {evs : List Ev},
      Run (init N2.rootNode top T) evs c → wakeEvents evs ≤ s →
      work evs ≤ 5 * N2.treeSize I R N2.rootNode + 3 * T + 3 * (T * T + s) ∧
      evs.length ≤ 5 * N2.treeSize I R N2.rootNode + 3 * T + 3 * (T * T + s) + s := by
  letI := N2.solverOf I R
  intro c evs h hs
  exact ⟨N2.caobab_run_bound I R h hs, N2.caobab_run_length I R h hs⟩

set_option linter.style.haveILetI false in
/-- at most `treeSize I R rootNode` subproblems are ever generated (ghost list and counter) -/
theorem C04_caobab_gen_bound (I : N2.Inst) (R : N2.RoomFns) {top T : Nat} :
    letI := N2.solverOf I R
    ∀ {c : Cfg N2.Node (List (Option Nat))} {st : Stats} {g : Ghost N2.Node},
      ReachG N2.rootNode top T (c, st, g) →
      g.gen.length ≤ N2.treeSize I R N2.rootNode ∧ st.gen ≤ N2.treeSize I R N2.rootNode := by
  letI := N2.solverOf I R
  intro c st g h
  exact N2.caobab_gen_bound I R h

/-- non-vacuity: the three-node tree of the F1 witness has `treeSize = 3`, so with one thread and
    no wake-up every run takes at most `15 + 3 + 3 = 21` steps -/
example (R : N2.RoomFns) : 5 * N2.treeSize N2.exI R N2.rootNode + 3 * 1 + 3 * (1 * 1 + 0) = 21 := by
  rw [N2.exI_treeSize R]
/-! ### termination (Engine/Terminate.lean)

"Once spurious wake-ups stop, the search finishes within an explicit number of steps, whatever the
scheduler does."  `c` is any configuration reached from the start by a run `evs0` with at most `s`
`wake` events; the tree is finite (`Budget W`); `T ≥ 1`.  The `wake t` event of the model stands for
a `notify_one` as well as for a spurious wake-up — it does not say which; `C04_terminates_notify` and
`C04_terminates_spurious` separate the two with a ghost layer (`NStep`/`NRun`: every `wake` event is
tagged as using up one earlier `notify_one`, or as spurious). -/

/-- (1) every continuation of `c` without `wake` events has at most
    `W root + 3 * T + 3 * (T * T + s)` events (together with the non-wake events before `c`) -/
theorem C04_terminates_bound (W : ν → Nat) (hW : Budget W) {root : ν} {top T s : Nat}
    {c c' : Cfg ν σ} {evs0 evs : List Ev} (h0 : Run (init root top T) evs0 c)
    (hs : wakeEvents evs0 ≤ s) (h : Run c evs c') (hwf : ∀ ev ∈ evs, ev.isWake = false) :
    evs.length ≤ W root + 3 * T + 3 * (T * T + s) ∧
    work evs0 + evs.length + Psi W c' ≤ W root + 3 * T + 3 * (T * T + s) :=
  ⟨wakefree_bound W hW h0 hs h hwf, wakefree_bound_strong W hW h0 hs h hwf⟩

/-- (1) relative to `c` alone, reachable or not: at most `Psi W c + 3 * T * (T - stopped c)` events -/
theorem C04_terminates_bound_local (W : ν → Nat) (hW : Budget W) {T : Nat} {c c' : Cfg ν σ}
    {evs : List Ev} (h : Run c evs c') (hT : c.pcs.length = T)
    (hwf : ∀ ev ∈ evs, ev.isWake = false) :
    evs.length + Psi W c' ≤ Psi W c + 3 * (T * (T - stopped c)) :=
  wakefree_bound_local W hW h hT hwf

/-- (2) a run can only stop in a finished configuration: in a reachable configuration "no
    non-wake event is enabled" is the same as "every worker has stopped"; and then no event at all
    is enabled -/
theorem C04_terminates_maximal {root : ν} {top T : Nat} {c : Cfg ν σ} (hT : 0 < T)
    (hr : Reach root top T c) :
    ((∀ ev, ev.isWake = false → step? c ev = none) ↔ AllFinished c) ∧
    (AllFinished c → ∀ ev, step? c ev = none) :=
  ⟨wakefree_maximal_iff hT hr, finished_no_step⟩

/-- (3) **termination**: some continuation of `c` without `wake` events ends with every worker
    stopped, within `W root + 3 * T + 3 * (T * T + s)` steps; and every continuation without `wake`
    events can be extended to such a one, the whole within the same bound — no scheduler choice
    among the non-wake events avoids termination -/
theorem C04_terminates (W : ν → Nat) (hW : Budget W) {root : ν} {top T s : Nat} {c : Cfg ν σ}
    {evs0 : List Ev} (hT : 0 < T) (h0 : Run (init root top T) evs0 c) (hs : wakeEvents evs0 ≤ s) :
    (∃ (evs : List Ev) (c' : Cfg ν σ), Run c evs c' ∧ (∀ ev ∈ evs, ev.isWake = false) ∧
        AllFinished c' ∧ evs.length ≤ W root + 3 * T + 3 * (T * T + s)) ∧
    (∀ (evs : List Ev) (c' : Cfg ν σ), Run c evs c' → (∀ ev ∈ evs, ev.isWake = false) →
      ∃ (evs' : List Ev) (c'' : Cfg ν σ), Run c' evs' c'' ∧ (∀ ev ∈ evs', ev.isWake = false) ∧
        AllFinished c'' ∧ evs.length + evs'.length ≤ W root + 3 * T + 3 * (T * T + s)) :=
  terminates W hW hT h0 hs

/-- (3) for `Reach` -/
theorem C04_terminates_reach (W : ν → Nat) (hW : Budget W) {root : ν} {top T : Nat} {c : Cfg ν σ}
    (hT : 0 < T) (hr : Reach root top T c) :
    ∃ (evs : List Ev) (c' : Cfg ν σ), Run c evs c' ∧ (∀ ev ∈ evs, ev.isWake = false) ∧
      AllFinished c' :=
  terminates_reach W hW hT hr

/-- (3) step by step: along a continuation without `wake` events, either the search has finished
    and nothing is enabled, or a non-wake event is enabled and the bound is not used up -/
theorem C04_terminates_progress (W : ν → Nat) (hW : Budget W) {root : ν} {top T s : Nat}
    {c c' : Cfg ν σ} {evs0 evs : List Ev} (hT : 0 < T) (h0 : Run (init root top T) evs0 c)
    (hs : wakeEvents evs0 ≤ s) (h : Run c evs c') (hwf : ∀ ev ∈ evs, ev.isWake = false) :
    (AllFinished c' ∧ ∀ ev, step? c' ev = none) ∨
    (∃ ev c'', ev.isWake = false ∧ step? c' ev = some c'' ∧
      evs.length < W root + 3 * T + 3 * (T * T + s)) :=
  wakefree_progress W hW hT h0 hs h hwf

/-- (4) with `wake` events in the continuation: at most `s'` of them allow at most
    `W root + 3 * T + 3 * (T * T + (s + s'))` non-wake events -/
theorem C04_terminates_wakes (W : ν → Nat) (hW : Budget W) {root : ν} {top T s s' : Nat}
    {c c' : Cfg ν σ} {evs0 evs : List Ev} (h0 : Run (init root top T) evs0 c)
    (hs : wakeEvents evs0 ≤ s) (h : Run c evs c') (hs' : wakeEvents evs ≤ s') :
    work evs0 + work evs + Psi W c' ≤ W root + 3 * T + 3 * (T * T + (s + s')) :=
  continuation_bound W hW h0 hs h hs'

/-- (4) a run can only be infinite if it contains infinitely many `wake` events -/
theorem C04_terminates_infinite (W : ν → Nat) (hW : Budget W) {root : ν} {top T : Nat}
    {f : Nat → Cfg ν σ} {e : Nat → Ev} (hr : Reach root top T (f 0))
    (h : ∀ i, step? (f i) (e i) = some (f (i + 1))) :
    ∀ N, ∃ i, N ≤ i ∧ (e i).isWake = true :=
  infinite_run_wakes W hW hr h

/-- (4) with the wake-ups attributed (ghost layer `NRun`, counter of unused `notify_one` calls
    starting at 0): the `wake` events caused by `notify_one` are fewer than `W root / 5`; a run with
    at most `sp` spurious wake-ups has at most `W root + 3 * T + 3 * (T * T + (sp + W root / 5))`
    non-wake events and at most `sp + W root / 5` more events in total -/
theorem C04_terminates_notify (W : ν → Nat) (hW : Budget W) {root : ν} {top T sp k' : Nat}
    {c : Cfg ν σ} {l : List (Ev × Bool)} (h : NRun (init root top T) 0 l c k')
    (hsp : spurious l ≤ sp) :
    5 * (notifiedWakes l + 1) ≤ W root ∧
    work (untag l) ≤ W root + 3 * T + 3 * (T * T + (sp + W root / 5)) ∧
    l.length ≤ W root + 3 * T + 3 * (T * T + (sp + W root / 5)) + (sp + W root / 5) :=
  nrun_bound W hW h hsp

/-- (4) **a run with finitely many spurious wake-ups is finite**: an infinite run from the start
    contains infinitely many spurious wake-ups -/
theorem C04_terminates_spurious (W : ν → Nat) (hW : Budget W) {root : ν} {top T : Nat}
    {f : Nat → Cfg ν σ} {k : Nat → Nat} {e : Nat → Ev × Bool} (hf : f 0 = init root top T)
    (hk : k 0 = 0) (h : ∀ i, NStep (f i) (k i) (e i) (f (i + 1)) (k (i + 1))) :
    ∀ N, ∃ i, N ≤ i ∧ (e i).1.isWake = true ∧ (e i).2 = false :=
  infinite_run_spurious W hW hf hk h

/-- termination without failures: if no subproblem below the root panics, the finished
    configuration of (3) is `AllDone` and `solve` returns normally -/
theorem C04_terminates_done (W : ν → Nat) (hW : Budget W) {root : ν} {top T s : Nat}
    {c : Cfg ν σ} {evs0 : List Ev} (hT : 0 < T) (h0 : Run (init root top T) evs0 c)
    (hs : wakeEvents evs0 ≤ s) (hnp : ∀ n, Desc n root → isPanic (Solver.res n) = false) :
    ∀ (evs : List Ev) (c' : Cfg ν σ), Run c evs c' → (∀ ev ∈ evs, ev.isWake = false) →
      ∃ (evs' : List Ev) (c'' : Cfg ν σ), Run c' evs' c'' ∧ (∀ ev ∈ evs', ev.isWake = false) ∧
        AllDone c'' ∧ evs.length + evs'.length ≤ W root + 3 * T + 3 * (T * T + s) ∧
        outcome c''.pcs = some false :=
  terminates_done W hW hT h0 hs hnp

/-- **total correctness of the engine**: finite tree, no failing subproblem, bound property, `T ≥ 1`:
    every continuation without `wake` events extends within the bound to a configuration in which
    all workers have returned, `solve` returns normally, and the incumbent is a solution of the
    tree that no feasible node of the tree beats (termination + `C09_final`) -/
theorem C04_terminates_optimal (W : ν → Nat) (hW : Budget W) {root : ν} {top T s : Nat}
    {c : Cfg ν σ} {evs0 : List Ev} (hT : 0 < T) (h0 : Run (init root top T) evs0 c)
    (hs : wakeEvents evs0 ≤ s) (hnp : ∀ n, Desc n root → isPanic (Solver.res n) = false)
    (hb : Bounded root) (htop : ∀ f sc, Desc f root → IsFeas f sc → sc ≤ top) :
    ∀ (evs : List Ev) (c' : Cfg ν σ), Run c evs c' → (∀ ev ∈ evs, ev.isWake = false) →
      ∃ (evs' : List Ev) (c'' : Cfg ν σ), Run c' evs' c'' ∧ (∀ ev ∈ evs', ev.isWake = false) ∧
        AllDone c'' ∧ evs.length + evs'.length ≤ W root + 3 * T + 3 * (T * T + s) ∧
        outcome c''.pcs = some false ∧
        (∀ f sc, Desc f root → IsFeas f sc → c''.best ≠ none ∧ sc ≤ c''.bestScore) ∧
        (c''.best = none ∨
          (∃ f sol, Desc f root ∧ Solver.res f = .feasible sol c''.bestScore ∧ c''.best = some sol)) := by
  intro evs c' h hwf
  obtain ⟨evs', c'', h', hwf', hd, hle, hout⟩ := terminates_done W hW hT h0 hs hnp evs c' h hwf
  have hr'' : Reach root top T c'' := reach_iff_run.2 ⟨_, (h0.append h).append h'⟩
  obtain ⟨a, b⟩ := C09_final hT hb htop hr'' hd
  exact ⟨evs', c'', h', hwf', hd, hle, hout, a, b⟩

/-! ### termination of caobab::solve, unconditionally

`C04_terminates` with the budget `5 * treeSize` that exists for every instance
(`C04_caobab_budget`): no hypothesis on the instance, the room arithmetic, the number of workers
(≥ 1) or the schedule. -/

set_option linter.style.haveILetI false in
/-- **caobab always terminates**: from every configuration the engine reaches on the caobab node
    solver (after any history with at most `s` wake events) there is a continuation without
    wake-ups to a configuration in which all workers have stopped, within
    `5 * treeSize + 3T + 3(T² + s)` steps; and every continuation without wake-ups can be extended
    to such a one within the same bound -/
theorem C04_caobab_terminates (I : N2.Inst) (R : N2.RoomFns) {top T s : Nat} (hT : 0 < T) :
    letI := N2.solverOf I R
    ∀ {c : Cfg N2.Node (List (Option Nat))} {evs0 : List Ev},
      Run (init N2.rootNode top T) evs0 c → wakeEvents evs0 ≤ s →
      (∃ (evs : List Ev) (c' : Cfg N2.Node (List (Option Nat))), Run c evs c' ∧
          (∀ ev ∈ evs, ev.isWake = false) ∧ AllFinished c' ∧
          evs.length ≤ 5 * N2.treeSize I R N2.rootNode + 3 * T + 3 * (T * T + s)) ∧
      (∀ (evs : List Ev) (c' : Cfg N2.Node (List (Option Nat))), Run c evs c' →
        (∀ ev ∈ evs, ev.isWake = false) →
        ∃ (evs' : List Ev) (c'' : Cfg N2.Node (List (Option Nat))), Run c' evs' c'' ∧
          (∀ ev ∈ evs', ev.isWake = false) ∧ AllFinished c'' ∧
          evs.length + evs'.length ≤ 5 * N2.treeSize I R N2.rootNode + 3 * T + 3 * (T * T + s)) := by
  letI := N2.solverOf I R
  intro c evs0 h0 hs
  exact C04_terminates (fun n : N2.Node => 5 * N2.treeSize I R n) (N2.caobab_budget_treeSize I R) hT h0 hs

set_option linter.style.haveILetI false in
/-- an infinite run of the engine on the caobab node solver contains infinitely many wake-ups -/
theorem C04_caobab_no_infinite_run (I : N2.Inst) (R : N2.RoomFns) {top T : Nat} :
    letI := N2.solverOf I R
    ∀ (f : Nat → Cfg N2.Node (List (Option Nat))) (e : Nat → Ev),
      Reach N2.rootNode top T (f 0) → InfRun f e → ∀ N, ∃ i, N ≤ i ∧ (e i).isWake = true := by
  letI := N2.solverOf I R
  intro f e hr h
  exact infinite_run_wakes (fun n : N2.Node => 5 * N2.treeSize I R n) (N2.caobab_budget_treeSize I R) hr h

#print axioms C04_exactly_once
#print axioms C04_exactly_once_at_done
#print axioms C04_exactly_once_at_finished
#print axioms C04_exactly_once_stats
#print axioms C04_exactly_once_desc
#print axioms C04_exactly_once_nodup
#print axioms C04_run_bound_budget
#print axioms C04_run_bound_gen
#print axioms C04_run_bound
#print axioms C04_run_bound_init
#print axioms C04_caobab_wf
#print axioms C04_caobab_budget
#print axioms C04_caobab_run_bound
#print axioms C04_caobab_gen_bound
#print axioms C04_terminates_bound
#print axioms C04_terminates_bound_local
#print axioms C04_terminates_maximal
#print axioms C04_terminates
#print axioms C04_terminates_reach
#print axioms C04_terminates_progress
#print axioms C04_terminates_wakes
#print axioms C04_terminates_infinite
#print axioms C04_terminates_notify
#print axioms C04_terminates_spurious
#print axioms C04_terminates_done
#print axioms C04_terminates_optimal
#print axioms C04_caobab_terminates
#print axioms C04_caobab_no_infinite_run

end Props
