import Cdecao.Model.PanicSites
import Cdecao.Model.PanicConstants
/-! The explicit panic sites of /repo's non-test code, re-extracted from the source on every run,
    are exactly the ones the models account for (Model/PanicSites.lean). Part of the obligations of
    the no-panic properties C10, C15 and C19. -/
namespace Props

theorem panic_sites_tie : Const.PANIC_SITES = PanicSites.sites := rfl

end Props
