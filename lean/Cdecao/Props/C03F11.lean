import Cdecao.Proofs.NodeEng
import Cdecao.Proofs.SpecExec
import Cdecao.Spec.Valid
/-! # C03, known finding F11: in the class of F1 the search tree need not be `Bounded`

Witness (no rooms): C0(min 3, max 4, instructor P1), C1(min 2, max 5), C2(min 2, max 4);
P0: C1, C0, C2(pen 4); P1: C2, C1(pen 1); P2: C1; P3: C2, C1(pen 1), C0. P1 instructs C0 AND has own
choices. The node "C2 enforced" is infeasible with score 199996, but its child "C0 cancelled" —
which frees P1 — is FEASIBLE with score 200000. A worker that pops this child after another worker
has stored the solution 199998 (found below "C2 cancelled") discards it by bounding: the reported
score depends on the schedule (replayed on the real code on every run of the C03 check,
corpus/C03/F11_minimal_schedule_dependent_score.json). The node results are evaluated by the
kernel (`rfl`), Hungarian routine included. -/
namespace Props
open N2

def F11 : Inst :=
  { cs := [⟨3, 4, false, [1]⟩, ⟨2, 5, false, []⟩, ⟨2, 4, false, []⟩]
    ps := [⟨[⟨1, 0⟩, ⟨0, 0⟩, ⟨2, 4⟩]⟩, ⟨[⟨2, 0⟩, ⟨1, 1⟩]⟩, ⟨[⟨1, 0⟩]⟩, ⟨[⟨2, 0⟩, ⟨1, 1⟩, ⟨0, 0⟩]⟩]
    rooms := none }

set_option maxRecDepth 1000000 in
theorem F11_root (R : RoomFns) :
    runNodeS F11 R ⟨[], [], []⟩ = .ok (.infeasible [⟨[], [2], []⟩, ⟨[2], [], []⟩] 200000) := by rfl
set_option maxRecDepth 1000000 in
theorem F11_enforce2 (R : RoomFns) :
    runNodeS F11 R ⟨[], [2], []⟩ = .ok (.infeasible [⟨[], [2, 0], []⟩, ⟨[0], [2], []⟩] 199996) := by rfl
set_option maxRecDepth 1000000 in
theorem F11_enforce2_cancel0 (R : RoomFns) :
    runNodeS F11 R ⟨[0], [2], []⟩ = .ok (.feasible [some 1, some 2, some 1, some 2] 200000) := by rfl

/-- the witness is a valid instance, in the class of the known findings (`noFreeableb = false`) -/
example : validb F11 = true ∧ noFreeableb F11 = false := by decide

attribute [local irreducible] F11 runNodeS in
/-- **the search tree of the witness is not `Bounded`**: the premise of the schedule-independence
    theorem `C03` fails for the code's own node solver on a valid instance -/
theorem C03_F11_not_bounded (R : RoomFns) :
    letI := solverOf F11 R
    ¬ Eng3.Bounded rootNode := by
  have r0 : @Eng3.Solver.res Node (List (Option Nat)) (solverOf F11 R) rootNode = .infeasible 200000 := by
    show (match runNodeS F11 R rootNode with
      | .ok .noSol => Eng3.Res.noSol
      | .ok (.infeasible _ sc) => .infeasible sc
      | .ok (.feasible al sc) => .feasible al sc
      | .error _ => .panic) = _
    rw [show rootNode = ⟨[], [], []⟩ from rfl, F11_root R]
  have k0 : @Eng3.Solver.kids Node (List (Option Nat)) (solverOf F11 R) rootNode = [⟨[], [2], []⟩, ⟨[2], [], []⟩] := by
    show (match runNodeS F11 R rootNode with
      | .ok (.infeasible kids _) => kids
      | _ => []) = _
    rw [show rootNode = ⟨[], [], []⟩ from rfl, F11_root R]
  have r1 : @Eng3.Solver.res Node (List (Option Nat)) (solverOf F11 R) ⟨[], [2], []⟩ = .infeasible 199996 := by
    show (match runNodeS F11 R ⟨[], [2], []⟩ with
      | .ok .noSol => Eng3.Res.noSol
      | .ok (.infeasible _ sc) => .infeasible sc
      | .ok (.feasible al sc) => .feasible al sc
      | .error _ => .panic) = _
    rw [F11_enforce2 R]
  have k1 : @Eng3.Solver.kids Node (List (Option Nat)) (solverOf F11 R) ⟨[], [2], []⟩ = [⟨[], [2, 0], []⟩, ⟨[0], [2], []⟩] := by
    show (match runNodeS F11 R ⟨[], [2], []⟩ with
      | .ok (.infeasible kids _) => kids
      | _ => []) = _
    rw [F11_enforce2 R]
  have r2 : @Eng3.Solver.res Node (List (Option Nat)) (solverOf F11 R) ⟨[0], [2], []⟩
      = .feasible [some 1, some 2, some 1, some 2] 200000 := by
    show (match runNodeS F11 R ⟨[0], [2], []⟩ with
      | .ok .noSol => Eng3.Res.noSol
      | .ok (.infeasible _ sc) => .infeasible sc
      | .ok (.feasible al sc) => .feasible al sc
      | .error _ => .panic) = _
    rw [F11_enforce2_cancel0 R]
  letI := solverOf F11 R
  intro hb
  -- the node "C2 enforced" is a child of the root
  have hd : Eng3.Desc (⟨[], [2], []⟩ : Node) rootNode := by
    refine Eng3.Desc.step (k := ⟨[], [2], []⟩) ?_ (Eng3.Desc.refl _)
    unfold Eng3.pushed; rw [r0, k0]; simp
  have := hb ⟨[], [2], []⟩ hd 199996 r1 ⟨[0], [2], []⟩ (by rw [k1]; simp) ⟨[0], [2], []⟩ 200000
    (Eng3.Desc.refl _) ⟨_, r2⟩
  omega

end Props
