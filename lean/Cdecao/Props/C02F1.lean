import Cdecao.Proofs.NodeEng
import Cdecao.Proofs.SpecExec
/-! # C02, known finding F1: the full statement is false for the code

The witness: X(min 2, max 2), Y(min 0, max 5, instructor p1); p0 and p1 both choose X; no room
list. Cancelling Y lets both attend X — an assignment satisfying all hard constraints exists — but
the model of the unchanged algorithm (and, as the check replays on every run, the real code)
answers "no solution": the root relaxation is infeasible (X misses its minimum), the enforce-child
fails the "too many enforced places" test (only p0 is active, p1 is skipped as instructor of the
running course Y) and the cancel-child leaves p0 without a course. The three node results below
are evaluated by the kernel (`rfl`), Hungarian routine included. -/
namespace Props
open N2

def F1 : Inst := { cs := [⟨2, 2, false, []⟩, ⟨0, 5, false, [1]⟩], ps := [⟨[⟨0, 0⟩]⟩, ⟨[⟨0, 0⟩]⟩], rooms := none }

set_option maxRecDepth 1000000 in
theorem F1_root (R : RoomFns) :
    runNodeS F1 R ⟨[], [], []⟩ = .ok (.infeasible [⟨[], [0], []⟩, ⟨[0], [], []⟩] 100000) := by rfl
set_option maxRecDepth 1000000 in
theorem F1_enforce (R : RoomFns) : runNodeS F1 R ⟨[], [0], []⟩ = .ok .noSol := by rfl
set_option maxRecDepth 1000000 in
theorem F1_cancel (R : RoomFns) : runNodeS F1 R ⟨[0], [], []⟩ = .ok .noSol := by rfl

/-- no node of the search tree of the witness is feasible -/
theorem F1_no_feasible (R : RoomFns) :
    letI := solverOf F1 R
    ∀ f : Node, Eng3.Desc f rootNode → ∀ sol sc, Eng3.Solver.res f ≠ Eng3.Res.feasible sol sc := by
  have r0 : @Eng3.Solver.res Node (List (Option Nat)) (solverOf F1 R) rootNode = .infeasible 100000 := by
    show (match runNodeS F1 R rootNode with
      | .ok .noSol => Eng3.Res.noSol
      | .ok (.infeasible _ sc) => .infeasible sc
      | .ok (.feasible al sc) => .feasible al sc
      | .error _ => .panic) = _
    rw [show rootNode = ⟨[], [], []⟩ from rfl, F1_root R]
  have k0 : @Eng3.Solver.kids Node (List (Option Nat)) (solverOf F1 R) rootNode = [⟨[], [0], []⟩, ⟨[0], [], []⟩] := by
    show (match runNodeS F1 R rootNode with
      | .ok (.infeasible kids _) => kids
      | _ => []) = _
    rw [show rootNode = ⟨[], [], []⟩ from rfl, F1_root R]
  have r1 : @Eng3.Solver.res Node (List (Option Nat)) (solverOf F1 R) ⟨[], [0], []⟩ = .noSol := by
    show (match runNodeS F1 R ⟨[], [0], []⟩ with
      | .ok .noSol => Eng3.Res.noSol
      | .ok (.infeasible _ sc) => .infeasible sc
      | .ok (.feasible al sc) => .feasible al sc
      | .error _ => .panic) = _
    rw [F1_enforce R]
  have r2 : @Eng3.Solver.res Node (List (Option Nat)) (solverOf F1 R) ⟨[0], [], []⟩ = .noSol := by
    show (match runNodeS F1 R ⟨[0], [], []⟩ with
      | .ok .noSol => Eng3.Res.noSol
      | .ok (.infeasible _ sc) => .infeasible sc
      | .ok (.feasible al sc) => .feasible al sc
      | .error _ => .panic) = _
    rw [F1_cancel R]
  have hroot : @Eng3.pushed Node (List (Option Nat)) (solverOf F1 R) rootNode = [⟨[], [0], []⟩, ⟨[0], [], []⟩] := by
    unfold Eng3.pushed; rw [r0]; exact k0
  have hk1 : @Eng3.pushed Node (List (Option Nat)) (solverOf F1 R) ⟨[], [0], []⟩ = [] := by
    unfold Eng3.pushed; rw [r1]
  have hk2 : @Eng3.pushed Node (List (Option Nat)) (solverOf F1 R) ⟨[0], [], []⟩ = [] := by
    unfold Eng3.pushed; rw [r2]
  letI := solverOf F1 R
  intro f hd sol sc
  rcases Eng3.desc_cases hd with rfl | ⟨k, hk, hdk⟩
  · rw [r0]; simp
  · rw [hroot] at hk
    simp only [List.mem_cons, List.not_mem_nil, or_false] at hk
    rcases hk with rfl | rfl
    · rcases Eng3.desc_cases hdk with rfl | ⟨k', hk', _⟩
      · rw [r1]; simp
      · rw [hk1] at hk'; simp at hk'
    · rcases Eng3.desc_cases hdk with rfl | ⟨k', hk', _⟩
      · rw [r2]; simp
      · rw [hk2] at hk'; simp at hk'

/-- **C02_full is false**: on the valid instance `F1` (no rooms) the parallel search — every
    thread count, every schedule, every reachable configuration, in particular every finished
    one — never holds a solution, although the assignment `[X, X]` satisfies all hard constraints. -/
theorem C02_full_counterexample (R : RoomFns) (top T : Nat) :
    letI := solverOf F1 R
    validb F1 = true ∧ F1.rooms = none ∧
    (∀ c : Eng3.Cfg Node (List (Option Nat)), Eng3.Reach rootNode top T c → c.best = none) ∧
    G.HardOK F1 (fun _ => some 0) := by
  letI := solverOf F1 R
  refine ⟨by decide, rfl, ?_, (G.hardOKb_iff F1 _).1 (by decide)⟩
  intro c hr
  rcases (Eng3.reach_solinv hr).inc with h | ⟨f, sol, hd, hres, _⟩
  · exact h
  · exact absurd hres (F1_no_feasible R f hd sol _)

end Props
