import Cdecao.Model.Main
import Cdecao.Model.MainConstants
import Cdecao.Proofs.ReaderValid
import Cdecao.Props.C16
/-! # main.rs as a whole (C10, C15, C16 at the level of the program)

`MainM.front` is everything `main` does before the solver is called, `MainM.run` the whole program
as a function of the parsed options, what the environment delivers, the solver's verdict and the
two output faults. The theorems below are the program-level statements of C15 (whatever is not a
well-formed instance is refused with a usage / data / no-input status, before the solver runs and
before any output file is touched), C10 (whatever is accepted ends with status 0 or 1) and C16
(status 0 with an output path means the file is complete). -/
namespace Props
open MainM CLI

/-- the stage order of main.rs, re-extracted from the source on every run, is the one the model
    was written against -/
theorem main_skeleton_tie : Const.MAIN_SKELETON = MainM.skeleton := rfl

/-- the command-line definition of main.rs (clap), re-extracted from the source on every run, is the
    one the model's `Opts` was written against: the same option names fill the same fields, the same
    ones are switches, nothing defaults, overrides or conflicts, the command parses strictly -/
theorem main_clap_tie : Const.MAIN_CLAP_SKELETON = MainM.clapSkeleton := rfl

theorem parseRooms_codes {o : Opts} {e : Env} {c : Nat} (h : parseRooms o e = .error c) :
    c = EX_USAGE ∨ c = EX_DATAERR ∨ c = EX_NOINPUT := by
  unfold parseRooms at h
  repeat' split at h
  all_goals first
    | contradiction
    | (simp only [Except.error.injEq] at h; subst h; simp)

theorem parseTrack_codes {t : Option String} {c : Nat} (h : parseTrack t = .error c) : c = EX_DATAERR := by
  unfold parseTrack at h
  repeat' split at h
  all_goals first
    | contradiction
    | (simp only [Except.error.injEq] at h; exact h.symm)

theorem readInput_codes {o : Opts} {i : FileIn} {c : Nat} (h : readInput o i = .error c) : c = EX_DATAERR := by
  unfold readInput at h
  split at h
  · split at h
    · rename_i c' hc'
      simp only [Except.error.injEq] at h; subst h
      exact parseTrack_codes hc'
    · repeat' split at h
      all_goals first
        | contradiction
        | (simp only [Except.error.injEq] at h; exact h.symm)
  · repeat' split at h
    all_goals first
      | contradiction
      | (simp only [Except.error.injEq] at h; exact h.symm)

/-- every early exit before the solver carries the usage, data or no-input status -/
theorem main_front_codes {o : Opts} {e : Env} {c : Nat} (h : front o e = .error c) :
    c = EX_USAGE ∨ c = EX_DATAERR ∨ c = EX_NOINPUT := by
  unfold front at h
  split at h
  · simp only [Except.error.injEq] at h; subst h; simp
  · split at h
    · rename_i c' hc'
      simp only [Except.error.injEq] at h; subst h
      exact parseRooms_codes hc'
    · split at h
      · simp only [Except.error.injEq] at h; subst h; simp
      · split at h
        · rename_i c' hc'
          simp only [Except.error.injEq] at h; subst h
          exact Or.inr (Or.inl (readInput_codes hc'))
        · split at h
          · simp only [Except.error.injEq] at h; subst h; simp
          · split at h
            · simp only [Except.error.injEq] at h; subst h; simp
            · contradiction

/-- **C15, program level**: a run refused before the solver ends with that status — 64, 65 or 66,
    never 0 and never the "no feasible solution" status 1 —, the solver was not called, no output
    file was created or touched, nothing was printed; whatever the solver would have said and
    whatever the state of the output path -/
theorem C15_main_refused {o : Opts} {e : Env} {c : Nat} (h : front o e = .error c)
    (found : Problem → Bool) (created written : Bool) :
    (run o e found created written).exit = c ∧
    (c = 64 ∨ c = 65 ∨ c = 66) ∧
    (run o e found created written).solverCalled = false ∧
    (run o e found created written).createAttempted = false ∧
    (run o e found created written).fileComplete = false ∧
    (run o e found created written).listing = false := by
  have hc := main_front_codes h
  simp only [run, h, true_and, and_true]
  simpa [EX_USAGE, EX_DATAERR, EX_NOINPUT] using hc

/-! ### each kind of malformed input the property names is refused -/

theorem C15_main_zero_threads {o : Opts} {e : Env} (h : o.threads = some 0) : front o e = .error 64 := by
  simp [front, h, EX_USAGE]

theorem C15_main_both_rooms {o : Opts} {e : Env} {s : String} (h : o.rooms = some s) (h' : o.roomsFile = true) :
    ∃ c, front o e = .error c := by
  unfold front
  split
  · exact ⟨_, rfl⟩
  · simp [parseRooms, h, h']

theorem C15_main_rooms_unparsable {o : Opts} {e : Env} {s : String} (h : o.rooms = some s)
    (hp : RI.parseRoomsStr s = none) : ∃ c, front o e = .error c := by
  unfold front
  split
  · exact ⟨_, rfl⟩
  · cases hf : o.roomsFile <;> simp [parseRooms, h, hf, hp]

theorem C15_main_rooms_file_bad {o : Opts} {e : Env} (h : o.roomsFile = true)
    (hb : e.roomsFile = .cannotOpen ∨ e.roomsFile = .notJson ∨ ∃ j, e.roomsFile = .doc j ∧ RI.kindsOf j = none) :
    ∃ c, front o e = .error c := by
  unfold front
  split
  · exact ⟨_, rfl⟩
  · cases hr : o.rooms with
    | some s => simp [parseRooms, hr, h]
    | none =>
      rcases hb with hb | hb | ⟨j, hb, hk⟩ <;> simp [parseRooms, *]

theorem front_input {o : Opts} {e : Env} {pb : Problem} (h : front o e = .ok pb) :
    ∃ j, e.input = .doc j ∧ readInput o (.doc j) = .ok pb.data ∧ pb.data.consistent = true ∧ pb.data.numParts ≠ 0 ∧
      pb.threads = o.threads.getD e.cpus ∧ o.threads ≠ some 0 := by
  unfold front at h
  split at h
  · contradiction
  · rename_i hth
    split at h
    · contradiction
    · split at h
      · contradiction
      · rename_i inp hno
        split at h
        · contradiction
        · rename_i d hd
          split at h
          · contradiction
          · rename_i hcons
            split at h
            · contradiction
            · rename_i hne
              simp only [Except.ok.injEq] at h
              subst h
              cases hi : e.input with
              | cannotOpen => exact absurd hi (by simpa using hno)
              | notJson =>
                rw [hi] at hd
                unfold readInput parseTrack at hd
                repeat' split at hd
                all_goals simp_all
              | doc j =>
                refine ⟨j, rfl, by rw [← hi]; exact hd, by simpa using hcons, by simpa using hne, rfl, by simpa using hth⟩

/-- the room list handed to the solver is the one `parse_rooms` delivered -/
theorem front_rooms {o : Opts} {e : Env} {pb : Problem} (h : front o e = .ok pb) :
    parseRooms o e = .ok (pb.rooms, pb.kinds) := by
  unfold front at h
  split at h
  · contradiction
  · split at h
    · contradiction
    · rename_i rooms kinds hpr
      repeat' split at h
      all_goals first
        | contradiction
        | (simp only [Except.ok.injEq] at h; subst h; exact hpr)

/-- without `--rooms` and `--rooms-file` the solver gets no room list -/
theorem front_no_rooms {o : Opts} {e : Env} {pb : Problem} (h : front o e = .ok pb)
    (h1 : o.rooms = none) (h2 : o.roomsFile = false) : pb.rooms = none := by
  have := front_rooms h
  simp only [parseRooms, h1, h2, Except.ok.injEq, Prod.mk.injEq] at this
  exact this.1.symm

/-- with a rooms file, the room list the solver fits courses into is exactly the expansion of the
    kinds the possible-rooms listing is computed from (`RM.kindNames` expands the same kinds again):
    solver and listing cannot disagree about which rooms exist -/
theorem front_kinds_rooms {o : Opts} {e : Env} {pb : Problem} {ks : List RM.Kind} (h : front o e = .ok pb)
    (hk : pb.kinds = some ks) :
    pb.rooms = some (ks.flatMap (fun k => List.replicate k.quantity k.capacity)) := by
  have := front_rooms h
  unfold parseRooms at this
  repeat' split at this
  all_goals first
    | contradiction
    | (simp only [Except.ok.injEq, Prod.mk.injEq] at this
       obtain ⟨h1, h2⟩ := this
       rw [hk] at h2
       first
         | (cases h2; done)
         | (simp only [Option.some.injEq] at h2; subst h2; rw [← h1]; rfl))

/-- without a rooms file there are no kinds, and the listing shows plain sizes -/
theorem front_no_kinds {o : Opts} {e : Env} {pb : Problem} (h : front o e = .ok pb) (h2 : o.roomsFile = false) :
    pb.kinds = none := by
  have := front_rooms h
  unfold parseRooms at this
  rw [h2] at this
  repeat' split at this
  all_goals first
    | contradiction
    | (simp only [Except.ok.injEq, Prod.mk.injEq] at this; exact this.2.symm)

/-- an input file that cannot be opened or is not JSON is refused -/
theorem C15_main_input_bad {o : Opts} {e : Env} (hb : e.input = .cannotOpen ∨ e.input = .notJson) :
    ∃ c, front o e = .error c := by
  cases hf : front o e with
  | error c => exact ⟨c, rfl⟩
  | ok pb =>
    obtain ⟨j, hj, -⟩ := front_input hf
    rcases hb with hb | hb <;> rw [hb] at hj <;> cases hj

/-- simple format: the program goes on to the solver exactly for the documents `SM.accepts`
    accepts (reader + `check_data_consistency` + at least one participant) — so everything
    `C15_accept_sound` says about accepted documents holds for what reaches the solver -/
theorem C15_main_simple {o : Opts} {e : Env} {pb : Problem} (h : front o e = .ok pb) (hc : o.cde = false) :
    ∃ j ps cs, e.input = .doc j ∧ SM.read j = .ok (ps, cs) ∧ pb.data = .simple ps cs ∧ SM.accepts j = true := by
  obtain ⟨j, hj, hr, hcons, hne, -, -⟩ := front_input h
  unfold readInput at hr
  simp only [hc, Bool.false_eq_true, ↓reduceIte] at hr
  split at hr
  · rename_i ps cs hrd
    simp only [Except.ok.injEq] at hr
    refine ⟨j, ps, cs, hj, hrd, hr.symm, ?_⟩
    rw [← hr] at hcons hne
    unfold SM.accepts
    simp only [hrd, SM.validate]
    simp only [Data.consistent] at hcons
    simp only [Data.numParts] at hne
    simp only [hcons, Bool.true_and, Bool.not_eq_eq_eq_not, Bool.not_true, List.isEmpty_eq_false_iff]
    intro hps; simp [hps] at hne
  · contradiction

theorem C15_main_simple_refused {o : Opts} {e : Env} {j : JS.J} (hc : o.cde = false) (hj : e.input = .doc j)
    (ha : SM.accepts j = false) : ∃ c, front o e = .error c := by
  cases hf : front o e with
  | error c => exact ⟨c, rfl⟩
  | ok pb =>
    obtain ⟨j', _, _, hj', _, _, ha'⟩ := C15_main_simple hf hc
    rw [hj] at hj'; cases hj'
    rw [ha] at ha'; cases ha'

/-- CdE format: what reaches the solver is what `CD.read` returned for the parsed track id -/
theorem C15_main_cde {o : Opts} {e : Env} {pb : Problem} (h : front o e = .ok pb) (hc : o.cde = true) :
    ∃ j track ps cs amb, e.input = .doc j ∧ parseTrack o.track = .ok track ∧
      CD.read j { track := track, ignoreCancelled := o.ignoreCancelled, ignoreAssigned := o.ignoreAssigned,
                  factorField := o.factorField, offsetField := o.offsetField } = .ok (ps, cs, amb) ∧
      pb.data = .cde ps cs amb ∧ ps ≠ [] := by
  obtain ⟨j, hj, hr, -, hne, -, -⟩ := front_input h
  unfold readInput at hr
  simp only [hc, ↓reduceIte] at hr
  split at hr
  · contradiction
  · rename_i track ht
    split at hr
    · rename_i ps cs amb hrd
      simp only [Except.ok.injEq] at hr
      refine ⟨j, track, ps, cs, amb, hj, ht, hrd, hr.symm, ?_⟩
      rw [← hr] at hne
      intro hps; simp [Data.numParts, hps] at hne
    · contradiction

theorem C15_main_cde_refused {o : Opts} {e : Env} {j : JS.J} (hc : o.cde = true) (hj : e.input = .doc j)
    (hb : (∃ s, o.track = some s ∧ JS.parseNat s = none) ∨
          ∀ track, parseTrack o.track = .ok track → ∃ msg,
            CD.read j { track := track, ignoreCancelled := o.ignoreCancelled, ignoreAssigned := o.ignoreAssigned,
                        factorField := o.factorField, offsetField := o.offsetField } = .error msg) :
    ∃ c, front o e = .error c := by
  cases hf : front o e with
  | error c => exact ⟨c, rfl⟩
  | ok pb =>
    obtain ⟨j', track, ps, cs, amb, hj', ht, hrd, -, -⟩ := C15_main_cde hf hc
    rw [hj] at hj'; cases hj'
    rcases hb with ⟨s, hs, hp⟩ | hb
    · simp [parseTrack, hs, hp] at ht
    · obtain ⟨msg, hm⟩ := hb track ht
      rw [hm] at hrd; cases hrd

/-- on the CdE path `check_data_consistency` never fires: whatever `CD.read` returns is consistent
    (indices in range, min ≤ max) — the reader's own invariant -/
theorem main_cde_consistent {j : JS.J} {ro : CD.Opts} {ps : List CD.Part} {cs : List CD.Course} {amb : CD.Ambience}
    (h : CD.read j ro = .ok (ps, cs, amb)) : (Data.cde ps cs amb).consistent = true := by
  obtain ⟨rdata, -, wf⟩ := CD.read_wellformed h
  simp only [Data.consistent, Bool.and_eq_true, List.all_eq_true, decide_eq_true_eq]
  exact ⟨fun p hp ch hch => wf.choice_lt p hp ch hch,
         fun c hc => ⟨fun i hi => wf.instr_lt c hc i hi, wf.min_le_max c hc⟩⟩

/-- **C10, program level**: a run that reaches the solver, without output faults, ends with
    status 0 (solution; the file, if requested, complete) or 1 (no solution; no file touched) -/
theorem C10_main {o : Opts} {e : Env} {pb : Problem} (h : front o e = .ok pb) (found : Problem → Bool) :
    (found pb = true → (run o e found true true).exit = 0 ∧ (run o e found true true).fileComplete = o.output) ∧
    (found pb = false → (run o e found true true).exit = 1 ∧ (run o e found true true).createAttempted = false ∧
        (run o e found true true).listing = false) := by
  simp only [run, h]
  cases hf : found pb <;> cases ho : o.output <;> simp [outputStage]

/-- the number of workers handed to the solver is never 0 when at least one CPU is reported -/
theorem C10_main_threads {o : Opts} {e : Env} {pb : Problem} (h : front o e = .ok pb) (hcpu : 0 < e.cpus) :
    0 < pb.threads := by
  obtain ⟨_, _, _, _, _, ht, hz⟩ := front_input h
  rw [ht]
  cases hth : o.threads with
  | none => simpa using hcpu
  | some n =>
    simp only [Option.getD_some]
    rcases Nat.eq_zero_or_pos n with rfl | hn
    · exact absurd hth hz
    · exact hn

/-- **C16, program level**: exit status 0 with an output path means the solver found a solution,
    the file was created and written completely -/
theorem C16_main {o : Opts} {e : Env} (found : Problem → Bool) (created written : Bool) (ho : o.output = true)
    (h : (run o e found created written).exit = 0) :
    (run o e found created written).solverCalled = true ∧ created = true ∧ written = true ∧
    (run o e found created written).fileComplete = true := by
  unfold run at h ⊢
  split at h
  · rename_i c hc
    rcases main_front_codes hc with rfl | rfl | rfl <;> simp [EX_USAGE, EX_DATAERR, EX_NOINPUT] at h
  · rename_i pb hpb
    simp only at h ⊢
    have := C16 (found pb) o.print { requested := o.output, created := created, written := written } ho h
    simp only [true_and]
    exact ⟨this.2.1, this.2.2.1, this.2.2.2⟩

/-- every output fault gives a non-zero status although a solution exists -/
theorem C16_main_faults {o : Opts} {e : Env} {pb : Problem} (h : front o e = .ok pb) (found : Problem → Bool)
    (hf : found pb = true) (ho : o.output = true) (created written : Bool) (hb : created = false ∨ written = false) :
    (run o e found created written).exit = EX_CANTCREAT ∨ (run o e found created written).exit = EX_IOERR := by
  simp only [run, h, hf, outputStage, ho]
  cases created <;> cases written <;> simp_all

/-! ### non-vacuity: concrete runs -/

private def okDoc : JS.J :=
  .obj [("participants", .arr [.obj [("name", .str "A"), ("choices", .arr [.obj [("course", .num (.pos 0)), ("penalty", .num (.pos 0))]])]]),
        ("courses", .arr [.obj [("name", .str "X"), ("num_max", .num (.pos 3)), ("num_min", .num (.pos 0)), ("instructors", .arr [])]])]

example : (run { threads := some 0, rooms := some "1,x" } ⟨.doc okDoc, .cannotOpen, 4⟩ (fun _ => true) true true).exit = 64 := by decide
example : (run { rooms := some "1,x" } ⟨.doc okDoc, .cannotOpen, 4⟩ (fun _ => true) true true).exit = 65 := by decide
example : (run { roomsFile := true } ⟨.cannotOpen, .cannotOpen, 4⟩ (fun _ => true) true true).exit = 66 := by decide

end Props
