import Cdecao.Proofs.NodeEng2
/-! # C08 (score half) — the reported score is the documented score of the reported assignment -/
namespace Props
open N2

/-- at every reachable configuration of the parallel search the stored best score is the score
    recomputed from the incumbent by the documented rule (`G.scoreOf`), and the incumbent satisfies
    the hard constraints -/
theorem C08_score (I : Inst) (R : RoomFns) (hI : InstOK2 I) (top T : Nat) :
    letI := solverOf I R
    ∀ c : Eng3.Cfg Node (List (Option Nat)),
      Eng3.Reach rootNode top T c → ∀ al, c.best = some al →
      ∃ a : Nat → Option Nat, al = (List.range I.P).map a ∧ G.HardOK I a ∧ c.bestScore = G.scoreOf I a :=
  C01_C08_engine I R hI top T

end Props
