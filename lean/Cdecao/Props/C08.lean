import Cdecao.Proofs.NodeEng2
import Cdecao.Proofs.SpecExec
/-! # C08 (score half) — the reported score is the documented score of the reported assignment -/
namespace Props
open N2

/-- at every reachable configuration of the parallel search the stored best score is the score
    recomputed from the incumbent by the documented rule (`G.scoreOf`), and the incumbent satisfies
    the hard constraints -/
theorem C08_score (I : Inst) (R : RoomFns) (hI : InstOK2 I) (top T : Nat) :
    letI := solverOf I R
    ∀ c : Eng3.Cfg Node (List (Option Nat)),
      Eng3.Reach rootNode top T c → ∀ al, c.best = some al →
      ∃ a : Nat → Option Nat, al = (List.range I.P).map a ∧ G.HardOK I a ∧ c.bestScore = G.scoreOf I a :=
  C01_C08_engine I R hI top T

/-- the same with the decidable premise `validb` and the executable score `scoreOfL` (the list sum
    the driver evaluates on every assignment the real code returns) -/
theorem C08_score_valid (I : Inst) (R : RoomFns) (hv : validb I = true) (top T : Nat) :
    letI := solverOf I R
    ∀ c : Eng3.Cfg Node (List (Option Nat)),
      Eng3.Reach rootNode top T c → ∀ al, c.best = some al →
      ∃ a : Nat → Option Nat, al = (List.range I.P).map a ∧ G.hardOKb I a = true ∧ c.bestScore = G.scoreOfL I a := by
  letI := solverOf I R
  intro c hr al hal
  obtain ⟨a, h1, h2, h3⟩ := C01_C08_engine I R (validb_sound I hv).1 top T c hr al hal
  exact ⟨a, h1, (G.hardOKb_iff I a).2 h2, by rw [G.scoreOfL_eq]; exact h3⟩

end Props
