import Cdecao.Props.C01Cde
import Cdecao.Proofs.NodeEng2
import Cdecao.Proofs.SpecExec
import Cdecao.Proofs.QualityProofs
/-! # C08 (score half) — the reported score is the documented score of the reported assignment -/
namespace Props
open N2

/-- at every reachable configuration of the parallel search the stored best score is the score
    recomputed from the incumbent by the documented rule (`G.scoreOf`), and the incumbent satisfies
    the hard constraints -/
theorem C08_score (I : Inst) (R : RoomFns) (hI : InstOK2 I) (top T : Nat) :
    letI := solverOf I R
    ∀ c : Eng3.Cfg Node (List (Option Nat)),
      Eng3.Reach rootNode top T c → ∀ al, c.best = some al →
      ∃ a : Nat → Option Nat, al = (List.range I.P).map a ∧ G.HardOK I a ∧ c.bestScore = G.scoreOf I a :=
  C01_C08_engine I R hI top T

/-- the same with the decidable premise `validb` and the executable score `scoreOfL` (the list sum
    the driver evaluates on every assignment the real code returns) -/
theorem C08_score_valid (I : Inst) (R : RoomFns) (hv : validb I = true) (top T : Nat) :
    letI := solverOf I R
    ∀ c : Eng3.Cfg Node (List (Option Nat)),
      Eng3.Reach rootNode top T c → ∀ al, c.best = some al →
      ∃ a : Nat → Option Nat, al = (List.range I.P).map a ∧ G.hardOKb I a = true ∧ c.bestScore = G.scoreOfL I a := by
  letI := solverOf I R
  intro c hr al hal
  obtain ⟨a, h1, h2, h3⟩ := C01_C08_engine I R (validb_sound I hv).1 top T c hr al hal
  exact ⟨a, h1, (G.hardOKb_iff I a).2 h2, by rw [G.scoreOfL_eq]; exact h3⟩

/-! ### quality half — the figures of caobab/solution_score.rs -/

/-- the "perfect matching" line is an upper bound: the documented score of every assignment is at
    most `theoretical_max_score` (no hypothesis) -/
theorem C08_max_ge (I : Inst) (a : Nat → Option Nat) : G.scoreOfL I a ≤ QM.theoreticalMax I :=
  QM.max_ge I a

/-- score + penalties paid by the participants with choices = `W` per such participant, for every
    assignment; in particular the unsigned subtraction in `solution_quality` does not underflow -/
theorem C08_quality_identity (I : Inst) (hpen : QM.PenOK I) (a : Nat → Option Nat) :
    G.scoreOfL I a + QM.totalPenalty I a = QM.numReal I * G.W :=
  QM.quality_identity I hpen a

/-- the reported quality lack of an assignment satisfying the hard constraints is the mean, over
    the participants with choices, of the penalty of the attended choice — `0` for a participant
    instructing the course they are assigned to; every such participant is assigned to a course
    they instruct or chose -/
theorem C08_quality_lack (I : Inst) (hpen : QM.PenOK I) (a : Nat → Option Nat) (h : G.HardOK I a) :
    QM.quality I (G.scoreOfL I a) = (QM.totalPenalty I a, (QM.realParts I).length) ∧
    ∀ p ∈ QM.realParts I, ∃ c, a p = some c ∧ c < I.C ∧
      ((I.instructs p c = true ∧ QM.penaltyPaid I a p = 0) ∨
       (I.instructs p c = false ∧ ∃ ch ∈ (I.part p).choices, ch.course = c ∧
          QM.attended I p c = some ch ∧ QM.penaltyPaid I a p = ch.penalty)) :=
  QM.quality_lack I hpen a h

/-- the combined figure: that sum plus the external penalties, over the participants with choices
    plus the external attendees plus the external instructors -/
theorem C08_combined (I : Inst) (hpen : QM.PenOK I) (a : Nat → Option Nat) (h : G.HardOK I a)
    (extInstr : Nat) (extPen : List Nat) :
    QM.combined I (G.scoreOfL I a) extInstr extPen =
      (QM.totalPenalty I a + extPen.sum, (QM.realParts I).length + extPen.length + extInstr) :=
  QM.combined_lack I hpen a h extInstr extPen

/-- the "perfect matching" quality lack is a lower bound for the lack of every assignment, over the
    same head count, and its own subtraction does not underflow -/
theorem C08_quality_max (I : Inst) (a : Nat → Option Nat) :
    (QM.quality I (QM.theoreticalMax I)).1 ≤ (QM.quality I (G.scoreOfL I a)).1 ∧
    (QM.quality I (QM.theoreticalMax I)).2 = (QM.quality I (G.scoreOfL I a)).2 ∧
    QM.theoreticalMax I ≤ QM.numReal I * G.W :=
  ⟨(QM.quality_max_le I a).1, (QM.quality_max_le I a).2, QM.theoreticalMax_le I⟩

/-- end to end: at every reachable configuration of the parallel search on a valid instance, the
    figures computed from the stored best score are those of the incumbent assignment: the score
    is at most the theoretical maximum and the quality lack is the mean penalty paid -/
theorem C08_quality_engine (I : Inst) (R : RoomFns) (hv : validb I = true) (top T : Nat) :
    letI := solverOf I R
    ∀ c : Eng3.Cfg Node (List (Option Nat)),
      Eng3.Reach rootNode top T c → ∀ al, c.best = some al →
      ∃ a : Nat → Option Nat, al = (List.range I.P).map a ∧ G.HardOK I a ∧
        c.bestScore ≤ QM.theoreticalMax I ∧
        QM.quality I c.bestScore = (QM.totalPenalty I a, (QM.realParts I).length) := by
  letI := solverOf I R
  intro c hr al hal
  obtain ⟨a, h1, h2, h3⟩ := C08_score_valid I R hv top T c hr al hal
  have hh : G.HardOK I a := (G.hardOKb_iff I a).1 h2
  refine ⟨a, h1, hh, ?_, ?_⟩
  · rw [h3]; exact QM.max_ge I a
  · rw [h3]; exact QM.quality_lack_general I (QM.penOK_of_valid hv) a

end Props
