import Cdecao.Model.Cdedb
/-! # C05 — applying the generated import file yields a consistent course track (writer side)

`CD.writeRegs` / `CD.writeCourses` model the registrations / courses objects of io::cdedb::write.
What the file names is exactly determined by the problem that was read and the assignment:
only registrations and courses of the problem (hence of the export, by C12), the assigned course's
database id, and a segment flag that is true iff somebody is assigned or the course is fixed. -/
namespace Props
open CD

/-- every registration entry of the file is a participant of the problem with the database id of
    the course the assignment gives it -/
theorem C05_regs (parts : List Part) (courses : List Course) (a : List (Option Nat)) (rid cid : Nat)
    (h : (rid, cid) ∈ writeRegs parts courses a) :
    ∃ p x c, (p, x) ∈ parts.zip a ∧ x = some c ∧ rid = p.dbid ∧ cid = (courses.getD c default).dbid := by
  unfold writeRegs at h
  simp only [List.mem_filterMap, Option.map_eq_some_iff, Prod.mk.injEq] at h
  obtain ⟨⟨p, x⟩, hm, c, hx, h1, h2⟩ := h
  exact ⟨p, x, c, hm, hx, h1.symm, h2.symm⟩

/-- a course is written as taking place iff somebody is assigned to it or it is fixed -/
theorem C05_courses (courses : List Course) (a : List (Option Nat)) (cid : Nat) (b : Bool)
    (h : (cid, b) ∈ writeCourses courses a) :
    ∃ c i, (c, i) ∈ courses.zipIdx ∧ cid = c.dbid ∧ (b = true ↔ (0 < a.countP (· == some i) ∨ c.fixed = true)) := by
  unfold writeCourses at h
  simp only [List.mem_map, Prod.mk.injEq] at h
  obtain ⟨⟨c, i⟩, hm, h1, h2⟩ := h
  refine ⟨c, i, hm, h1.symm, ?_⟩
  rw [← h2]
  simp

/-- nobody is assigned to a course the file marks as cancelled -/
theorem C05_no_cancelled_assignment (courses : List Course) (a : List (Option Nat)) (c : Course) (i : Nat)
    (hm : (c, i) ∈ courses.zipIdx) (hb : (c.dbid, false) ∈ writeCourses courses a)
    (hnd : ∀ c' i', (c', i') ∈ courses.zipIdx → c'.dbid = c.dbid → i' = i) :
    ∀ x ∈ a, x ≠ some i := by
  obtain ⟨c', i', hm', hid, hiff⟩ := C05_courses courses a c.dbid false hb
  have hi : i' = i := hnd c' i' hm' hid.symm
  subst hi
  intro x hx heq
  have : 0 < a.countP (· == some i') := by
    rw [List.countP_pos_iff]
    exact ⟨x, hx, by simp [heq]⟩
  have := hiff.2 (Or.inl this)
  contradiction

end Props
