import Cdecao.Model.Cdedb
import Cdecao.Proofs.ImportConsistent
/-! # C05 — applying the generated import file yields a consistent course track (writer side)

`CD.writeRegs` / `CD.writeCourses` model the registrations / courses objects of io::cdedb::write.
What the file names is exactly determined by the problem that was read and the assignment:
only registrations and courses of the problem (hence of the export, by C12), the assigned course's
database id, and a segment flag that is true iff somebody is assigned or the course is fixed. -/
namespace Props
open CD

/-- every registration entry of the file is a participant of the problem with the database id of
    the course the assignment gives it -/
theorem C05_regs (parts : List Part) (courses : List Course) (a : List (Option Nat)) (rid cid : Nat)
    (h : (rid, cid) ∈ writeRegs parts courses a) :
    ∃ p x c, (p, x) ∈ parts.zip a ∧ x = some c ∧ rid = p.dbid ∧ cid = (courses.getD c default).dbid := by
  unfold writeRegs at h
  simp only [List.mem_filterMap, Option.map_eq_some_iff, Prod.mk.injEq] at h
  obtain ⟨⟨p, x⟩, hm, c, hx, h1, h2⟩ := h
  exact ⟨p, x, c, hm, hx, h1.symm, h2.symm⟩

/-- a course is written as taking place iff somebody is assigned to it or it is fixed -/
theorem C05_courses (courses : List Course) (a : List (Option Nat)) (cid : Nat) (b : Bool)
    (h : (cid, b) ∈ writeCourses courses a) :
    ∃ c i, (c, i) ∈ courses.zipIdx ∧ cid = c.dbid ∧ (b = true ↔ (0 < a.countP (· == some i) ∨ c.fixed = true)) := by
  unfold writeCourses at h
  simp only [List.mem_map, Prod.mk.injEq] at h
  obtain ⟨⟨c, i⟩, hm, h1, h2⟩ := h
  refine ⟨c, i, hm, h1.symm, ?_⟩
  rw [← h2]
  simp

/-- nobody is assigned to a course the file marks as cancelled -/
theorem C05_no_cancelled_assignment (courses : List Course) (a : List (Option Nat)) (c : Course) (i : Nat)
    (hm : (c, i) ∈ courses.zipIdx) (hb : (c.dbid, false) ∈ writeCourses courses a)
    (hnd : ∀ c' i', (c', i') ∈ courses.zipIdx → c'.dbid = c.dbid → i' = i) :
    ∀ x ∈ a, x ≠ some i := by
  obtain ⟨c', i', hm', hid, hiff⟩ := C05_courses courses a c.dbid false hb
  have hi : i' = i := hnd c' i' hm' hid.symm
  subst hi
  intro x hx heq
  have : 0 < a.countP (· == some i') := by
    rw [List.countP_pos_iff]
    exact ⟨x, hx, by simp [heq]⟩
  have := hiff.2 (Or.inl this)
  contradiction

/-! ## the import file against the export it was computed from

Proofs in `Cdecao/Proofs/ImportConsistent.lean`. Vocabulary (all on the JSON value of the export):
* `Selected data o amb partId trackId cdata rdata` — `findTrack` selected part `partId` / track
  `trackId` among `event.parts`; `cdata` / `rdata` are the `courses` / `registrations` objects; and
  `amb.trackId = trackId` is the only track id the writer names (`tracks: {amb.trackId: {course_id}}`);
* `RegNamed o partId trackId cdata rkv rid` — `rkv` has key `rid`, `parts[partId].status` is
  participant, and with `--ignore-assigned` its `tracks[trackId].course_id` is absent/null or names
  a course that is not kept (not offered in the track, or cancelled and ignored);
* `CourseNamed o trackId ckv cid` — `ckv` has key `cid`, `segments[trackId]` is a boolean (offered)
  and with `--ignore-cancelled` it is `true`;
* `ChoseOrInstructs trackId reg cid` — `cid` occurs in `tracks[trackId].choices` or equals
  `tracks[trackId].course_instructor`;
* `courseMinSize` / `courseMaxSize` — `min_size` / `max_size` with the defaults 0 / 25;
* `ignoredCount o partId trackId rdata cid false` — with `--ignore-assigned`, the number of
  registrations that are participants of the part, have `course_id = cid` in the track and do not
  instruct `cid` (the ignored pre-assigned attendees); 0 without the option;
* `NodupKeys data` — the keys of the `courses` object are distinct as parsed numbers. This is a
  hypothesis: it is not derivable in the model (`J.obj` is an arbitrary association list and `"7"`,
  `"07"` parse alike). It is used for (e) and for expressing the ignored counts of (d) by the
  course's key; `CD.Link.regs_entry` / `CD.Link.courses_entry` are (a)–(d) without it. -/

open N2.G in
/-- **C05, assembled.** For the problem read from an export and any assignment satisfying the hard
    constraints, the registrations / courses objects of the import file are consistent with that
    export:
    * shape: the entries are exactly `(registration id of participant p, id of its course)` — one
      `course_id` per named registration, for the single track `amb.trackId`, the selected one;
    * (a) every entry names a registration of the export that is a participant of the selected part
      (and is not an ignored one) and a course of the export offered in the selected track (not
      cancelled, with `--ignore-cancelled`);
    * (b) that course is written as taking place;
    * (c) the registration chose the course or instructs it, by the export;
    * (d) per course entry: it names a course of the export offered in the track; it is written as
      taking place iff it takes place in the sense of `HardOK`; then the export's `min_size` is met
      counting the new attendees and the ignored pre-assigned ones; and there are no new attendees
      or the export's `max_size` is respected counting both;
    * (e) nobody is newly assigned to a course written as cancelled. -/
theorem C05_consistent (data : JS.J) (o : Opts) (parts : List Part) (courses : List Course)
    (amb : Ambience) (al : List (Option Nat))
    (hread : CD.read data o = .ok (parts, courses, amb))
    (hlen : al.length = parts.length)
    (hok : HardOK (toInst parts courses) (fun p => al.getD p none))
    (hkeys : NodupKeys data) :
    ∃ partId trackId cdata rdata, Selected data o amb partId trackId cdata rdata ∧
      -- shape of the registration entries
      (∀ rid cid, (rid, cid) ∈ writeRegs parts courses al ↔
        ∃ (p : Nat) (pp : Part) (c : Nat), parts[p]? = some pp ∧ al[p]? = some (some c) ∧
          rid = pp.dbid ∧ cid = (courses.getD c default).dbid) ∧
      -- (a), (b), (c)
      (∀ rid cid, (rid, cid) ∈ writeRegs parts courses al →
        ∃ rkv ∈ rdata, ∃ ckv ∈ cdata,
          RegNamed o partId trackId cdata rkv rid ∧ CourseNamed o trackId ckv cid ∧
          (cid, true) ∈ writeCourses courses al ∧ ChoseOrInstructs trackId rkv.2 cid) ∧
      -- (d)
      (∀ c cid b, (writeCourses courses al)[c]? = some (cid, b) →
        ∃ ckv ∈ cdata, CourseNamed o trackId ckv cid ∧
          (b = true ↔ takesPlace (toInst parts courses) (fun p => al.getD p none) c) ∧
          (b = true → courseMinSize ckv.2 ≤
            attendees (toInst parts courses) (fun p => al.getD p none) c +
              ignoredCount o partId trackId rdata cid false) ∧
          (attendees (toInst parts courses) (fun p => al.getD p none) c = 0 ∨
            attendees (toInst parts courses) (fun p => al.getD p none) c +
              ignoredCount o partId trackId rdata cid false ≤ courseMaxSize ckv.2)) ∧
      -- (e)
      (∀ cid, (cid, false) ∈ writeCourses courses al →
        ∀ rid, (rid, cid) ∉ writeRegs parts courses al) := by
  obtain ⟨partId, trackId, cdata, rdata, co, L⟩ := read_link data o parts courses amb hread
  have hn : (courseIds cdata).Nodup := hkeys cdata L.hcdata
  refine ⟨partId, trackId, cdata, rdata, L.selected, mem_writeRegs parts courses al,
    fun rid cid h => L.regs_entry al hok rid cid h, ?_,
    fun cid h rid => L.no_cancelled_assignment hn al hok cid h rid⟩
  intro c cid b h
  obtain ⟨ckv, hm, hnamed, h1, h2, h3, _⟩ := L.courses_entry al hlen hok c cid b h
  have hcc : ∃ cc, courses[c]? = some cc ∧ cc.dbid = cid := by
    rw [writeCourses_getElem?] at h
    cases hcc : courses[c]? with
    | none => rw [hcc] at h; cases h
    | some cc =>
      rw [hcc] at h
      simp only [Option.map_some, Option.some.injEq, Prod.mk.injEq] at h
      exact ⟨cc, rfl, h.1⟩
  obtain ⟨cc, hcc, rfl⟩ := hcc
  rw [L.invCount_eq_ignoredCount hn c cc hcc false] at h2 h3
  exact ⟨ckv, hm, hnamed, h1, h2, h3⟩

open N2.G in
/-- **C05 without key distinctness.** Clauses (a)–(d) hold for every export; the ignored
    pre-assigned attendees of (d) are then counted through the reader's course table `co`
    (`invCount … c false` = the number of registrations `readRegs` ignored with `assigned = some c`
    that do not instruct `c`, see `readRegs_invisible`). -/
theorem C05_consistent_anyKeys (data : JS.J) (o : Opts) (parts : List Part) (courses : List Course)
    (amb : Ambience) (al : List (Option Nat))
    (hread : CD.read data o = .ok (parts, courses, amb))
    (hlen : al.length = parts.length)
    (hok : HardOK (toInst parts courses) (fun p => al.getD p none)) :
    ∃ partId trackId cdata rdata co, Selected data o amb partId trackId cdata rdata ∧
      readCourses cdata trackId o = .ok co ∧
      (∀ rid cid, (rid, cid) ∈ writeRegs parts courses al →
        ∃ rkv ∈ rdata, ∃ ckv ∈ cdata,
          RegNamed o partId trackId cdata rkv rid ∧ CourseNamed o trackId ckv cid ∧
          (cid, true) ∈ writeCourses courses al ∧ ChoseOrInstructs trackId rkv.2 cid) ∧
      (∀ c cid b, (writeCourses courses al)[c]? = some (cid, b) →
        ∃ ckv ∈ cdata, CourseNamed o trackId ckv cid ∧
          (b = true ↔ takesPlace (toInst parts courses) (fun p => al.getD p none) c) ∧
          (b = true → courseMinSize ckv.2 ≤
            attendees (toInst parts courses) (fun p => al.getD p none) c +
              invCount o partId trackId co rdata c false) ∧
          (attendees (toInst parts courses) (fun p => al.getD p none) c = 0 ∨
            attendees (toInst parts courses) (fun p => al.getD p none) c +
              invCount o partId trackId co rdata c false ≤ courseMaxSize ckv.2)) := by
  obtain ⟨partId, trackId, cdata, rdata, co, L⟩ := read_link data o parts courses amb hread
  refine ⟨partId, trackId, cdata, rdata, co, L.selected, L.hco,
    fun rid cid h => L.regs_entry al hok rid cid h, ?_⟩
  intro c cid b h
  obtain ⟨ckv, hm, hnamed, h1, h2, h3, _⟩ := L.courses_entry al hlen hok c cid b h
  exact ⟨ckv, hm, hnamed, h1, h2, h3⟩

/-- a concrete instance of the hypotheses (`CD.Ex`: track 3 with `--ignore-cancelled` and
    `--ignore-assigned`; course 7 takes place, 8 is cancelled, 9 belongs to another track;
    registration 100 chooses 8 then 7, 101 is pre-assigned to 7 and ignored, 102 is no participant,
    103 instructs 7; both participants are assigned to course 7) -/
example := C05_consistent Ex.doc Ex.opts Ex.parts Ex.courses Ex.amb Ex.al Ex.read_eq rfl Ex.hardOK
  Ex.nodupKeys

end Props

#print axioms Props.C05_consistent
#print axioms Props.C05_consistent_anyKeys
