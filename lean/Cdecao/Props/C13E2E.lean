import Cdecao.Props.C13
import Cdecao.Props.C13OneWorker
import Cdecao.Proofs.ReaderValid
import Cdecao.Proofs.NodeEng3
/-! # C13 end to end: agreeing exports give the same written file (one worker)

`C13_read`: two exports that `Agree` (same live data of the selected part and track, up to the
freedoms the options leave) are read to the SAME problem — or refused alike. `C13_one_worker_outcome`:
with one worker and any fixed behaviour of the priority queue the search on a given problem has one
outcome. Composed: the registrations and courses objects of the import files written for the two
exports are equal, and so are verdict and score. -/
set_option linter.style.haveILetI false
namespace Props
open CD N2 Eng3

/-- what the program writes for an outcome of the search (nothing without a solution) -/
def writtenFor (parts : List CD.Part) (courses : List CD.Course) (best : Option (List (Option Nat))) :
    Option (List (Nat × Nat) × List (Nat × Bool)) :=
  best.map (fun al => (writeRegs parts courses al, writeCourses courses al))

/-- **C13, reader ∘ search ∘ writer, one worker.** Two exports that agree on the selected track's
    live data are either both refused or read to the same problem; then, for every room list and
    float behaviour, every fixed behaviour `pol` of the priority queue, two complete one-worker runs
    (one per export) end with the same verdict, the same score and the same written registrations
    and courses objects -/
theorem C13_end_to_end (o : Opts) (partId trackId : Nat) (e e' : JS.J) (h : Agree o partId trackId e e')
    (rooms : Option (List Nat)) (R : RoomFns) (top : Nat) :
    CD.read e o = CD.read e' o ∧
    ∀ parts courses amb, CD.read e o = .ok (parts, courses, amb) →
      letI := solverOf (toInstR parts courses rooms) R
      ∀ (pol : List (Cfg Node (List (Option Nat))) → Nat) (es es' : List Ev) (c c' : Cfg Node (List (Option Nat))),
        execP pol [] (init rootNode top 1) es = some c → execP pol [] (init rootNode top 1) es' = some c' →
        AllFinished c → AllFinished c' →
        c.best = c'.best ∧ c.bestScore = c'.bestScore ∧
        writtenFor parts courses c.best = writtenFor parts courses c'.best := by
  have hr := C13_read o partId trackId e e' h
  refine ⟨hr, ?_⟩
  intro parts courses amb _
  letI := solverOf (toInstR parts courses rooms) R
  intro pol es es' c c' h1 h2 f1 f2
  obtain ⟨hc, hb, hs⟩ := C13_one_worker_outcome rootNode top pol es es' c c' h1 h2 f1 f2
  exact ⟨hb, hs, by rw [hb]⟩

end Props
