import Cdecao.Proofs.NodeRoom
import Cdecao.Proofs.NodeEng2
import Cdecao.Proofs.SpecExec
/-! # C06 — room limits are respected by every reported solution -/
namespace Props
open N2 RG

/-- node level: a `Feasible` verdict under a room list means that, rank by rank, the descending
    effective sizes fit the descending (zero-padded, truncated) room list. Holds for every `R.eff`. -/
theorem C06_node (I : Inst) (R : RoomFns) (nd : Node) (al : List (Option Nat)) (sc : Nat) (rooms : List Nat)
    (hr : I.roomSizes = some rooms) (h : runNodeS I R nd = .ok (.feasible al sc)) :
    ∃ a : Nat → Option Nat, al = (List.range I.P).map a ∧
      ∀ s r, (s, r) ∈ (sortedDesc ((effSizes I R a).map (·.2))).zip rooms → s ≤ r :=
  N2.C06_node I R nd al sc rooms hr h

/-- lifted to the parallel search: the incumbent under any thread count and schedule -/
theorem C06 (I : Inst) (R : RoomFns) (rooms : List Nat) (hr : I.roomSizes = some rooms) (top T : Nat) :
    letI := solverOf I R
    ∀ c : Eng3.Cfg Node (List (Option Nat)),
      Eng3.Reach rootNode top T c → ∀ al, c.best = some al →
      ∃ a : Nat → Option Nat, al = (List.range I.P).map a ∧
        ∀ s r, (s, r) ∈ (sortedDesc ((effSizes I R a).map (·.2))).zip rooms → s ≤ r := by
  letI := solverOf I R
  intro c hreach al hal
  have hinv := Eng3.reach_solinv hreach
  rcases hinv.inc with h | ⟨f, sol, _, hres, hbest⟩
  · rw [h] at hal; contradiction
  · rw [hbest] at hal
    simp only [Option.some.injEq] at hal
    subst hal
    simp only [Eng3.Solver.res] at hres
    cases hrun : runNodeS I R f with
    | error e => simp [hrun] at hres
    | ok r =>
      cases r with
      | noSol => simp [hrun] at hres
      | infeasible kids sc => simp [hrun] at hres
      | feasible al' sc' =>
        simp only [hrun, Eng3.Res.feasible.injEq] at hres
        obtain ⟨rfl, _⟩ := hres
        exact N2.C06_node I R f _ sc' rooms hr hrun

/-- C06 in the form the check evaluates: `roomOKb` sorts the effective sizes and the given rooms in
    descending order and compares them rank by rank, missing rooms counting as size 0 -/
theorem C06_exec (I : Inst) (R : RoomFns) (rooms padded : List Nat) (hr : I.rooms = some rooms)
    (hp : I.roomSizes = some padded) (top T : Nat) :
    letI := solverOf I R
    ∀ c : Eng3.Cfg Node (List (Option Nat)),
      Eng3.Reach rootNode top T c → ∀ al, c.best = some al →
      ∃ a : Nat → Option Nat, al = (List.range I.P).map a ∧ RSpec.roomOKb I R a rooms = true := by
  letI := solverOf I R
  intro c hreach al hal
  obtain ⟨a, h1, h2⟩ := C06 I R padded hp top T c hreach al hal
  exact ⟨a, h1, (roomOKb_iff I R a rooms padded hr hp).2 h2⟩

end Props
