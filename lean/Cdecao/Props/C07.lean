import Cdecao.Proofs.HungFinal
import Cdecao.Proofs.HungTotal
import Cdecao.Proofs.SpecExec
import Cdecao.Proofs.HungBounds
/-! # C07 — the matching routine returns a maximum-weight constrained perfect matching

Model: `H2.run` (hungarian.rs, same iteration, same tie-breaking). `probOf I` is the bipartite
problem of the non-skipped rows `X` and columns `Y` with `allowed x y = ¬(dummy x ∧ mandatory y)`. -/
namespace Props
open H2 Finset

/-- partial correctness and optimality: on a square selection, whatever `run` returns is a
    constrained perfect matching, the returned score is its total weight, and no constrained
    perfect matching weighs more. All sizes, all integer weights, all masks. -/
theorem C07_partial (I : Inp) (hsq : #(probOf I).X = #(probOf I).Y) (mm : Vec Nat) (sc : Int)
    (h : run I = some (mm, sc)) :
    Perfect (probOf I) mm.get ∧ sc = weight (probOf I) mm.get ∧
    ∀ σ', Perfect (probOf I) σ' → weight (probOf I) σ' ≤ sc :=
  hung_partial I hsq mm sc h

/-- totality: whenever a constrained perfect matching exists (`Admits`), the routine returns
    (no `unwrap` on `None`, no fuel exhaustion) -/
theorem C07_total (I : Inp) (τ : Nat → Nat) (ha : Admits I τ) : ∃ r, run I = some r :=
  hung_total I τ ha

/-- in the form the check evaluates (`perfectb`, list-sum `weight`) on the real routine's output -/
theorem C07_exec (I : Inp) (hsq : #(probOf I).X = #(probOf I).Y) (mm : Vec Nat) (sc : Int)
    (h : run I = some (mm, sc)) :
    HSpec.perfectb I mm.get = true ∧ sc = HSpec.weight I mm.get ∧
    ∀ σ', HSpec.perfectb I σ' = true → HSpec.weight I σ' ≤ sc := by
  obtain ⟨h1, h2, h3⟩ := hung_partial I hsq mm sc h
  refine ⟨(HSpec.perfectb_iff I _).2 h1, by rw [HSpec.weight_eq]; exact h2, ?_⟩
  intro σ' hσ
  rw [HSpec.weight_eq]
  exact h3 σ' ((HSpec.perfectb_iff I σ').1 hσ)

/-! ## `i32` arithmetic (hungarian.rs: `type Label = i32`, `LARGE_LABEL = i32::MAX`)

`H2B.run B` (Cdecao/Model/HungarianI32.lean) is the same routine with every arithmetic result checked
against `[-B, B)` (`B = 2^31` for `i32`) and the scan failing on a delta equal to the sentinel `B - 1`:
it returns `none` as soon as the Rust routine would overflow (or confuse a delta with `LARGE_LABEL`).
Proofs: Cdecao/Proofs/HungBounds.lean (label bounds: in a run that returns, `lx ∈ [-2·ny·W, W]`,
`ly ∈ [0, (2·ny+1)·W]`, sums/deltas within `±(2·ny+2)·W`, score in `[0, ny·W]`) and
Cdecao/Proofs/HungI32Conv.lean (converse). -/

/-- no overflow: for weights in `[0, W]` and `(2·ny + 2)·W + 1 < B` the range-checked routine returns
    whatever the unbounded model returns -/
theorem C07_i32 (I : Inp) (W B : Int) (r : Vec Nat × Int)
    (hw : ∀ x y, 0 ≤ I.wt x y ∧ I.wt x y ≤ W) (hB : (2 * (I.ny : Int) + 2) * W + 1 < B)
    (h : run I = some r) : H2B.run B I = some r :=
  H2B.run_sim I W B hw hB r h

/-- the same with the bound stated in `n = max nx ny` (the side condition `1 < B` only matters for `W = 0`) -/
theorem C07_i32_max (I : Inp) (W B : Int) (r : Vec Nat × Int)
    (hw : ∀ x y, 0 ≤ I.wt x y ∧ I.wt x y ≤ W)
    (hB : (4 * ((max I.nx I.ny : Nat) : Int) + 4) * W < B) (hB1 : 1 < B)
    (h : run I = some r) : H2B.run B I = some r :=
  H2B.run_sim_max I W B hw hB hB1 r h

/-- converse, for every bound and every input: the checked routine only ever fails more often -/
theorem C07_i32_conv (I : Inp) (B : Int) (r : Vec Nat × Int) (h : H2B.run B I = some r) : run I = some r :=
  H2B.run_conv B I r h

/-- hence, under the bound, both routines agree (also in failing) -/
theorem C07_i32_eq (I : Inp) (W B : Int) (hw : ∀ x y, 0 ≤ I.wt x y ∧ I.wt x y ≤ W)
    (hB : (2 * (I.ny : Int) + 2) * W + 1 < B) : H2B.run B I = run I :=
  H2B.run_eq I W B hw hB

/-- caobab: weights are at most `WEIGHT_OFFSET = 50000`; for up to 10 000 rows/columns (course places)
    the `i32` routine agrees with the unbounded model -/
theorem C07_i32_caobab (I : Inp) (hn : max I.nx I.ny ≤ 10000)
    (hw : ∀ x y, 0 ≤ I.wt x y ∧ I.wt x y ≤ 50000) : H2B.run (2^31) I = run I := by
  apply H2B.run_eq I 50000 (2^31) hw
  have : I.ny ≤ 10000 := Nat.le_trans (Nat.le_max_right _ _) hn
  omega

/-- the condition of `C07_i32_max` for caobab's numbers -/
example (n : Nat) (hn : n ≤ 10000) : (4 * (n : Int) + 4) * 50000 < 2^31 := by omega

/-- C07 for the `i32` routine, partial correctness (no hypothesis on the weights: whatever the checked
    routine returns is right) -/
theorem C07_i32_partial (I : Inp) (B : Int) (hsq : #(probOf I).X = #(probOf I).Y) (mm : Vec Nat) (sc : Int)
    (h : H2B.run B I = some (mm, sc)) :
    Perfect (probOf I) mm.get ∧ sc = weight (probOf I) mm.get ∧
    ∀ σ', Perfect (probOf I) σ' → weight (probOf I) σ' ≤ sc :=
  hung_partial I hsq mm sc (H2B.run_conv B I _ h)

/-- C07 for the `i32` routine, totality: with a constrained perfect matching and the bound, it returns -/
theorem C07_i32_total (I : Inp) (W B : Int) (τ : Nat → Nat) (ha : Admits I τ)
    (hw : ∀ x y, 0 ≤ I.wt x y ∧ I.wt x y ≤ W) (hB : (2 * (I.ny : Int) + 2) * W + 1 < B) :
    ∃ r, H2B.run B I = some r := by
  obtain ⟨r, hr⟩ := hung_total I τ ha
  exact ⟨r, H2B.run_sim I W B hw hB r hr⟩

/-- non-vacuity: `H2B.exI` (3×3, dummy row, mandatory column, needs label updates) satisfies the hypotheses
    of `C07_i32` with `W = 8`, `B = 2^31`; the `i32` routine returns the matching `[0, 2, 1]` with score 19;
    with `B = 19` it fails -/
example : ∃ r, run H2B.exI = some r ∧ H2B.run (2^31) H2B.exI = some r := by
  have h : (run H2B.exI).isSome = true := by decide
  obtain ⟨r, hr⟩ := Option.isSome_iff_exists.1 h
  exact ⟨r, hr, C07_i32 H2B.exI 8 (2^31) r H2B.exI_wt (by decide) hr⟩
example : (H2B.run (2^31) H2B.exI).map (fun r => (r.1.a, r.2)) = some (#[0, 2, 1], 19) := by decide
example : (H2B.run 19 H2B.exI).isNone = true := by decide

#print axioms C07_i32
#print axioms C07_i32_max
#print axioms C07_i32_conv
#print axioms C07_i32_eq
#print axioms C07_i32_caobab
#print axioms C07_i32_partial
#print axioms C07_i32_total

end Props
