import Cdecao.Proofs.HungFinal
import Cdecao.Proofs.HungTotal
import Cdecao.Proofs.SpecExec
/-! # C07 — the matching routine returns a maximum-weight constrained perfect matching

Model: `H2.run` (hungarian.rs, same iteration, same tie-breaking). `probOf I` is the bipartite
problem of the non-skipped rows `X` and columns `Y` with `allowed x y = ¬(dummy x ∧ mandatory y)`. -/
namespace Props
open H2 Finset

/-- partial correctness and optimality: on a square selection, whatever `run` returns is a
    constrained perfect matching, the returned score is its total weight, and no constrained
    perfect matching weighs more. All sizes, all integer weights, all masks. -/
theorem C07_partial (I : Inp) (hsq : #(probOf I).X = #(probOf I).Y) (mm : Vec Nat) (sc : Int)
    (h : run I = some (mm, sc)) :
    Perfect (probOf I) mm.get ∧ sc = weight (probOf I) mm.get ∧
    ∀ σ', Perfect (probOf I) σ' → weight (probOf I) σ' ≤ sc :=
  hung_partial I hsq mm sc h

/-- totality: whenever a constrained perfect matching exists (`Admits`), the routine returns
    (no `unwrap` on `None`, no fuel exhaustion) -/
theorem C07_total (I : Inp) (τ : Nat → Nat) (ha : Admits I τ) : ∃ r, run I = some r :=
  hung_total I τ ha

/-- in the form the check evaluates (`perfectb`, list-sum `weight`) on the real routine's output -/
theorem C07_exec (I : Inp) (hsq : #(probOf I).X = #(probOf I).Y) (mm : Vec Nat) (sc : Int)
    (h : run I = some (mm, sc)) :
    HSpec.perfectb I mm.get = true ∧ sc = HSpec.weight I mm.get ∧
    ∀ σ', HSpec.perfectb I σ' = true → HSpec.weight I σ' ≤ sc := by
  obtain ⟨h1, h2, h3⟩ := hung_partial I hsq mm sc h
  refine ⟨(HSpec.perfectb_iff I _).2 h1, by rw [HSpec.weight_eq]; exact h2, ?_⟩
  intro σ' hσ
  rw [HSpec.weight_eq]
  exact h3 σ' ((HSpec.perfectb_iff I σ').1 hσ)

end Props
