/-! Decision logic of main.rs around the solver: exit statuses and the output stage. Core only. -/
namespace CLI

def EX_USAGE : Nat := 64
def EX_DATAERR : Nat := 65
def EX_NOINPUT : Nat := 66
def EX_CANTCREAT : Nat := 73
def EX_IOERR : Nat := 74

/-- what happened to the requested output file -/
structure OutFaults where
  requested : Bool      -- an OUTPUT path was given
  created : Bool        -- `File::create` succeeded
  written : Bool        -- the writer returned `Ok`

structure Outcome where
  exit : Nat
  listing : Bool        -- the `--print` listing was printed
  fileComplete : Bool   -- the output file exists and holds the complete document
  deriving Repr, DecidableEq

/-- main.rs after the solver returned: `found` = a solution exists -/
def outputStage (found : Bool) (print : Bool) (f : OutFaults) : Outcome :=
  if !found then { exit := 1, listing := false, fileComplete := false }
  else
    let err : Option Nat :=
      if !f.requested then none
      else if !f.created then some EX_CANTCREAT
      else if !f.written then some EX_IOERR
      else none
    { exit := err.getD 0, listing := print, fileComplete := f.requested && f.created && f.written }

/-- the same with the one further fault the output stage can meet: `--print` while the reader of
    stdout has gone away (closed pipe). main.rs writes the file first, then `print!`s the listing —
    which panics on a write error (exit status 101) —, and only then exits with the remembered
    output error: the panic pre-empts that status, never the other way round -/
def outputStage2 (found : Bool) (print : Bool) (f : OutFaults) (stdoutClosed : Bool) : Outcome :=
  let o := outputStage found print f
  if found && print && stdoutClosed then { exit := 101, listing := false, fileComplete := o.fileComplete } else o

end CLI
