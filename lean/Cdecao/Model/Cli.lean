/-! Decision logic of main.rs around the solver: exit statuses and the output stage. Core only. -/
namespace CLI

def EX_USAGE : Nat := 64
def EX_DATAERR : Nat := 65
def EX_NOINPUT : Nat := 66
def EX_CANTCREAT : Nat := 73
def EX_IOERR : Nat := 74

/-- what happened to the requested output file -/
structure OutFaults where
  requested : Bool      -- an OUTPUT path was given
  created : Bool        -- `File::create` succeeded
  written : Bool        -- the writer returned `Ok`

structure Outcome where
  exit : Nat
  listing : Bool        -- the `--print` listing was printed
  fileComplete : Bool   -- the output file exists and holds the complete document
  deriving Repr, DecidableEq

/-- main.rs after the solver returned: `found` = a solution exists -/
def outputStage (found : Bool) (print : Bool) (f : OutFaults) : Outcome :=
  if !found then { exit := 1, listing := false, fileComplete := false }
  else
    let err : Option Nat :=
      if !f.requested then none
      else if !f.created then some EX_CANTCREAT
      else if !f.written then some EX_IOERR
      else none
    { exit := err.getD 0, listing := print, fileComplete := f.requested && f.created && f.written }

end CLI
