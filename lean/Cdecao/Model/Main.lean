import Cdecao.Model.Simple
import Cdecao.Model.Cdedb
import Cdecao.Model.RoomsInput
import Cdecao.Model.Cli
/-! Model of main.rs as a whole: the order of the stages from the parsed command line to the exit
    status. One Lean function per stage of `main`, the same order of early exits
    (`std::process::exit`), the same exit codes. What the environment delivers (can the file be
    opened? is it JSON at all? how many CPUs?) and what the solver answers are parameters; the
    readers, the room inputs and the output stage are the models of their own files
    (`SM`, `CD`, `RI`, `RM`, `CLI`). clap itself (option syntax, `u32` parsing of `--num-threads`,
    exit status 2) is not modelled: the model starts at the `ArgMatches`. Core only. -/
namespace MainM
open CLI JS

/-- the `ArgMatches` as far as `main` consults them -/
structure Opts where
  cde : Bool := false
  track : Option String := none          -- raw `--track` value
  ignoreCancelled : Bool := false
  ignoreAssigned : Bool := false
  factorField : Option String := none
  offsetField : Option String := none
  rooms : Option String := none          -- raw `--rooms` value
  roomsFile : Bool := false              -- `--rooms-file` given
  threads : Option Nat := none           -- `--num-threads` as clap's `u32` parser delivered it
  print : Bool := false
  output : Bool := false                 -- an OUTPUT path was given

/-- opening a file and parsing it as JSON (serde_json, bytes → value: not modelled) -/
inductive FileIn where
  | cannotOpen
  | notJson
  | doc (j : J)

structure Env where
  input : FileIn
  roomsFile : FileIn
  cpus : Nat                             -- `num_cpus::get()`

/-- the data of the problem in either input format -/
inductive Data where
  | simple (parts : List SM.PartD) (courses : List SM.CourseD)
  | cde (parts : List CD.Part) (courses : List CD.Course) (amb : CD.Ambience)

def Data.numParts : Data → Nat
  | .simple ps _ => ps.length
  | .cde ps _ _ => ps.length
def Data.numCourses : Data → Nat
  | .simple _ cs => cs.length
  | .cde _ cs _ => cs.length

/-- `check_data_consistency` (io.rs) on either format -/
def Data.consistent : Data → Bool
  | .simple ps cs =>
    ps.all (fun p => p.choices.all (fun ch => decide (ch.course < cs.length))) &&
    cs.all (fun c => c.instructors.all (fun i => decide (i < ps.length)) && decide (c.numMin ≤ c.numMax))
  | .cde ps cs _ =>
    ps.all (fun p => p.choices.all (fun ch => decide (ch.1 < cs.length))) &&
    cs.all (fun c => c.instructors.all (fun i => decide (i < ps.length)) && decide (c.numMin ≤ c.numMax))

/-- what `main` hands to `caobab::solve` -/
structure Problem where
  data : Data
  rooms : Option (List Nat)
  kinds : Option (List RM.Kind)
  threads : Nat

/-- `parse_rooms` (main.rs) -/
def parseRooms (o : Opts) (e : Env) : Except Nat (Option (List Nat) × Option (List RM.Kind)) :=
  match o.rooms, o.roomsFile with
  | some s, false =>
    match RI.parseRoomsStr s with
    | some l => .ok (some l, none)
    | none => .error EX_DATAERR
  | none, true =>
    match e.roomsFile with
    | .cannotOpen => .error EX_NOINPUT
    | .notJson => .error EX_DATAERR
    | .doc j =>
      match RI.kindsOf j with
      | none => .error EX_DATAERR
      | some ks => .ok (some (RM.readKinds ks).1, some (RM.readKinds ks).2)
  | some _, true => .error EX_USAGE
  | none, false => .ok (none, none)

/-- `--track` is parsed (u64) before the reader is called -/
def parseTrack (t : Option String) : Except Nat (Option Nat) :=
  match t with
  | none => .ok none
  | some s =>
    match parseNat s with
    | some n => .ok (some n)
    | none => .error EX_DATAERR

/-- reading the input file in the selected format -/
def readInput (o : Opts) (inp : FileIn) : Except Nat Data :=
  if o.cde then
    match parseTrack o.track with
    | .error c => .error c
    | .ok track =>
      match inp with
      | .doc j =>
        match CD.read j { track := track, ignoreCancelled := o.ignoreCancelled, ignoreAssigned := o.ignoreAssigned,
                          factorField := o.factorField, offsetField := o.offsetField } with
        | .ok (ps, cs, amb) => .ok (.cde ps cs amb)
        | .error _ => .error EX_DATAERR
      | _ => .error EX_DATAERR
  else
    match inp with
    | .doc j =>
      match SM.read j with
      | .ok (ps, cs) => .ok (.simple ps cs)
      | .error _ => .error EX_DATAERR
    | _ => .error EX_DATAERR

/-- everything `main` does before it calls the solver: either an exit status or the problem -/
def front (o : Opts) (e : Env) : Except Nat Problem :=
  if o.threads == some 0 then .error EX_USAGE else
  match parseRooms o e with
  | .error c => .error c
  | .ok (rooms, kinds) =>
    match e.input with
    | .cannotOpen => .error EX_NOINPUT
    | inp =>
      match readInput o inp with
      | .error c => .error c
      | .ok d =>
        if !d.consistent then .error EX_DATAERR else
        if d.numParts == 0 then .error EX_DATAERR else
        .ok { data := d, rooms := rooms, kinds := kinds, threads := o.threads.getD e.cpus }

/-- the possible-rooms column main.rs computes for the listing and the `--possible-rooms-field`:
    kind names when a rooms file was given, else room sizes when `--rooms` was given, else nothing
    (`sizes` = effective course sizes of the reported assignment, `order` = their rank order) -/
def possibleRooms (pb : Problem) (sizes order : List Nat) : Option (List String) :=
  match pb.kinds, pb.rooms with
  | some ks, _ => some (RM.kindNames sizes order ks)
  | none, some rs => some (RM.sizeList sizes order rs)
  | none, none => none

structure Result where
  exit : Nat
  solverCalled : Bool
  createAttempted : Bool      -- `File::create(outpath)` was executed
  fileComplete : Bool
  listing : Bool
  deriving Repr, DecidableEq

/-- the whole of `main`: `found` is the solver's verdict on the problem, `created` / `written`
    whether creating and writing the output file succeed -/
def run (o : Opts) (e : Env) (found : Problem → Bool) (created written : Bool) : Result :=
  match front o e with
  | .error c => { exit := c, solverCalled := false, createAttempted := false, fileComplete := false, listing := false }
  | .ok pb =>
    let out := outputStage (found pb) o.print { requested := o.output, created := created, written := written }
    { exit := out.exit, solverCalled := true, createAttempted := found pb && o.output,
      fileComplete := out.fileComplete, listing := out.listing }

/-- the stages of `main` in source order: every call that can end the program or touches a file,
    and every `std::process::exit` with its status. `bin/gen_constants.py` re-extracts this list
    from main.rs on every run (`Const.MAIN_SKELETON`) -/
def skeleton : List String :=
  ["parse_cli_args",
   "exit:USAGE",                        -- zero worker threads
   "parse_rooms",
   "File::open", "exit:NOINPUT",        -- input file
   "exit:DATAERR",                      -- --track is not a number
   "cdedb::read", "simple::read", "exit:DATAERR",
   "check_data_consistency", "exit:DATAERR",
   "is_empty", "exit:DATAERR",          -- no participants
   "caobab::solve",
   "File::create", "cdedb::write", "simple::write",
   "format_assignment",
   "exit:code",                         -- output_error
   "exit:1",                            -- no feasible solution
   -- fn parse_rooms
   "exit:DATAERR",                      -- --rooms not a list of numbers
   "File::open", "exit:NOINPUT", "rooms::read", "exit:DATAERR",
   "exit:USAGE"]                        -- both --rooms and --rooms-file

/-- the command-line definition of main.rs (clap builder calls, help texts stripped), as the
    model's `Opts` was written against it: one entry per argument id with its builder chain.
    Switches (`SetTrue`) are the `Bool` fields; `track`, the three field names, `rooms`,
    `rooms_file` take one string value; `num_threads` is parsed by clap as `u32`; `INPUT` is
    required, `OUTPUT` optional; no argument has a default, overrides or conflicts with another,
    and the command itself has no lenient-parsing settings. `bin/gen_constants.py` re-extracts the
    list on every run (`Const.MAIN_CLAP_SKELETON`) -/
def clapSkeleton : List String :=
  ["cmd: clap::command!()",
   "cde: short('c') long(\"cde\") action(clap::ArgAction::SetTrue)",
   "track: short('t') long(\"track\") value_name(\"TRACK_ID\")",
   "ignore_cancelled: short('i') long(\"ignore-cancelled\") action(clap::ArgAction::SetTrue)",
   "ignore_assigned: short('j') long(\"ignore-assigned\") action(clap::ArgAction::SetTrue)",
   "room_factor_field: long(\"room-factor-field\") value_name(\"FIELD_NAME\")",
   "room_offset_field: long(\"room-offset-field\") value_name(\"FIELD_NAME\")",
   "possible_rooms_field: long(\"possible-rooms-field\") value_name(\"FIELD_NAME\")",
   "report_no_solution: long(\"report-no-solution\") action(clap::ArgAction::SetTrue)",
   "rooms: short('r') long(\"rooms\") value_name(\"ROOMS\")",
   "rooms_file: long(\"rooms-file\") value_name(\"ROOM_FILE\")",
   "num_threads: long(\"num-threads\") value_name(\"THREADS\") value_parser(clap::value_parser!(u32))",
   "print: short('p') long(\"print\") action(clap::ArgAction::SetTrue)",
   "INPUT: required(true) index(1)",
   "OUTPUT: index(2) get_matches()"]

end MainM
