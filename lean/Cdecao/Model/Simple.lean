import Cdecao.Model.Json
import Cdecao.Model.Node
/-! Model of io/simple.rs `read` (serde-derived deserialisation of `Participant` / `Course` from the
    JSON value, object form) followed by the input validation of main.rs (`check_data_consistency`
    and the "at least one participant" check). Core only.

    Modelled serde rules: a `Vec` needs an array; a struct needs an object (the positional array
    form serde also accepts is NOT modelled — the generators never produce it); unknown members are
    ignored; a missing member is an error unless it has `#[serde(default)]`; `usize`/`u32` need a
    non-negative integer in range; `f32` accepts any number; `bool`/`String` need exactly that type. -/
namespace SM
open JS

abbrev M := Except String

def U32_MAX : Nat := 4294967295

def asUsize (j : J) : M Nat :=
  match j with
  | .num (.pos n) => if n ≤ J.U64_MAX then .ok n else .error "number out of range"
  | _ => .error "invalid type, expected usize"

def asU32 (j : J) : M Nat :=
  match j with
  | .num (.pos n) => if n ≤ U32_MAX then .ok n else .error "number out of range for u32"
  | _ => .error "invalid type, expected u32"

def asF32 (j : J) : M Num :=
  match j with
  | .num n => .ok n
  | _ => .error "invalid type, expected f32"

def mapM' {α β : Type} (f : α → M β) : List α → M (List β)
  | [] => .ok []
  | x :: xs =>
    match f x with
    | .error e => .error e
    | .ok y =>
      match mapM' f xs with
      | .error e => .error e
      | .ok ys => .ok (y :: ys)

def asVec {β : Type} (f : J → M β) (j : J) : M (List β) :=
  match j with
  | .arr l => mapM' f l
  | _ => .error "invalid type, expected a sequence"

def field (kv : List (String × J)) (k : String) : M J :=
  match J.lookup k kv with
  | some v => .ok v
  | none => .error ("missing field " ++ k)

def choiceOf (j : J) : M N2.Choice :=
  match j with
  | .obj kv =>
    match field kv "course" with
    | .error e => .error e
    | .ok c =>
      match asUsize c with
      | .error e => .error e
      | .ok course =>
        match field kv "penalty" with
        | .error e => .error e
        | .ok p =>
          match asU32 p with
          | .error e => .error e
          | .ok penalty => .ok ⟨course, penalty⟩
  | _ => .error "invalid type, expected struct Choice"

structure PartD where
  name : String
  choices : List N2.Choice

def partOf (j : J) : M PartD :=
  match j with
  | .obj kv =>
    match field kv "name" with
    | .error e => .error e
    | .ok n =>
      match n.asStr with
      | none => .error "invalid type, expected a string"
      | some name =>
        match field kv "choices" with
        | .error e => .error e
        | .ok c =>
          match asVec choiceOf c with
          | .error e => .error e
          | .ok choices => .ok ⟨name, choices⟩
  | _ => .error "invalid type, expected struct Participant"

structure CourseD where
  name : String
  numMax : Nat
  numMin : Nat
  instructors : List Nat
  factor : Option Num
  offset : Option Num
  fixed : Bool
  hidden : List String

def optField {β : Type} (kv : List (String × J)) (k : String) (f : J → M β) (dflt : β) : M β :=
  match J.lookup k kv with
  | none => .ok dflt
  | some v => f v

/-- order-preserving de-duplication (fix F10: an instructor listed twice is one instructor) -/
def dedup : List Nat → List Nat → List Nat
  | _, [] => []
  | seen, x :: xs => if seen.contains x then dedup seen xs else x :: dedup (x :: seen) xs

def courseOf (j : J) : M CourseD :=
  match j with
  | .obj kv =>
    match field kv "name" with
    | .error e => .error e
    | .ok n =>
      match n.asStr with
      | none => .error "invalid type, expected a string"
      | some name =>
        match (field kv "num_max").bind asUsize with
        | .error e => .error e
        | .ok numMax =>
          match (field kv "num_min").bind asUsize with
          | .error e => .error e
          | .ok numMin =>
            match (field kv "instructors").bind (asVec asUsize) with
            | .error e => .error e
            | .ok instructors =>
              match optField kv "room_factor" (fun v => (asF32 v).map some) none with
              | .error e => .error e
              | .ok factor =>
                match optField kv "room_offset" (fun v => (asF32 v).map some) none with
                | .error e => .error e
                | .ok offset =>
                  match optField kv "fixed_course" (fun v => match v.asBool with | some b => .ok b | none => .error "expected a boolean") false with
                  | .error e => .error e
                  | .ok fixed =>
                    match optField kv "hidden_participant_names"
                        (asVec (fun v => match v.asStr with | some s => .ok s | none => .error "expected a string")) [] with
                    | .error e => .error e
                    | .ok hidden =>
                      .ok { name, numMax, numMin, instructors := dedup [] instructors, factor, offset, fixed, hidden }
  | _ => .error "invalid type, expected struct Course"

/-- io::simple::read from the JSON value on -/
def read (data : J) : M (List PartD × List CourseD) :=
  match data.get "participants" with
  | none => .error "No 'participants' found in data."
  | some pv =>
    match asVec partOf pv with
    | .error e => .error e
    | .ok parts =>
      match data.get "courses" with
      | none => .error "No 'courses' found in data."
      | some cv =>
        match asVec courseOf cv with
        | .error e => .error e
        | .ok courses => .ok (parts, courses)

/-- check_data_consistency (io.rs) + "at least one participant" (main.rs) -/
def validate (parts : List PartD) (courses : List CourseD) : Bool :=
  parts.all (fun p => p.choices.all (fun ch => decide (ch.course < courses.length))) &&
  courses.all (fun c => c.instructors.all (fun i => decide (i < parts.length)) && decide (c.numMin ≤ c.numMax)) &&
  !parts.isEmpty

def toInst (parts : List PartD) (courses : List CourseD) (rooms : Option (List Nat)) : N2.Inst :=
  { cs := courses.map (fun c => ⟨c.numMin, c.numMax, c.fixed, c.instructors⟩)
    ps := parts.map (fun p => ⟨p.choices⟩)
    rooms := rooms }

/-- does the program accept the document (go on to the solver) or refuse it with a data error? -/
def accepts (data : J) : Bool :=
  match read data with
  | .error _ => false
  | .ok (parts, courses) => validate parts courses

end SM
