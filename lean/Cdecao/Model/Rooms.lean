import Cdecao.Rooms.Possible
/-! Model of io/rooms.rs around the double loop `RS.possible`: rooms-file reading (stable sort by
    capacity, reversed; expansion by quantity), re-ordering of the result by course index, `dedup`,
    and the two renderings. The order of equally sized courses after `sort_unstable_by_key` is
    unspecified; the model takes the rank order as a parameter. Core only. -/
namespace RM

structure Kind where
  name : String
  capacity : Nat
  quantity : Nat
  deriving Repr, Inhabited

/-- io::rooms::read after deserialisation: kinds by descending capacity (stable sort ascending,
    then reversed), and the expanded room list -/
def readKinds (ks : List Kind) : List Nat × List Kind :=
  let sorted := (ks.mergeSort (fun a b => decide (a.capacity ≤ b.capacity))).reverse
  (sorted.flatMap (fun k => List.replicate k.quantity k.capacity), sorted)

def sortDesc (l : List Nat) : List Nat := l.mergeSort (fun a b => decide (b ≤ a))

/-- `Vec::dedup`: consecutive duplicates removed -/
def dedupAdj : List Nat → List Nat
  | [] => []
  | [x] => [x]
  | x :: y :: rest => if x == y then dedupAdj (y :: rest) else x :: dedupAdj (y :: rest)

/-- `order` = the courses by rank after the descending sort; is it a sorting permutation? -/
def orderOk (sizes : List Nat) (order : List Nat) : Bool :=
  order.length == sizes.length &&
  (List.range sizes.length).all (fun c => order.count c == 1) &&
  (List.range (order.length - 1)).all (fun i => decide (sizes.getD (order.getD (i + 1) 0) 0 ≤ sizes.getD (order.getD i 0) 0))

/-- calculate_possible_course_room_sizes: possible room sizes per course (by course index) -/
def possibleByCourse (sizes : List Nat) (order : List Nat) (rooms : List Nat) : List (List Nat) :=
  let I : RS.In := { S := order.map (fun c => sizes.getD c 0), R := sortDesc rooms }
  let P := RS.possible I
  (List.range sizes.length).map (fun c => dedupAdj (RS.slot P (order.idxOf c)))

def joinComma (l : List String) : String := ", ".intercalate l

/-- get_course_room_size_list -/
def sizeList (sizes order rooms : List Nat) : List String :=
  (possibleByCourse sizes order rooms).map (fun l => joinComma (l.map toString))

/-- get_course_room_kind_names (after fix F8: kinds without rooms are not listed) -/
def kindNames (sizes order : List Nat) (kinds : List Kind) : List String :=
  let rooms := kinds.flatMap (fun k => List.replicate k.quantity k.capacity)
  (possibleByCourse sizes order rooms).map (fun l =>
    joinComma (l.flatMap (fun r => (kinds.filter (fun k => k.capacity == r && decide (0 < k.quantity))).map (·.name))))

/-! ### specification (C18), executable -/

/-- remove the first occurrence -/
def removeOne (x : Nat) : List Nat → List Nat
  | [] => []
  | y :: ys => if x == y then ys else y :: removeOne x ys

/-- rank-wise fit of the positive sizes into the rooms -/
def fits (sizes rooms : List Nat) : Bool :=
  let s := sortDesc (sizes.filter (· > 0))
  let r := sortDesc rooms
  (List.range s.length).all (fun i => decide (s.getD i 0 ≤ r.getD i 0))

/-- room size `r` is usable for course `c`: large enough, present, and the other courses that take
    place still fit into the remaining rooms (so a complete allocation of distinct rooms exists) -/
def usable (sizes rooms : List Nat) (c r : Nat) : Bool :=
  decide (sizes.getD c 0 ≤ r) && rooms.contains r &&
  fits ((sizes.zipIdx.filter (fun (_, i) => i != c)).map (·.1)) (removeOne r rooms)

def specSound (sizes rooms : List Nat) (listed : List (List Nat)) : Bool :=
  (List.range sizes.length).all (fun c => (listed.getD c []).all (fun r => usable sizes rooms c r))

def specNonempty (sizes : List Nat) (listed : List (List Nat)) : Bool :=
  (List.range sizes.length).all (fun c => sizes.getD c 0 == 0 || !(listed.getD c []).isEmpty)

end RM
