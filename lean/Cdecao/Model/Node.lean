import Cdecao.Model.Hungarian
/-! Final-style model of caobab.rs (repaired code: F4, F9): table-filling loops in closed form
    (`Vec.tab`), explicit panic checks, no `do`/`for`. Room arithmetic is a parameter. -/
namespace N2
open H2

structure Choice where
  course : Nat
  penalty : Nat
structure Course where
  numMin : Nat
  numMax : Nat
  fixed : Bool
  instructors : List Nat
structure Part where
  choices : List Choice
structure Node where
  cancelled : List Nat
  enforced : List Nat
  shrinked : List (Nat × Nat)

instance : Inhabited Course := ⟨⟨0, 0, false, []⟩⟩
instance : Inhabited Part := ⟨⟨[]⟩⟩

/-- the float arithmetic of the room stage, abstract in proofs, native f32 in the driver -/
structure RoomFns where
  eff : Nat → Nat → Nat        -- course, number of people (incl. instructors) ↦ effective size
  quot : Nat → Nat → Nat       -- course, room size ↦ floor((room - offset) / factor)

structure Inst where
  cs : List Course
  ps : List Part
  rooms : Option (List Nat)

def Inst.C (I : Inst) : Nat := I.cs.length
def Inst.P (I : Inst) : Nat := I.ps.length
def Inst.course (I : Inst) (c : Nat) : Course := I.cs.getD c default
def Inst.part (I : Inst) (p : Nat) : Part := I.ps.getD p default
def Inst.instructorOnly (I : Inst) (p : Nat) : Bool := (I.part p).choices.isEmpty

inductive Res where
  | noSol
  | infeasible (kids : List Node) (score : Nat)
  | feasible (a : List (Option Nat)) (score : Nat)

abbrev M := Except String
def WEIGHT : Nat := 50000
def MIN_K : Nat := 5
def MAX_NTOK : Nat := 5
def MAX_N : Nat := 17

/-! ### precompute_problem -/

def inv (I : Inst) : Nat → Nat
  | 0 => 0
  | c + 1 => inv I c + (I.course c).numMax
def Inst.m (I : Inst) : Nat := inv I I.C

def courseOf (I : Inst) : Nat → Nat → Nat
  | 0, _ => 0
  | C + 1, cp => if cp < inv I C then courseOf I C cp else C
def Inst.colCourse (I : Inst) (cp : Nat) : Nat := courseOf I I.C cp
def Inst.colPos (I : Inst) (cp : Nat) : Nat := cp - inv I (I.colCourse cp)

def Inst.isInstructorSomewhere (I : Inst) (p : Nat) : Bool :=
  I.cs.any (fun c => c.instructors.contains p)
def Inst.maxSkipped (I : Inst) : Nat :=
  (List.range I.P).countP (fun p => I.instructorOnly p || I.isInstructorSomewhere p)
/-- rows of the matrix (F4: at least one row per participant) -/
def Inst.n (I : Inst) : Nat := max (I.m + I.maxSkipped) I.P

/-- edge weight: the last choice naming the course wins (the loop overwrites) -/
def Inst.weight (I : Inst) (x cp : Nat) : Int :=
  if x < I.P then
    match (I.part x).choices.reverse.find? (fun ch => ch.course == I.colCourse cp) with
    | some ch => Int.ofNat WEIGHT - Int.ofNat ch.penalty
    | none => 0
  else 0

def insertDesc (x : Nat) : List Nat → List Nat
  | [] => [x]
  | y :: ys => if x ≥ y then x :: y :: ys else y :: insertDesc x ys
def Inst.roomSizes (I : Inst) : Option (List Nat) :=
  I.rooms.map (fun r =>
    let s := r.foldr insertDesc []
    (s ++ List.replicate (I.C - s.length) 0).take I.C)

/-- the panics of precompute_problem: out-of-range instructor or choice -/
def Inst.precomputeOk (I : Inst) : Bool :=
  I.cs.all (fun c => c.instructors.all (fun i => decide (i < I.P))) &&
  I.ps.all (fun p => p.choices.all (fun ch => decide (ch.course < I.C)))

/-! ### run_bab_node: masks -/

def liveInstructor (I : Inst) (nd : Node) (x : Nat) : Bool :=
  (List.range I.C).any (fun c => !nd.cancelled.contains c && (I.course c).instructors.contains x)
def skipXBase (I : Inst) (nd : Node) (x : Nat) : Bool :=
  (decide (x < I.P) && I.instructorOnly x) || liveInstructor I nd x
def numSkipX (I : Inst) (nd : Node) : Nat := (List.range I.n).countP (skipXBase I nd)
def effMax (I : Inst) (nd : Node) (c : Nat) : Nat :=
  if nd.cancelled.contains c then 0
  else (nd.shrinked.filter (fun cs => cs.1 == c)).foldl (fun acc cs => min acc cs.2) (I.course c).numMax
def skipY (I : Inst) (nd : Node) (cp : Nat) : Bool := decide (effMax I nd (I.colCourse cp) ≤ I.colPos cp)
def numSkipY (I : Inst) (nd : Node) : Nat :=
  (List.range I.C).foldl (fun acc c => acc + ((I.course c).numMax - effMax I nd c)) 0
def mandY (I : Inst) (nd : Node) (cp : Nat) : Bool :=
  nd.enforced.contains (I.colCourse cp) && decide (I.colPos cp < (I.course (I.colCourse cp)).numMin)

/-- the course a participant instructs, if that course is not cancelled (last write wins) -/
def instrOf (I : Inst) (nd : Node) (p : Nat) : Option Nat :=
  (List.range I.C).reverse.find? (fun c => !nd.cancelled.contains c && (I.course c).instructors.contains p)
def matchedOf (I : Inst) (nd : Node) (mm : Nat → Nat) (p : Nat) : Option Nat :=
  ((List.range I.m).reverse.find? (fun cp => !skipY I nd cp && mm cp == p)).map I.colCourse
def assign (I : Inst) (nd : Node) (mm : Nat → Nat) (p : Nat) : Option Nat :=
  match instrOf I nd p with
  | some c => some c
  | none => matchedOf I nd mm p

/-! ### check_feasibility -/

def stableByKey (l : List (Nat × Nat)) : List (Nat × Nat) := l.mergeSort (fun a b => decide (a.2 ≤ b.2))

def sizeOf (I : Inst) (a : Nat → Option Nat) (isInstr : Nat → Bool) (c : Nat) : Nat :=
  (List.range I.P).countP (fun p => !isInstr p && a p == some c)

def checkFeas (I : Inst) (nd : Node) (a : Nat → Option Nat) (isInstr : Nat → Bool) : M (Bool × Bool × Option Nat) :=
  let wrong := (List.range I.P).find? (fun p =>
    !isInstr p && !I.instructorOnly p && !(I.part p).choices.any (fun ch => some ch.course == a p))
  match wrong with
  | some p =>
    let c := a p
    let rel := (List.range I.C).filter (fun rc => !nd.cancelled.contains rc && !nd.enforced.contains rc &&
      (I.course rc).instructors.any (fun i => (I.part i).choices.any (fun ch => some ch.course == c)))
    match stableByKey (rel.map (fun rc => (rc, sizeOf I a isInstr rc))) with
    | [] => .ok (false, true, none)
    | (rc, _) :: _ => .ok (false, true, some rc)
  | none =>
    let viol := (List.range I.C).filter (fun c => !nd.cancelled.contains c && decide (sizeOf I a isInstr c < (I.course c).numMin))
    if viol.any (fun c => nd.enforced.contains c) then .error "assert-enforced-min"
    else
      -- the first course with the largest deficit
      let best := viol.foldl (fun (acc : Nat × Option Nat) c =>
        let d := (I.course c).numMin - sizeOf I a isInstr c
        if d > acc.1 then (d, some c) else acc) (0, none)
      .ok (best.2.isNone, false, best.2)

/-! ### check_room_feasibility (F9-repaired shrink size) -/

structure RCS where
  shrink : List (Nat × Nat)
  cancel : List Nat

def createRCS (I : Inst) (R : RoomFns) (nd : Node) (toSize : Nat) (allReq : Bool) :
    List Nat → List (Nat × Nat) → List Nat → Option RCS
  | [], sh, ca => some ⟨sh, ca⟩
  | ci :: rest, sh, ca =>
    let c := I.course ci
    if nd.cancelled.contains ci then
      if allReq then none else createRCS I R nd toSize allReq rest sh ca
    else if toSize ≥ R.eff ci (c.numMin + c.instructors.length) then
      let ss := max (R.quot ci toSize - c.instructors.length) c.numMin
      if nd.shrinked.any (fun (c', s) => c' == ci && s ≤ ss) then
        if allReq then none else createRCS I R nd toSize allReq rest sh ca
      else createRCS I R nd toSize allReq rest (sh ++ [(ci, ss)]) ca
    else if nd.enforced.contains ci || c.fixed then
      if allReq then none else createRCS I R nd toSize allReq rest sh ca
    else createRCS I R nd toSize allReq rest sh (ca ++ [ci])

def colexIdx : Nat → Nat → List (List Nat)
  | _, 0 => [[]]
  | 0, _ + 1 => []
  | n + 1, k + 1 => colexIdx n (k + 1) ++ (colexIdx n k).map (· ++ [n])
def selections {α} (l : List α) (k : Nat) : List (List α) :=
  if k == 0 || k > l.length then [] else (colexIdx l.length k).map (fun idx => idx.filterMap (fun i => l[i]?))

def effSizes (I : Inst) (R : RoomFns) (a : Nat → Option Nat) : List (Nat × Nat) :=
  (List.range I.C).map fun c =>
    let cnt := (List.range I.P).countP (fun p => a p == some c)
    if cnt == 0 && !(I.course c).fixed then (c, 0) else (c, R.eff c cnt)

def checkRoom (I : Inst) (R : RoomFns) (nd : Node) (a : Nat → Option Nat) (rooms : List Nat) : M (Bool × List RCS) :=
  let cs' := stableByKey (effSizes I R a)
  let num := cs'.length
  let size (i : Nat) := (cs'.getD i (0, 0)).2
  match ((List.range num).reverse.zip rooms).find? (fun (i, r) => size i > r) with
  | none => .ok (true, [])
  | some (ci, _) =>
    let roomSize := rooms.getD (rooms.length - 1 - ci) 0
    match (List.range num).find? (fun i => size i > roomSize) with
    | none => .error "unwrap-smallest"
    | some smallest =>
      if ci < smallest then .error "assert-conflict" else
      let k0 := ci - smallest + 1
      let lk : Nat × Nat :=
        if k0 < MIN_K then (if ci + 1 < MIN_K then (0, ci + 1) else (ci + 1 - MIN_K, MIN_K)) else (smallest, k0)
      let lower := lk.1
      let k := lk.2
      let upper := if ci + 1 - lower < MAX_N then min (min (ci + MAX_NTOK) (lower + MAX_N)) num else ci + 1
      match createRCS I R nd roomSize false ((cs'.filter (fun cs => cs.2 ≤ roomSize)).map (·.1)) [] [] with
      | none => .error "unwrap-always"
      | some always =>
        let sets := (selections ((cs'.drop lower).take (upper - lower)) k).filterMap (fun sel =>
          (createRCS I R nd roomSize true (sel.map (·.1)) [] []).map (fun r =>
            ({ shrink := r.shrink ++ always.shrink, cancel := r.cancel ++ always.cancel } : RCS)))
        if sets.any (fun r => r.shrink.isEmpty && r.cancel.isEmpty) then .error "assert-empty-constraint"
        else .ok (false, sets)

/-! ### run_bab_node -/

def runNode (I : Inst) (R : RoomFns) (nd : Node) : M Res :=
  if !I.precomputeOk then .error "precompute" else
  if !(nd.cancelled.all (fun c => decide (c < I.C)) && nd.enforced.all (fun c => decide (c < I.C)) &&
       nd.shrinked.all (fun cs => decide (cs.1 < I.C))) then .error "oob-node" else
  let P := I.P
  let nsx := numSkipX I nd
  let enfSum := nd.enforced.foldl (fun acc c => acc + (I.course c).numMin) 0
  if enfSum > P - nsx then .ok .noSol else
  if (List.range I.C).foldl (fun acc c => acc + effMax I nd c) 0 < P - nsx then .ok .noSol else
  if (List.range P).any (fun x => !skipXBase I nd x &&
      (I.part x).choices.all (fun ch => nd.cancelled.contains ch.course)) then .ok .noSol else
  let nsy := numSkipY I nd
  if I.n + nsy < I.m + nsx then .error "underflow-dummies" else
  let extra := I.n - I.m + nsy - nsx
  if P + extra > I.n then .error "oob-dummies" else
  if (List.range I.m).any (fun cp => mandY I nd cp && skipY I nd cp) then .error "assert-mandatory-skipped" else
  let skipX : Nat → Bool := fun x => skipXBase I nd x || (decide (P ≤ x) && decide (x < P + extra))
  let inp : Inp :=
    { nx := I.n, ny := I.m
      w := Vec.tab I.n (fun x => Vec.tab I.m (fun cp => I.weight x cp))
      dummy := Vec.tab I.n (fun x => decide (P ≤ x))
      mand := Vec.tab I.m (mandY I nd)
      skipx := Vec.tab I.n skipX
      skipy := Vec.tab I.m (skipY I nd) }
  match H2.run inp with
  | none => .error "hungarian-unwrap"
  | some (mm, sc) =>
    let a : Nat → Option Nat := assign I nd mm.get
    let av := Vec.tab P a          -- materialise once
    let a' : Nat → Option Nat := av.get
    let bonus := (List.range I.C).foldl (fun acc c =>
      if nd.cancelled.contains c then acc
      else acc + WEIGHT * ((I.course c).instructors.countP (fun i => !I.instructorOnly i))) 0
    let score := sc.toNat + bonus
    let al := (List.range P).map a'
    let roomStage : M (Option Res) :=
      match I.roomSizes with
      | none => .ok none
      | some rooms =>
        match checkRoom I R nd a' rooms with
        | .error e => .error e
        | .ok (true, _) => .ok none
        | .ok (false, sets) =>
          .ok (some (.infeasible (sets.map (fun r =>
            { nd with shrinked := nd.shrinked ++ r.shrink, cancelled := nd.cancelled ++ r.cancel })) score))
    match roomStage with
    | .error e => .error e
    | .ok (some r) => .ok r
    | .ok none =>
      match checkFeas I nd a' skipX with
      | .error e => .error e
      | .ok (true, _, _) => .ok (.feasible al score)
      | .ok (false, pprob, bc) =>
        let kids : List Node :=
          match bc with
          | none => []
          | some c =>
            (if pprob then [] else [{ nd with enforced := nd.enforced ++ [c] }]) ++
            (if (I.course c).fixed then [] else [{ nd with cancelled := nd.cancelled ++ [c] }])
        .ok (.infeasible kids score)

end N2
