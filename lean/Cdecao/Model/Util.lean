/-! Model of util.rs: `binom` and the k-selection iterator (colexicographic successor). Core only. -/
namespace S

/-- util.rs:92-102 -/
def binom (n k : Nat) : Nat :=
  if k > n then 0 else (List.range k).foldl (fun res i => res * (n - i) / (i + 1)) 1

/-! ### the successor step of `KSelectionIterator::next` (util.rs:36-54)

`succ n j idx` treats `idx` as the suffix of the index vector starting at position `j`
(everything before position `j` is known to be reset to `0 … j-1` by the final loop). -/
def succ (n : Nat) : Nat → List Nat → Option (List Nat)
  | _, [] => none
  | _, [a] => if a + 1 ≥ n then none else some [a + 1]
  | j, a :: b :: rest =>
    if a + 1 < b then some ((a + 1) :: b :: rest)
    else (succ n (j + 1) (b :: rest)).map (fun r => j :: r)

/-- the whole step on a full index vector -/
def next (n : Nat) (idx : List Nat) : Option (List Nat) := succ n 0 idx

/-- the enumeration: start at `idx`, follow `next` (fuel bounds the number of elements) -/
def enumFrom (n : Nat) : Nat → List Nat → List (List Nat)
  | 0, _ => []
  | f + 1, idx =>
    idx :: (match next n idx with
      | some idx' => enumFrom n f idx'
      | none => [])

/-- what `iter_selections(k)` yields, as index lists -/
def selections (n k : Nat) : List (List Nat) :=
  if k = 0 ∨ k > n then [] else enumFrom n (binom n k) (List.range k)

/-- rank in the combinatorial number system as util.rs computes it (with `binom`) -/
def rankB : Nat → List Nat → Nat
  | _, [] => 0
  | j, a :: rest => binom a (j + 1) + rankB (j + 1) rest

/-- `size_hint` (util.rs:75-89): `none` = before the first call -/
def sizeHint (n k : Nat) : Option (List Nat) → Nat
  | none => binom n k
  | some idx => binom n k - rankB 0 idx - 1

/-- one call of `Iterator::next` on the iterator state (`index: Option<Vec<usize>>`) -/
def iterNext (n k : Nat) : Option (List Nat) → Option (List Nat)
  | none => if k = 0 ∨ k > n then none else some (List.range k)
  | some idx => next n idx

end S
