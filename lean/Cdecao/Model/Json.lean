/-! Tiny JSON value model, as `serde_json::Value` presents a document to the readers:
    objects are association lists in key order (`serde_json::Map` is a `BTreeMap` here), numbers
    are tagged the way `serde_json::Number` distinguishes them. Core only. -/
namespace JS

inductive Num where
  | pos (n : Nat)          -- non-negative integer (`as_u64` succeeds when < 2^64)
  | neg (n : Nat)          -- the negative integer `-n`, `n > 0`
  | flt (bits : UInt64)    -- a float, by its f64 bit pattern
  deriving Repr, BEq, Inhabited

inductive J where
  | null
  | bool (b : Bool)
  | num (n : Num)
  | str (s : String)
  | arr (l : List J)
  | obj (kv : List (String × J))
  deriving Repr, Inhabited

namespace J

def lookup (k : String) : List (String × J) → Option J
  | [] => none
  | (k', v) :: rest => if k' == k then some v else lookup k rest

/-- `Value::get(key)` -/
def get (j : J) (k : String) : Option J :=
  match j with
  | .obj kv => lookup k kv
  | _ => none

def asObject : J → Option (List (String × J))
  | .obj kv => some kv
  | _ => none

def asArray : J → Option (List J)
  | .arr l => some l
  | _ => none

def asStr : J → Option String
  | .str s => some s
  | _ => none

def asBool : J → Option Bool
  | .bool b => some b
  | _ => none

def U64_MAX : Nat := 18446744073709551615
def I64_MAX : Nat := 9223372036854775807

/-- `Value::as_u64` -/
def asU64 : J → Option Nat
  | .num (.pos n) => if n ≤ U64_MAX then some n else none
  | _ => none

/-- `Value::as_i64` -/
def asI64 : J → Option Int
  | .num (.pos n) => if n ≤ I64_MAX then some (Int.ofNat n) else none
  | .num (.neg n) => some (-(Int.ofNat n))
  | _ => none

end J

/-- `str::parse::<u64>()`: an optional leading `+`, then at least one ASCII digit, nothing else
    (leading zeros allowed); values above `u64::MAX` are an error -/
def parseNat (s : String) : Option Nat :=
  let ds := match s.toList with
    | '+' :: rest => rest
    | cs => cs
  if ds.isEmpty then none
  else if ds.all Char.isDigit then
    let n := ds.foldl (fun acc c => acc * 10 + (c.toNat - '0'.toNat)) 0
    if n ≤ J.U64_MAX then some n else none
  else none

end JS
