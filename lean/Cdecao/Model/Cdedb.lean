import Cdecao.Model.Json
import Cdecao.Model.Constants
/-! Model of io/cdedb.rs: the reader (`read`) from the JSON value of a partial export to the
    optimisation problem, and the writer's registrations/courses objects. One Lean function per
    Rust function, same iteration order (objects are visited in key order), same early returns.
    Floats (room factor/offset fields) are carried as f64 bit patterns and only interpreted by the
    driver. Core only. -/
namespace CD
open JS

abbrev M := Except String

structure Opts where
  track : Option Nat
  ignoreCancelled : Bool
  ignoreAssigned : Bool
  factorField : Option String
  offsetField : Option String

/-- a numeric field value as the reader sees it through `as_f64` -/
inductive FVal where
  | dflt                 -- field absent / not numeric / option not given: the default
  | ofNum (n : Num)
  deriving Repr, BEq, Inhabited

structure Course where
  dbid : Nat
  name : String
  numMin : Nat
  numMax : Nat
  instructors : List Nat
  factor : FVal
  offset : FVal
  fixed : Bool
  hidden : List String
  invInstr : Nat := 0      -- invisible instructors / attendees (offset += (i + a) * factor)
  invAtt : Nat := 0
  deriving Repr, Inhabited

structure Part where
  dbid : Nat
  name : String
  choices : List (Nat × Nat)     -- (course index, penalty)
  deriving Repr, Inhabited

structure Ambience where
  eventId : Nat
  trackId : Nat
  external : Option (Nat × List Nat)
  trackName : Option String
  ignoredCourses : Option Nat
  ignoredRegs : Option Nat
  deriving Repr, Inhabited

/-! ### check_export_type_and_version (cdedb.rs:312-364) -/

def checkVersion (data : J) : M Unit :=
  match (data.get "kind").bind J.asStr with
  | none => .error "No 'kind' field found in data"
  | some kind =>
    if kind != "partial" then .error "no partial export" else
    let ver : M (Nat × Nat) :=
      match data.get "EVENT_SCHEMA_VERSION" with
      | some tag =>
        match tag.asArray with
        | none => .error "'EVENT_SCHEMA_VERSION' is not an array"
        | some v =>
          if v.length != 2 then .error "'EVENT_SCHEMA_VERSION' does not have 2 entries" else
          match (v.getD 0 .null).asU64, (v.getD 1 .null).asU64 with
          | some a, some b => .ok (a, b)
          | _, _ => .error "Entry of 'EVENT_SCHEMA_VERSION' is not an u64 value"
      | none =>
        match data.get "CDEDB_EXPORT_EVENT_VERSION" with
        | some tag =>
          match tag.asU64 with
          | some v => .ok (v, 0)
          | none => .error "'CDEDB_EXPORT_EVENT_VERSION' is not an u64 value"
        | none => .error "No 'EVENT_SCHEMA_VERSION' field found in data"
    match ver with
    | .error e => .error e
    | .ok (a, b) =>
      -- export_version < MINIMUM || export_version > (MAXIMUM_MAJOR, u64::MAX), lexicographic
      if a < Const.MIN_VERSION_MAJOR || (a == Const.MIN_VERSION_MAJOR && b < Const.MIN_VERSION_MINOR)
         || a > Const.MAX_VERSION_MAJOR then .error "not within the supported version range"
      else .ok ()

/-! ### the timestamp: `str::parse::<DateTime<Utc>>()`; recogniser of the canonical RFC 3339 shape
    `YYYY-MM-DD(T|t| )HH:MM:SS[.f+](Z|z|±HH:MM)` with chrono's field ranges: the day must exist in
    that month of that year (Gregorian leap years), a second of 60 is accepted (leap second, in any
    minute). chrono's parser also accepts a few non-canonical spellings (`+0100`, blanks around the
    zone, signed or short years, one-digit fields) that this recogniser refuses: those are outside
    the modelled domain and are not generated. -/
def twoDigits (a b : Char) : Option Nat :=
  if a.isDigit && b.isDigit then some ((a.toNat - 48) * 10 + (b.toNat - 48)) else none

def isLeap (y : Nat) : Bool := (y % 4 == 0 && y % 100 != 0) || y % 400 == 0

def daysInMonth (y mo : Nat) : Nat :=
  if mo == 2 then (if isLeap y then 29 else 28)
  else if mo == 4 || mo == 6 || mo == 9 || mo == 11 then 30 else 31

def timestampOk (s : String) : Bool :=
  match s.toList with
  | y1 :: y2 :: y3 :: y4 :: '-' :: m1 :: m2 :: '-' :: d1 :: d2 :: sep :: h1 :: h2 :: ':' :: n1 :: n2 :: ':' :: s1 :: s2 :: rest =>
    (y1.isDigit && y2.isDigit && y3.isDigit && y4.isDigit) &&
    (sep == 'T' || sep == 't' || sep == ' ') &&
    (match twoDigits y1 y2, twoDigits y3 y4, twoDigits m1 m2, twoDigits d1 d2, twoDigits h1 h2, twoDigits n1 n2, twoDigits s1 s2 with
     | some yh, some yl, some mo, some d, some h, some mi, some se =>
       1 ≤ mo && mo ≤ 12 && 1 ≤ d && d ≤ daysInMonth (yh * 100 + yl) mo && h ≤ 23 && mi ≤ 59 && se ≤ 60
     | _, _, _, _, _, _, _ => false) &&
    (let rest' := match rest with
       | '.' :: more => if (more.takeWhile Char.isDigit).isEmpty then ['!'] else more.dropWhile Char.isDigit
       | r => r
     match rest' with
     | ['Z'] => true
     | ['z'] => true
     | [sg, a, b, ':', c, d] =>
       (sg == '+' || sg == '-') &&
       (match twoDigits a b, twoDigits c d with
        | some hh, some mm => hh ≤ 23 && mm ≤ 59
        | _, _ => false)
     | _ => false)
  | _ => false

/-! ### find_track (cdedb.rs:876-941) -/

/-- (part id, track id, track data) -/
def findTrack (parts : List (String × J)) (track : Option Nat) : M (Nat × Nat × List (String × J)) :=
  match track with
  | some t =>
    let rec goTracks (partKey : String) : List (String × J) → M (Option (Nat × Nat × List (String × J)))
      | [] => .ok none
      | (tk, tv) :: rest =>
        match parseNat tk with
        | none => .error "track id parse error"
        | some tid =>
          if tid == t then
            match parseNat partKey with
            | none => .error "part id parse error"
            | some pid =>
              match tv.asObject with
              | none => .error "Track data is not an object"
              | some td => .ok (some (pid, tid, td))
          else goTracks partKey rest
    let rec goParts : List (String × J) → M (Nat × Nat × List (String × J))
      | [] => .error "Could not find course track"
      | (pk, pv) :: rest =>
        match (pv.get "tracks").bind J.asObject with
        | none => .error "Missing 'tracks' in event part."
        | some tracks =>
          match goTracks pk tracks with
          | .error e => .error e
          | .ok (some r) => .ok r
          | .ok none => goParts rest
    goParts parts
  | none =>
    let rec goTracksN (partKey : String) (result : Option (Nat × Nat × List (String × J))) :
        List (String × J) → M (Option (Nat × Nat × List (String × J)))
      | [] => .ok result
      | (tk, tv) :: rest =>
        if result.isSome then .error "Event has more than one course track" else
        match parseNat partKey with
        | none => .error "part id parse error"
        | some pid =>
          match parseNat tk with
          | none => .error "track id parse error"
          | some tid =>
            match tv.asObject with
            | none => .error "Track data is not an object"
            | some td => goTracksN partKey (some (pid, tid, td)) rest
    let rec goPartsN (result : Option (Nat × Nat × List (String × J))) : List (String × J) → M (Nat × Nat × List (String × J))
      | [] => match result with
        | some r => .ok r
        | none => .error "Event has no course track."
      | (pk, pv) :: rest =>
        match (pv.get "tracks").bind J.asObject with
        | none => .error "Missing 'tracks' in event part."
        | some tracks =>
          match goTracksN pk result tracks with
          | .error e => .error e
          | .ok r => goPartsN r rest
    goPartsN none parts

/-! ### courses -/

inductive CStatus where
  | notOffered | cancelled | takesPlace
  deriving BEq, Repr

/-- `format!("{: >10}", nr)`: left-padded with blanks to 10 characters -/
def sortKey (nr : String) : String :=
  String.ofList (List.replicate (10 - nr.length) ' ') ++ nr

/-- parse_course_base_data (cdedb.rs:389-445): (name, status, min, max, sort key) -/
def parseCourseBase (cdata : J) (trackId : Nat) : M (String × CStatus × Nat × Nat × String) :=
  match (cdata.get "segments").bind J.asObject with
  | none => .error "No 'segments' object found for course"
  | some segs =>
    let status : M CStatus :=
      match J.lookup (toString trackId) segs with
      | some v =>
        match v.asBool with
        | none => .error "Segment of course is not a boolean."
        | some true => .ok .takesPlace
        | some false => .ok .cancelled
      | none => .ok .notOffered
    match status with
    | .error e => .error e
    | .ok st =>
      match (cdata.get "nr").bind J.asStr with
      | none => .error "No 'nr' found for course"
      | some nr =>
        match (cdata.get "shortname").bind J.asStr with
        | none => .error "No 'shortname' found for course"
        | some sn =>
          let numMax := ((cdata.get "max_size").bind J.asU64).getD Const.DEFAULT_MAX_SIZE
          let numMin := ((cdata.get "min_size").bind J.asU64).getD Const.DEFAULT_MIN_SIZE
          if numMax < numMin then .error "Min participants > max participants" else
          .ok (nr ++ ". " ++ sn, st, numMin, numMax, sortKey nr)

def numOf : J → Option Num
  | .num n => some n
  | _ => none

/-- extract_room_factor_fields (cdedb.rs:465-499) -/
def roomFields (cdata : J) (o : Opts) : M (FVal × FVal) :=
  match (cdata.get "fields").bind J.asObject with
  | none => .error "No 'fields' found for course"
  | some fields =>
    let pick (fld : Option String) : FVal :=
      match fld with
      | none => .dflt
      | some name =>
        match (J.lookup name fields).bind numOf with
        | some n => .ofNum n
        | none => .dflt
    .ok (pick o.factorField, pick o.offsetField)

structure CoursesOut where
  courses : List Course                 -- sorted, index = position
  skipped : List Nat                    -- ids of not-offered / ignored courses
  numIgnored : Nat

def readCourses (cdata : List (String × J)) (trackId : Nat) (o : Opts) : M CoursesOut :=
  let rec go (acc : List (String × Course)) (skipped : List Nat) (nIgn : Nat) :
      List (String × J) → M (List (String × Course) × List Nat × Nat)
    | [] => .ok (acc, skipped, nIgn)
    | (k, v) :: rest =>
      match parseNat k with
      | none => .error "course id parse error"
      | some cid =>
        match parseCourseBase v trackId with
        | .error e => .error e
        | .ok (name, st, mn, mx, key) =>
          if st == .notOffered then go acc (skipped ++ [cid]) nIgn rest
          else if st == .cancelled && o.ignoreCancelled then go acc (skipped ++ [cid]) (nIgn + 1) rest
          else
            match roomFields v o with
            | .error e => .error e
            | .ok (f, off) =>
              go (acc ++ [(key, { dbid := cid, name := name, numMin := mn, numMax := mx, instructors := [],
                                  factor := f, offset := off, fixed := false, hidden := [] })]) skipped nIgn rest
  match go [] [] 0 cdata with
  | .error e => .error e
  | .ok (acc, skipped, nIgn) =>
    -- stable sort by the padded course number
    let sorted := acc.mergeSort (fun a b => decide (a.1 ≤ b.1))
    .ok { courses := sorted.map (·.2), skipped := skipped, numIgnored := nIgn }

/-! ### registrations -/

/-- index (counted from `k`) of the LAST element of the list satisfying `p`: a later hit takes
    precedence over the head.  This is what `collect::<HashMap<_, _>>()` does with repeated keys:
    the pairs are inserted in order, so the last one stays. -/
def lastIdx {α : Type} (p : α → Bool) : List α → Nat → Option Nat
  | [], _ => none
  | a :: l, k =>
    match lastIdx p l (k + 1) with
    | some i => some i
    | none => if p a then some k else none

/-- `course_index_by_id`: `some (some i)` kept course, `some none` skipped course, `none` unknown id.
    The map is collected from the kept courses in sorted order, so of two kept courses with the same
    database id (keys such as "01" and "1") the LAST one wins.
    Skipped ids are inserted after the kept ones, so they win. -/
def courseIndex (co : CoursesOut) (id : Nat) : Option (Option Nat) :=
  if co.skipped.contains id then some none
  else match lastIdx (fun c => c.dbid == id) co.courses 0 with
    | some i => some (some i)
    | none => none

/-- extract_participant_base_data (cdedb.rs:525-574): (is participant?, name) -/
def participantBase (reg : J) (partId : Nat) : M (Bool × String) :=
  match (reg.get "parts").bind J.asObject with
  | none => .error "No 'parts' found in registration"
  | some parts =>
    let rp := (J.lookup (toString partId) parts).bind J.asObject
    let st : M Bool :=
      match rp with
      | some part =>
        match (J.lookup "status" part).bind J.asI64 with
        | none => .error "Missing 'status' in registration_part record"
        | some s => .ok (s == Int.ofNat Const.STATUS_PARTICIPANT)
      | none => .ok false
    match st with
    | .error e => .error e
    | .ok isP =>
      match (reg.get "persona").bind J.asObject with
      | none => .error "Missing 'persona' in registration"
      | some persona =>
        match (J.lookup "given_names" persona).bind J.asStr with
        | none => .error "No 'given_name' found for registration"
        | some gn =>
          match (J.lookup "family_name" persona).bind J.asStr with
          | none => .error "No 'family_name' found for registration"
          | some fnm => .ok (isP, gn ++ " " ++ fnm)

structure PCData where
  assigned : Option Nat
  instructed : Option Nat
  choices : List (Nat × Nat)

/-- parse_participant_course_data (cdedb.rs:597-696) -/
def participantCourseData (reg : J) (trackId : Nat) (co : CoursesOut) : M PCData :=
  match (reg.get "tracks").bind J.asObject with
  | none => .error "No 'tracks' found in registration"
  | some tracks =>
    match (J.lookup (toString trackId) tracks).bind J.asObject with
    | none => .error "Registration track data not present"
    | some rt =>
      match J.lookup "course_id" rt with
      | none => .error "No 'course_id' found in registration track"
      | some cidv =>
        let resolve (v : J) (what : String) : M (Option Nat) :=
          match v.asU64 with
          | some id =>
            match courseIndex co id with
            | none => .error (what ++ " does not exist.")
            | some r => .ok r
          | none => .ok none
        match resolve cidv "Assigned course" with
        | .error e => .error e
        | .ok assigned =>
          match J.lookup "course_instructor" rt with
          | none => .error "No 'course_instructor' found in registration"
          | some civ =>
            match resolve civ "Instructed course" with
            | .error e => .error e
            | .ok instructed =>
              match (J.lookup "choices" rt).bind J.asArray with
              | none => .error "No 'choices' found in registration track data"
              | some chs =>
                let rec go (i : Nat) (acc : List (Nat × Nat)) : List J → M (List (Nat × Nat))
                  | [] => .ok acc
                  | v :: rest =>
                    match v.asU64 with
                    | none => .error "Course choice is no integer."
                    | some id =>
                      match courseIndex co id with
                      | none => .error "Course choice does not exist."
                      | some (some c) => go (i + 1) (acc ++ [(c, i)]) rest
                      | some none => go (i + 1) acc rest
                match go 0 [] chs with
                | .error e => .error e
                | .ok choices => .ok { assigned, instructed, choices }

/-- penalty_for_assigned_course_choice (after fix F2: the stored penalty of the choice) -/
def assignedPenalty (c : Nat) (choices : List (Nat × Nat)) (trackData : List (String × J)) : Nat :=
  match choices.find? (fun ch => ch.1 == c) with
  | some ch => ch.2
  | none => (((J.lookup "num_choices" trackData).bind J.asU64).getD 0) + 1

structure RState where
  i : Nat := 0
  parts : List Part := []
  courses : List Course
  extInstr : Nat := 0
  extPen : List Nat := []
  numIgnored : Nat := 0

def updCourse (cs : List Course) (i : Nat) (f : Course → Course) : List Course :=
  cs.modify i f

def readRegs (rdata : List (String × J)) (partId trackId : Nat) (trackData : List (String × J))
    (co : CoursesOut) (o : Opts) : M RState :=
  let rec go (s : RState) : List (String × J) → M RState
    | [] => .ok s
    | (k, v) :: rest =>
      match parseNat k with
      | none => .error "registration id parse error"
      | some rid =>
        match participantBase v partId with
        | .error e => .error e
        | .ok (isP, name) =>
          if !isP then go s rest else
          match participantCourseData v trackId co with
          | .error e => .error e
          | .ok pc =>
            match (if o.ignoreAssigned then pc.assigned else none) with
            | some ci =>
              -- skip already assigned participants
              let s' : RState :=
                if pc.instructed == some ci then
                  { s with courses := updCourse s.courses ci (fun c => { c with invInstr := c.invInstr + 1 }),
                           extInstr := s.extInstr + 1 }
                else
                  { s with courses := updCourse s.courses ci (fun c => { c with invAtt := c.invAtt + 1 }),
                           extPen := s.extPen ++ [assignedPenalty ci pc.choices trackData] }
              go { s' with courses := updCourse s'.courses ci (fun c => { c with hidden := c.hidden ++ [name] }),
                           numIgnored := s'.numIgnored + 1 } rest
            | none =>
              if pc.choices.isEmpty && pc.instructed.isNone then go s rest else
              let cs := match pc.instructed with
                | some ci => updCourse s.courses ci (fun c => { c with instructors := c.instructors ++ [s.i] })
                | none => s.courses
              go { s with i := s.i + 1, courses := cs,
                          parts := s.parts ++ [{ dbid := rid, name := name, choices := pc.choices }] } rest
  go { courses := co.courses } rdata

/-- adapt_course_for_invisible_participants (cdedb.rs:735-753); the room offset change
    `offset += (i + a) * factor` is recorded by `invInstr`/`invAtt` and applied by the driver -/
def adapt (c : Course) : Course :=
  { c with numMin := c.numMin - c.invAtt, numMax := c.numMax - c.invAtt,
           fixed := decide (c.invInstr + c.invAtt ≠ 0) }

/-- io::cdedb::read from the JSON value on -/
def read (data : J) (o : Opts) : M (List Part × List Course × Ambience) :=
  match checkVersion data with
  | .error e => .error e
  | .ok () =>
    match (data.get "timestamp").bind J.asStr with
    | none => .error "No 'timestamp' string found in data."
    | some ts =>
      if !timestampOk ts then .error "Could not parse export timestamp" else
      match (data.get "event").bind J.asObject with
      | none => .error "No 'event' object found in data."
      | some ev =>
        match (J.lookup "parts" ev).bind J.asObject with
        | none => .error "No 'parts' object found in event."
        | some parts =>
          match findTrack parts o.track with
          | .error e => .error e
          | .ok (partId, trackId, trackData) =>
            match (data.get "courses").bind J.asObject with
            | none => .error "No 'courses' object found in data."
            | some cdata =>
              match readCourses cdata trackId o with
              | .error e => .error e
              | .ok co =>
                match (data.get "registrations").bind J.asObject with
                | none => .error "No 'registrations' object found in data."
                | some rdata =>
                  match readRegs rdata partId trackId trackData co o with
                  | .error e => .error e
                  | .ok s =>
                    match (data.get "id").bind J.asU64 with
                    | none => .error "No event 'id' found in data"
                    | some eid =>
                      -- `track.is_some().then_some(… .ok_or(…)?)`: the argument is evaluated (and its
                      -- error returned) whether or not a track was selected
                      let tn : M (Option String) :=
                        match (J.lookup "shortname" trackData).bind J.asStr with
                        | some n => .ok (if o.track.isSome then some n else none)
                        | none => .error "Missing 'shortname' in event track."
                      match tn with
                      | .error e => .error e
                      | .ok trackName =>
                        .ok (s.parts, s.courses.map adapt,
                             { eventId := eid, trackId := trackId,
                               external := if o.ignoreAssigned then some (s.extInstr, s.extPen) else none,
                               trackName := trackName,
                               ignoredCourses := if o.ignoreCancelled then some co.numIgnored else none,
                               ignoredRegs := if o.ignoreAssigned then some s.numIgnored else none })

/-! ### the writer's registrations / courses objects (cdedb.rs:758-812) -/

/-- (registration dbid, course dbid) for every assigned participant, in participant order -/
def writeRegs (parts : List Part) (courses : List Course) (a : List (Option Nat)) : List (Nat × Nat) :=
  (parts.zip a).filterMap (fun (p, x) => x.map (fun c => (p.dbid, (courses.getD c default).dbid)))

/-- (course dbid, segment active?) for every course, in course order -/
def writeCourses (courses : List Course) (a : List (Option Nat)) : List (Nat × Bool) :=
  courses.zipIdx.map (fun (c, i) => (c.dbid, decide (0 < a.countP (· == some i)) || c.fixed))

end CD
