import Cdecao.Spec.Score
/-! Model of caobab/solution_score.rs: theoretical maximum score and the quality figures, the
    latter as exact (numerator, denominator) pairs (the code divides them as f32). Core only. -/
namespace QM
open N2 N2.G

def bestChoice (I : Inst) (p : Nat) : Nat :=
  ((I.part p).choices.map (fun ch => W - ch.penalty)).foldl max 0

/-- theoretical_max_score: every participant gets the best own choice; a participant with
    choices who instructs any course counts `W` instead -/
def theoreticalMax (I : Inst) : Nat :=
  ((List.range I.P).map (fun p =>
    if I.hasChoices p && I.isInstructorSomewhere p then W else bestChoice I p)).sum

def numReal (I : Inst) : Nat := (List.range I.P).countP (fun p => I.hasChoices p)

/-- solution_quality as (numerator, denominator) -/
def quality (I : Inst) (score : Nat) : Nat × Nat := (numReal I * W - score, numReal I)

/-- combined_quality with the external assignment data (number of instructors, penalties) -/
def combined (I : Inst) (score : Nat) (extInstr : Nat) (extPen : List Nat) : Nat × Nat :=
  (numReal I * W - score + extPen.sum, numReal I + extPen.length + extInstr)

end QM
