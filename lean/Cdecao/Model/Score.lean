import Cdecao.Spec.Score
/-! Model of caobab/solution_score.rs: theoretical maximum score and the quality figures, the
    latter as exact (numerator, denominator) pairs (the code divides them as f32). Core only. -/
namespace QM
open N2 N2.G

def bestChoice (I : Inst) (p : Nat) : Nat :=
  ((I.part p).choices.map (fun ch => W - ch.penalty)).foldl max 0

/-- theoretical_max_score: every participant gets the best own choice; a participant with
    choices who instructs any course counts `W` instead -/
def theoreticalMax (I : Inst) : Nat :=
  ((List.range I.P).map (fun p =>
    if I.hasChoices p && I.isInstructorSomewhere p then W else bestChoice I p)).sum

def numReal (I : Inst) : Nat := (List.range I.P).countP (fun p => I.hasChoices p)

/-- solution_quality as (numerator, denominator) -/
def quality (I : Inst) (score : Nat) : Nat × Nat := (numReal I * W - score, numReal I)

/-- combined_quality with the external assignment data (number of instructors, penalties) -/
def combined (I : Inst) (score : Nat) (extInstr : Nat) (extPen : List Nat) : Nat × Nat :=
  (numReal I * W - score + extPen.sum, numReal I + extPen.length + extInstr)

/-- `INSTRUCTOR_SCORE` of caobab.rs equals `WEIGHT_OFFSET` -/
def INSTRUCTOR_SCORE : Nat := W

/-- one iteration of the loop of `AssignmentQualityInfo::from_caobab_assignment`; the accumulator
    is (number_instructors, assigned_course_choice_penalties) -/
def fromAssignmentStep (I : Inst) (a : Nat → Option Nat) (unassigned unfulfilled : Nat)
    (acc : Nat × List Nat) (p : Nat) : Nat × List Nat :=
  match a p with
  | some c =>
    if I.instructs p c then
      (if I.hasChoices p then (acc.1 + 1, acc.2) else acc)
    else
      match (I.part p).choices.find? (fun ch => ch.course == c) with
      | some ch => (acc.1, acc.2 ++ [ch.penalty])
      | none => (acc.1, acc.2 ++ [unfulfilled])
  | none => if I.hasChoices p then (acc.1, acc.2 ++ [unassigned]) else acc

/-- `AssignmentQualityInfo::from_caobab_assignment`: (number_instructors, penalties in push order) -/
def fromAssignment (I : Inst) (a : Nat → Option Nat) (unassigned unfulfilled : Nat) : Nat × List Nat :=
  (List.range I.P).foldl (fromAssignmentStep I a unassigned unfulfilled) (0, [])

/-- `AssignmentQualityInfo::get_quality` as (numerator, denominator) -/
def getQuality (q : Nat × List Nat) : Nat × Nat :=
  (q.1 * (W - INSTRUCTOR_SCORE) + q.2.sum, q.2.length + q.1)

/-- `iter().sum::<u32>()`: the penalties are added in u32 (wrapping in release builds) before the
    conversion to usize; each element is itself a u32 -/
def sumU32 (l : List Nat) : Nat := l.foldl (fun acc x => (acc + x) % 2^32) 0

/-- `combined_quality` transcribed term by term, with the u32 sum of the external penalties -/
def combinedU32 (I : Inst) (score extInstr : Nat) (extPen : List Nat) : Nat × Nat :=
  (numReal I * W - score + extInstr * (W - INSTRUCTOR_SCORE) + sumU32 extPen,
   numReal I + extPen.length + extInstr)

/-- `AssignmentQualityInfo::get_quality` with the u32 sum of the penalties -/
def getQualityU32 (q : Nat × List Nat) : Nat × Nat :=
  (q.1 * (W - INSTRUCTOR_SCORE) + sumU32 q.2, q.2.length + q.1)

end QM
