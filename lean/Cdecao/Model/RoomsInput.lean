import Cdecao.Model.Json
import Cdecao.Model.Rooms
/-! Model of the two room inputs: the `--rooms` string (main.rs `parse_rooms`) and the rooms file
    (io/rooms.rs `read`, serde-derived `Vec<CourseRoomKind>` from the JSON value, object form).
    Core only. -/
namespace RI
open JS

def digitsNat (ds : List Char) : Nat := ds.foldl (fun acc c => acc * 10 + (c.toNat - '0'.toNat)) 0

def digitsVal (ds : List Char) : Option Nat :=
  if ds.isEmpty then none
  else if ds.all Char.isDigit then
    if digitsNat ds ≤ J.U64_MAX then some (digitsNat ds) else none
  else none

/-- `str::parse::<usize>()`: an optional leading `+`, then at least one ASCII digit, nothing else;
    values above `usize::MAX` are an error -/
def parseUsizeL (cs : List Char) : Option Nat :=
  match cs with
  | '+' :: rest => digitsVal rest
  | _ => digitsVal cs

def mapOpt {α β : Type} (f : α → Option β) : List α → Option (List β)
  | [] => some []
  | x :: xs =>
    match f x, mapOpt f xs with
    | some y, some ys => some (y :: ys)
    | _, _ => none

/-- `str::split(',')`: the pieces between commas; the empty string gives one empty piece -/
def splitComma : List Char → List (List Char)
  | [] => [[]]
  | c :: cs =>
    match splitComma cs with
    | [] => [[]]
    | x :: xs => if c = ',' then [] :: x :: xs else (c :: x) :: xs

/-- `rooms_raw.split(',').map(|r| r.parse::<usize>()).collect::<Result<Vec<_>, _>>()` -/
def parseRoomsL (cs : List Char) : Option (List Nat) := mapOpt parseUsizeL (splitComma cs)

def parseRoomsStr (s : String) : Option (List Nat) := parseRoomsL s.toList

def asUsize (j : J) : Option Nat :=
  match j with
  | .num (.pos n) => if n ≤ J.U64_MAX then some n else none
  | _ => none

def kindOf (j : J) : Option RM.Kind :=
  match j with
  | .obj kv =>
    match (J.lookup "name" kv).bind J.asStr, (J.lookup "capacity" kv).bind asUsize, (J.lookup "quantity" kv).bind asUsize with
    | some name, some capacity, some quantity => some { name, capacity, quantity }
    | _, _, _ => none
  -- the derived visitor also takes the fields in declaration order from a sequence of exactly three
  | .arr [n, c, q] =>
    match J.asStr n, asUsize c, asUsize q with
    | some name, some capacity, some quantity => some { name, capacity, quantity }
    | _, _, _ => none
  | _ => none

/-- io::rooms::read from the JSON value on: the kinds as listed (sorting is `RM.readKinds`) -/
def kindsOf (j : J) : Option (List RM.Kind) :=
  match j with
  | .arr l => mapOpt kindOf l
  | _ => none

end RI
