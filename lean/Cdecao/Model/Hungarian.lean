/-! Prototype 2: model of hungarian.rs with strict vectors -/
namespace H2

structure Vec (α : Type) where
  a : Array α

namespace Vec
variable {α : Type} [Inhabited α]
def size (v : Vec α) : Nat := v.a.size
def get (v : Vec α) (i : Nat) : α := v.a.getD i default
def set (v : Vec α) (i : Nat) (x : α) : Vec α := ⟨v.a.setIfInBounds i x⟩
def tab (n : Nat) (f : Nat → α) : Vec α := ⟨Array.ofFn (n := n) (fun i => f i.val)⟩
def const (n : Nat) (x : α) : Vec α := ⟨Array.replicate n x⟩
end Vec

structure Inp where
  nx : Nat
  ny : Nat
  w : Vec (Vec Int)
  dummy : Vec Bool
  mand : Vec Bool
  skipx : Vec Bool
  skipy : Vec Bool

instance : Inhabited (Vec Int) := ⟨⟨#[]⟩⟩
def Inp.wt (I : Inp) (x y : Nat) : Int := (I.w.get x).get y

def findPos (n : Nat) (p : Nat → Bool) : Option Nat :=
  let rec go (i fuel : Nat) : Option Nat :=
    match fuel with
    | 0 => none
    | fuel+1 => if p i then some i else go (i+1) fuel
  go 0 n

structure St where
  lx : Vec Int
  ly : Vec Int
  m : Vec Bool
  mm : Vec Nat

structure Tr where
  s : Vec Bool
  sPar : Vec Nat
  t : Vec Bool
  tPar : Vec Nat
  nlxt : Vec Bool
  nb : Vec Nat

def allowed (I : Inp) (x y : Nat) : Bool := !(I.dummy.get x && I.mand.get y)

structure Scan where
  dmin : Option Int      -- none = LARGE_LABEL (no candidate yet)
  nlxt : Vec Bool
  nb : Vec Nat

/-- the label-update scan (hungarian.rs:149-172) -/
def scan (I : Inp) (st : St) (tr : Tr) : Scan :=
  (List.range I.nx).foldl (fun acc x =>
    if tr.s.get x then
      (List.range I.ny).foldl (fun acc y =>
        if !tr.t.get y && !I.skipy.get y && allowed I x y then
          let delta := st.lx.get x + st.ly.get y - I.wt x y
          match acc.dmin with
          | some d =>
            if delta = d then { acc with nlxt := acc.nlxt.set y true, nb := acc.nb.set y x }
            else if delta < d then { dmin := some delta, nlxt := (Vec.const I.ny false).set y true, nb := acc.nb.set y x }
            else acc
          | none => { dmin := some delta, nlxt := (Vec.const I.ny false).set y true, nb := acc.nb.set y x }
        else acc) acc
    else acc) { dmin := none, nlxt := tr.nlxt, nb := tr.nb }

def augment (u : Nat) (tr : Tr) : Nat → Nat → Nat → Vec Nat → Option (Vec Nat)
  | 0, _, _, _ => none
  | fuel+1, yy, xx, mm =>
    let mm := mm.set yy xx
    if xx = u then some mm
    else
      let yy' := tr.sPar.get xx
      augment u tr fuel yy' (tr.tPar.get yy') mm

def grow (I : Inp) (u : Nat) : Nat → St → Tr → Option St
  | 0, _, _ => none
  | fuel+1, st, tr =>
    let r : Option (St × Tr × Nat) :=
      match findPos I.ny tr.nlxt.get with
      | some y => some (st, tr, y)
      | none =>
        let sc := scan I st tr
        match sc.dmin with
        | none => none      -- Rust: i32 overflow / unwrap on None
        | some d =>
          let st' := { st with lx := Vec.tab I.nx (fun x => if tr.s.get x then st.lx.get x - d else st.lx.get x),
                               ly := Vec.tab I.ny (fun y => if tr.t.get y then st.ly.get y + d else st.ly.get y) }
          let tr' := { tr with nlxt := sc.nlxt, nb := sc.nb }
          match findPos I.ny sc.nlxt.get with
          | none => none
          | some y => some (st', tr', y)
    match r with
    | none => none
    | some (st, tr, y) =>
      if st.m.get y then
        let z := st.mm.get y
        let t' := tr.t.set y true
        let newN : Nat → Bool := fun y' =>
          (!I.skipy.get y' && !t'.get y') && (if I.dummy.get z then !I.mand.get y' else true)
            && (I.wt z y' == st.ly.get y' + st.lx.get z)
        let nlxt1 := tr.nlxt.set y false
        let tr' : Tr := { t := t', tPar := tr.tPar.set y (tr.nb.get y), s := tr.s.set z true, sPar := tr.sPar.set z y,
                          nlxt := Vec.tab I.ny (fun y' => nlxt1.get y' || newN y'),
                          nb := Vec.tab I.ny (fun y' => if newN y' then z else tr.nb.get y') }
        grow I u fuel st tr'
      else
        match augment u tr (I.ny + 1) y (tr.nb.get y) st.mm with
        | none => none
        | some mm => some { st with m := st.m.set y true, mm := mm }

def initTr (I : Inp) (st : St) (u : Nat) : Tr :=
  { s := (Vec.const I.nx false).set u true, sPar := Vec.const I.nx 0, t := Vec.const I.ny false, tPar := Vec.const I.ny 0,
    nlxt := Vec.tab I.ny (fun y => !I.skipy.get y && (I.wt u y == st.lx.get u + st.ly.get y && !(I.dummy.get u && I.mand.get y))),
    nb := Vec.const I.ny u }

def rowMax (I : Inp) (x : Nat) : Int :=
  (List.range I.ny).foldl (fun acc y => max acc (I.wt x y)) 0

def outer (I : Inp) : List Nat → St → Option St
  | [], st => some st
  | u :: rest, st =>
    match grow I u (I.ny + 1) st (initTr I st u) with
    | none => none
    | some st' => outer I rest st'

def run (I : Inp) : Option (Vec Nat × Int) :=
  let st0 : St := { lx := Vec.tab I.nx (rowMax I), ly := Vec.const I.ny 0, m := Vec.const I.ny false, mm := Vec.const I.ny 0 }
  let free := ((List.range I.nx).filter (fun x => !I.skipx.get x)).reverse
  match outer I free st0 with
  | none => none
  | some st =>
    let score := (List.range I.ny).foldl (fun acc y => if I.skipy.get y then acc else acc + I.wt (st.mm.get y) y) 0
    some (st.mm, score)

end H2
