import Cdecao.Model.Hungarian
/-! Model of hungarian.rs with range-checked (`i32`) arithmetic.

`H2B` is a copy of `H2` (Cdecao/Model/Hungarian.lean) in which every arithmetic result is checked
against a bound `B` (`B = 2^31` for `type Label = i32`): as soon as an intermediate value leaves
`[-B, B)` the routine returns `none`.  Same recursion, same fuel, same tie-breaking; the only
difference to `H2` is the arithmetic.  Checked places:

* `rowMax`  (hungarian.rs:98-99)   every weight read and every running maximum,
* `initTr`  (hungarian.rs:131-137) the sums `labels_x[u] + l` for *all* columns,
* `scan`    (hungarian.rs:149-172) `labels_x[x] + labels_y[y]`, `… - weight`; moreover the scan fails if
  a computed delta equals `B - 1 = LARGE_LABEL` (where the sentinel would be indistinguishable from a
  candidate),
* `relabel` (hungarian.rs:174-175) every entry of the new label vectors (`labels_x - delta_min` on `S`,
  `labels_y + delta_min` on `T`; entries outside `S`/`T` have `0` subtracted/added and are re-checked),
* `grow`    (hungarian.rs:199-203) the sums `l + label` for *all* columns,
* the score (hungarian.rs:235-239) every partial sum.  (The Rust `Score` is `u32`; the check against
  `[-B, B)` used here is the stricter signed one, so for non-negative weights a passing check implies
  that the `u32` sum does not wrap either.)
-/
namespace H2B
open H2

/-- range check: the value if it is representable, `none` otherwise -/
def chk (B : Int) (v : Int) : Option Int := if -B ≤ v ∧ v < B then some v else none

/-- monadic tabulate: `none` as soon as one entry fails -/
def tabM {α : Type} [Inhabited α] (n : Nat) (f : Nat → Option α) : Option (Vec α) :=
  if (List.range n).all (fun i => (f i).isSome) then some (Vec.tab n (fun i => (f i).getD default)) else none

/-- one inner step of the label-update scan (hungarian.rs:155-169) with checked arithmetic -/
def scanStep (B : Int) (I : Inp) (st : St) (tr : Tr) (x : Nat) (acc : Scan) (y : Nat) : Option Scan :=
  if !tr.t.get y && !I.skipy.get y && allowed I x y then
    match chk B (st.lx.get x + st.ly.get y) with
    | none => none
    | some s =>
      match chk B (s - I.wt x y) with
      | none => none
      | some delta =>
        if delta = B - 1 then none      -- delta == LARGE_LABEL: indistinguishable from the sentinel
        else
          some (match acc.dmin with
          | some d =>
            if delta = d then { acc with nlxt := acc.nlxt.set y true, nb := acc.nb.set y x }
            else if delta < d then { dmin := some delta, nlxt := (Vec.const I.ny false).set y true, nb := acc.nb.set y x }
            else acc
          | none => { dmin := some delta, nlxt := (Vec.const I.ny false).set y true, nb := acc.nb.set y x })
  else some acc

def scanRow (B : Int) (I : Inp) (st : St) (tr : Tr) (acc : Scan) (x : Nat) : Option Scan :=
  if tr.s.get x then (List.range I.ny).foldlM (scanStep B I st tr x) acc else some acc

/-- the label-update scan (hungarian.rs:149-172) -/
def scan (B : Int) (I : Inp) (st : St) (tr : Tr) : Option Scan :=
  (List.range I.nx).foldlM (scanRow B I st tr) { dmin := none, nlxt := tr.nlxt, nb := tr.nb }

/-- the label update (hungarian.rs:174-175) -/
def relabel (B : Int) (I : Inp) (st : St) (tr : Tr) (d : Int) : Option St :=
  match tabM I.nx (fun x => chk B (if tr.s.get x then st.lx.get x - d else st.lx.get x)) with
  | none => none
  | some lx =>
    match tabM I.ny (fun y => chk B (if tr.t.get y then st.ly.get y + d else st.ly.get y)) with
    | none => none
    | some ly => some { st with lx := lx, ly := ly }

/-- all sums `labels_y[y'] + labels_x[z]` (hungarian.rs:203, computed for every column) are representable -/
def sumsOk (B : Int) (I : Inp) (st : St) (z : Nat) : Bool :=
  (List.range I.ny).all (fun y' => (chk B (st.ly.get y' + st.lx.get z)).isSome)

/-- choice of the next column, with a label update if necessary (hungarian.rs:143-181) -/
def pick (B : Int) (I : Inp) (st : St) (tr : Tr) : Option (St × Tr × Nat) :=
  match findPos I.ny tr.nlxt.get with
  | some y => some (st, tr, y)
  | none =>
    match scan B I st tr with
    | none => none
    | some sc =>
      match sc.dmin with
      | none => none
      | some d =>
        match relabel B I st tr d with
        | none => none
        | some st' =>
          let tr' := { tr with nlxt := sc.nlxt, nb := sc.nb }
          match findPos I.ny sc.nlxt.get with
          | none => none
          | some y => some (st', tr', y)

def grow (B : Int) (I : Inp) (u : Nat) : Nat → St → Tr → Option St
  | 0, _, _ => none
  | fuel+1, st, tr =>
    match pick B I st tr with
    | none => none
    | some (st, tr, y) =>
      if st.m.get y then
        let z := st.mm.get y
        if sumsOk B I st z then
          let t' := tr.t.set y true
          let newN : Nat → Bool := fun y' =>
            (!I.skipy.get y' && !t'.get y') && (if I.dummy.get z then !I.mand.get y' else true)
              && (I.wt z y' == st.ly.get y' + st.lx.get z)
          let nlxt1 := tr.nlxt.set y false
          let tr' : Tr := { t := t', tPar := tr.tPar.set y (tr.nb.get y), s := tr.s.set z true, sPar := tr.sPar.set z y,
                            nlxt := Vec.tab I.ny (fun y' => nlxt1.get y' || newN y'),
                            nb := Vec.tab I.ny (fun y' => if newN y' then z else tr.nb.get y') }
          grow B I u fuel st tr'
        else none
      else
        match augment u tr (I.ny + 1) y (tr.nb.get y) st.mm with
        | none => none
        | some mm => some { st with m := st.m.set y true, mm := mm }

/-- the initial tree (hungarian.rs:118-138); the sums `labels_x[u] + l` are computed for every column -/
def initTr (B : Int) (I : Inp) (st : St) (u : Nat) : Option Tr :=
  if (List.range I.ny).all (fun y => (chk B (st.lx.get u + st.ly.get y)).isSome) then some (H2.initTr I st u)
  else none

/-- initial row labels (hungarian.rs:98-99) -/
def rowMax (B : Int) (I : Inp) (x : Nat) : Option Int :=
  (List.range I.ny).foldlM (fun acc y =>
    match chk B (I.wt x y) with
    | none => none
    | some w => chk B (max acc w)) 0

def outer (B : Int) (I : Inp) : List Nat → St → Option St
  | [], st => some st
  | u :: rest, st =>
    match initTr B I st u with
    | none => none
    | some tr =>
      match grow B I u (I.ny + 1) st tr with
      | none => none
      | some st' => outer B I rest st'

/-- the score (hungarian.rs:235-239) -/
def score (B : Int) (I : Inp) (mm : Vec Nat) : Option Int :=
  (List.range I.ny).foldlM (fun acc y => if I.skipy.get y then some acc else chk B (acc + I.wt (mm.get y) y)) 0

def run (B : Int) (I : Inp) : Option (Vec Nat × Int) :=
  match tabM I.nx (rowMax B I) with
  | none => none
  | some lx0 =>
    let st0 : St := { lx := lx0, ly := Vec.const I.ny 0, m := Vec.const I.ny false, mm := Vec.const I.ny 0 }
    let free := ((List.range I.nx).filter (fun x => !I.skipx.get x)).reverse
    match outer B I free st0 with
    | none => none
    | some st =>
      match score B I st.mm with
      | none => none
      | some sc => some (st.mm, sc)

/-- the `i32` instance -/
def run32 (I : Inp) : Option (Vec Nat × Int) := run (2^31) I

end H2B
