import Cdecao.Model.Node
/-! Model of io.rs `format_assignment`. (The simple-format writer's `assignment` array is serde's
    serialisation of the incumbent's list itself — `Props.C14_array` speaks about that list; the
    file is judged directly by the cli-simple stream, `write_input_data` is not modelled.) Core only. -/
namespace LM
open N2

/-- the people listed under course `c`: exactly the participants the assignment puts there, in
    participant order, each flagged iff listed among the course's instructors -/
def entries (I : Inst) (a : Nat → Option Nat) (c : Nat) : List (Nat × Bool) :=
  ((List.range I.P).filter (fun p => a p == some c)).map (fun p => (p, (I.course c).instructors.contains p))

def renderCourse (I : Inst) (a : Nat → Option Nat) (cname : String) (pname : Nat → String) (hidden : List String)
    (rooms : Option String) (c : Nat) : String :=
  let es := entries I a c
  "\n===== " ++ cname ++ " =====\n" ++
  "(" ++ toString (es.length + hidden.length) ++ " participants incl. instructors)\n" ++
  (match rooms with
   | some r => "(possible course rooms: " ++ r ++ ")\n"
   | none => "") ++
  String.join (es.map (fun (p, ins) => "- " ++ pname p ++ (if ins then " (instr)" else "") ++ "\n")) ++
  (if hidden.isEmpty then "" else
    "further attendees (not optimized):\n" ++ String.join (hidden.map (fun n => "- " ++ n ++ "\n")))

/-- io::format_assignment -/
def render (I : Inst) (a : Nat → Option Nat) (cnames : List String) (pnames : List String) (hidden : List (List String))
    (rooms : Option (List String)) : String :=
  String.join ((List.range I.C).map (fun c =>
    renderCourse I a (cnames.getD c "") (fun p => pnames.getD p "") (hidden.getD c [])
      (rooms.map (fun r => r.getD c "")) c))

end LM
