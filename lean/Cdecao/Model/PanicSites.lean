/-! The explicit panic sites of the non-test code (`.unwrap()`, `.expect(`, `panic!`, the `assert!`
    family, `unreachable!` …), per file and enclosing function, in source order, as the models were
    written against them — and what each becomes in the model. `bin/gen_constants.py` re-extracts
    the list from /repo/src on every run (`Const.PANIC_SITES`); `Props.panic_sites_tie` compares.
    A panic site that appears in the code but not here is one the no-panic theorems (C10, C15,
    C19) say nothing about. (Index arithmetic — slice indexing, `usize` subtraction — cannot be
    listed this way; it is modelled site by site in `N2.guards` / `N2.checkRoom` / `N2.checkFeas`
    and exercised by the harness with overflow checks on.) Core only. -/
namespace PanicSites

def sites : List (String × List String) := [
  ("src/caobab.rs",
    ["precompute_problem:debug_assert",       -- debug builds only (choice index in range): `Inst.precomputeOk`
     "run_bab_node:debug_assert",             -- debug builds only (node lists in range): guard "oob-node"
     "run_bab_node:assert",                   -- a mandatory course place is skipped: guard "assert-mandatory-skipped"
     "check_room_feasibility:unwrap",         -- conflicting course exists once a conflict was found: `N2.checkRoom`
     "check_room_feasibility:unwrap",         -- smallest conflicting course: `N2.checkRoom`
     "check_room_feasibility:assert",         -- order of the two: `N2.checkRoom`
     "check_room_feasibility:unwrap",         -- constraint set without `all_required`: `N2.checkRoom`
     "check_room_feasibility:assert",         -- a k-selection yields a constraint set: `N2.checkRoom`
     "check_feasibility:assert"]),            -- an assigned course place belongs to a course: `N2.checkFeas`
  ("src/hungarian.rs",
    ["hungarian_algorithm:assert_eq", "hungarian_algorithm:assert_eq", "hungarian_algorithm:assert_eq",
     "hungarian_algorithm:assert_eq", "hungarian_algorithm:assert_eq",   -- debug builds only: mask dimensions, square selection
     "hungarian_algorithm:unwrap"]),          -- a label update always opens a new equality edge: `H2.run = none`
  ("src/bab.rs",
    ["solve:unwrap",                          -- thread::Builder::spawn (OS refuses a thread: not modelled)
     "solve:unwrap",                          -- join of a worker: a panicked worker re-raises here (`Eng3` `dead`, C19)
     "solve:expect", "solve:expect",          -- Arc::try_unwrap / Mutex::into_inner after all workers were joined
     "worker:unwrap", "worker:unwrap", "worker:unwrap", "worker:unwrap"]),  -- lock()/wait(): poisoning only (no panic under the lock)
  ("src/util.rs",
    ["next:unwrap"]),                         -- the carry loop finds an index to advance: `Sel.next`
  ("src/io.rs",
    ["format_assignment:unwrap", "format_assignment:unwrap", "format_assignment:unwrap",
     "format_assignment:unwrap", "format_assignment:unwrap", "format_assignment:unwrap",   -- `write!` into a String: infallible
     "assert_data_consitency:assert_eq", "assert_data_consitency:assert", "assert_data_consitency:assert_eq",
     "assert_data_consitency:assert", "assert_data_consitency:assert"]),   -- called in debug builds only (main.rs)
  ("src/io/simple.rs", []),
  ("src/io/rooms.rs", []),
  ("src/io/cdedb.rs",
    ["write:unwrap",                          -- `cid.unwrap()` after `filter(is_some)`: `CD.writeRegs` (filterMap)
     "write:unwrap"]),                        -- `as_object_mut()` of an object literal: infallible
  ("src/main.rs",
    ["main:unwrap",                           -- INPUT is a required argument (clap)
     "main:unwrap"]),                         -- the ambience data exists on the --cde path: `MainM.Data.cde`
  ("src/caobab/solution_score.rs", [])]

end PanicSites
