import Cdecao.Model.Node
/-! Final-style node model, control flow factored for proofs: early exits (`guards`), the Hungarian
    input (`nodeInp`), and everything after the matching (`post`). -/
namespace N2
open H2

/-- the Hungarian input of a node -/
def nodeInp (I : Inst) (nd : Node) : Inp :=
  let P := I.P
  let extra := I.n - I.m + numSkipY I nd - numSkipX I nd
  let skipX : Nat → Bool := fun x => skipXBase I nd x || (decide (P ≤ x) && decide (x < P + extra))
  { nx := I.n, ny := I.m
    w := Vec.tab I.n (fun x => Vec.tab I.m (fun cp => I.weight x cp))
    dummy := Vec.tab I.n (fun x => decide (P ≤ x))
    mand := Vec.tab I.m (mandY I nd)
    skipx := Vec.tab I.n skipX
    skipy := Vec.tab I.m (skipY I nd) }

/-- early exits and panics before the matching; `none` = go on -/
def guards (I : Inst) (nd : Node) : Option (M Res) :=
  if !I.precomputeOk then some (.error "precompute") else
  if !(nd.cancelled.all (fun c => decide (c < I.C)) && nd.enforced.all (fun c => decide (c < I.C)) &&
       nd.shrinked.all (fun cs => decide (cs.1 < I.C))) then some (.error "oob-node") else
  if nd.enforced.foldl (fun acc c => acc + (I.course c).numMin) 0 > I.P - numSkipX I nd then some (.ok .noSol) else
  if (List.range I.C).foldl (fun acc c => acc + effMax I nd c) 0 < I.P - numSkipX I nd then some (.ok .noSol) else
  if (List.range I.P).any (fun x => !skipXBase I nd x &&
      (I.part x).choices.all (fun ch => nd.cancelled.contains ch.course)) then some (.ok .noSol) else
  if I.n + numSkipY I nd < I.m + numSkipX I nd then some (.error "underflow-dummies") else
  if I.P + (I.n - I.m + numSkipY I nd - numSkipX I nd) > I.n then some (.error "oob-dummies") else
  if (List.range I.m).any (fun cp => mandY I nd cp && skipY I nd cp) then some (.error "assert-mandatory-skipped") else
  none

def roomStage (I : Inst) (R : RoomFns) (nd : Node) (a : Nat → Option Nat) (score : Nat) : M (Option Res) :=
  match I.roomSizes with
  | none => .ok none
  | some rooms =>
    match checkRoom I R nd a rooms with
    | .error e => .error e
    | .ok (true, _) => .ok none
    | .ok (false, sets) =>
      .ok (some (.infeasible (sets.map (fun r =>
        { nd with shrinked := nd.shrinked ++ r.shrink, cancelled := nd.cancelled ++ r.cancel })) score))

def feasStage (I : Inst) (nd : Node) (a : Nat → Option Nat) (score : Nat) : M Res :=
  match checkFeas I nd a ((nodeInp I nd).skipx.get) with
  | .error e => .error e
  | .ok (true, _, _) => .ok (.feasible ((List.range I.P).map a) score)
  | .ok (false, pprob, bc) =>
    let kids : List Node :=
      match bc with
      | none => []
      | some c =>
        (if pprob then [] else [{ nd with enforced := nd.enforced ++ [c] }]) ++
        (if (I.course c).fixed then [] else [{ nd with cancelled := nd.cancelled ++ [c] }])
    .ok (.infeasible kids score)

def post (I : Inst) (R : RoomFns) (nd : Node) (mm : Vec Nat) (sc : Int) : M Res :=
  let av := Vec.tab I.P (assign I nd mm.get)          -- materialise once
  let bonus := (List.range I.C).foldl (fun acc c =>
    if nd.cancelled.contains c then acc
    else acc + WEIGHT * ((I.course c).instructors.countP (fun i => !I.instructorOnly i))) 0
  let score := sc.toNat + bonus
  match roomStage I R nd av.get score with
  | .error e => .error e
  | .ok (some r) => .ok r
  | .ok none => feasStage I nd av.get score

def runNodeS (I : Inst) (R : RoomFns) (nd : Node) : M Res :=
  match guards I nd with
  | some r => r
  | none =>
    match H2.run (nodeInp I nd) with
    | none => .error "hungarian-unwrap"
    | some (mm, sc) => post I R nd mm sc

end N2
