import Cdecao.Proofs.NodeFeasTotal
import Cdecao.Proofs.NodeEng2
/-! Spike (C10 over the tree): no node of the search tree of a well-formed instance makes the node solver
    panic — the `nopanic` clause of `NodeSpec`, and with `C04_no_deadlock`/`C19` the reason why a run on a
    valid instance ends normally. -/
namespace N2
open H2

theorem desc_ok2 (I : Inst) (R : RoomFns) :
    letI := solverOf I R
    ∀ f t : Node, Eng3.Desc f t → NodeOK2 I t → NodeOK2 I f := by
  letI := solverOf I R
  intro f t hd
  induction hd with
  | refl => exact id
  | @step k t hk _ ih =>
    intro ht
    apply ih
    simp only [Eng3.pushed, Eng3.Solver.res, Eng3.Solver.kids] at hk
    cases hr : runNodeS I R t with
    | error e => simp [hr] at hk
    | ok r =>
      cases r with
      | noSol => simp [hr] at hk
      | feasible al sc => simp [hr] at hk
      | infeasible kids sc =>
        simp only [hr] at hk
        exact children_ok2 I R t ht kids sc hr k hk

theorem tree_no_panic (I : Inst) (R : RoomFns) (hI : InstOK I)
    (hmm : ∀ c, c < I.C → (I.course c).numMin ≤ (I.course c).numMax) :
    letI := solverOf I R
    ∀ f : Node, Eng3.Desc f rootNode → Eng3.Solver.res f ≠ (Eng3.Res.panic : Eng3.Res (List (Option Nat))) := by
  letI := solverOf I R
  intro f hd
  have hroot : NodeOK2 I rootNode := ⟨by simp [rootNode], by simp [rootNode], by simp [rootNode]⟩
  have hok := desc_ok2 I R f rootNode hd hroot
  obtain ⟨r, hr⟩ := node_total I R f hI hmm hok
  simp only [Eng3.Solver.res, hr]
  cases r <;> simp

#print axioms tree_no_panic
end N2
