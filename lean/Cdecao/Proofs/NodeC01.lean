import Cdecao.Proofs.Gate
import Cdecao.Proofs.NodeSq
/-! Spike: `CtxOK` for the context of the final-style node model, from `hung_partial`, the column
    structure and instance well-formedness; the bridge from `checkFeas` to the gate. -/
open Finset
namespace N2
open H2

def ctxOf (I : Inst) (nd : Node) (mm : Nat → Nat) : G.Ctx :=
  { m := I.m, cancelled := nd.cancelled, skipY := skipY I nd, courseMap := I.colCourse, mm := mm }

theorem assign_eq (I : Inst) (nd : Node) (mm : Nat → Nat) (p : Nat) :
    assign I nd mm p = G.assign I (ctxOf I nd mm) p := rfl

/-- what the readers guarantee about an instance (checked always after F5) -/
structure InstOK (I : Inst) : Prop where
  pre : I.precomputeOk = true
  oneCourse : ∀ p c c', c < I.C → c' < I.C → I.instructs p c = true → I.instructs p c' = true → c = c'

/-- node invariant: fixed courses are never cancelled -/
def NodeOK (I : Inst) (nd : Node) : Prop := ∀ c, c ∈ nd.cancelled → (I.course c).fixed = false

theorem instructs_lt (I : Inst) {p c : Nat} (h : I.instructs p c = true) : c < I.C := by
  by_contra hc
  have : I.course c = default := by
    simp only [Inst.course, Inst.C] at hc ⊢
    simp [List.getD_eq_getElem?_getD, List.getElem?_eq_none (Nat.le_of_not_lt hc)]
  rw [Inst.instructs, this] at h
  exact absurd h (by simp [default])

theorem instr_range (I : Inst) (hp : I.precomputeOk = true) {p c : Nat} (hc : c < I.C)
    (h : I.instructs p c = true) : p < I.P := by
  simp only [Inst.precomputeOk, Bool.and_eq_true, List.all_eq_true, decide_eq_true_eq] at hp
  have hmem : I.course c ∈ I.cs := by
    simp only [Inst.course, Inst.C] at hc ⊢
    simp [List.getD_eq_getElem?_getD, List.getElem?_eq_getElem hc]
  exact hp.1 _ hmem p (by simpa [Inst.instructs, List.contains_iff_mem] using h)

theorem isInstr_eq (I : Inst) (nd : Node) (mm : Nat → Nat) (p : Nat) (hp : p < I.P) :
    G.isInstr I (ctxOf I nd mm) p = skipXBase I nd p := by
  simp [G.isInstr, skipXBase, liveInstructor, ctxOf, Inst.hasChoices, Inst.instructorOnly, Inst.instructs, hp]

theorem ctxOK (I : Inst) (nd : Node) (hI : InstOK I) (hn : NodeOK I nd) (mm : Vec Nat)
    (hperf : Perfect (probOf (nodeInp I nd)) mm.get) : G.CtxOK I (ctxOf I nd mm.get) := by
  have hY : ∀ cp, cp < I.m → skipY I nd cp = false → cp ∈ (probOf (nodeInp I nd)).Y := by
    intro cp h1 h2
    simp only [probOf, nodeInp, mem_filter, mem_range, Vec.get_tab]
    exact ⟨h1, by simp [h1, h2]⟩
  refine ⟨?_, ?_, ?_, ?_, ?_, ?_, ?_⟩
  · intro p c c' h h'
    exact hI.oneCourse p c c' (instructs_lt I h) (instructs_lt I h') h h'
  · intro p c hc h; exact instr_range I hI.pre hc h
  · exact hn
  · intro cp hcp hs
    simp only [ctxOf] at hcp hs ⊢
    rw [skipY_eq] at hs
    have hcp' : cp < Cols.inv (numMaxOf I) I.C := by rw [← inv_eq]; exact hcp
    obtain ⟨h1, h2⟩ := Cols.live_course (numMaxOf I) (effMax I nd) I.C cp hcp' hs
    simp only [Inst.colCourse, courseOf_eq]
    refine ⟨h1, ?_⟩
    intro hm
    have := effMax_cancelled I nd _ (by simpa [List.contains_iff_mem] using hm)
    omega
  · intro c hc
    show #((range I.m).filter (fun cp => skipY I nd cp = false ∧ I.colCourse cp = c)) ≤ (I.course c).numMax
    rw [live_card I nd c hc]
    exact effMax_le I nd c
  · intro cp1 cp2 h1 h2 s1 s2 he
    exact hperf.inj (by simpa using hY cp1 h1 s1) (by simpa using hY cp2 h2 s2) he
  · intro cp hcp hs hlt
    simp only [ctxOf] at hcp hs hlt
    show G.isInstr I (ctxOf I nd mm.get) (mm.get cp) = false
    rw [isInstr_eq I nd mm.get _ hlt]
    have hx := hperf.maps cp (hY cp hcp hs)
    simp only [probOf, nodeInp, mem_filter, mem_range, Vec.get_tab] at hx
    obtain ⟨hx1, hx2⟩ := hx
    simp only [hx1, if_true, Bool.or_eq_false_iff] at hx2
    exact hx2.1

#print axioms ctxOK
end N2
