import Cdecao.Proofs.NodeScore
import Cdecao.Proofs.HungBounds
import Cdecao.Proofs.NodeEng
import Cdecao.Proofs.SpecExec
/-! Size bounds on every score the model computes (the Rust code holds scores in `u32`):
    the node solver's score is at most `(I.m + #instructor entries) * WEIGHT`, and so is every
    score the parallel engine ever stores (incumbent score, parent scores of pending nodes). -/
open Finset
namespace N2
open H2

/-! ### the Hungarian part -/

theorem weight_le (I : Inst) (x cp : Nat) : I.weight x cp ≤ (WEIGHT : Int) := by
  unfold Inst.weight
  split
  · split
    · simp only [Int.ofNat_eq_natCast]; omega
    · exact Int.natCast_nonneg _
  · exact Int.natCast_nonneg _

theorem nodeInp_wt_bounds (I : Inst) (nd : Node)
    (hpen : ∀ p ch, ch ∈ (I.part p).choices → ch.penalty ≤ WEIGHT) (x y : Nat) :
    0 ≤ (nodeInp I nd).wt x y ∧ (nodeInp I nd).wt x y ≤ (WEIGHT : Int) := by
  by_cases hx : x < I.n
  · by_cases hy : y < I.m
    · rw [wt_eq I nd x y hx hy]
      exact ⟨weight_nonneg I hpen x y, weight_le I x y⟩
    · have : (nodeInp I nd).wt x y = 0 := by
        simp only [Inp.wt, nodeInp, Vec.get_tab, hx, hy, if_true, if_false]; rfl
      rw [this]; exact ⟨Int.le_refl _, Int.natCast_nonneg _⟩
  · have : (nodeInp I nd).wt x y = 0 := by
      simp only [Inp.wt, nodeInp, Vec.get_tab, hx, if_false]; rfl
    rw [this]; exact ⟨Int.le_refl _, Int.natCast_nonneg _⟩

theorem hung_score_le (I : Inst) (nd : Node)
    (hpen : ∀ p ch, ch ∈ (I.part p).choices → ch.penalty ≤ WEIGHT) (mm : Vec Nat) (sc : Int)
    (h : H2.run (nodeInp I nd) = some (mm, sc)) : sc.toNat ≤ I.m * WEIGHT := by
  have hb := H2B.run_score_bounds (nodeInp I nd) (WEIGHT : Int) (nodeInp_wt_bounds I nd hpen) mm sc h
  have hny : (nodeInp I nd).ny = I.m := rfl
  rw [hny] at hb
  have : sc ≤ ((I.m * WEIGHT : Nat) : Int) := by rw [Int.natCast_mul]; exact hb.2
  omega

/-! ### the instructor bonus -/

theorem sum_instr_length (k : Nat) (l : List Course) :
    ∑ c ∈ range l.length, (l.getD c default).instructors.length * k
      = (l.flatMap (fun c => c.instructors)).length * k := by
  induction l with
  | nil => simp
  | cons a l ih =>
    rw [List.length_cons, sum_range_succ', List.flatMap_cons, List.length_append, Nat.add_mul, ← ih]
    simp [Nat.add_comm]

theorem bonusOf_le (I : Inst) (nd : Node) : bonusOf I nd ≤ I.allInstructors.length * WEIGHT := by
  unfold bonusOf
  rw [foldl_cond_eq_sum, Inst.allInstructors, ← sum_instr_length]
  apply sum_le_sum
  intro c _
  split
  · exact Nat.zero_le _
  · rw [Nat.mul_comm]
    exact Nat.mul_le_mul_right _ List.countP_le_length

/-! ### the node solver -/

/-- a verdict with a score carries the Hungarian score plus the bonus -/
theorem runNodeS_score (I : Inst) (R : RoomFns) (nd : Node) (r : Res) (h : runNodeS I R nd = .ok r) :
    r = .noSol ∨ ∃ (mm : Vec Nat) (hsc : Int), H2.run (nodeInp I nd) = some (mm, hsc) ∧
      ((∃ kids, r = .infeasible kids (hsc.toNat + bonusOf I nd)) ∨
        (∃ al, r = .feasible al (hsc.toNat + bonusOf I nd))) := by
  unfold runNodeS at h
  split at h
  · rename_i r' hg
    left
    unfold guards at hg
    repeat' split at hg
    all_goals first
      | (simp only [Option.some.injEq] at hg; rw [← hg] at h
         simp only [Except.ok.injEq] at h; exact h.symm)
      | (simp only [Option.some.injEq] at hg; rw [← hg] at h; simp at h)
      | contradiction
  · split at h
    · contradiction
    · rename_i mm hsc hrun
      right
      refine ⟨mm, hsc, hrun, ?_⟩
      unfold post at h
      dsimp only at h
      split at h
      · contradiction
      · rename_i r' hr
        simp only [Except.ok.injEq] at h
        subst h
        left
        unfold roomStage at hr
        split at hr
        · simp at hr
        · split at hr
          · contradiction
          · simp at hr
          · simp only [Except.ok.injEq, Option.some.injEq] at hr
            exact ⟨_, hr.symm⟩
      · unfold feasStage at h
        split at h
        · contradiction
        · simp only [Except.ok.injEq] at h
          exact Or.inr ⟨_, h.symm⟩
        · simp only [Except.ok.injEq] at h
          exact Or.inl ⟨_, h.symm⟩

/-- the closed-form bound on every score the node solver reports -/
def scoreBound (I : Inst) : Nat := (I.m + I.allInstructors.length) * WEIGHT

theorem node_score_le (I : Inst) (R : RoomFns) (nd : Node)
    (hpen : ∀ p ch, ch ∈ (I.part p).choices → ch.penalty ≤ WEIGHT) :
    (∀ kids s, runNodeS I R nd = .ok (.infeasible kids s) → s ≤ (I.m + I.allInstructors.length) * WEIGHT) ∧
    (∀ al s, runNodeS I R nd = .ok (.feasible al s) → s ≤ (I.m + I.allInstructors.length) * WEIGHT) := by
  have key : ∀ mm hsc, H2.run (nodeInp I nd) = some (mm, hsc) →
      hsc.toNat + bonusOf I nd ≤ (I.m + I.allInstructors.length) * WEIGHT := by
    intro mm hsc hrun
    have h1 := hung_score_le I nd hpen mm hsc hrun
    have h2 := bonusOf_le I nd
    rw [Nat.add_mul]; omega
  constructor
  · intro kids s h
    rcases runNodeS_score I R nd _ h with h0 | ⟨mm, hsc, hrun, ⟨k, hk⟩ | ⟨al, hal⟩⟩
    · cases h0
    · cases hk; exact key mm hsc hrun
    · cases hal
  · intro al s h
    rcases runNodeS_score I R nd _ h with h0 | ⟨mm, hsc, hrun, ⟨k, hk⟩ | ⟨al', hal⟩⟩
    · cases h0
    · cases hk
    · cases hal; exact key mm hsc hrun

/-! ### the engine -/

section Engine
open Eng3
variable {ν σ : Type} [Solver ν σ]

/-- the score part of a configuration: incumbent score and parent scores of pending nodes -/
def ScoreInv (top B : Nat) (c : Cfg ν σ) : Prop :=
  c.bestScore ≤ B ∧ ∀ e ∈ c.pending, e.2 ≤ max top B

omit [Solver ν σ] in
theorem scoreInv_init (root : ν) (top T B : Nat) : ScoreInv top B (init root top T : Cfg ν σ) := by
  refine ⟨Nat.zero_le _, ?_⟩
  intro e he
  simp only [init, List.mem_singleton] at he
  subst he
  exact Nat.le_max_left _ _

theorem scoreInv_applyRes {top B : Nat} {c : Cfg ν σ} (n : ν)
    (hB : ∀ s, Solver.res n = Eng3.Res.infeasible (σ := σ) s → s ≤ B)
    (hF : ∀ sol s, Solver.res n = Eng3.Res.feasible (σ := σ) sol s → s ≤ B)
    (h : ScoreInv top B c) : ScoreInv top B (applyRes c n) := by
  unfold applyRes
  dsimp only
  cases hr : Solver.res n with
  | noSol => exact h
  | panic => exact h
  | feasible sol sc =>
    dsimp only
    split
    · exact ⟨hF sol sc hr, h.2⟩
    · exact h
  | infeasible sc =>
    refine ⟨h.1, ?_⟩
    intro e he
    simp only [List.mem_append, List.mem_map] at he
    rcases he with ⟨k, _, rfl⟩ | he
    · exact Nat.le_trans (hB sc hr) (Nat.le_max_right _ _)
    · exact h.2 e he

theorem scoreInv_step {top B : Nat} {c c' : Cfg ν σ} {ev : Ev}
    (hB : ∀ (n : ν) s, Solver.res n = Eng3.Res.infeasible (σ := σ) s → s ≤ B)
    (hF : ∀ (n : ν) sol s, Solver.res n = Eng3.Res.feasible (σ := σ) sol s → s ≤ B)
    (h : ScoreInv top B c) (hs : step? c ev = some c') : ScoreInv top B c' := by
  have herase : ∀ k, ∀ e ∈ c.pending.eraseIdx k, e.2 ≤ max top B :=
    fun k e he => h.2 e (List.mem_of_mem_eraseIdx he)
  cases ev with
  | acquire t =>
    simp only [step?] at hs
    split at hs
    · simp only [Option.some.injEq] at hs; subst hs; exact h
    · rename_i n _ _
      split at hs
      · simp only [Option.some.injEq] at hs; subst hs; exact h
      · simp only [Option.some.injEq] at hs; subst hs
        exact scoreInv_applyRes n (hB n) (hF n) h
    · contradiction
  | top t k =>
    simp only [step?] at hs
    split at hs
    · split at hs
      · split at hs
        · simp only [Option.some.injEq] at hs; subst hs; exact ⟨h.1, herase k⟩
        · simp only [Option.some.injEq] at hs; subst hs; exact ⟨h.1, herase k⟩
      · split at hs
        · split at hs
          · simp only [Option.some.injEq] at hs; subst hs; exact h
          · simp only [Option.some.injEq] at hs; subst hs; exact h
        · contradiction
    · contradiction
  | after t =>
    simp only [step?] at hs
    split at hs
    · split at hs
      · simp only [Option.some.injEq] at hs; subst hs; exact h
      · simp only [Option.some.injEq] at hs; subst hs; exact h
    · contradiction
  | solve t =>
    simp only [step?] at hs
    split at hs
    · simp only [Option.some.injEq] at hs; subst hs; exact h
    · contradiction
  | wake t =>
    simp only [step?] at hs
    split at hs
    · simp only [Option.some.injEq] at hs; subst hs; exact h
    · contradiction
  | die t =>
    simp only [step?] at hs
    split at hs
    · simp only [Option.some.injEq] at hs; subst hs; exact h
    · contradiction

/-- engine level, any solver: if every score the solver reports is at most `B`, so is every score
    the engine stores, under any thread count and schedule -/
theorem reach_scoreInv {root : ν} {top T B : Nat} {c : Cfg ν σ}
    (hB : ∀ (n : ν) s, Solver.res n = Eng3.Res.infeasible (σ := σ) s → s ≤ B)
    (hF : ∀ (n : ν) sol s, Solver.res n = Eng3.Res.feasible (σ := σ) sol s → s ≤ B)
    (hr : Reach root top T c) : ScoreInv top B c := by
  induction hr with
  | init => exact scoreInv_init root top T B
  | step _ hs ih => exact scoreInv_step hB hF ih hs

end Engine

/-- every score the engine stores while running the caobab node solver — the incumbent's score and
    the parent score of every pending node — obeys the node bound (the latter also the root's `top`) -/
theorem engine_scores_le (I : Inst) (R : RoomFns)
    (hpen : ∀ p ch, ch ∈ (I.part p).choices → ch.penalty ≤ WEIGHT) (top T : Nat) :
    letI := solverOf I R
    ∀ c : Eng3.Cfg Node (List (Option Nat)), Eng3.Reach rootNode top T c →
      c.bestScore ≤ (I.m + I.allInstructors.length) * WEIGHT ∧
      ∀ e ∈ c.pending, e.2 ≤ max top ((I.m + I.allInstructors.length) * WEIGHT) := by
  let _ := solverOf I R
  intro c hr
  refine reach_scoreInv ?_ ?_ hr
  · intro n s hres
    simp only [Eng3.Solver.res] at hres
    cases hrun : runNodeS I R n with
    | error e => simp [hrun] at hres
    | ok r =>
      cases r with
      | noSol => simp [hrun] at hres
      | feasible al sc => simp [hrun] at hres
      | infeasible kids sc =>
        simp only [hrun, Eng3.Res.infeasible.injEq] at hres
        subst hres
        exact (node_score_le I R n hpen).1 kids sc hrun
  · intro n sol s hres
    simp only [Eng3.Solver.res] at hres
    cases hrun : runNodeS I R n with
    | error e => simp [hrun] at hres
    | ok r =>
      cases r with
      | noSol => simp [hrun] at hres
      | infeasible kids sc => simp [hrun] at hres
      | feasible al sc =>
        simp only [hrun, Eng3.Res.feasible.injEq] at hres
        obtain ⟨_, rfl⟩ := hres
        exact (node_score_le I R n hpen).2 al sc hrun

/-! ### instructor entries of a valid instance -/

theorem allInstructors_length_le (I : Inst) (hpre : I.precomputeOk = true)
    (hnd : nodupb I.allInstructors = true) : I.allInstructors.length ≤ I.P := by
  rw [nodupb_iff] at hnd
  have hsub : I.allInstructors.toFinset ⊆ range I.P := by
    intro i hi
    rw [List.mem_toFinset, Inst.allInstructors, List.mem_flatMap] at hi
    obtain ⟨c, hc, hic⟩ := hi
    simp only [Inst.precomputeOk, Bool.and_eq_true, List.all_eq_true, decide_eq_true_eq] at hpre
    exact mem_range.2 (hpre.1 c hc i hic)
  have := card_le_card hsub
  rwa [List.toFinset_card_of_nodup hnd, card_range] at this

theorem allInstructors_length_le_of_valid (I : Inst) (h : validb I = true) :
    I.allInstructors.length ≤ I.P := by
  simp only [validb, Bool.and_eq_true] at h
  exact allInstructors_length_le I h.1.1.1.1.1 h.1.1.1.2

theorem scoreBound_le_of_valid (I : Inst) (h : validb I = true) :
    (I.m + I.allInstructors.length) * WEIGHT ≤ (I.m + I.P) * 50000 := by
  have := allInstructors_length_le_of_valid I h
  exact Nat.mul_le_mul (by omega) (Nat.le_refl _)

#print axioms node_score_le
#print axioms engine_scores_le
#print axioms allInstructors_length_le_of_valid
end N2
