import Cdecao.Proofs.NodeRelax
/-! Spike (C02_partial / C03): the node score bounds the score of every solution consistent with the node,
    in the class where instructors with own choices only instruct fixed courses. -/
open Finset
namespace N2
open H2

/-- the class outside F1: an instructor with own choices instructs only fixed courses -/
def NoFreeable (I : Inst) : Prop :=
  ∀ c p, c < I.C → I.instructs p c = true → I.hasChoices p = true → (I.course c).fixed = true

/-- a solution of the instance that is consistent with the restrictions of node `nd` -/
structure SolIn (I : Inst) (nd : Node) (a : Nat → Option Nat) : Prop where
  hard : G.HardOK I a
  canc : ∀ c ∈ nd.cancelled, ∀ p, p < I.P → a p ≠ some c
  enf : ∀ c ∈ nd.enforced, (I.course c).numMin ≤ G.attendees I a c
  shr : ∀ cs ∈ nd.shrinked, G.attendees I a cs.1 ≤ cs.2

/-- facts about an active participant in a solution of the node -/
theorem active_facts (I : Inst) (nd : Node) (hn : NodeOK I nd) (a : Nat → Option Nat) (hs : SolIn I nd a)
    (p : Nat) (hp : p < I.P) (hact : skipXBase I nd p = false) :
    ∃ c, a p = some c ∧ c < I.C ∧ I.instructs p c = false ∧ (∃ ch ∈ (I.part p).choices, ch.course = c) := by
  simp only [skipXBase, Bool.or_eq_false_iff, Bool.and_eq_false_iff, decide_eq_false_iff_not] at hact
  obtain ⟨hio, hlive⟩ := hact
  have hch : I.hasChoices p = true := by
    rcases hio with h | h
    · exact absurd hp h
    · simpa [Inst.hasChoices, Inst.instructorOnly] using h
  -- every course p instructs is cancelled in the node, hence does not take place
  have hnone : ¬ ∃ c, c < I.C ∧ I.instructs p c = true ∧ G.takesPlace I a c := by
    rintro ⟨d, hd, hin, htp⟩
    have hdc : d ∈ nd.cancelled := by
      by_contra hnc
      simp only [liveInstructor, List.any_eq_false, List.mem_range, Bool.and_eq_true, Bool.not_eq_true',
        not_and, Bool.not_eq_true] at hlive
      have := hlive d hd (by simpa [List.contains_iff_mem] using hnc)
      simp [Inst.instructs] at hin
      simp [hin] at this
    rcases htp with hfx | ⟨q, hq, haq⟩
    · have := hn d hdc; rw [hfx] at this; contradiction
    · exact hs.canc d hdc q hq haq
  obtain ⟨ch, hchm, hach⟩ := hs.hard.chosen p hp hch hnone
  refine ⟨ch.course, hach, hs.hard.range p hp _ hach, ?_, ch, hchm, rfl⟩
  by_contra hin
  simp only [Bool.not_eq_false] at hin
  exact hnone ⟨ch.course, hs.hard.range p hp _ hach, hin, Or.inr ⟨p, hp, hach⟩⟩

/-- an attendee of a course in a solution of the node is an active participant of the node -/
theorem attendee_active (I : Inst) (nd : Node) (hnf : NoFreeable I) (a : Nat → Option Nat) (hs : SolIn I nd a)
    (p c : Nat) (hp : p < I.P) (hap : a p = some c) (hni : I.instructs p c = false) : skipXBase I nd p = false := by
  have hch : I.hasChoices p = true := by
    by_contra h
    have := hs.hard.only p hp (by simpa using h) c hap
    rw [hni] at this; contradiction
  simp only [skipXBase, Bool.or_eq_false_iff, Bool.and_eq_false_iff, decide_eq_false_iff_not]
  refine ⟨Or.inr (by simpa [Inst.hasChoices, Inst.instructorOnly] using hch), ?_⟩
  rw [Bool.eq_false_iff]
  intro hlive
  simp only [liveInstructor, List.any_eq_true, List.mem_range, Bool.and_eq_true] at hlive
  obtain ⟨d, hd, _, hin⟩ := hlive
  have hin' : I.instructs p d = true := hin
  have hfx := hnf d p hd hin' hch
  have := hs.hard.instr d hd (Or.inl hfx) p hp hin'
  rw [hap] at this
  simp only [Option.some.injEq] at this
  rw [this, hin'] at hni; contradiction

theorem le_foldl_min (l : List (Nat × Nat)) (a init : Nat) (h0 : a ≤ init) (hl : ∀ x ∈ l, a ≤ x.2) :
    a ≤ l.foldl (fun acc cs => min acc cs.2) init := by
  induction l generalizing init with
  | nil => exact h0
  | cons y ys ih =>
    simp only [List.foldl_cons]
    exact ih _ (Nat.le_min.2 ⟨h0, hl y (by simp)⟩) (fun x hx => hl x (by simp [hx]))

def gOf (a : Nat → Option Nat) (p : Nat) : Nat := (a p).getD 0

theorem placement_of_sol (I : Inst) (nd : Node) (hn : NodeOK I nd) (hnf : NoFreeable I)
    (a : Nat → Option Nat) (hs : SolIn I nd a) : Placement I nd (gOf a) := by
  -- the active participants placed in `c` are exactly the attendees of `c`
  have hset : ∀ c, (range I.P).filter (fun p => skipXBase I nd p = false ∧ gOf a p = c)
      = (range I.P).filter (fun p => (a p == some c && !I.instructs p c) = true) := by
    intro c
    ext p
    simp only [mem_filter, mem_range, Bool.and_eq_true, beq_iff_eq, Bool.not_eq_true']
    constructor
    · rintro ⟨hp, hact, hg⟩
      obtain ⟨c', h1, _, h3, _⟩ := active_facts I nd hn a hs p hp hact
      simp only [gOf, h1, Option.getD_some] at hg
      subst hg
      exact ⟨hp, h1, h3⟩
    · rintro ⟨hp, hap, hni⟩
      exact ⟨hp, attendee_active I nd hnf a hs p c hp hap hni, by simp [gOf, hap]⟩
  have hatt : ∀ c, #((range I.P).filter (fun p => skipXBase I nd p = false ∧ gOf a p = c)) = G.attendees I a c := by
    intro c
    rw [hset, G.attendees, countP_range_eq_card]
  refine ⟨?_, ?_, ?_⟩
  · intro p hp hact
    obtain ⟨c, h1, h2, _, _⟩ := active_facts I nd hn a hs p hp hact
    simp only [gOf, h1, Option.getD_some]; exact h2
  · intro c hc
    rw [hatt]
    unfold effMax
    split
    · rename_i hcc
      -- cancelled: nobody is assigned
      have hcc' : c ∈ nd.cancelled := by simpa [List.contains_iff_mem] using hcc
      have : G.attendees I a c = 0 := by
        rw [G.attendees, List.countP_eq_zero]
        intro p hp
        simp only [List.mem_range] at hp
        simp only [Bool.and_eq_true, beq_iff_eq, Bool.not_eq_true', not_and]
        intro h; exact absurd h (hs.canc c hcc' p hp)
      omega
    · apply le_foldl_min
      · by_cases hz : G.attendees I a c = 0
        · omega
        · -- somebody attends, so the course takes place
          have : 0 < G.attendees I a c := Nat.pos_of_ne_zero hz
          rw [G.attendees, List.countP_pos_iff] at this
          obtain ⟨p, hp, hpp⟩ := this
          simp only [List.mem_range] at hp
          simp only [Bool.and_eq_true, beq_iff_eq] at hpp
          exact hs.hard.max c hc (Or.inr ⟨p, hp, hpp.1⟩)
      · intro x hx
        simp only [List.mem_filter, beq_iff_eq] at hx
        have := hs.shr x hx.1
        rw [hx.2] at this; exact this
  · intro c hce
    rw [hatt]; exact hs.enf c hce

#print axioms placement_of_sol
end N2

namespace N2
open H2

/-- C02_partial / C03 core (`NodeSpec.bound`): the node score bounds every solution consistent with the node -/
theorem node_bound (I : Inst) (nd : Node) (hI : InstOK2 I)
    (hmm : ∀ c, c < I.C → (I.course c).numMin ≤ (I.course c).numMax) (hn2 : NodeOK2 I nd) (hnf : NoFreeable I)
    (hg : guards I nd = none) (mm : Vec Nat) (hsc : Int) (hrun : H2.run (nodeInp I nd) = some (mm, hsc))
    (a : Nat → Option Nat) (hs : SolIn I nd a) : G.scoreOf I a ≤ hsc.toNat + bonusOf I nd := by
  have hn : NodeOK I nd := fun c hc => (hn2.canc c hc).2.1
  have hpl := placement_of_sol I nd hn hnf a hs
  have hrel := relax_bound I nd hI hmm hn2 hg mm hsc hrun (gOf a) hpl
  have hrel' : ∑ p ∈ (range I.P).filter (fun p => skipXBase I nd p = false), G.weightOf I p (gOf a p) ≤ hsc.toNat := by
    have := Int.toNat_le_toNat hrel
    rwa [Int.toNat_natCast] at this
  rw [bonus_eq I nd mm.get hI.toInstOK hI.nodup]
  refine Nat.le_trans ?_ (Nat.add_le_add_right hrel' _)
  rw [sum_filter, sum_filter, ← sum_add_distrib]
  unfold G.scoreOf
  apply sum_le_sum
  intro p hp
  have hpP := mem_range.1 hp
  by_cases hact : skipXBase I nd p = false
  · obtain ⟨c, h1, _, h3, _⟩ := active_facts I nd hn a hs p hpP hact
    simp only [h1, h3, Bool.false_eq_true, if_false, hact, if_true, gOf, Option.getD_some]
    omega
  · rw [if_neg hact]
    cases hap : a p with
    | none => simp
    | some c =>
      dsimp only
      by_cases hin : I.instructs p c = true
      · rw [if_pos hin]
        by_cases hch : I.hasChoices p = true
        · rw [if_pos hch]
          have hc : c < I.C := hs.hard.range p hpP c hap
          have hnc : c ∉ nd.cancelled := fun hcc => hs.canc c hcc p hpP hap
          have hsome : (G.instrOf I (ctxOf I nd mm.get) p).isSome = true := by
            cases hio : G.instrOf I (ctxOf I nd mm.get) p with
            | some _ => rfl
            | none =>
              have := G.instrOf_none hio c hc (by simpa [ctxOf] using hnc)
              rw [hin] at this; contradiction
          rw [if_pos ⟨hsome, hch⟩]
          simp [G.W]
        · rw [if_neg hch]; omega
      · exfalso
        exact hact (attendee_active I nd hnf a hs p c hpP hap (by simpa using hin))

#print axioms node_bound
end N2
