import Cdecao.Proofs.NodeAdmits
/-! Spike (C10, third part): the room stage never panics when the room list has one entry per course
    (which `roomSizes` guarantees by padding/truncation). -/
namespace N2
open H2

theorem createRCS_false_some (I : Inst) (R : RoomFns) (nd : Node) (toSize : Nat) :
    ∀ (l : List Nat) (sh : List (Nat × Nat)) (ca : List Nat), ∃ r, createRCS I R nd toSize false l sh ca = some r := by
  intro l
  induction l with
  | nil => intro sh ca; exact ⟨_, rfl⟩
  | cons ci rest ih =>
    intro sh ca
    unfold createRCS
    dsimp only
    split
    · simp only [Bool.false_eq_true, if_false]; exact ih _ _
    · split
      · split
        · simp only [Bool.false_eq_true, if_false]; exact ih _ _
        · exact ih _ _
      · split
        · simp only [Bool.false_eq_true, if_false]; exact ih _ _
        · exact ih _ _

/-- with `all_required`, a successful call adds one entry per course -/
theorem createRCS_true_len (I : Inst) (R : RoomFns) (nd : Node) (toSize : Nat) :
    ∀ (l : List Nat) (sh : List (Nat × Nat)) (ca : List Nat) (r : RCS),
      createRCS I R nd toSize true l sh ca = some r → r.shrink.length + r.cancel.length = sh.length + ca.length + l.length := by
  intro l
  induction l with
  | nil => intro sh ca r h; simp only [createRCS, Option.some.injEq] at h; rw [← h]; simp
  | cons ci rest ih =>
    intro sh ca r h
    unfold createRCS at h
    dsimp only at h
    split at h
    · simp at h
    · split at h
      · split at h
        · simp at h
        · have := ih _ _ _ h; simp only [List.length_append, List.length_cons, List.length_nil] at this ⊢; omega
      · split at h
        · simp at h
        · have := ih _ _ _ h; simp only [List.length_append, List.length_cons, List.length_nil] at this ⊢; omega

theorem colexIdx_len : ∀ (n k : Nat), ∀ idx ∈ colexIdx n k, idx.length = k ∧ ∀ i ∈ idx, i < n := by
  intro n
  induction n with
  | zero =>
    intro k idx h
    cases k with
    | zero => simp [colexIdx] at h; subst h; simp
    | succ k => simp [colexIdx] at h
  | succ n ih =>
    intro k idx h
    cases k with
    | zero => simp [colexIdx] at h; subst h; simp
    | succ k =>
      simp only [colexIdx, List.mem_append, List.mem_map] at h
      rcases h with h | ⟨idx', h', rfl⟩
      · obtain ⟨h1, h2⟩ := ih _ _ h
        exact ⟨h1, fun i hi => Nat.lt_succ_of_lt (h2 i hi)⟩
      · obtain ⟨h1, h2⟩ := ih _ _ h'
        refine ⟨by simp [h1], ?_⟩
        intro i hi
        simp only [List.mem_append, List.mem_singleton] at hi
        rcases hi with hi | rfl
        · exact Nat.lt_succ_of_lt (h2 i hi)
        · exact Nat.lt_succ_self _

theorem selections_len {α : Type} (l : List α) (k : Nat) : ∀ sel ∈ selections l k, sel.length = k ∧ 0 < k := by
  intro sel hsel
  unfold selections at hsel
  split at hsel
  · simp at hsel
  · rename_i hk
    simp only [Bool.or_eq_true, beq_iff_eq, decide_eq_true_eq, not_or, Nat.not_lt] at hk
    simp only [List.mem_map] at hsel
    obtain ⟨idx, hidx, rfl⟩ := hsel
    obtain ⟨h1, h2⟩ := colexIdx_len _ _ idx hidx
    refine ⟨?_, by omega⟩
    rw [← h1]
    -- every index is in range, so `filterMap` keeps everything
    clear h1 hidx
    induction idx with
    | nil => rfl
    | cons i rest ih =>
      have hi : i < l.length := h2 i (by simp)
      simp only [List.filterMap_cons, List.getElem?_eq_getElem hi, List.length_cons]
      rw [ih (fun j hj => h2 j (by simp [hj]))]

theorem find_range_first (n : Nat) (p : Nat → Bool) (s : Nat) (h : (List.range n).find? p = some s) :
    ∀ j, j < s → p j = false := by
  intro j hj
  rw [List.find?_eq_some_iff_append] at h
  obtain ⟨_, as, bs, hab, hall⟩ := h
  have hs : s < n := by
    have : s ∈ List.range n := by rw [hab]; simp
    simpa using this
  -- the prefix `as` is `range s`
  have hlen : as.length = s := by
    have h1 : (List.range n)[as.length]? = some s := by rw [hab]; simp
    rw [List.getElem?_range] at h1
    · simpa using h1
    · by_contra hge
      rw [List.getElem?_eq_none (by simpa using Nat.le_of_not_lt hge)] at h1; contradiction
  have hj' : j ∈ as := by
    have h1 : (List.range n)[j]? = some j := by rw [List.getElem?_range]; omega
    rw [hab, List.getElem?_append_left (by omega)] at h1
    exact List.mem_of_getElem? h1
  simpa using hall j hj'

end N2

namespace N2
open H2

theorem stable_len (l : List (Nat × Nat)) : (stableByKey l).length = l.length := List.length_mergeSort l

theorem effSizes_len (I : Inst) (R : RoomFns) (a : Nat → Option Nat) : (effSizes I R a).length = I.C := by
  simp [effSizes]

theorem mem_zip_rev_range (n : Nat) (rooms : List Nat) (ci r0 : Nat)
    (h : (ci, r0) ∈ (List.range n).reverse.zip rooms) : ci < n ∧ rooms[n - 1 - ci]? = some r0 := by
  rw [List.mem_iff_getElem?] at h
  obtain ⟨k, hk⟩ := h
  rw [List.getElem?_zip_eq_some] at hk
  obtain ⟨h1, h2⟩ := hk
  have hkn : k < n := by
    by_contra hge
    rw [List.getElem?_eq_none (by simpa using Nat.le_of_not_lt hge)] at h1; contradiction
  rw [List.getElem?_reverse (by simpa using hkn)] at h1
  simp only [List.length_range] at h1
  rw [List.getElem?_range (by omega)] at h1
  simp only [Option.some.injEq] at h1
  have : n - 1 - ci = k := by omega
  rw [this]
  exact ⟨by omega, h2⟩

theorem sets_nonempty (I : Inst) (R : RoomFns) (nd : Node) (r0 : Nat) (always : RCS) (srcs : List (Nat × Nat)) (k : Nat) :
    ((selections srcs k).filterMap (fun sel =>
        (createRCS I R nd r0 true (sel.map (·.1)) [] []).map (fun r =>
          ({ shrink := r.shrink ++ always.shrink, cancel := r.cancel ++ always.cancel } : RCS)))).any
      (fun r => r.shrink.isEmpty && r.cancel.isEmpty) = false := by
  rw [Bool.eq_false_iff]
  intro hany
  rw [List.any_eq_true] at hany
  obtain ⟨rc, hrc, hemp⟩ := hany
  simp only [List.mem_filterMap, Option.map_eq_some_iff] at hrc
  obtain ⟨sel, hsel, r1, hr1, rfl⟩ := hrc
  obtain ⟨hl, hk⟩ := selections_len _ _ sel hsel
  have := createRCS_true_len I R nd r0 _ _ _ _ hr1
  simp only [List.length_nil, List.length_map, Nat.zero_add] at this
  simp only [Bool.and_eq_true, List.isEmpty_iff, List.append_eq_nil_iff] at hemp
  rw [hemp.1.1, hemp.2.1] at this
  simp only [List.length_nil] at this
  omega

/-- C10: the room stage has no reachable panic site -/
theorem checkRoom_ok (I : Inst) (R : RoomFns) (nd : Node) (a : Nat → Option Nat) (rooms : List Nat)
    (hlen : rooms.length = I.C) : ∃ r, checkRoom I R nd a rooms = .ok r := by
  have hnum : (stableByKey (effSizes I R a)).length = I.C := by rw [stable_len, effSizes_len]
  unfold checkRoom
  dsimp only
  split
  · exact ⟨_, rfl⟩
  · rename_i ci r0 hfind
    have hmem := List.mem_of_find?_eq_some hfind
    have hp := List.find?_some hfind
    obtain ⟨hci, hroom⟩ := mem_zip_rev_range _ rooms ci r0 hmem
    rw [hnum] at hci hroom
    have hrs : rooms.getD (rooms.length - 1 - ci) 0 = r0 := by
      rw [hlen, List.getD_eq_getElem?_getD, hroom]; rfl
    rw [hrs]
    simp only [decide_eq_true_eq] at hp
    split
    · rename_i hnone
      exfalso
      rw [List.find?_eq_none] at hnone
      have := hnone ci (by rw [hnum]; simpa using hci)
      simp only [decide_eq_true_eq] at this
      exact this hp
    · rename_i smallest hsm
      have hle : ¬ ci < smallest := by
        intro hlt
        have := find_range_first _ _ _ hsm ci hlt
        simp only [decide_eq_false_iff_not] at this
        exact this hp
      rw [if_neg hle]
      obtain ⟨always, halways⟩ := createRCS_false_some I R nd r0
        ((List.filter (fun cs => decide (cs.2 ≤ r0)) (stableByKey (effSizes I R a))).map (·.1)) [] []
      simp only [halways]
      repeat' split
      all_goals first
        | exact ⟨_, rfl⟩
        | (exfalso
           rename_i hany
           rw [sets_nonempty] at hany
           exact absurd hany (by simp))

#print axioms checkRoom_ok
end N2
