import Cdecao.Proofs.NodeBound
/-! Spike (C02_partial): branching only restricts (`mono`) and, for a violated minimum, is exhaustive
    (`cover`, minimum case). -/
open Finset
namespace N2
open H2

theorem solIn_mono (I : Inst) (nd k : Node) (a : Nat → Option Nat)
    (h1 : ∀ c ∈ nd.cancelled, c ∈ k.cancelled) (h2 : ∀ c ∈ nd.enforced, c ∈ k.enforced)
    (h3 : ∀ cs ∈ nd.shrinked, cs ∈ k.shrinked) (hs : SolIn I k a) : SolIn I nd a :=
  ⟨hs.hard, fun c hc => hs.canc c (h1 c hc), fun c hc => hs.enf c (h2 c hc), fun cs hcs => hs.shr cs (h3 cs hcs)⟩

/-- every child only adds restrictions -/
theorem kids_superset (I : Inst) (R : RoomFns) (nd : Node) (kids : List Node) (sc : Nat)
    (h : runNodeS I R nd = .ok (.infeasible kids sc)) :
    ∀ k ∈ kids, (∀ c ∈ nd.cancelled, c ∈ k.cancelled) ∧ (∀ c ∈ nd.enforced, c ∈ k.enforced) ∧
      (∀ cs ∈ nd.shrinked, cs ∈ k.shrinked) := by
  unfold runNodeS at h
  split at h
  · rename_i r hg
    exfalso
    unfold guards at hg
    repeat' split at hg
    all_goals first
      | (simp only [Option.some.injEq] at hg; rw [← hg] at h; simp at h; done)
      | contradiction
  · split at h
    · contradiction
    · unfold post at h
      dsimp only at h
      split at h
      · contradiction
      · rename_i r hr
        unfold roomStage at hr
        split at hr
        · simp at hr
        · split at hr
          · contradiction
          · simp at hr
          · simp only [Except.ok.injEq, Option.some.injEq] at hr
            rw [← hr] at h
            simp only [Except.ok.injEq, Res.infeasible.injEq] at h
            rw [← h.1]
            intro k hk
            simp only [List.mem_map] at hk
            obtain ⟨r0, _, rfl⟩ := hk
            exact ⟨fun c hc => by simp [hc], fun c hc => hc, fun cs hcs => by simp [hcs]⟩
      · unfold feasStage at h
        split at h
        · contradiction
        · simp at h
        · simp only [Except.ok.injEq, Res.infeasible.injEq] at h
          rw [← h.1]
          intro k hk
          split at hk
          · simp at hk
          · simp only [List.mem_append] at hk
            rcases hk with hk | hk
            · split at hk
              · simp at hk
              · simp only [List.mem_singleton] at hk
                subst hk
                exact ⟨fun c hc => hc, fun c hc => by simp [hc], fun cs hcs => hcs⟩
            · split at hk
              · simp at hk
              · simp only [List.mem_singleton] at hk
                subst hk
                exact ⟨fun c hc => by simp [hc], fun c hc => hc, fun cs hcs => hcs⟩

/-- `NodeSpec.mono` -/
theorem node_mono (I : Inst) (R : RoomFns) (nd : Node) (kids : List Node) (sc : Nat)
    (h : runNodeS I R nd = .ok (.infeasible kids sc)) (k : Node) (hk : k ∈ kids) (a : Nat → Option Nat)
    (hs : SolIn I k a) : SolIn I nd a := by
  obtain ⟨h1, h2, h3⟩ := kids_superset I R nd kids sc h k hk
  exact solIn_mono I nd k a h1 h2 h3 hs

/-- `NodeSpec.cover`, minimum case: a solution of the node either runs course `c` (then it is a solution
    of the enforce-child) or leaves it empty (then `c` is not fixed and it is a solution of the cancel-child) -/
theorem cover_min (I : Inst) (nd : Node) (a : Nat → Option Nat) (hs : SolIn I nd a) (c : Nat) (hc : c < I.C) :
    SolIn I { nd with enforced := nd.enforced ++ [c] } a ∨
    ((I.course c).fixed = false ∧ SolIn I { nd with cancelled := nd.cancelled ++ [c] } a) := by
  by_cases htp : G.takesPlace I a c
  · left
    refine ⟨hs.hard, hs.canc, ?_, hs.shr⟩
    intro c' hc'
    simp only [List.mem_append, List.mem_singleton] at hc'
    rcases hc' with hc' | rfl
    · exact hs.enf c' hc'
    · exact hs.hard.min _ hc htp
  · right
    simp only [G.takesPlace, not_or, not_exists, not_and] at htp
    refine ⟨by simpa using htp.1, hs.hard, ?_, hs.enf, hs.shr⟩
    intro c' hc' p hp
    simp only [List.mem_append, List.mem_singleton] at hc'
    rcases hc' with hc' | rfl
    · exact hs.canc c' hc' p hp
    · exact htp.2 p hp

#print axioms node_mono
#print axioms cover_min
end N2
