import Mathlib.Data.Fintype.Sum
import Mathlib.Data.Fintype.Card
import Mathlib.Data.Finset.Card
/-! Spike: a constrained perfect matching exists whenever there are at most as many mandatory
    columns as real rows (abstract form of what `run_bab_node`'s first early exit guarantees). -/
open Finset

/-- rows `X = R ∪ D` (real, dummy), columns `Y ⊇ Mand`; a pair is forbidden iff dummy × mandatory -/
theorem exists_constrained_bijection (R D Y Mand : Finset Nat) (hRD : Disjoint R D) (hM : Mand ⊆ Y)
    (hsq : #(R ∪ D) = #Y) (hle : #Mand ≤ #R) :
    ∃ σ : Nat → Nat, (∀ y ∈ Y, σ y ∈ R ∪ D) ∧ Set.InjOn σ Y ∧ (∀ y ∈ Mand, σ y ∈ R) := by
  classical
  -- an injection of the mandatory columns into the real rows
  obtain ⟨R0, hR0, hcard⟩ := exists_subset_card_eq hle
  obtain ⟨e⟩ : Nonempty (Mand ≃ R0) := by
    rw [← Fintype.card_eq]; simp [hcard]
  -- as a function on the column subtype
  let f : Y → Nat := fun y => if h : (y : Nat) ∈ Mand then (e ⟨y, h⟩ : Nat) else 0
  let s : Finset Y := Finset.univ.filter (fun y => (y : Nat) ∈ Mand)
  have hfst : Finset.image f s ⊆ R ∪ D := by
    intro x hx
    obtain ⟨y, hy, rfl⟩ := mem_image.1 hx
    have hyM : (y : Nat) ∈ Mand := by simpa [s] using hy
    simp only [f, hyM, dif_pos]
    exact mem_union_left _ (hR0 (e ⟨y, hyM⟩).2)
  have hinj : Set.InjOn f s := by
    intro y1 h1 y2 h2 heq
    have m1 : (y1 : Nat) ∈ Mand := by simpa [s] using h1
    have m2 : (y2 : Nat) ∈ Mand := by simpa [s] using h2
    simp only [f, m1, m2, dif_pos] at heq
    have := e.injective (Subtype.ext heq)
    exact Subtype.ext (by simpa using congrArg Subtype.val this)
  have hcardY : Fintype.card Y = #(R ∪ D) := by simp [hsq]
  obtain ⟨g, hg⟩ := Finset.exists_equiv_extend_of_card_eq hcardY hfst hinj
  refine ⟨fun y => if h : y ∈ Y then (g ⟨y, h⟩ : Nat) else 0, ?_, ?_, ?_⟩
  · intro y hy; simp only [hy, dif_pos]; exact (g ⟨y, hy⟩).2
  · intro y1 h1 y2 h2 heq
    have h1' : y1 ∈ Y := h1
    have h2' : y2 ∈ Y := h2
    simp only [h1', h2', dif_pos] at heq
    have := g.injective (Subtype.ext heq)
    simpa using congrArg Subtype.val this
  · intro y hy
    have hyY := hM hy
    simp only [hyY, dif_pos]
    have := hg ⟨y, hyY⟩ (by simp [s, hy])
    rw [this]
    simp only [f, hy, dif_pos]
    exact hR0 (e ⟨y, hy⟩).2

#print axioms exists_constrained_bijection
