import Cdecao.Model.HungarianI32
import Cdecao.Proofs.HungProof
/-! The range-checked model `H2B` (Cdecao/Model/HungarianI32.lean) only ever fails more often than `H2`:
    whatever `H2B.run B I` returns, `H2.run I` returns too (for every bound `B`, every input).
    Also: generic lemmas about the checked primitives and unfolding lemmas for both `grow`s. -/
namespace H2B
open H2

/-! ### the checked primitives -/

theorem chk_some {B v : Int} (h1 : -B ≤ v) (h2 : v < B) : chk B v = some v := by
  simp [chk, h1, h2]

theorem chk_eq_some {B v a : Int} (h : chk B v = some a) : a = v ∧ -B ≤ v ∧ v < B := by
  unfold chk at h
  split at h
  · cases h; rename_i hc; exact ⟨rfl, hc.1, hc.2⟩
  · cases h

theorem foldlM_sim {β : Type} (f : β → Nat → β) (g : β → Nat → Option β) :
    ∀ (l : List Nat) (b : β), (∀ b, ∀ i ∈ l, g b i = some (f b i)) → l.foldlM g b = some (l.foldl f b) := by
  intro l
  induction l with
  | nil => intro b _; rfl
  | cons a l ih =>
    intro b h
    rw [List.foldlM_cons, h b a List.mem_cons_self]
    exact ih _ (fun b i hi => h b i (List.mem_cons_of_mem _ hi))

theorem foldlM_conv {β : Type} (f : β → Nat → β) (g : β → Nat → Option β) :
    ∀ (l : List Nat) (b r : β), (∀ b i r, g b i = some r → r = f b i) → l.foldlM g b = some r → r = l.foldl f b := by
  intro l
  induction l with
  | nil => intro b r _ h; simp at h; exact h.symm
  | cons a l ih =>
    intro b r hg h
    rw [List.foldlM_cons] at h
    cases hga : g b a with
    | none => simp [hga] at h
    | some b' =>
      rw [hga] at h
      have := hg b a b' hga
      subst this
      exact ih _ r hg h

theorem all_range {n : Nat} {p : Nat → Bool} : (List.range n).all p = true ↔ ∀ i, i < n → p i = true := by
  simp [List.all_eq_true]

theorem tab_congr {α : Type} [Inhabited α] (n : Nat) (f g : Nat → α) (h : ∀ i, i < n → f i = g i) :
    Vec.tab n f = Vec.tab n g := by
  unfold Vec.tab
  congr 1
  congr 1
  funext i
  exact h i.val i.isLt

theorem tabM_some {α : Type} [Inhabited α] (n : Nat) (f : Nat → Option α) (g : Nat → α)
    (h : ∀ i, i < n → f i = some (g i)) : tabM n f = some (Vec.tab n g) := by
  unfold tabM
  have : (List.range n).all (fun i => (f i).isSome) = true := by
    rw [all_range]; intro i hi; rw [h i hi]; rfl
  rw [if_pos this]
  congr 1
  apply tab_congr
  intro i hi; rw [h i hi]; rfl

theorem tabM_conv {α : Type} [Inhabited α] (n : Nat) (f : Nat → Option α) (g : Nat → α) (v : Vec α)
    (hv : tabM n f = some v) (h : ∀ i a, i < n → f i = some a → a = g i) : v = Vec.tab n g := by
  unfold tabM at hv
  split at hv
  · rename_i hall
    rw [all_range] at hall
    cases hv
    apply tab_congr
    intro i hi
    have := hall i hi
    cases hfi : f i with
    | none => simp [hfi] at this
    | some a => simp [h i a hi hfi]
  · cases hv

/-! ### one iteration of `grow`, in both models, as `pick` followed by `tail` -/

/-- the choice of the next column in `H2.grow` (the `r` of the model) -/
def pickH (I : Inp) (st : St) (tr : Tr) : Option (St × Tr × Nat) :=
  match findPos I.ny tr.nlxt.get with
  | some y => some (st, tr, y)
  | none =>
    match (H2.scan I st tr).dmin with
    | none => none
    | some d =>
      match findPos I.ny (H2.scan I st tr).nlxt.get with
      | none => none
      | some y =>
        some (H2.relabel I st tr d, { tr with nlxt := (H2.scan I st tr).nlxt, nb := (H2.scan I st tr).nb }, y)

/-- the rest of one iteration of `H2.grow`, given the continuation -/
def tailH (I : Inp) (u : Nat) (k : St → Tr → Option St) (st : St) (tr : Tr) (y : Nat) : Option St :=
  if st.m.get y then k st (growTr I st tr y)
  else
    match augment u tr (I.ny + 1) y (tr.nb.get y) st.mm with
    | none => none
    | some mm => some { st with m := st.m.set y true, mm := mm }

theorem growH_succ (I : Inp) (u fuel : Nat) (st : St) (tr : Tr) :
    H2.grow I u (fuel + 1) st tr =
      match pickH I st tr with
      | none => none
      | some (st1, tr1, y) => tailH I u (H2.grow I u fuel) st1 tr1 y := rfl

/-- the rest of one iteration of `H2B.grow`, given the continuation -/
def tailB (B : Int) (I : Inp) (u : Nat) (k : St → Tr → Option St) (st : St) (tr : Tr) (y : Nat) : Option St :=
  if st.m.get y then
    if sumsOk B I st (st.mm.get y) then k st (growTr I st tr y) else none
  else
    match augment u tr (I.ny + 1) y (tr.nb.get y) st.mm with
    | none => none
    | some mm => some { st with m := st.m.set y true, mm := mm }

theorem growB_succ (B : Int) (I : Inp) (u fuel : Nat) (st : St) (tr : Tr) :
    H2B.grow B I u (fuel + 1) st tr =
      match pick B I st tr with
      | none => none
      | some (st1, tr1, y) => tailB B I u (H2B.grow B I u fuel) st1 tr1 y := rfl

/-! ### the checked model refines the unbounded one -/

theorem scanStep_conv (B : Int) (I : Inp) (st : St) (tr : Tr) (x : Nat) (acc : Scan) (y : Nat) (a : Scan)
    (h : scanStep B I st tr x acc y = some a) : a = H2.scanStep I st tr x acc y := by
  unfold scanStep at h
  unfold H2.scanStep
  split at h
  · rename_i hc
    rw [if_pos hc]
    split at h
    · cases h
    · rename_i s hs
      obtain ⟨rfl, _, _⟩ := chk_eq_some hs
      split at h
      · cases h
      · rename_i delta hdl
        obtain ⟨rfl, _, _⟩ := chk_eq_some hdl
        split at h
        · cases h
        · cases h; rfl
  · rename_i hc
    rw [if_neg hc]
    cases h; rfl

theorem scanRow_conv (B : Int) (I : Inp) (st : St) (tr : Tr) (acc : Scan) (x : Nat) (a : Scan)
    (h : scanRow B I st tr acc x = some a) : a = H2.scanRow I st tr acc x := by
  unfold scanRow at h
  unfold H2.scanRow
  split at h
  · rename_i hc
    rw [if_pos hc]
    exact foldlM_conv _ _ _ _ _ (fun b i r hr => scanStep_conv B I st tr x b i r hr) h
  · rename_i hc
    rw [if_neg hc]
    cases h; rfl

theorem scan_conv (B : Int) (I : Inp) (st : St) (tr : Tr) (sc : Scan)
    (h : scan B I st tr = some sc) : sc = H2.scan I st tr := by
  rw [H2.scan_eq]
  exact foldlM_conv _ _ _ _ _ (fun b i r hr => scanRow_conv B I st tr b i r hr) h

theorem relabel_conv (B : Int) (I : Inp) (st : St) (tr : Tr) (d : Int) (st' : St)
    (h : relabel B I st tr d = some st') : st' = H2.relabel I st tr d := by
  unfold relabel at h
  split at h
  · cases h
  · rename_i lx hlx
    split at h
    · cases h
    · rename_i ly hly
      cases h
      have e1 := tabM_conv _ _ (fun x => if tr.s.get x then st.lx.get x - d else st.lx.get x) lx hlx
        (fun i a _ ha => (chk_eq_some ha).1)
      have e2 := tabM_conv _ _ (fun y => if tr.t.get y then st.ly.get y + d else st.ly.get y) ly hly
        (fun i a _ ha => (chk_eq_some ha).1)
      rw [e1, e2]; rfl

theorem pick_conv (B : Int) (I : Inp) (st : St) (tr : Tr) (p : St × Tr × Nat)
    (h : pick B I st tr = some p) : pickH I st tr = some p := by
  unfold pick at h
  unfold pickH
  cases hf : findPos I.ny tr.nlxt.get with
  | some y => simpa [hf] using h
  | none =>
    simp only [hf] at h ⊢
    cases hsc : scan B I st tr with
    | none => simp [hsc] at h
    | some sc =>
      have e := scan_conv B I st tr sc hsc
      subst e
      simp only [hsc] at h
      cases hd : (H2.scan I st tr).dmin with
      | none => simp [hd] at h
      | some d =>
        simp only [hd] at h ⊢
        cases hr : relabel B I st tr d with
        | none => simp [hr] at h
        | some st' =>
          have e := relabel_conv B I st tr d st' hr
          subst e
          simp only [hr] at h
          exact h

theorem tail_conv (B : Int) (I : Inp) (u : Nat) (kB kH : St → Tr → Option St)
    (hk : ∀ st tr r, kB st tr = some r → kH st tr = some r) (st : St) (tr : Tr) (y : Nat) (r : St)
    (h : tailB B I u kB st tr y = some r) : tailH I u kH st tr y = some r := by
  unfold tailB at h
  unfold tailH
  split at h
  · rename_i hm
    rw [if_pos hm]
    split at h
    · exact hk _ _ _ h
    · cases h
  · rename_i hm
    rw [if_neg hm]
    exact h

theorem grow_conv (B : Int) (I : Inp) (u : Nat) : ∀ (fuel : Nat) (st : St) (tr : Tr) (r : St),
    H2B.grow B I u fuel st tr = some r → H2.grow I u fuel st tr = some r := by
  intro fuel
  induction fuel with
  | zero => intro st tr r h; simp [H2B.grow] at h
  | succ fuel ih =>
    intro st tr r h
    rw [growB_succ] at h
    rw [growH_succ]
    cases hp : pick B I st tr with
    | none => simp [hp] at h
    | some p =>
      obtain ⟨st1, tr1, y⟩ := p
      rw [pick_conv B I st tr _ hp]
      simp only [hp] at h
      exact tail_conv B I u _ _ ih st1 tr1 y r h

theorem initTr_conv (B : Int) (I : Inp) (st : St) (u : Nat) (tr : Tr)
    (h : H2B.initTr B I st u = some tr) : tr = H2.initTr I st u := by
  unfold H2B.initTr at h
  split at h
  · cases h; rfl
  · cases h

theorem outer_conv (B : Int) (I : Inp) : ∀ (free : List Nat) (st r : St),
    H2B.outer B I free st = some r → H2.outer I free st = some r := by
  intro free
  induction free with
  | nil => intro st r h; simpa [H2B.outer, H2.outer] using h
  | cons u rest ih =>
    intro st r h
    simp only [H2B.outer] at h
    simp only [H2.outer]
    cases hi : H2B.initTr B I st u with
    | none => simp [hi] at h
    | some tr =>
      have e := initTr_conv B I st u tr hi
      subst e
      simp only [hi] at h
      cases hg : H2B.grow B I u (I.ny + 1) st (H2.initTr I st u) with
      | none => simp [hg] at h
      | some st' =>
        simp only [hg] at h
        rw [grow_conv B I u _ _ _ _ hg]
        exact ih st' r h

theorem rowMax_conv (B : Int) (I : Inp) (x : Nat) (a : Int) (h : H2B.rowMax B I x = some a) :
    a = H2.rowMax I x := by
  unfold H2B.rowMax at h
  unfold H2.rowMax
  refine foldlM_conv _ _ _ _ _ ?_ h
  intro b i r hr
  split at hr
  · cases hr
  · rename_i w hw
    obtain ⟨rfl, _, _⟩ := chk_eq_some hw
    exact (chk_eq_some hr).1

theorem score_conv (B : Int) (I : Inp) (mm : Vec Nat) (a : Int) (h : score B I mm = some a) :
    a = (List.range I.ny).foldl (fun acc y => if I.skipy.get y then acc else acc + I.wt (mm.get y) y) 0 := by
  unfold score at h
  refine foldlM_conv _ _ _ _ _ ?_ h
  intro b i r hr
  split at hr
  · rename_i hc; cases hr; simp [hc]
  · rename_i hc; simp only [hc]; exact (chk_eq_some hr).1

/-- The range-checked routine only ever fails more often: whatever it returns, for whatever bound,
    is what the unbounded model returns. -/
theorem run_conv (B : Int) (I : Inp) (r : Vec Nat × Int) (h : H2B.run B I = some r) : H2.run I = some r := by
  unfold H2B.run at h
  unfold H2.run
  cases hl : tabM I.nx (H2B.rowMax B I) with
  | none => simp [hl] at h
  | some lx0 =>
    have e := tabM_conv _ _ (H2.rowMax I) lx0 hl (fun i a _ ha => rowMax_conv B I i a ha)
    subst e
    simp only [hl] at h
    cases ho : H2B.outer B I ((List.range I.nx).filter (fun x => !I.skipx.get x)).reverse
        { lx := Vec.tab I.nx (H2.rowMax I), ly := Vec.const I.ny 0, m := Vec.const I.ny false, mm := Vec.const I.ny 0 } with
    | none => simp [ho] at h
    | some st =>
      simp only [ho] at h
      simp only [outer_conv B I _ _ _ ho]
      cases hs : score B I st.mm with
      | none => simp [hs] at h
      | some sc =>
        simp only [hs] at h
        rw [← score_conv B I st.mm sc hs]
        exact h

#print axioms run_conv
end H2B
