import Mathlib.Algebra.BigOperators.Group.Finset.Basic
import Mathlib.Data.Finset.Card
import Cdecao.Proofs.Score
import Cdecao.Proofs.HungFinal
import Cdecao.Spec.Hung
import Cdecao.Spec.Room
import Cdecao.Spec.Hard
import Cdecao.Spec.Valid
import Cdecao.Proofs.NodeWrong
import Cdecao.Proofs.NodeRoom
import Mathlib.Algebra.Order.BigOperators.Group.Finset
/-! The executable (Bool / list) forms of the specification predicates that the driver evaluates
    agree with the `Prop` / `Finset` forms the theorems are stated over. -/
open Finset

/-! ### generic list/finset bridges -/
namespace SpecExec

theorem list_sum_range {M : Type} [AddCommMonoid M] (f : Nat → M) (n : Nat) :
    ((List.range n).map f).sum = ∑ p ∈ range n, f p := by
  induction n with
  | zero => simp
  | succ n ih =>
    rw [List.range_succ, List.map_append, List.sum_append, ih, Finset.sum_range_succ]
    simp

end SpecExec

/-! ### item 2: the score rule -/
namespace N2.G

theorem scoreOfL_eq (I : Inst) (a : Nat → Option Nat) : scoreOfL I a = scoreOf I a := by
  unfold scoreOfL scoreOf
  rw [SpecExec.list_sum_range]
  rfl

end N2.G

/-! ### item 3: the matching specification -/
namespace HSpec
open H2

theorem mem_liveY (I : Inp) (y : Nat) : y ∈ liveY I ↔ y ∈ (probOf I).Y := by
  simp [liveY, probOf]

theorem mem_liveX (I : Inp) (x : Nat) : x ∈ liveX I ↔ x ∈ (probOf I).X := by
  simp [liveX, probOf]

theorem nodup_liveY (I : Inp) : (liveY I).Nodup := List.Nodup.filter _ List.nodup_range

theorem liveY_toFinset (I : Inp) : (liveY I).toFinset = (probOf I).Y := by
  ext y; rw [List.mem_toFinset, mem_liveY]

theorem perfectb_iff (I : Inp) (σ : Nat → Nat) :
    perfectb I σ = true ↔ H2.Perfect (H2.probOf I) σ := by
  unfold perfectb
  simp only [Bool.and_eq_true, List.all_eq_true, decide_eq_true_eq, Bool.or_eq_true, beq_iff_eq,
    bne_iff_ne, ne_eq, Bool.not_eq_true', mem_liveY]
  constructor
  · rintro ⟨h1, h2⟩
    refine ⟨?_, ?_, ?_⟩
    · intro y hy
      obtain ⟨⟨ha, hb⟩, _⟩ := h1 y hy
      simp only [probOf, mem_filter, mem_range]
      exact ⟨ha, hb⟩
    · intro y hy y' hy' he
      rcases h2 y hy y' hy' with h | h
      · exact h
      · exact absurd he h
    · intro y hy
      exact (h1 y hy).2
  · intro h
    refine ⟨?_, ?_⟩
    · intro y hy
      have hx := h.maps y hy
      simp only [probOf, mem_filter, mem_range] at hx
      exact ⟨⟨hx.1, hx.2⟩, h.allowed y hy⟩
    · intro y hy y' hy'
      by_cases he : σ y = σ y'
      · exact Or.inl (h.inj hy hy' he)
      · exact Or.inr he

theorem weight_eq (I : Inp) (σ : Nat → Nat) : weight I σ = H2.weight (H2.probOf I) σ := by
  unfold weight H2.weight
  rw [← liveY_toFinset, List.sum_toFinset _ (nodup_liveY I)]
  rfl

end HSpec

/-! ### item 1: the hard constraints -/
namespace N2.G

theorem takesPlaceb_iff (I : Inst) (a : Nat → Option Nat) (c : Nat) :
    takesPlaceb I a c = true ↔ takesPlace I a c := by
  simp [takesPlaceb, takesPlace]

theorem takesPlaceb_false_iff (I : Inst) (a : Nat → Option Nat) (c : Nat) :
    takesPlaceb I a c = false ↔ ¬ takesPlace I a c := by
  rw [← takesPlaceb_iff, Bool.not_eq_true]

theorem choseOpt_iff (I : Inst) (p : Nat) (o : Option Nat) :
    I.choseOpt p o = true ↔ ∃ ch ∈ (I.part p).choices, o = some ch.course := by
  simp only [Inst.choseOpt, List.any_eq_true, beq_iff_eq]
  constructor
  · rintro ⟨ch, h1, h2⟩; exact ⟨ch, h1, h2.symm⟩
  · rintro ⟨ch, h1, h2⟩; exact ⟨ch, h1, h2.symm⟩

/-- the per-course clause of `hardOKb` -/
theorem courseClause_iff (I : Inst) (a : Nat → Option Nat) (c : Nat) :
    (!takesPlaceb I a c ||
      ((List.range I.P).all (fun i => !I.instructs i c || a i == some c) &&
       decide ((I.course c).numMin ≤ attendees I a c) && decide (attendees I a c ≤ (I.course c).numMax))) = true ↔
    (takesPlace I a c → (∀ i, i < I.P → I.instructs i c = true → a i = some c) ∧
      (I.course c).numMin ≤ attendees I a c ∧ attendees I a c ≤ (I.course c).numMax) := by
  simp only [Bool.or_eq_true, Bool.not_eq_true', takesPlaceb_false_iff, Bool.and_eq_true,
    List.all_eq_true, List.mem_range, decide_eq_true_eq, beq_iff_eq, and_assoc]
  constructor
  · rintro (h | h) ht
    · exact absurd ht h
    · refine ⟨?_, h.2⟩
      intro i hi hin
      rcases h.1 i hi with h' | h'
      · rw [hin] at h'; cases h'
      · exact h'
  · intro h
    by_cases ht : takesPlace I a c
    · right
      obtain ⟨h1, h2⟩ := h ht
      refine ⟨?_, h2⟩
      intro i hi
      cases hin : I.instructs i c
      · exact Or.inl rfl
      · exact Or.inr (h1 i hi hin)
    · exact Or.inl ht

/-- the per-participant clause of `hardOKb` -/
theorem partClause_iff (I : Inst) (a : Nat → Option Nat) (p : Nat) :
    (if I.hasChoices p then
      ((List.range I.C).any (fun c => I.instructs p c && takesPlaceb I a c)) || I.choseOpt p (a p)
    else
      match a p with | some c => I.instructs p c | none => true) = true ↔
    ((I.hasChoices p = true →
        (¬ ∃ c, c < I.C ∧ I.instructs p c = true ∧ takesPlace I a c) →
        ∃ ch ∈ (I.part p).choices, a p = some ch.course) ∧
     (I.hasChoices p = false → ∀ c, a p = some c → I.instructs p c = true)) := by
  cases hh : I.hasChoices p
  · simp only [Bool.false_eq_true, if_false, false_imp_iff, true_and, true_imp_iff]
    cases hap : a p with
    | none => simp
    | some c => simp
  · simp only [if_true, true_imp_iff, Bool.true_eq_false, false_imp_iff, and_true, Bool.or_eq_true,
      List.any_eq_true, List.mem_range, Bool.and_eq_true, takesPlaceb_iff, choseOpt_iff]
    constructor
    · rintro (h | h) hn
      · exact absurd h hn
      · exact h
    · intro h
      by_cases hn : ∃ c, c < I.C ∧ I.instructs p c = true ∧ takesPlace I a c
      · exact Or.inl hn
      · exact Or.inr (h hn)

theorem hardOKb_iff (I : Inst) (a : Nat → Option Nat) : hardOKb I a = true ↔ HardOK I a := by
  unfold hardOKb
  rw [Bool.and_eq_true, Bool.and_eq_true, List.all_eq_true, List.all_eq_true, List.all_eq_true]
  simp only [List.mem_range, courseClause_iff]
  constructor
  · rintro ⟨⟨h1, h2⟩, h3⟩
    refine ⟨?_, ?_, ?_, ?_, ?_, ?_⟩
    · intro p hp c hc
      have := h1 p hp
      rw [hc] at this
      simpa using this
    · intro c hc ht; exact (h2 c hc ht).1
    · intro c hc ht; exact (h2 c hc ht).2.1
    · intro c hc ht; exact (h2 c hc ht).2.2
    · intro p hp; exact ((partClause_iff I a p).1 (h3 p hp)).1
    · intro p hp; exact ((partClause_iff I a p).1 (h3 p hp)).2
  · intro h
    refine ⟨⟨?_, ?_⟩, ?_⟩
    · intro p hp
      cases hap : a p with
      | none => rfl
      | some c => simpa using h.range p hp c hap
    · intro c hc ht
      exact ⟨h.instr c hc ht, h.min c hc ht, h.max c hc ht⟩
    · intro p hp
      exact (partClause_iff I a p).2 ⟨h.chosen p hp, h.only p hp⟩

end N2.G

/-! ### item 5: the validity check is sound -/
namespace N2
open H2

theorem nodupb_iff (l : List Nat) : nodupb l = true ↔ l.Nodup := by
  induction l with
  | nil => simp [nodupb]
  | cons x xs ih => simp [nodupb, List.nodup_cons, ih]

theorem foldl_max_ge (l : List Nat) (m : Nat) :
    m ≤ l.foldl max m ∧ ∀ x ∈ l, x ≤ l.foldl max m := by
  induction l generalizing m with
  | nil => simp
  | cons y ys ih =>
    simp only [List.foldl_cons]
    obtain ⟨h1, h2⟩ := ih (max m y)
    refine ⟨Nat.le_trans (Nat.le_max_left _ _) h1, ?_⟩
    intro x hx
    rcases List.mem_cons.1 hx with rfl | hx
    · exact Nat.le_trans (Nat.le_max_right _ _) h1
    · exact h2 x hx

theorem foldl_maxPen_le (l : List Choice) (m B : Nat) (hm : m ≤ B) (h : ∀ ch ∈ l, ch.penalty ≤ B) :
    l.foldl (fun m ch => max m ch.penalty) m ≤ B := by
  induction l generalizing m with
  | nil => simpa using hm
  | cons y ys ih =>
    simp only [List.foldl_cons]
    apply ih
    · exact Nat.max_le.2 ⟨hm, h y List.mem_cons_self⟩
    · intro ch hch; exact h ch (List.mem_cons_of_mem _ hch)

theorem course_mem (I : Inst) {c : Nat} (hc : c < I.C) : I.course c ∈ I.cs := by
  simp only [Inst.course, Inst.C] at hc ⊢
  simp [List.getD_eq_getElem?_getD, List.getElem?_eq_getElem hc]

theorem course_eq_getElem (I : Inst) {c : Nat} (hc : c < I.cs.length) : I.course c = I.cs[c] := by
  simp [Inst.course, List.getD_eq_getElem?_getD, List.getElem?_eq_getElem hc]

theorem part_mem (I : Inst) {p : Nat} (hp : p < I.P) : I.part p ∈ I.ps := by
  simp only [Inst.part, Inst.P] at hp ⊢
  simp [List.getD_eq_getElem?_getD, List.getElem?_eq_getElem hp]

theorem part_choices_lt (I : Inst) {p : Nat} {ch : Choice} (h : ch ∈ (I.part p).choices) : p < I.P := by
  by_contra hp
  have : I.part p = default := by
    simp only [Inst.part, Inst.P] at hp ⊢
    simp [List.getD_eq_getElem?_getD, List.getElem?_eq_none (Nat.le_of_not_lt hp)]
  rw [this] at h
  exact absurd h (by simp [default])

theorem penalty_le_maxPenalty (I : Inst) {p : Nat} {ch : Choice} (h : ch ∈ (I.part p).choices) :
    ch.penalty ≤ I.maxPenalty := by
  have hp := part_choices_lt I h
  apply (foldl_max_ge I.allPenalties 0).2
  simp only [Inst.allPenalties, List.mem_flatMap, List.mem_map]
  exact ⟨I.part p, part_mem I hp, ch, h, rfl⟩

theorem maxPen_le_maxPenalty (I : Inst) (p : Nat) : maxPen I p ≤ I.maxPenalty := by
  unfold maxPen
  exact foldl_maxPen_le _ 0 _ (Nat.zero_le _) (fun ch hch => penalty_le_maxPenalty I hch)

theorem sum_maxPen_le (I : Inst) (n : Nat) : ∑ p ∈ Finset.range n, maxPen I p ≤ n * I.maxPenalty := by
  induction n with
  | zero => simp
  | succ n ih =>
    rw [Finset.sum_range_succ, Nat.succ_mul]
    have := maxPen_le_maxPenalty I n
    omega

theorem validb_sound (I : Inst) (h : validb I = true) :
    InstOK2 I ∧ (∀ c, c < I.C → (I.course c).numMin ≤ (I.course c).numMax) ∧
      (∑ p ∈ Finset.range I.P, maxPen I p < G.W) := by
  simp only [validb, Bool.and_eq_true, List.all_eq_true, decide_eq_true_eq, nodupb_iff] at h
  obtain ⟨⟨⟨⟨⟨hpre, hmm⟩, hnd⟩, _⟩, hpen⟩, _⟩ := h
  rw [Inst.allInstructors, List.nodup_flatMap] at hnd
  obtain ⟨hnd1, hnd2⟩ := hnd
  have hW : WEIGHT = G.W := rfl
  refine ⟨⟨⟨hpre, ?_⟩, ?_, ?_⟩, ?_, ?_⟩
  · -- a participant instructs at most one course
    intro p c c' hc hc' hi hi'
    rw [List.pairwise_iff_getElem] at hnd2
    have key : ∀ i j (hi : i < I.cs.length) (hj : j < I.cs.length), i < j →
        I.instructs p i = true → I.instructs p j = true → False := by
      intro i j hi hj hij h1 h2
      have hd := hnd2 i j hi hj hij
      simp only [Inst.instructs, course_eq_getElem I hi, course_eq_getElem I hj,
        List.contains_iff_mem] at h1 h2
      exact (List.disjoint_left.1 hd) h1 h2
    rcases Nat.lt_trichotomy c c' with hlt | heq | hgt
    · exact (key c c' hc hc' hlt hi hi').elim
    · exact heq
    · exact (key c' c hc' hc hgt hi' hi).elim
  · intro c hc; exact hnd1 _ (course_mem I hc)
  · intro p ch hch
    have hp := part_choices_lt I hch
    have h1 := penalty_le_maxPenalty I hch
    have h2 : I.maxPenalty ≤ I.P * I.maxPenalty := Nat.le_mul_of_pos_left _ (by omega)
    omega
  · intro c hc; exact hmm _ (course_mem I hc)
  · have := sum_maxPen_le I I.P
    omega

/-- non-vacuity: a small instance (one instructor-only participant, two ordinary ones) is valid -/
example : validb
    { cs := [⟨1, 2, false, [0]⟩, ⟨0, 3, true, []⟩]
      ps := [⟨[]⟩, ⟨[⟨0, 0⟩, ⟨1, 5⟩]⟩, ⟨[⟨1, 0⟩]⟩]
      rooms := some [3, 2] } = true := by decide

end N2

/-! ### item 4: the room specification -/
namespace N2
open H2

theorem insertDesc_perm (x : Nat) (l : List Nat) : (insertDesc x l).Perm (x :: l) := by
  induction l with
  | nil => exact List.Perm.refl _
  | cons y ys ih =>
    unfold insertDesc
    split
    · exact List.Perm.refl _
    · exact ((List.Perm.cons y ih).trans (List.Perm.swap x y ys))

theorem insertDesc_sorted (x : Nat) (l : List Nat) (h : l.Pairwise (fun a b => b ≤ a)) :
    (insertDesc x l).Pairwise (fun a b => b ≤ a) := by
  induction l with
  | nil => simp [insertDesc]
  | cons y ys ih =>
    unfold insertDesc
    rw [List.pairwise_cons] at h
    split
    · rename_i hxy
      rw [List.pairwise_cons]
      refine ⟨?_, List.pairwise_cons.2 h⟩
      intro b hb
      rcases List.mem_cons.1 hb with rfl | hb
      · exact hxy
      · exact Nat.le_trans (h.1 b hb) hxy
    · rename_i hxy
      rw [List.pairwise_cons]
      refine ⟨?_, ih h.2⟩
      intro b hb
      rcases List.mem_cons.1 ((insertDesc_perm x ys).mem_iff.1 hb) with rfl | hb
      · omega
      · exact h.1 b hb

theorem foldr_insertDesc_perm (l : List Nat) : (l.foldr insertDesc []).Perm l := by
  induction l with
  | nil => exact List.Perm.refl _
  | cons x xs ih =>
    rw [List.foldr_cons]
    exact (insertDesc_perm x _).trans (List.Perm.cons x ih)

theorem foldr_insertDesc_sorted (l : List Nat) : (l.foldr insertDesc []).Pairwise (fun a b => b ≤ a) := by
  induction l with
  | nil => simp
  | cons x xs ih =>
    rw [List.foldr_cons]
    exact insertDesc_sorted x _ ih

theorem sortDesc_sorted (l : List Nat) : (RSpec.sortDesc l).Pairwise (fun a b => b ≤ a) := by
  have := List.pairwise_mergeSort (le := fun a b : Nat => decide (b ≤ a))
    (by intro a b c h1 h2; simp only [decide_eq_true_eq] at *; omega)
    (by intro a b; simp only [Bool.or_eq_true, decide_eq_true_eq]; omega) l
  exact this.imp (by intro a b h; simpa using h)

/-- the model's insertion sort is the specification's descending sort -/
theorem foldr_insertDesc_eq (l : List Nat) : l.foldr insertDesc [] = RSpec.sortDesc l := by
  apply List.Perm.eq_of_pairwise (le := fun a b => b ≤ a)
  · intro a b _ _ h1 h2; omega
  · exact foldr_insertDesc_sorted l
  · exact sortDesc_sorted l
  · exact (foldr_insertDesc_perm l).trans (List.mergeSort_perm _ _).symm

theorem sizes_eq (I : Inst) (R : RoomFns) (a : Nat → Option Nat) :
    RSpec.sizes I R a = (effSizes I R a).map (·.2) := by
  unfold RSpec.sizes effSizes
  rw [List.map_map]
  apply List.map_congr_left
  intro c _
  simp only [Function.comp]
  split <;> rfl

theorem sortDesc_eq_sortedDesc (l : List Nat) : RSpec.sortDesc l = RG.sortedDesc l := rfl

theorem length_sortDesc (l : List Nat) : (RSpec.sortDesc l).length = l.length := by
  unfold RSpec.sortDesc; exact List.length_mergeSort _

/-- rank-wise comparison of two lists of equal length: `zip` form vs. index form -/
theorem zip_le_iff (S T : List Nat) (hl : S.length = T.length) :
    (∀ s r, (s, r) ∈ S.zip T → s ≤ r) ↔ ∀ i, i < S.length → S.getD i 0 ≤ T.getD i 0 := by
  constructor
  · intro h i hi
    have hi' : i < T.length := hl ▸ hi
    have hz : i < (S.zip T).length := by simp [List.length_zip]; omega
    have hm : (S.zip T)[i] ∈ S.zip T := List.getElem_mem hz
    rw [List.getElem_zip] at hm
    have := h _ _ hm
    simpa [List.getD_eq_getElem?_getD, List.getElem?_eq_getElem hi, List.getElem?_eq_getElem hi'] using this
  · intro h s r hm
    obtain ⟨i, hi, he⟩ := List.mem_iff_getElem.1 hm
    rw [List.getElem_zip] at he
    have hiS : i < S.length := by simp [List.length_zip] at hi; omega
    have hiT : i < T.length := by simp [List.length_zip] at hi; omega
    have := h i hiS
    simp only [List.getD_eq_getElem?_getD, List.getElem?_eq_getElem hiS, List.getElem?_eq_getElem hiT,
      Option.getD_some] at this
    simp only [Prod.mk.injEq] at he
    rw [← he.1, ← he.2]; exact this

/-- padding with zeros / truncating to `n` does not change the entries below `n` (missing = 0) -/
theorem padded_getD (l : List Nat) (n i : Nat) (hi : i < n) :
    ((l ++ List.replicate (n - l.length) 0).take n).getD i 0 = l.getD i 0 := by
  simp only [List.getD_eq_getElem?_getD, List.getElem?_take, hi, if_true, List.getElem?_append,
    List.getElem?_replicate]
  by_cases h : i < l.length
  · simp [h]
  · have h' : i - l.length < n - l.length := by omega
    simp [h, h']

theorem padded_length (l : List Nat) (n : Nat) :
    ((l ++ List.replicate (n - l.length) 0).take n).length = n := by
  simp only [List.length_take, List.length_append, List.length_replicate]; omega

/-- C06 specification: the executable check (both lists sorted descending, compared rank by rank,
    missing rooms counting 0) is the statement proved for the node model (`C06_node`) -/
theorem roomOKb_iff (I : Inst) (R : RoomFns) (a : Nat → Option Nat) (rooms padded : List Nat)
    (hr : I.rooms = some rooms) (hp : I.roomSizes = some padded) :
    RSpec.roomOKb I R a rooms = true ↔
      ∀ s r, (s, r) ∈ (RG.sortedDesc ((effSizes I R a).map (·.2))).zip padded → s ≤ r := by
  have hpad : padded = ((RSpec.sortDesc rooms) ++
      List.replicate (I.C - (RSpec.sortDesc rooms).length) 0).take I.C := by
    simp only [Inst.roomSizes, hr, Option.map_some, Option.some.injEq, foldr_insertDesc_eq] at hp
    exact hp.symm
  have hlenS : (RG.sortedDesc ((effSizes I R a).map (·.2))).length = I.C := by
    rw [← sortDesc_eq_sortedDesc, length_sortDesc]; simp [effSizes]
  have hlenP : padded.length = I.C := by rw [hpad]; exact padded_length _ _
  rw [zip_le_iff _ _ (hlenS.trans hlenP.symm)]
  unfold RSpec.roomOKb
  simp only [List.all_eq_true, List.mem_range, decide_eq_true_eq, sizes_eq, sortDesc_eq_sortedDesc]
  constructor
  · intro h i hi
    have hi' : i < I.C := hlenS ▸ hi
    rw [hpad, padded_getD _ _ _ hi']
    exact h i hi
  · intro h i hi
    have hi' : i < I.C := hlenS ▸ hi
    have := h i hi
    rw [hpad, padded_getD _ _ _ hi'] at this
    exact this

end N2

#print axioms N2.G.scoreOfL_eq
#print axioms HSpec.perfectb_iff
#print axioms HSpec.weight_eq
#print axioms N2.G.hardOKb_iff
#print axioms N2.validb_sound
#print axioms N2.roomOKb_iff
