import Cdecao.Model.Cdedb
import Cdecao.Reader.Spec
import Cdecao.Proofs.LastIdx
/-! # Proofs about the CdE export reader `CD.read` (properties C12, C13)

Core only (no Mathlib). Sections, in file order:
 0. small facts on the JSON accessors
 1. choices: penalties are positions in the registration's original choice list (`pcd_choices`)
 2. the registration loop refines the typed loop `RD.read` (`readRegs_refines`, `readRegs_spec`,
    `readRegs_parts`)
 3. locality: every per-record parser factors through a *view* of the few members it looks up
    (`participantBase_local`, `parseCourseBase_local`, `participantCourseData_local`,
    `regApply_assigned_free`), and the loops respect record-wise agreement
    (`readCourses_agree`, `readRegs_agree`)
 4. courses: `readCourses` keeps exactly the offered (and not ignored) courses, stably sorted
    (`readCourses_spec`, `readCourses_sorted`, `courseEntry_spec`, `courseIndex_known`)
 5. `findTrack` refusals
 6. non-interference of the whole reader: `Agree … e e' → read e o = read e' o` (`read_agree`)
 7. the assembled statement for a successful `read` (`read_spec`)
 8. the invisible counts of ignored registrations (`readRegs_invisible`)
-/
namespace CD
open JS

/-! ## 0. small facts on the JSON accessors -/

theorem asU64_eq_some {v : J} {id : Nat} (h : v.asU64 = some id) :
    v = .num (.pos id) ∧ id ≤ J.U64_MAX := by
  unfold J.asU64 at h
  split at h
  · rename_i n
    by_cases hn : n ≤ J.U64_MAX
    · simp only [hn, if_true, Option.some.injEq] at h; subst h; exact ⟨rfl, hn⟩
    · simp [hn] at h
  · cases h

theorem asU64_pos {id : Nat} (h : id ≤ J.U64_MAX) : (J.num (.pos id)).asU64 = some id := by
  simp [J.asU64, h]

/-! ## 1. choices (C12) -/

/-- the entry a choice id at position `i` contributes: `(course index, i)` when the id is a kept course -/
def choiceEntry (co : CoursesOut) (p : Nat × Nat) : Option (Nat × Nat) :=
  match courseIndex co p.1 with
  | some (some c) => some (c, p.2)
  | _ => none

/-- the `choices` array of a registration's track record, as the reader fetches it -/
def choicesArr (reg : J) (trackId : Nat) : Option (List J) :=
  ((reg.get "tracks").bind J.asObject).bind fun tracks =>
    ((J.lookup (toString trackId) tracks).bind J.asObject).bind fun rt =>
      (J.lookup "choices" rt).bind J.asArray

theorem pcd_go_spec (co : CoursesOut) :
    ∀ (l : List J) (i : Nat) (acc r : List (Nat × Nat)),
      participantCourseData.go co i acc l = .ok r →
      ∃ ids : List Nat, l = ids.map (fun id => J.num (.pos id)) ∧
        (∀ id ∈ ids, id ≤ J.U64_MAX ∧ courseIndex co id ≠ none) ∧
        r = acc ++ (ids.zipIdx i).filterMap (choiceEntry co) := by
  intro l
  induction l with
  | nil =>
    intro i acc r h
    simp only [participantCourseData.go, Except.ok.injEq] at h
    exact ⟨[], rfl, by simp, by simp [h]⟩
  | cons v rest ih =>
    intro i acc r h
    unfold participantCourseData.go at h
    cases hv : v.asU64 with
    | none => simp [hv] at h
    | some id =>
      obtain ⟨rfl, hid⟩ := asU64_eq_some hv
      simp only [hv] at h
      cases hc : courseIndex co id with
      | none => simp [hc] at h
      | some oc =>
        cases oc with
        | none =>
          simp only [hc] at h
          obtain ⟨ids, h1, h2, h3⟩ := ih _ _ _ h
          refine ⟨id :: ids, by simp [h1], ?_, ?_⟩
          · intro x hx
            rcases List.mem_cons.1 hx with rfl | hx
            · exact ⟨hid, by simp [hc]⟩
            · exact h2 x hx
          · simp [h3, List.zipIdx_cons, choiceEntry, hc]
        | some c =>
          simp only [hc] at h
          obtain ⟨ids, h1, h2, h3⟩ := ih _ _ _ h
          refine ⟨id :: ids, by simp [h1], ?_, ?_⟩
          · intro x hx
            rcases List.mem_cons.1 hx with rfl | hx
            · exact ⟨hid, by simp [hc]⟩
            · exact h2 x hx
          · simp [h3, List.zipIdx_cons, choiceEntry, hc]

/-- inversion of a successful `participantCourseData` -/
theorem pcd_inv (reg : J) (trackId : Nat) (co : CoursesOut) (pc : PCData)
    (h : participantCourseData reg trackId co = .ok pc) :
    ∃ tracks rt chs, (reg.get "tracks").bind J.asObject = some tracks ∧
      (J.lookup (toString trackId) tracks).bind J.asObject = some rt ∧
      (J.lookup "choices" rt).bind J.asArray = some chs ∧
      participantCourseData.go co 0 [] chs = .ok pc.choices := by
  unfold participantCourseData at h
  generalize toString trackId = key at h ⊢
  cases h1 : (reg.get "tracks").bind J.asObject with
  | none => rw [h1] at h; cases h
  | some tracks =>
    rw [h1] at h
    cases h2 : (J.lookup key tracks).bind J.asObject with
    | none => simp only [h2] at h; cases h
    | some rt =>
      simp only [h2] at h
      refine ⟨tracks, rt, ?_⟩
      split at h
      · cases h
      · split at h
        · cases h
        · split at h
          · cases h
          · split at h
            · cases h
            · split at h
              · cases h
              · rename_i chs hchs
                split at h
                · cases h
                · rename_i choices hgo
                  simp only [Except.ok.injEq] at h
                  subst h
                  exact ⟨chs, rfl, h2, hchs, hgo⟩

/-- **C12, choices.** When a registration's course data parse, its `choices` array is a list of
    u64 ids all known to `courseIndex`, and the stored choices are exactly the entries of kept
    courses, in order, each with penalty = its position in the ORIGINAL array. -/
theorem pcd_choices (reg : J) (trackId : Nat) (co : CoursesOut) (pc : PCData)
    (h : participantCourseData reg trackId co = .ok pc) :
    ∃ ids : List Nat, choicesArr reg trackId = some (ids.map (fun id => J.num (.pos id))) ∧
      (∀ id ∈ ids, id ≤ J.U64_MAX ∧ courseIndex co id ≠ none) ∧
      pc.choices = ids.zipIdx.filterMap (choiceEntry co) := by
  obtain ⟨tracks, rt, chs, h1, h2, h3, hgo⟩ := pcd_inv reg trackId co pc h
  obtain ⟨ids, e1, e2, e3⟩ := pcd_go_spec co _ _ _ _ hgo
  refine ⟨ids, ?_, e2, by simpa using e3⟩
  unfold choicesArr
  rw [h1, Option.bind_some, h2, Option.bind_some, h3, e1]

theorem mem_choiceEntries (co : CoursesOut) (ids : List Nat) (c i : Nat) :
    (c, i) ∈ ids.zipIdx.filterMap (choiceEntry co) ↔
      ∃ id, ids[i]? = some id ∧ courseIndex co id = some (some c) := by
  simp only [List.mem_filterMap, Prod.exists, List.mem_zipIdx_iff_getElem?]
  constructor
  · rintro ⟨id, j, hj, he⟩
    unfold choiceEntry at he
    split at he
    · rename_i c' hc
      simp only [Option.some.injEq, Prod.mk.injEq] at he
      obtain ⟨rfl, rfl⟩ := he
      exact ⟨id, hj, hc⟩
    · cases he
  · rintro ⟨id, hj, hc⟩
    exact ⟨id, i, hj, by simp [choiceEntry, hc]⟩

theorem choiceEntries_pairwise (co : CoursesOut) (ids : List Nat) (k : Nat) :
    ((ids.zipIdx k).filterMap (choiceEntry co)).Pairwise (fun a b => a.2 < b.2) := by
  have h1 : (ids.zipIdx k).Pairwise (fun a b => a.2 < b.2) := by
    induction ids generalizing k with
    | nil => simp
    | cons a l ih =>
      simp only [List.zipIdx_cons, List.pairwise_cons]
      refine ⟨?_, ih _⟩
      intro b hb
      have := List.le_snd_of_mem_zipIdx hb
      show (a, k).2 < b.2
      simp only at this ⊢; omega
  refine List.Pairwise.filterMap _ ?_ h1
  intro a a' haa b hb b' hb'
  unfold choiceEntry at hb hb'
  split at hb
  · split at hb'
    · cases hb; cases hb'; exact haa
    · cases hb'
  · cases hb

/-- **C12, choices (pointwise form).** `(c, i)` is a stored choice iff position `i` of the original
    array holds the id of kept course `c`; positions are strictly increasing (one entry per position,
    in order). -/
theorem pcd_choices_mem (reg : J) (trackId : Nat) (co : CoursesOut) (pc : PCData)
    (h : participantCourseData reg trackId co = .ok pc) :
    ∃ ids : List Nat, choicesArr reg trackId = some (ids.map (fun id => J.num (.pos id))) ∧
      (∀ c i, (c, i) ∈ pc.choices ↔ ∃ id, ids[i]? = some id ∧ courseIndex co id = some (some c)) ∧
      pc.choices.Pairwise (fun a b => a.2 < b.2) := by
  obtain ⟨ids, h1, _, h3⟩ := pcd_choices reg trackId co pc h
  refine ⟨ids, h1, ?_, ?_⟩
  · intro c i; rw [h3]; exact mem_choiceEntries co ids c i
  · rw [h3]; exact choiceEntries_pairwise co ids 0

section Example
private def exCo : CoursesOut :=
  { courses := [{ dbid := 7, name := "a", numMin := 0, numMax := 5, instructors := [], factor := .dflt,
                  offset := .dflt, fixed := false, hidden := [] },
                { dbid := 9, name := "b", numMin := 0, numMax := 5, instructors := [], factor := .dflt,
                  offset := .dflt, fixed := false, hidden := [] }],
    skipped := [8], numIgnored := 0 }
private def exReg : J :=
  .obj [("tracks", .obj [("3", .obj [("choices", .arr [.num (.pos 9), .num (.pos 8), .num (.pos 7)]),
          ("course_id", .null), ("course_instructor", .num (.pos 7))])])]
/-- non-trivial instance: the skipped course 8 leaves a gap, the penalties stay 0 and 2 -/
example : (participantCourseData exReg 3 exCo).toOption.map (·.choices) = some [(1, 0), (0, 2)] := by
  decide
end Example

/-! ## 2. the registration loop (C12) -/

/-- what one kept-or-ignored participant does to the loop state (the body of `readRegs.go` after
    both parsers succeeded on a participant) -/
def regApply (trackData : List (String × J)) (o : Opts) (s : RState) (rid : Nat) (name : String)
    (pc : PCData) : RState :=
  match (if o.ignoreAssigned then pc.assigned else none) with
  | some ci =>
    let s' : RState :=
      if pc.instructed == some ci then
        { s with courses := updCourse s.courses ci (fun c => { c with invInstr := c.invInstr + 1 }),
                 extInstr := s.extInstr + 1 }
      else
        { s with courses := updCourse s.courses ci (fun c => { c with invAtt := c.invAtt + 1 }),
                 extPen := s.extPen ++ [assignedPenalty ci pc.choices trackData] }
    { s' with courses := updCourse s'.courses ci (fun c => { c with hidden := c.hidden ++ [name] }),
              numIgnored := s'.numIgnored + 1 }
  | none =>
    if pc.choices.isEmpty && pc.instructed.isNone then s else
    let cs := match pc.instructed with
      | some ci => updCourse s.courses ci (fun c => { c with instructors := c.instructors ++ [s.i] })
      | none => s.courses
    { s with i := s.i + 1, courses := cs,
             parts := s.parts ++ [{ dbid := rid, name := name, choices := pc.choices }] }

/-- one iteration of `readRegs.go` -/
def regStep (partId trackId : Nat) (trackData : List (String × J)) (co : CoursesOut) (o : Opts)
    (s : RState) (kv : String × J) : M RState :=
  match parseNat kv.1 with
  | none => .error "registration id parse error"
  | some rid =>
    match participantBase kv.2 partId with
    | .error e => .error e
    | .ok (isP, name) =>
      if !isP then .ok s else
      match participantCourseData kv.2 trackId co with
      | .error e => .error e
      | .ok pc => .ok (regApply trackData o s rid name pc)

theorem readRegs_go_cons (partId trackId : Nat) (td : List (String × J)) (co : CoursesOut) (o : Opts)
    (s : RState) (kv : String × J) (rest : List (String × J)) :
    readRegs.go partId trackId td co o s (kv :: rest) =
      match regStep partId trackId td co o s kv with
      | .error e => .error e
      | .ok s1 => readRegs.go partId trackId td co o s1 rest := by
  obtain ⟨k, v⟩ := kv
  rw [readRegs.go]
  unfold regStep
  cases parseNat k with
  | none => rfl
  | some rid =>
    simp only
    cases participantBase v partId with
    | error e => rfl
    | ok r =>
      obtain ⟨isP, name⟩ := r
      cases isP with
      | false => rfl
      | true =>
        simp only [Bool.not_true, Bool.false_eq_true, if_false]
        cases participantCourseData v trackId co with
        | error e => rfl
        | ok pc =>
          simp only [regApply]
          generalize (if o.ignoreAssigned = true then pc.assigned else none) = x
          cases x with
          | some ci => rfl
          | none =>
            simp only
            cases (pc.choices.isEmpty && pc.instructed.isNone) <;> rfl

/-- a registration that the loop does not look at further (not a participant of the part) -/
def regDflt (rid : Nat) : RD.Reg :=
  { id := rid, isParticipant := false, assigned := none, instructed := none, choices := [] }

/-- the typed view of a registration entry `(key, value)` of the export -/
def toReg (partId trackId : Nat) (co : CoursesOut) (kv : String × J) : RD.Reg :=
  let rid := (parseNat kv.1).getD 0
  match participantBase kv.2 partId with
  | .ok (true, _) =>
    match participantCourseData kv.2 trackId co with
    | .ok pc => { id := rid, isParticipant := true, assigned := pc.assigned,
                  instructed := pc.instructed, choices := pc.choices }
    | .error _ => regDflt rid
  | _ => regDflt rid

/-- participant indices pushed for course `ci` -/
def instrOf (l : List (Nat × Nat)) (ci : Nat) : List Nat :=
  l.filterMap (fun p => if p.1 = ci then some p.2 else none)

theorem instrOf_append (l l' : List (Nat × Nat)) (ci : Nat) :
    instrOf (l ++ l') ci = instrOf l ci ++ instrOf l' ci := by
  simp [instrOf, List.filterMap_append]

/-- the members of a course the registration loop never touches -/
def courseCore (c : Course) : Nat × String × Nat × Nat × FVal × FVal × Bool :=
  (c.dbid, c.name, c.numMin, c.numMax, c.factor, c.offset, c.fixed)

theorem updCourse_map_same {β : Type} (g : Course → β) (cs : List Course) (i : Nat) (f : Course → Course)
    (hf : ∀ c, g (f c) = g c) : (updCourse cs i f).map g = cs.map g := by
  apply List.ext_getElem?
  intro j
  unfold updCourse
  rw [List.getElem?_map, List.getElem?_map, List.getElem?_modify]
  cases cs[j]? with
  | none => rfl
  | some c =>
    by_cases h : i = j
    · simp [h, hf]
    · simp [h]

/-- simulation relation between the JSON-level loop state and the typed loop state; `c0` are the
    courses the loop started with -/
structure Sim (c0 : List Course) (s : RState) (t : RD.St) : Prop where
  idx : s.i = t.i
  parts : s.parts.map (fun p => (p.dbid, p.choices)) = t.parts.map (fun p => (p.dbid, p.choices))
  instr : ∀ ci, (s.courses[ci]?).map (·.instructors) =
                (c0[ci]?).map (fun c => c.instructors ++ instrOf t.instr ci)
  frame : s.courses.map courseCore = c0.map courseCore

theorem updCourse_instr_same (cs : List Course) (i ci : Nat) (f : Course → Course)
    (hf : ∀ c, (f c).instructors = c.instructors) :
    ((updCourse cs i f)[ci]?).map (·.instructors) = (cs[ci]?).map (·.instructors) := by
  unfold updCourse
  rw [List.getElem?_modify]
  cases cs[ci]? with
  | none => rfl
  | some c =>
    by_cases h : i = ci
    · simp [h, hf]
    · simp [h]

theorem updCourse_instr_push (cs : List Course) (i ci k : Nat) :
    ((updCourse cs i (fun c => { c with instructors := c.instructors ++ [k] }))[ci]?).map (·.instructors)
      = (cs[ci]?).map (fun c => c.instructors ++ (if i = ci then [k] else [])) := by
  unfold updCourse
  rw [List.getElem?_modify]
  cases cs[ci]? with
  | none => rfl
  | some c =>
    by_cases h : i = ci
    · simp [h]
    · simp [h]

theorem sim_keep (c0 : List Course) (s : RState) (t : RD.St) (hs : Sim c0 s t) (rid : Nat)
    (name : String) (pc : PCData) :
    Sim c0
      (if (pc.choices.isEmpty && pc.instructed.isNone) = true then s
       else
        { s with i := s.i + 1,
                 courses :=
                   (match pc.instructed with
                    | some ci => updCourse s.courses ci (fun c => { c with instructors := c.instructors ++ [s.i] })
                    | none => s.courses),
                 parts := s.parts ++ [{ dbid := rid, name := name, choices := pc.choices }] })
      (if (pc.choices.isEmpty && pc.instructed.isNone) = true then t
       else
        { t with i := t.i + 1,
                 instr :=
                   (match pc.instructed with
                    | some c => t.instr ++ [(c, t.i)]
                    | none => t.instr),
                 parts := t.parts ++ [{ index := t.i, dbid := rid, choices := pc.choices }] }) := by
  cases (pc.choices.isEmpty && pc.instructed.isNone) with
  | true => simpa using hs
  | false =>
    simp only [Bool.false_eq_true, if_false]
    refine ⟨by simp [hs.idx], by simp [hs.parts], ?_, ?_⟩
    rotate_left
    · cases pc.instructed with
      | none => exact hs.frame
      | some c =>
        refine (updCourse_map_same courseCore _ _ _ ?_).trans hs.frame
        intro _; rfl
    intro ci
    cases pc.instructed with
    | none => exact hs.instr ci
    | some c =>
      simp only
      rw [updCourse_instr_push, instrOf_append]
      have := hs.instr ci
      cases h1 : s.courses[ci]? with
      | none =>
        rw [h1] at this
        cases h2 : c0[ci]? with
        | none => rfl
        | some x => rw [h2] at this; cases this
      | some y =>
        rw [h1] at this
        cases h2 : c0[ci]? with
        | none => rw [h2] at this; cases this
        | some x =>
          rw [h2] at this
          simp only [Option.map_some, Option.some.injEq] at this ⊢
          rw [this, hs.idx]
          by_cases hc : c = ci
          · simp [instrOf, hc]
          · simp [instrOf, hc]

theorem sim_step (partId trackId : Nat) (td : List (String × J)) (co : CoursesOut) (o : Opts)
    (c0 : List Course) (s s1 : RState) (t : RD.St) (kv : String × J)
    (hs : Sim c0 s t) (h : regStep partId trackId td co o s kv = .ok s1) :
    Sim c0 s1 (RD.step o.ignoreAssigned t (toReg partId trackId co kv)) := by
  unfold regStep at h
  unfold toReg
  cases hk : parseNat kv.1 with
  | none => rw [hk] at h; cases h
  | some rid =>
    rw [hk] at h
    simp only at h
    cases hb : participantBase kv.2 partId with
    | error e => rw [hb] at h; cases h
    | ok r =>
      obtain ⟨isP, name⟩ := r
      rw [hb] at h
      cases isP with
      | false =>
        simp only [Bool.not_false, if_true, Except.ok.injEq] at h
        subst h
        simpa [RD.step, regDflt] using hs
      | true =>
        simp only [Bool.not_true, Bool.false_eq_true, if_false] at h
        cases hp : participantCourseData kv.2 trackId co with
        | error e => rw [hp] at h; cases h
        | ok pc =>
          rw [hp] at h
          simp only [Except.ok.injEq] at h
          subst h
          simp only [Option.getD_some]
          unfold regApply RD.step RD.ignored
          cases hia : o.ignoreAssigned with
          | false =>
            simp only [Bool.not_true, Bool.false_eq_true, if_false, Bool.false_and]
            exact sim_keep c0 s t hs rid name pc
          | true =>
            simp only [if_true, Bool.true_and]
            cases ha : pc.assigned with
            | none =>
              simp only [Option.isSome_none, Bool.false_eq_true, if_false, Bool.not_true]
              exact sim_keep c0 s t hs rid name pc
            | some ci =>
              simp only [Option.isSome_some, if_true, Bool.not_true, Bool.false_eq_true, if_false]
              refine ⟨?_, ?_, ?_, ?_⟩
              · split <;> exact hs.idx
              · split <;> exact hs.parts
              rotate_left
              · refine (updCourse_map_same courseCore _ ci
                  (fun c => { c with hidden := c.hidden ++ [name] }) (fun _ => rfl)).trans ?_
                split
                · refine (updCourse_map_same courseCore _ _ _ ?_).trans hs.frame
                  intro _; rfl
                · refine (updCourse_map_same courseCore _ _ _ ?_).trans hs.frame
                  intro _; rfl
              · intro cj
                rw [← hs.instr cj]
                show Option.map (fun x => x.instructors) (updCourse _ ci _)[cj]? = _
                refine (updCourse_instr_same _ ci cj (fun c => { c with hidden := c.hidden ++ [name] }) (fun _ => rfl)).trans ?_
                split
                · exact updCourse_instr_same _ _ _ _ (fun _ => rfl)
                · exact updCourse_instr_same _ _ _ _ (fun _ => rfl)

theorem readRegs_go_sim (partId trackId : Nat) (td : List (String × J)) (co : CoursesOut) (o : Opts)
    (c0 : List Course) :
    ∀ (rest : List (String × J)) (s s' : RState) (t : RD.St), Sim c0 s t →
      readRegs.go partId trackId td co o s rest = .ok s' →
      Sim c0 s' ((rest.map (toReg partId trackId co)).foldl (RD.step o.ignoreAssigned) t) := by
  intro rest
  induction rest with
  | nil =>
    intro s s' t hs h
    simp only [readRegs.go, Except.ok.injEq] at h
    subst h
    simpa using hs
  | cons kv rest ih =>
    intro s s' t hs h
    rw [readRegs_go_cons] at h
    cases h1 : regStep partId trackId td co o s kv with
    | error e => rw [h1] at h; cases h
    | ok s1 =>
      rw [h1] at h
      simp only [List.map_cons, List.foldl_cons]
      exact ih s1 s' _ (sim_step partId trackId td co o c0 s s1 t kv hs h1) h

/-- **C12, registrations (refinement).** A successful `readRegs` is simulated by the typed loop
    `RD.read` on the typed views of the registrations. -/
theorem readRegs_refines (rdata : List (String × J)) (partId trackId : Nat) (td : List (String × J))
    (co : CoursesOut) (o : Opts) (s : RState)
    (h : readRegs rdata partId trackId td co o = .ok s) :
    Sim co.courses s (RD.read o.ignoreAssigned (rdata.map (toReg partId trackId co))) := by
  unfold readRegs at h
  unfold RD.read
  refine readRegs_go_sim partId trackId td co o co.courses rdata _ s _ ?_ h
  exact ⟨rfl, rfl, by intro ci; cases co.courses[ci]? <;> simp [instrOf], rfl⟩

theorem mem_instrOf (l : List (Nat × Nat)) (ci k : Nat) : k ∈ instrOf l ci ↔ (ci, k) ∈ l := by
  simp only [instrOf, List.mem_filterMap, Prod.exists]
  constructor
  · rintro ⟨a, b, hab, h⟩
    by_cases hc : a = ci
    · simp only [hc, if_true, Option.some.injEq] at h; subst h; subst hc; exact hab
    · simp [hc] at h
  · intro h; exact ⟨ci, k, h, by simp⟩

/-- **C12, registrations.** With `K` the registrations kept by the typed loop (participants of the
    part, not ignored, with a valid choice or instructing a kept course), in document order:
    the participants are exactly `K` (registration id and choices), the running index ends at
    `K.length`, the loop changes no course member other than instructors/hidden/invisible counts,
    and the instructor indices pushed into course `ci` are exactly the positions in `K` of the
    registrations whose `course_instructor` resolves to `ci`. -/
theorem readRegs_spec (rdata : List (String × J)) (partId trackId : Nat) (td : List (String × J))
    (co : CoursesOut) (o : Opts) (s : RState)
    (h : readRegs rdata partId trackId td co o = .ok s) :
    let K := RD.kept o.ignoreAssigned (rdata.map (toReg partId trackId co))
    s.i = K.length ∧
    s.parts.map (fun p => (p.dbid, p.choices)) = K.map (fun r => (r.id, r.choices)) ∧
    s.courses.map courseCore = co.courses.map courseCore ∧
    ∀ (ci : Nat) (c : Course), s.courses[ci]? = some c →
      ∃ (c0 : Course) (pushed : List Nat), co.courses[ci]? = some c0 ∧
        c.instructors = c0.instructors ++ pushed ∧
        ∀ k, k ∈ pushed ↔ ∃ r : RD.Reg, K[k]? = some r ∧ r.instructed = some ci := by
  intro K
  have hsim := readRegs_refines rdata partId trackId td co o s h
  have hinv := RD.read_spec o.ignoreAssigned (rdata.map (toReg partId trackId co))
  refine ⟨hsim.idx.trans hinv.idx, ?_, hsim.frame, ?_⟩
  · rw [hsim.parts, hinv.parts, List.map_map]
    show List.map _ (K.zipIdx) = _
    have : ((fun p : RD.Part => (p.dbid, p.choices)) ∘ fun x : RD.Reg × Nat =>
        ({ index := x.2, dbid := x.1.id, choices := x.1.choices } : RD.Part)) =
        (fun r : RD.Reg => (r.id, r.choices)) ∘ Prod.fst := rfl
    rw [this, ← List.map_map, List.zipIdx_map_fst]
  · intro ci c hc
    have hi := hsim.instr ci
    rw [hc] at hi
    cases h0 : co.courses[ci]? with
    | none => rw [h0] at hi; cases hi
    | some c0 =>
      rw [h0] at hi
      simp only [Option.map_some, Option.some.injEq] at hi
      refine ⟨c0, _, rfl, hi, ?_⟩
      intro k
      rw [mem_instrOf]
      exact hinv.instr ci k

/-- the name `participantBase` builds for a registration entry -/
def regName (partId : Nat) (kv : String × J) : String :=
  match participantBase kv.2 partId with
  | .ok (_, n) => n
  | .error _ => ""

/-- the participant a kept registration entry becomes -/
def partOf (partId trackId : Nat) (co : CoursesOut) (kv : String × J) : Part :=
  { dbid := (toReg partId trackId co kv).id, name := regName partId kv,
    choices := (toReg partId trackId co kv).choices }

theorem regStep_parts (partId trackId : Nat) (td : List (String × J)) (co : CoursesOut) (o : Opts)
    (s s1 : RState) (kv : String × J) (h : regStep partId trackId td co o s kv = .ok s1) :
    s1.parts = s.parts ++ (if RD.keep o.ignoreAssigned (toReg partId trackId co kv) = true
                           then [partOf partId trackId co kv] else []) := by
  unfold regStep at h
  unfold partOf regName toReg
  cases hk : parseNat kv.1 with
  | none => rw [hk] at h; cases h
  | some rid =>
    rw [hk] at h
    simp only at h
    cases hb : participantBase kv.2 partId with
    | error e => rw [hb] at h; cases h
    | ok r =>
      obtain ⟨isP, name⟩ := r
      rw [hb] at h
      cases isP with
      | false =>
        simp only [Bool.not_false, if_true, Except.ok.injEq] at h
        subst h
        simp [RD.keep, regDflt]
      | true =>
        simp only [Bool.not_true, Bool.false_eq_true, if_false] at h
        cases hp : participantCourseData kv.2 trackId co with
        | error e => rw [hp] at h; cases h
        | ok pc =>
          rw [hp] at h
          simp only [Except.ok.injEq] at h
          subst h
          simp only [Option.getD_some]
          unfold regApply RD.keep RD.ignored
          cases o.ignoreAssigned with
          | false =>
            simp only [Bool.false_eq_true, if_false, Bool.false_and, Bool.not_false, Bool.true_and]
            cases (pc.choices.isEmpty && pc.instructed.isNone) <;> simp
          | true =>
            simp only [if_true, Bool.true_and]
            cases ha : pc.assigned with
            | none =>
              simp only [Option.isSome_none, Bool.not_false, Bool.true_and]
              cases (pc.choices.isEmpty && pc.instructed.isNone) <;> simp
            | some ci =>
              simp only [Option.isSome_some, Bool.not_true, Bool.false_and, Bool.false_eq_true, if_false,
                List.append_nil]
              split <;> rfl

/-- **C12, registrations (participants).** The participants are exactly the kept registration
    entries, in document order, with the registration id, the name and the choices the two
    per-registration parsers produce. -/
theorem readRegs_parts (rdata : List (String × J)) (partId trackId : Nat) (td : List (String × J))
    (co : CoursesOut) (o : Opts) (s : RState)
    (h : readRegs rdata partId trackId td co o = .ok s) :
    s.parts = (rdata.filter (fun kv => RD.keep o.ignoreAssigned (toReg partId trackId co kv))).map
      (partOf partId trackId co) := by
  have : ∀ (rest : List (String × J)) (s0 s' : RState),
      readRegs.go partId trackId td co o s0 rest = .ok s' →
      s'.parts = s0.parts ++ (rest.filter (fun kv => RD.keep o.ignoreAssigned (toReg partId trackId co kv))).map
        (partOf partId trackId co) := by
    intro rest
    induction rest with
    | nil =>
      intro s0 s' h
      simp only [readRegs.go, Except.ok.injEq] at h
      subst h; simp
    | cons kv rest ih =>
      intro s0 s' h
      rw [readRegs_go_cons] at h
      cases h1 : regStep partId trackId td co o s0 kv with
      | error e => rw [h1] at h; cases h
      | ok s1 =>
        rw [h1] at h
        rw [ih s1 s' h, regStep_parts partId trackId td co o s0 s1 kv h1, List.filter_cons]
        split <;> simp
  unfold readRegs at h
  simpa using this rdata _ s h

/-- when the loop succeeds every registration entry parsed: the defaults in `toReg` are never used
    to paper over an error -/
theorem readRegs_all_parsed (rdata : List (String × J)) (partId trackId : Nat) (td : List (String × J))
    (co : CoursesOut) (o : Opts) (s : RState)
    (h : readRegs rdata partId trackId td co o = .ok s) :
    ∀ kv ∈ rdata, ∃ rid isP name, parseNat kv.1 = some rid ∧
      participantBase kv.2 partId = .ok (isP, name) ∧
      (isP = true → ∃ pc, participantCourseData kv.2 trackId co = .ok pc) := by
  have : ∀ (rest : List (String × J)) (s0 s' : RState),
      readRegs.go partId trackId td co o s0 rest = .ok s' →
      ∀ kv ∈ rest, ∃ rid isP name, parseNat kv.1 = some rid ∧
        participantBase kv.2 partId = .ok (isP, name) ∧
        (isP = true → ∃ pc, participantCourseData kv.2 trackId co = .ok pc) := by
    intro rest
    induction rest with
    | nil => intro _ _ _ kv hkv; cases hkv
    | cons kv0 rest ih =>
      intro s0 s' h kv hkv
      rw [readRegs_go_cons] at h
      cases h1 : regStep partId trackId td co o s0 kv0 with
      | error e => rw [h1] at h; cases h
      | ok s1 =>
        rw [h1] at h
        rcases List.mem_cons.1 hkv with rfl | hkv
        · unfold regStep at h1
          cases hk : parseNat kv.1 with
          | none => rw [hk] at h1; cases h1
          | some rid =>
            rw [hk] at h1
            simp only at h1
            cases hb : participantBase kv.2 partId with
            | error e => rw [hb] at h1; cases h1
            | ok r =>
              obtain ⟨isP, name⟩ := r
              rw [hb] at h1
              refine ⟨rid, isP, name, rfl, rfl, ?_⟩
              intro hp
              subst hp
              simp only [Bool.not_true, Bool.false_eq_true, if_false] at h1
              cases hpc : participantCourseData kv.2 trackId co with
              | error e => rw [hpc] at h1; cases h1
              | ok pc => exact ⟨pc, rfl⟩
        · exact ih s1 s' h kv hkv
  unfold readRegs at h
  exact this rdata _ s h

/-- what "kept" means on the export: a participant of the part whose course data parse, not
    ignored as already assigned, with a valid choice or instructing a kept course -/
theorem keep_toReg_iff (ia : Bool) (partId trackId : Nat) (co : CoursesOut) (kv : String × J) :
    RD.keep ia (toReg partId trackId co kv) = true ↔
      ∃ name pc, participantBase kv.2 partId = .ok (true, name) ∧
        participantCourseData kv.2 trackId co = .ok pc ∧
        ¬ (ia = true ∧ pc.assigned.isSome = true) ∧
        (pc.choices ≠ [] ∨ pc.instructed.isSome = true) := by
  unfold toReg
  cases hb : participantBase kv.2 partId with
  | error e => simp [RD.keep, regDflt]
  | ok r =>
    obtain ⟨isP, name⟩ := r
    cases isP with
    | false => simp [RD.keep, regDflt]
    | true =>
      cases hp : participantCourseData kv.2 trackId co with
      | error e => simp [RD.keep, regDflt]
      | ok pc =>
        simp only [RD.keep, RD.ignored, Bool.true_and, Bool.and_eq_true, Bool.not_eq_true',
          Bool.and_eq_false_iff, Except.ok.injEq, Prod.mk.injEq, true_and]
        constructor
        · rintro ⟨h1, h2⟩
          refine ⟨name, pc, rfl, rfl, ?_, ?_⟩
          · rintro ⟨a, b⟩
            rcases h1 with h1 | h1
            · rw [a] at h1; cases h1
            · rw [b] at h1; cases h1
          · rcases h2 with h2 | h2
            · left; intro e; rw [e] at h2; cases h2
            · right; cases hi : pc.instructed with
              | none => rw [hi] at h2; cases h2
              | some _ => rfl
        · rintro ⟨name', pc', rfl, rfl, h1, h2⟩
          constructor
          · cases ia with
            | false => left; rfl
            | true =>
              right
              cases ha : pc.assigned.isSome with
              | false => rfl
              | true => exact absurd ⟨rfl, ha⟩ h1
          · rcases h2 with h2 | h2
            · left; cases hc : pc.choices with
              | nil => exact absurd hc h2
              | cons _ _ => rfl
            · right; cases hi : pc.instructed with
              | none => rw [hi] at h2; cases h2
              | some _ => rfl

/-! ## 3. locality: each parser factors through a *view* made of the few members it looks up -/

/-- what `participantBase` reads of `parts`: is there a `parts` object, in it an object for the
    selected part, in that a `status` member -/
def statusView (reg : J) (partId : Nat) : Option (Option (Option J)) :=
  ((reg.get "parts").bind J.asObject).map fun parts =>
    ((J.lookup (toString partId) parts).bind J.asObject).map fun part => J.lookup "status" part

/-- what `participantBase` reads of `persona`: the two name members -/
def personaView (reg : J) : Option (Option J × Option J) :=
  ((reg.get "persona").bind J.asObject).map fun p =>
    (J.lookup "given_names" p, J.lookup "family_name" p)

/-- `participantBase` on the views -/
def participantBaseV (sv : Option (Option (Option J))) (pv : Option (Option J × Option J)) :
    M (Bool × String) :=
  match sv with
  | none => .error "No 'parts' found in registration"
  | some rp =>
    let st : M Bool :=
      match rp with
      | some status =>
        match status.bind J.asI64 with
        | none => .error "Missing 'status' in registration_part record"
        | some s => .ok (s == Int.ofNat Const.STATUS_PARTICIPANT)
      | none => .ok false
    match st with
    | .error e => .error e
    | .ok isP =>
      match pv with
      | none => .error "Missing 'persona' in registration"
      | some (g, f) =>
        match g.bind J.asStr with
        | none => .error "No 'given_name' found for registration"
        | some gn =>
          match f.bind J.asStr with
          | none => .error "No 'family_name' found for registration"
          | some fnm => .ok (isP, gn ++ " " ++ fnm)

theorem participantBase_eq_view (reg : J) (partId : Nat) :
    participantBase reg partId = participantBaseV (statusView reg partId) (personaView reg) := by
  unfold participantBase statusView personaView participantBaseV
  generalize toString partId = key
  cases (reg.get "parts").bind J.asObject with
  | none => rfl
  | some parts =>
    simp only [Option.map_some]
    cases (J.lookup key parts).bind J.asObject with
    | none =>
      simp only [Option.map_none]
      cases (reg.get "persona").bind J.asObject <;> rfl
    | some part =>
      simp only [Option.map_some]
      cases (J.lookup "status" part).bind J.asI64 with
      | none => rfl
      | some s =>
        simp only
        cases (reg.get "persona").bind J.asObject <;> rfl

/-- **C13 locality.** `participantBase reg partId` depends only on `parts[partId].status` and the
    two persona names. -/
theorem participantBase_local (reg reg' : J) (partId : Nat)
    (h1 : statusView reg partId = statusView reg' partId) (h2 : personaView reg = personaView reg') :
    participantBase reg partId = participantBase reg' partId := by
  rw [participantBase_eq_view, participantBase_eq_view, h1, h2]

/-! ### 3a. courses -/

/-- what `parseCourseBase` reads of `segments`: is there a `segments` object, and in it the member
    of the selected track -/
def segView (cdata : J) (trackId : Nat) : Option (Option J) :=
  ((cdata.get "segments").bind J.asObject).map fun segs => J.lookup (toString trackId) segs

/-- `parseCourseBase` on the view and the four other members it reads -/
def parseCourseBaseV (sv : Option (Option J)) (nr sn mx mn : Option J) :
    M (String × CStatus × Nat × Nat × String) :=
  match sv with
  | none => .error "No 'segments' object found for course"
  | some seg =>
    let status : M CStatus :=
      match seg with
      | some v =>
        match v.asBool with
        | none => .error "Segment of course is not a boolean."
        | some true => .ok .takesPlace
        | some false => .ok .cancelled
      | none => .ok .notOffered
    match status with
    | .error e => .error e
    | .ok st =>
      match nr.bind J.asStr with
      | none => .error "No 'nr' found for course"
      | some nr =>
        match sn.bind J.asStr with
        | none => .error "No 'shortname' found for course"
        | some sn =>
          let numMax := (mx.bind J.asU64).getD Const.DEFAULT_MAX_SIZE
          let numMin := (mn.bind J.asU64).getD Const.DEFAULT_MIN_SIZE
          if numMax < numMin then .error "Min participants > max participants" else
          .ok (nr ++ ". " ++ sn, st, numMin, numMax, sortKey nr)

theorem parseCourseBase_eq_view (cdata : J) (trackId : Nat) :
    parseCourseBase cdata trackId =
      parseCourseBaseV (segView cdata trackId) (cdata.get "nr") (cdata.get "shortname")
        (cdata.get "max_size") (cdata.get "min_size") := by
  unfold parseCourseBase segView parseCourseBaseV
  generalize toString trackId = key
  cases (cdata.get "segments").bind J.asObject with
  | none => rfl
  | some segs => rfl

/-- **C13 locality.** `parseCourseBase cdata trackId` depends only on `segments[trackId]`, `nr`,
    `shortname`, `max_size`, `min_size`. -/
theorem parseCourseBase_local (c c' : J) (trackId : Nat)
    (hs : segView c trackId = segView c' trackId) (h1 : c.get "nr" = c'.get "nr")
    (h2 : c.get "shortname" = c'.get "shortname") (h3 : c.get "max_size" = c'.get "max_size")
    (h4 : c.get "min_size" = c'.get "min_size") :
    parseCourseBase c trackId = parseCourseBase c' trackId := by
  rw [parseCourseBase_eq_view, parseCourseBase_eq_view, hs, h1, h2, h3, h4]

/-- `roomFields` depends only on the `fields` member -/
theorem roomFields_local (c c' : J) (o : Opts) (h : c.get "fields" = c'.get "fields") :
    roomFields c o = roomFields c' o := by
  unfold roomFields; rw [h]

/-- one iteration of `readCourses.go` on the accumulator triple -/
def courseStep (trackId : Nat) (o : Opts) (st : List (String × Course) × List Nat × Nat)
    (kv : String × J) : M (List (String × Course) × List Nat × Nat) :=
  match parseNat kv.1 with
  | none => .error "course id parse error"
  | some cid =>
    match parseCourseBase kv.2 trackId with
    | .error e => .error e
    | .ok (name, s, mn, mx, key) =>
      if s == .notOffered then .ok (st.1, st.2.1 ++ [cid], st.2.2)
      else if s == .cancelled && o.ignoreCancelled then .ok (st.1, st.2.1 ++ [cid], st.2.2 + 1)
      else
        match roomFields kv.2 o with
        | .error e => .error e
        | .ok (f, off) =>
          .ok (st.1 ++ [(key, { dbid := cid, name := name, numMin := mn, numMax := mx, instructors := [],
                                factor := f, offset := off, fixed := false, hidden := [] })], st.2.1, st.2.2)

theorem readCourses_go_cons (trackId : Nat) (o : Opts) (acc : List (String × Course)) (sk : List Nat)
    (n : Nat) (kv : String × J) (rest : List (String × J)) :
    readCourses.go trackId o acc sk n (kv :: rest) =
      match courseStep trackId o (acc, sk, n) kv with
      | .error e => .error e
      | .ok st => readCourses.go trackId o st.1 st.2.1 st.2.2 rest := by
  obtain ⟨k, v⟩ := kv
  rw [readCourses.go]
  unfold courseStep
  cases parseNat k with
  | none => rfl
  | some cid =>
    simp only
    cases parseCourseBase v trackId with
    | error e => rfl
    | ok r =>
      obtain ⟨name, s, mn, mx, key⟩ := r
      simp only
      cases s with
      | notOffered => rfl
      | cancelled =>
        cases o.ignoreCancelled with
        | true => rfl
        | false =>
          cases roomFields v o with
          | error e => rfl
          | ok r => rfl
      | takesPlace =>
        cases roomFields v o with
        | error e => rfl
        | ok r => rfl

/-- the selected track's segment entry may differ only by flipping between `true` and `false`, and
    only when cancelled courses are not ignored -/
def SegAgree (o : Opts) (trackId : Nat) (c c' : J) : Prop :=
  segView c trackId = segView c' trackId ∨
  (o.ignoreCancelled = false ∧ ∃ b b', segView c trackId = some (some (.bool b)) ∧
      segView c' trackId = some (some (.bool b')))

/-- two course records agree on everything the reader looks at -/
structure CourseAgree (o : Opts) (trackId : Nat) (c c' : J) : Prop where
  seg : SegAgree o trackId c c'
  nr : c.get "nr" = c'.get "nr"
  shortname : c.get "shortname" = c'.get "shortname"
  max_size : c.get "max_size" = c'.get "max_size"
  min_size : c.get "min_size" = c'.get "min_size"
  fields : c.get "fields" = c'.get "fields"

theorem courseStep_agree (o : Opts) (trackId : Nat) (st : List (String × Course) × List Nat × Nat)
    (k : String) (v v' : J) (h : CourseAgree o trackId v v') :
    courseStep trackId o st (k, v) = courseStep trackId o st (k, v') := by
  unfold courseStep
  simp only [roomFields_local v v' o h.fields]
  rcases h.seg with hs | ⟨hic, b, b', hb, hb'⟩
  · rw [parseCourseBase_local v v' trackId hs h.nr h.shortname h.max_size h.min_size]
  · rw [parseCourseBase_eq_view, parseCourseBase_eq_view, hb, hb', h.nr, h.shortname, h.max_size,
      h.min_size, hic]
    cases parseNat k with
    | none => rfl
    | some cid =>
      unfold parseCourseBaseV
      simp only [J.asBool]
      cases (v'.get "nr").bind J.asStr with
      | none => cases b <;> cases b' <;> rfl
      | some nr =>
        cases (v'.get "shortname").bind J.asStr with
        | none => cases b <;> cases b' <;> rfl
        | some sn =>
          simp only
          generalize ((v'.get "max_size").bind J.asU64).getD Const.DEFAULT_MAX_SIZE = mx
          generalize ((v'.get "min_size").bind J.asU64).getD Const.DEFAULT_MIN_SIZE = mn
          by_cases hlt : mx < mn
          · cases b <;> cases b' <;> simp only [hlt, if_true]
          · cases b <;> cases b' <;> simp only [hlt, if_false] <;> rfl

/-- two objects with the same keys in the same order whose values are related by `R` -/
inductive ObjAgree (R : J → J → Prop) : List (String × J) → List (String × J) → Prop
  | nil : ObjAgree R [] []
  | cons {k : String} {v v' : J} {l l' : List (String × J)} :
      R v v' → ObjAgree R l l' → ObjAgree R ((k, v) :: l) ((k, v') :: l')

theorem readCourses_go_agree (o : Opts) (trackId : Nat) (l l' : List (String × J))
    (h : ObjAgree (CourseAgree o trackId) l l') :
    ∀ acc sk n, readCourses.go trackId o acc sk n l = readCourses.go trackId o acc sk n l' := by
  induction h with
  | nil => intro _ _ _; rfl
  | @cons k v v' l l' hv _ ih =>
    intro acc sk n
    rw [readCourses_go_cons, readCourses_go_cons, courseStep_agree o trackId _ k v v' hv]
    cases courseStep trackId o (acc, sk, n) (k, v') with
    | error e => rfl
    | ok st => exact ih _ _ _

/-- **C13, courses.** Course records that agree on `segments[trackId]` (up to a true/false flip
    when cancelled courses are kept), `nr`, `shortname`, `max_size`, `min_size`, `fields` give the
    same `readCourses` result (hence the same `courseIndex`). -/
theorem readCourses_agree (o : Opts) (trackId : Nat) (l l' : List (String × J))
    (h : ObjAgree (CourseAgree o trackId) l l') :
    readCourses l trackId o = readCourses l' trackId o := by
  unfold readCourses
  rw [readCourses_go_agree o trackId l l' h]

/-! ### 3b. registrations -/

/-- what `participantCourseData` reads: is there a `tracks` object, in it an object for the selected
    track, and in that the members `course_id`, `course_instructor`, `choices` -/
def trackView (reg : J) (trackId : Nat) : Option (Option (Option J × Option J × Option J)) :=
  ((reg.get "tracks").bind J.asObject).map fun tracks =>
    ((J.lookup (toString trackId) tracks).bind J.asObject).map fun rt =>
      (J.lookup "course_id" rt, J.lookup "course_instructor" rt, J.lookup "choices" rt)

/-- the `resolve` closure of `participantCourseData` -/
def resolveId (co : CoursesOut) (v : J) (what : String) : M (Option Nat) :=
  match v.asU64 with
  | some id =>
    match courseIndex co id with
    | none => .error (what ++ " does not exist.")
    | some r => .ok r
  | none => .ok none

/-- `participantCourseData` on the view -/
def participantCourseDataV (tv : Option (Option (Option J × Option J × Option J))) (co : CoursesOut) :
    M PCData :=
  match tv with
  | none => .error "No 'tracks' found in registration"
  | some none => .error "Registration track data not present"
  | some (some (cid, cin, chs)) =>
    match cid with
    | none => .error "No 'course_id' found in registration track"
    | some cidv =>
      match resolveId co cidv "Assigned course" with
      | .error e => .error e
      | .ok assigned =>
        match cin with
        | none => .error "No 'course_instructor' found in registration"
        | some civ =>
          match resolveId co civ "Instructed course" with
          | .error e => .error e
          | .ok instructed =>
            match chs.bind J.asArray with
            | none => .error "No 'choices' found in registration track data"
            | some chs =>
              match participantCourseData.go co 0 [] chs with
              | .error e => .error e
              | .ok choices => .ok { assigned, instructed, choices }

theorem participantCourseData_eq_view (reg : J) (trackId : Nat) (co : CoursesOut) :
    participantCourseData reg trackId co = participantCourseDataV (trackView reg trackId) co := by
  unfold participantCourseData trackView participantCourseDataV
  generalize toString trackId = key
  cases (reg.get "tracks").bind J.asObject with
  | none => rfl
  | some tracks =>
    simp only [Option.map_some]
    cases (J.lookup key tracks).bind J.asObject with
    | none => rfl
    | some rt =>
      simp only [Option.map_some]
      cases J.lookup "course_id" rt with
      | none => rfl
      | some cidv =>
        simp only
        cases J.lookup "course_instructor" rt with
        | none => rfl
        | some civ => rfl

/-- **C13 locality.** `participantCourseData reg trackId co` depends only on `tracks[trackId]`'s
    `course_id` / `course_instructor` / `choices`. -/
theorem participantCourseData_local (reg reg' : J) (trackId : Nat) (co : CoursesOut)
    (h : trackView reg trackId = trackView reg' trackId) :
    participantCourseData reg trackId co = participantCourseData reg' trackId co := by
  rw [participantCourseData_eq_view, participantCourseData_eq_view, h]

/-- a `course_id` value `participantCourseData` accepts: not a u64 (e.g. null), or a known course id -/
def AssignedOk (co : CoursesOut) (v : J) : Prop :=
  ∀ id, v.asU64 = some id → courseIndex co id ≠ none

theorem resolveId_ok (co : CoursesOut) (v : J) (what : String) (h : AssignedOk co v) :
    ∃ a, resolveId co v what = .ok a := by
  unfold resolveId
  cases hv : v.asU64 with
  | none => exact ⟨none, rfl⟩
  | some id =>
    cases hc : courseIndex co id with
    | none => exact absurd hc (h id hv)
    | some r => exact ⟨r, by simp only [hc]⟩

def forgetAssigned (pc : PCData) : PCData := { pc with assigned := none }

theorem pcdV_assigned_free (co : CoursesOut) (cid cid' : J) (cin chs : Option J)
    (h : AssignedOk co cid) (h' : AssignedOk co cid') :
    (participantCourseDataV (some (some (some cid, cin, chs))) co).map forgetAssigned =
      (participantCourseDataV (some (some (some cid', cin, chs))) co).map forgetAssigned := by
  obtain ⟨a, ha⟩ := resolveId_ok co cid "Assigned course" h
  obtain ⟨a', ha'⟩ := resolveId_ok co cid' "Assigned course" h'
  unfold participantCourseDataV
  simp only [ha, ha']
  cases cin with
  | none => rfl
  | some civ =>
    simp only
    cases resolveId co civ "Instructed course" with
    | error e => rfl
    | ok instructed =>
      simp only
      cases chs.bind J.asArray with
      | none => rfl
      | some l =>
        simp only
        cases participantCourseData.go co 0 [] l with
        | error e => rfl
        | ok choices => rfl

/-- **C13 locality.** Without `ignoreAssigned`, the loop's treatment of a registration does not
    depend on `pc.assigned`. -/
theorem regApply_assigned_free (td : List (String × J)) (o : Opts) (s : RState) (rid : Nat)
    (name : String) (pc : PCData) (h : o.ignoreAssigned = false) :
    regApply td o s rid name pc = regApply td o s rid name (forgetAssigned pc) := by
  unfold regApply forgetAssigned
  simp only [h, Bool.false_eq_true, if_false]

theorem regApply_congr (td : List (String × J)) (o : Opts) (s : RState) (rid : Nat) (name : String)
    (h : o.ignoreAssigned = false) (r r' : M PCData)
    (hr : r.map forgetAssigned = r'.map forgetAssigned) :
    r.map (regApply td o s rid name) = r'.map (regApply td o s rid name) := by
  cases r with
  | error e =>
    cases r' with
    | error e' => simpa [Except.map] using hr
    | ok pc' => simp [Except.map] at hr
  | ok pc =>
    cases r' with
    | error e' => simp [Except.map] at hr
    | ok pc' =>
      simp only [Except.map, Except.ok.injEq] at hr ⊢
      rw [regApply_assigned_free td o s rid name pc h, regApply_assigned_free td o s rid name pc' h, hr]

/-- the selected track's record may differ only in its `course_id` value, among values the parser
    accepts, and only when assigned participants are not ignored -/
def TrackAgree (o : Opts) (trackId : Nat) (co : CoursesOut) (reg reg' : J) : Prop :=
  trackView reg trackId = trackView reg' trackId ∨
  (o.ignoreAssigned = false ∧ ∃ cid cid' cin chs,
     trackView reg trackId = some (some (some cid, cin, chs)) ∧
     trackView reg' trackId = some (some (some cid', cin, chs)) ∧
     AssignedOk co cid ∧ AssignedOk co cid')

/-- two registration records agree on everything the reader looks at -/
structure RegAgree (o : Opts) (partId trackId : Nat) (co : CoursesOut) (reg reg' : J) : Prop where
  status : statusView reg partId = statusView reg' partId
  persona : personaView reg = personaView reg'
  track : TrackAgree o trackId co reg reg'

theorem regStep_agree (partId trackId : Nat) (td : List (String × J)) (co : CoursesOut) (o : Opts)
    (s : RState) (k : String) (v v' : J) (h : RegAgree o partId trackId co v v') :
    regStep partId trackId td co o s (k, v) = regStep partId trackId td co o s (k, v') := by
  unfold regStep
  simp only [participantBase_local v v' partId h.status h.persona]
  rcases h.track with ht | ⟨hia, cid, cid', cin, chs, h1, h2, hc, hc'⟩
  · rw [participantCourseData_local v v' trackId co ht]
  · cases parseNat k with
    | none => rfl
    | some rid =>
      simp only
      cases participantBase v' partId with
      | error e => rfl
      | ok r =>
        obtain ⟨isP, name⟩ := r
        cases isP with
        | false => rfl
        | true =>
          simp only [Bool.not_true, Bool.false_eq_true, if_false]
          have := regApply_congr td o s rid name hia (participantCourseData v trackId co)
            (participantCourseData v' trackId co) (by
              rw [participantCourseData_eq_view, participantCourseData_eq_view, h1, h2]
              exact pcdV_assigned_free co cid cid' cin chs hc hc')
          generalize participantCourseData v trackId co = r at this ⊢
          generalize participantCourseData v' trackId co = r' at this ⊢
          cases r with
          | error a =>
            cases r' with
            | error b => simpa [Except.map] using this
            | ok b => simp [Except.map] at this
          | ok a =>
            cases r' with
            | error b => simp [Except.map] at this
            | ok b => simpa [Except.map] using this

theorem readRegs_go_agree (partId trackId : Nat) (td : List (String × J)) (co : CoursesOut) (o : Opts)
    (l l' : List (String × J)) (h : ObjAgree (RegAgree o partId trackId co) l l') :
    ∀ s, readRegs.go partId trackId td co o s l = readRegs.go partId trackId td co o s l' := by
  induction h with
  | nil => intro _; rfl
  | @cons k v v' l l' hv _ ih =>
    intro s
    rw [readRegs_go_cons, readRegs_go_cons, regStep_agree partId trackId td co o s k v v' hv]
    cases regStep partId trackId td co o s (k, v') with
    | error e => rfl
    | ok s1 => exact ih s1

/-- **C13, registrations.** Registration records that agree on `parts[partId].status`, the two
    persona names and the selected track's `course_instructor` / `choices` — and on `course_id`,
    or, without `ignoreAssigned`, carry any accepted `course_id` — give the same `readRegs` result. -/
theorem readRegs_agree (partId trackId : Nat) (td : List (String × J)) (co : CoursesOut) (o : Opts)
    (l l' : List (String × J)) (h : ObjAgree (RegAgree o partId trackId co) l l') :
    readRegs l partId trackId td co o = readRegs l' partId trackId td co o := by
  unfold readRegs
  exact readRegs_go_agree partId trackId td co o l l' h _

/-! ## 4. courses (C12) -/

/-- a parsed course is kept when it takes place, or is cancelled and cancelled courses are not ignored -/
def keptStatus (o : Opts) (s : CStatus) : Bool :=
  s == .takesPlace || (s == .cancelled && !o.ignoreCancelled)

/-- the course record the reader builds -/
def mkCourse (cid : Nat) (name : String) (mn mx : Nat) (f off : FVal) : Course :=
  { dbid := cid, name := name, numMin := mn, numMax := mx, instructors := [],
    factor := f, offset := off, fixed := false, hidden := [] }

/-- the (sort key, course) a course entry of the export contributes, if it is kept -/
def courseEntry (trackId : Nat) (o : Opts) (kv : String × J) : Option (String × Course) :=
  match parseNat kv.1, parseCourseBase kv.2 trackId with
  | some cid, .ok (name, s, mn, mx, key) =>
    if keptStatus o s then
      match roomFields kv.2 o with
      | .ok (f, off) => some (key, mkCourse cid name mn mx f off)
      | .error _ => none
    else none
  | _, _ => none

/-- the id a course entry of the export contributes to the skipped list, if it is not kept -/
def courseSkipped (trackId : Nat) (o : Opts) (kv : String × J) : Option Nat :=
  match parseNat kv.1, parseCourseBase kv.2 trackId with
  | some cid, .ok (_, s, _, _, _) => if keptStatus o s then none else some cid
  | _, _ => none

/-- is the entry a cancelled course that is ignored (counted in `numIgnored`) -/
def courseIgnored (trackId : Nat) (o : Opts) (kv : String × J) : Bool :=
  match parseCourseBase kv.2 trackId with
  | .ok (_, s, _, _, _) => s == .cancelled && o.ignoreCancelled
  | .error _ => false

/-- the entry parses as far as the reader looks at it -/
def CourseParses (trackId : Nat) (o : Opts) (kv : String × J) : Prop :=
  ∃ cid name s mn mx key, parseNat kv.1 = some cid ∧
    parseCourseBase kv.2 trackId = .ok (name, s, mn, mx, key) ∧
    (keptStatus o s = true → ∃ fo, roomFields kv.2 o = .ok fo)

instance : LawfulBEq CStatus where
  eq_of_beq := by intro a b h; cases a <;> cases b <;> first | rfl | cases h
  rfl := by intro a; cases a <;> rfl

theorem courseStep_ok (trackId : Nat) (o : Opts) (st st' : List (String × Course) × List Nat × Nat)
    (kv : String × J) (h : courseStep trackId o st kv = .ok st') :
    CourseParses trackId o kv ∧
    st'.1 = st.1 ++ (courseEntry trackId o kv).toList ∧
    st'.2.1 = st.2.1 ++ (courseSkipped trackId o kv).toList ∧
    st'.2.2 = st.2.2 + (if courseIgnored trackId o kv then 1 else 0) := by
  unfold courseStep at h
  unfold CourseParses courseEntry courseSkipped courseIgnored
  cases hk : parseNat kv.1 with
  | none => rw [hk] at h; cases h
  | some cid =>
    rw [hk] at h
    simp only at h
    cases hp : parseCourseBase kv.2 trackId with
    | error e => rw [hp] at h; cases h
    | ok r =>
      obtain ⟨name, s, mn, mx, key⟩ := r
      rw [hp] at h
      simp only at h
      by_cases h1 : s = .notOffered
      · subst h1
        simp only [beq_self_eq_true, if_true, Except.ok.injEq] at h
        subst h
        refine ⟨⟨cid, name, _, mn, mx, key, rfl, rfl, ?_⟩, ?_, ?_, ?_⟩
        · intro hc; simp [keptStatus] at hc
        · simp [keptStatus]
        · simp [keptStatus]
        · simp
      · by_cases h2 : s = .cancelled ∧ o.ignoreCancelled = true
        · obtain ⟨h2, h3⟩ := h2
          subst h2
          simp only [h3, beq_self_eq_true, Bool.and_self, if_true, beq_iff_eq, reduceCtorEq, if_false,
            Except.ok.injEq] at h
          subst h
          refine ⟨⟨cid, name, _, mn, mx, key, rfl, rfl, ?_⟩, ?_, ?_, ?_⟩
          · intro hc; simp [keptStatus, h3] at hc
          · simp [keptStatus, h3]
          · simp [keptStatus, h3]
          · simp [h3]
        · have hkept : keptStatus o s = true := by
            unfold keptStatus
            cases s with
            | notOffered => exact absurd rfl h1
            | takesPlace => rfl
            | cancelled =>
              cases hic : o.ignoreCancelled with
              | true => exact absurd ⟨rfl, hic⟩ h2
              | false => rfl
          have hign : (s == CStatus.cancelled && o.ignoreCancelled) = false := by
            cases hh : (s == CStatus.cancelled && o.ignoreCancelled) with
            | false => rfl
            | true =>
              simp only [Bool.and_eq_true, beq_iff_eq] at hh
              exact absurd hh h2
          have hno : (s == CStatus.notOffered) = false := by
            cases hh : (s == CStatus.notOffered) with
            | false => rfl
            | true => exact absurd (eq_of_beq hh) h1
          simp only [hno, hign, Bool.false_eq_true, if_false] at h
          cases hr : roomFields kv.2 o with
          | error e => rw [hr] at h; cases h
          | ok fo =>
            obtain ⟨f, off⟩ := fo
            rw [hr] at h
            simp only [Except.ok.injEq] at h
            subst h
            refine ⟨⟨cid, name, _, mn, mx, key, rfl, rfl, fun _ => ⟨_, rfl⟩⟩, ?_, ?_, ?_⟩
            · simp [hkept, mkCourse]
            · simp [hkept]
            · simp [hign]

theorem readCourses_go_spec (trackId : Nat) (o : Opts) :
    ∀ (l : List (String × J)) (acc : List (String × Course)) (sk : List Nat) (n : Nat)
      (r : List (String × Course) × List Nat × Nat),
      readCourses.go trackId o acc sk n l = .ok r →
      (∀ kv ∈ l, CourseParses trackId o kv) ∧
      r.1 = acc ++ l.filterMap (courseEntry trackId o) ∧
      r.2.1 = sk ++ l.filterMap (courseSkipped trackId o) ∧
      r.2.2 = n + l.countP (courseIgnored trackId o) := by
  intro l
  induction l with
  | nil =>
    intro acc sk n r h
    simp only [readCourses.go, Except.ok.injEq] at h
    subst h
    simp
  | cons kv rest ih =>
    intro acc sk n r h
    rw [readCourses_go_cons] at h
    cases hs : courseStep trackId o (acc, sk, n) kv with
    | error e => rw [hs] at h; cases h
    | ok st =>
      rw [hs] at h
      obtain ⟨p, e1, e2, e3⟩ := courseStep_ok trackId o _ _ kv hs
      obtain ⟨q, f1, f2, f3⟩ := ih _ _ _ _ h
      simp only at e1 e2 e3
      refine ⟨?_, ?_, ?_, ?_⟩
      · intro x hx
        rcases List.mem_cons.1 hx with rfl | hx
        · exact p
        · exact q x hx
      · rw [f1, e1, List.filterMap_cons]
        cases courseEntry trackId o kv <;> simp
      · rw [f2, e2, List.filterMap_cons]
        cases courseSkipped trackId o kv <;> simp
      · rw [f3, e3, List.countP_cons]
        cases courseIgnored trackId o kv <;> simp <;> omega

/-- the comparison the reader sorts the kept courses with -/
def keyLe (a b : String × Course) : Bool := decide (a.1 ≤ b.1)

theorem keyLe_trans (a b c : String × Course) : keyLe a b = true → keyLe b c = true → keyLe a c = true := by
  simp only [keyLe, decide_eq_true_eq]
  exact String.le_trans

theorem keyLe_total (a b : String × Course) : (keyLe a b || keyLe b a) = true := by
  simp only [keyLe, Bool.or_eq_true, decide_eq_true_eq]
  exact String.le_total a.1 b.1

/-- **C12, courses.** With `E` the (sort key, course) entries of the kept courses in document
    order: all course entries parse; `co.courses` are the courses of `E` stably sorted by key;
    `co.skipped` are the ids of the other courses in document order; `co.numIgnored` counts the
    ignored cancelled ones. -/
theorem readCourses_spec (cdata : List (String × J)) (trackId : Nat) (o : Opts) (co : CoursesOut)
    (h : readCourses cdata trackId o = .ok co) :
    (∀ kv ∈ cdata, CourseParses trackId o kv) ∧
    co.courses = ((cdata.filterMap (courseEntry trackId o)).mergeSort keyLe).map (·.2) ∧
    co.skipped = cdata.filterMap (courseSkipped trackId o) ∧
    co.numIgnored = cdata.countP (courseIgnored trackId o) := by
  unfold readCourses at h
  cases hg : readCourses.go trackId o [] [] 0 cdata with
  | error e => rw [hg] at h; cases h
  | ok r =>
    obtain ⟨acc, sk, n⟩ := r
    rw [hg] at h
    simp only [Except.ok.injEq] at h
    subst h
    obtain ⟨p, e1, e2, e3⟩ := readCourses_go_spec trackId o cdata _ _ _ _ hg
    simp only [List.nil_append, Nat.zero_add] at e1 e2 e3
    exact ⟨p, by rw [e1]; rfl, e2, e3⟩

/-- the sorted entry list behind `co.courses`: a permutation of the kept entries, ordered by the
    padded course number, and stable (entries with `a.key ≤ b.key` that are in document order stay
    in that order) -/
theorem readCourses_sorted (cdata : List (String × J)) (trackId : Nat) (o : Opts) (co : CoursesOut)
    (h : readCourses cdata trackId o = .ok co) :
    ∃ S : List (String × Course), co.courses = S.map (·.2) ∧
      S.Perm (cdata.filterMap (courseEntry trackId o)) ∧
      S.Pairwise (fun a b => a.1 ≤ b.1) ∧
      (∀ a b, a.1 ≤ b.1 → [a, b].Sublist (cdata.filterMap (courseEntry trackId o)) → [a, b].Sublist S) := by
  obtain ⟨_, e1, _, _⟩ := readCourses_spec cdata trackId o co h
  refine ⟨_, e1, List.mergeSort_perm _ _, ?_, ?_⟩
  · have := List.pairwise_mergeSort keyLe_trans keyLe_total (cdata.filterMap (courseEntry trackId o))
    exact this.imp (fun h => by simpa [keyLe] using h)
  · intro a b hab hsub
    exact List.pair_sublist_mergeSort keyLe_trans keyLe_total (by simpa [keyLe] using hab) hsub

/-- `co.courses` is a permutation of the kept courses of the export -/
theorem readCourses_perm (cdata : List (String × J)) (trackId : Nat) (o : Opts) (co : CoursesOut)
    (h : readCourses cdata trackId o = .ok co) :
    co.courses.Perm ((cdata.filterMap (courseEntry trackId o)).map (·.2)) := by
  obtain ⟨S, e, hp, _, _⟩ := readCourses_sorted cdata trackId o co h
  rw [e]; exact hp.map _

theorem asBool_eq_some {v : J} {b : Bool} (h : v.asBool = some b) : v = .bool b := by
  cases v <;> simp [J.asBool] at h
  subst h; rfl

/-- the status the reader derives from the selected track's segment entry -/
def statusOfSeg : Option (Option J) → Option CStatus
  | some none => some .notOffered
  | some (some (.bool true)) => some .takesPlace
  | some (some (.bool false)) => some .cancelled
  | _ => none

/-- what a successfully parsed course record carries: name `nr. shortname`, the export's size
    limits with the defaults, the padded sort key, and the status of the selected track's segment -/
theorem parseCourseBase_ok (v : J) (trackId : Nat) (name : String) (s : CStatus) (mn mx : Nat)
    (key : String) (h : parseCourseBase v trackId = .ok (name, s, mn, mx, key)) :
    ∃ nr sn, (v.get "nr").bind J.asStr = some nr ∧ (v.get "shortname").bind J.asStr = some sn ∧
      name = nr ++ ". " ++ sn ∧ key = sortKey nr ∧
      mn = ((v.get "min_size").bind J.asU64).getD Const.DEFAULT_MIN_SIZE ∧
      mx = ((v.get "max_size").bind J.asU64).getD Const.DEFAULT_MAX_SIZE ∧
      mn ≤ mx ∧ statusOfSeg (segView v trackId) = some s := by
  rw [parseCourseBase_eq_view] at h
  unfold parseCourseBaseV at h
  cases hsv : segView v trackId with
  | none => rw [hsv] at h; cases h
  | some seg =>
    rw [hsv] at h
    simp only at h
    have key_lemma : ∀ (st : CStatus),
        (match (v.get "nr").bind J.asStr with
          | none => (Except.error "No 'nr' found for course" : M (String × CStatus × Nat × Nat × String))
          | some nr =>
            match (v.get "shortname").bind J.asStr with
            | none => Except.error "No 'shortname' found for course"
            | some sn =>
              if ((v.get "max_size").bind J.asU64).getD Const.DEFAULT_MAX_SIZE <
                  ((v.get "min_size").bind J.asU64).getD Const.DEFAULT_MIN_SIZE then
                Except.error "Min participants > max participants"
              else
                Except.ok (nr ++ ". " ++ sn, st, ((v.get "min_size").bind J.asU64).getD Const.DEFAULT_MIN_SIZE,
                    ((v.get "max_size").bind J.asU64).getD Const.DEFAULT_MAX_SIZE, sortKey nr)) =
          Except.ok (name, s, mn, mx, key) →
        ∃ nr sn, (v.get "nr").bind J.asStr = some nr ∧ (v.get "shortname").bind J.asStr = some sn ∧
          name = nr ++ ". " ++ sn ∧ key = sortKey nr ∧
          mn = ((v.get "min_size").bind J.asU64).getD Const.DEFAULT_MIN_SIZE ∧
          mx = ((v.get "max_size").bind J.asU64).getD Const.DEFAULT_MAX_SIZE ∧
          mn ≤ mx ∧ st = s := by
      intro st hh
      cases hnr : (v.get "nr").bind J.asStr with
      | none => rw [hnr] at hh; cases hh
      | some nr =>
        rw [hnr] at hh
        simp only at hh
        cases hsn : (v.get "shortname").bind J.asStr with
        | none => rw [hsn] at hh; cases hh
        | some sn =>
          rw [hsn] at hh
          simp only at hh
          split at hh
          · cases hh
          · rename_i hlt
            simp only [Except.ok.injEq, Prod.mk.injEq] at hh
            obtain ⟨a, b, c, d, e⟩ := hh
            exact ⟨nr, sn, rfl, rfl, a.symm, e.symm, c.symm, d.symm, by omega, b⟩
    cases seg with
    | none =>
      simp only at h
      obtain ⟨nr, sn, a, b, c, d, e, f, g, hst⟩ := key_lemma _ h
      exact ⟨nr, sn, a, b, c, d, e, f, g, by rw [← hst]; rfl⟩
    | some sv =>
      simp only at h
      cases hb : sv.asBool with
      | none => rw [hb] at h; cases h
      | some bb =>
        rw [hb] at h
        have := asBool_eq_some hb
        subst this
        cases bb with
        | true =>
          obtain ⟨nr, sn, a, b, c, d, e, f, g, hst⟩ := key_lemma _ h
          exact ⟨nr, sn, a, b, c, d, e, f, g, by rw [← hst]; rfl⟩
        | false =>
          obtain ⟨nr, sn, a, b, c, d, e, f, g, hst⟩ := key_lemma _ h
          exact ⟨nr, sn, a, b, c, d, e, f, g, by rw [← hst]; rfl⟩

theorem courseEntry_dbid (trackId : Nat) (o : Opts) (kv : String × J) (e : String × Course)
    (h : courseEntry trackId o kv = some e) : parseNat kv.1 = some e.2.dbid := by
  unfold courseEntry at h
  split at h
  · rename_i cid name s mn mx key hk hp
    split at h
    · split at h
      · simp only [Option.some.injEq] at h; subst h; exact hk
      · cases h
    · cases h
  · cases h

theorem courseSkipped_id (trackId : Nat) (o : Opts) (kv : String × J) (id : Nat)
    (h : courseSkipped trackId o kv = some id) : parseNat kv.1 = some id := by
  unfold courseSkipped at h
  split at h
  · rename_i cid name s mn mx key hk hp
    split at h
    · cases h
    · simp only [Option.some.injEq] at h; subst h; exact hk
  · cases h

/-- a course entry that parses is either kept or skipped, under its own id -/
theorem courseParses_split (trackId : Nat) (o : Opts) (kv : String × J)
    (h : CourseParses trackId o kv) :
    ∃ cid, parseNat kv.1 = some cid ∧
      ((∃ e, courseEntry trackId o kv = some e ∧ e.2.dbid = cid ∧ courseSkipped trackId o kv = none) ∨
       (courseSkipped trackId o kv = some cid ∧ courseEntry trackId o kv = none)) := by
  obtain ⟨cid, name, s, mn, mx, key, hk, hp, hr⟩ := h
  refine ⟨cid, hk, ?_⟩
  unfold courseEntry courseSkipped
  rw [hk, hp]
  cases hs : keptStatus o s with
  | true =>
    obtain ⟨⟨f, off⟩, hf⟩ := hr hs
    left
    simp only [hs, hf, if_true]
    exact ⟨_, rfl, rfl, trivial⟩
  | false =>
    right
    simp [hs]

theorem courseIndex_ne_none_iff (co : CoursesOut) (id : Nat) :
    courseIndex co id ≠ none ↔ id ∈ co.skipped ∨ ∃ c ∈ co.courses, c.dbid = id := by
  rw [ne_eq, courseIndex_eq_none_iff]
  constructor
  · intro h
    by_cases hs : id ∈ co.skipped
    · exact Or.inl hs
    · right
      exact Classical.byContradiction fun hc => h ⟨hs, fun c hc' he => hc ⟨c, hc', he⟩⟩
  · rintro (hs | ⟨c, hc, he⟩) ⟨h1, h2⟩
    · exact h1 hs
    · exact h2 c hc he

/-- **known ids.** After a successful `readCourses`, the ids `courseIndex` knows are exactly the
    keys of the export's `courses` object. -/
theorem courseIndex_known (cdata : List (String × J)) (trackId : Nat) (o : Opts) (co : CoursesOut)
    (h : readCourses cdata trackId o = .ok co) (id : Nat) :
    courseIndex co id ≠ none ↔ id ∈ cdata.filterMap (fun kv => parseNat kv.1) := by
  obtain ⟨hp, _, e2, _⟩ := readCourses_spec cdata trackId o co h
  have hperm := readCourses_perm cdata trackId o co h
  rw [courseIndex_ne_none_iff, e2]
  simp only [List.mem_filterMap, hperm.mem_iff, List.mem_map]
  constructor
  · rintro (⟨kv, hkv, hs⟩ | ⟨c, ⟨e, ⟨kv, hkv, he⟩, rfl⟩, rfl⟩)
    · exact ⟨kv, hkv, courseSkipped_id trackId o kv id hs⟩
    · exact ⟨kv, hkv, courseEntry_dbid trackId o kv e he⟩
  · rintro ⟨kv, hkv, hid⟩
    obtain ⟨cid, hc, hsplit⟩ := courseParses_split trackId o kv (hp kv hkv)
    rw [hc] at hid
    simp only [Option.some.injEq] at hid
    subst hid
    rcases hsplit with ⟨e, he, hd, _⟩ | ⟨hs, _⟩
    · right; exact ⟨e.2, ⟨e, ⟨kv, hkv, he⟩, rfl⟩, hd⟩
    · left; exact ⟨kv, hkv, hs⟩

/-- **C12, courses (values).** A kept entry is a course whose selected segment says it takes
    place — or is cancelled, when cancelled courses are not ignored; it carries the export's id,
    `nr. shortname`, the export's size limits with the defaults, no instructors yet, and is sorted
    under the padded `nr`. -/
theorem courseEntry_spec (trackId : Nat) (o : Opts) (kv : String × J) (e : String × Course)
    (h : courseEntry trackId o kv = some e) :
    ∃ cid nr sn s f off, parseNat kv.1 = some cid ∧
      (kv.2.get "nr").bind J.asStr = some nr ∧ (kv.2.get "shortname").bind J.asStr = some sn ∧
      statusOfSeg (segView kv.2 trackId) = some s ∧ keptStatus o s = true ∧
      roomFields kv.2 o = .ok (f, off) ∧
      e = (sortKey nr, mkCourse cid (nr ++ ". " ++ sn)
            (((kv.2.get "min_size").bind J.asU64).getD Const.DEFAULT_MIN_SIZE)
            (((kv.2.get "max_size").bind J.asU64).getD Const.DEFAULT_MAX_SIZE) f off) ∧
      e.2.numMin ≤ e.2.numMax := by
  unfold courseEntry at h
  split at h
  · rename_i cid name s mn mx key hk hp
    obtain ⟨nr, sn, a, b, c, d, e1, f1, g, hst⟩ := parseCourseBase_ok kv.2 trackId name s mn mx key hp
    split at h
    · rename_i hkept
      split at h
      · rename_i f off hr
        simp only [Option.some.injEq] at h
        subst h
        refine ⟨cid, nr, sn, s, f, off, hk, a, b, hst, hkept, hr, ?_, ?_⟩
        · rw [c, d, e1, f1]
        · exact g
      · cases h
    · cases h
  · cases h

/-- **C12, courses (skipped).** A skipped id is the id of a course that is not offered in the
    track, or cancelled while cancelled courses are ignored. -/
theorem courseSkipped_spec (trackId : Nat) (o : Opts) (kv : String × J) (id : Nat)
    (h : courseSkipped trackId o kv = some id) :
    parseNat kv.1 = some id ∧
      ∃ s, statusOfSeg (segView kv.2 trackId) = some s ∧ keptStatus o s = false := by
  unfold courseSkipped at h
  split at h
  · rename_i cid name s mn mx key hk hp
    obtain ⟨nr, sn, a, b, c, d, e1, f1, g, hst⟩ := parseCourseBase_ok kv.2 trackId name s mn mx key hp
    split at h
    · cases h
    · rename_i hkept
      simp only [Option.some.injEq] at h
      subst h
      exact ⟨hk, s, hst, by simpa using hkept⟩
  · cases h

section Example
private def exCourses : List (String × J) :=
  [("7", .obj [("segments", .obj [("3", .bool true)]), ("nr", .str "10"), ("shortname", .str "x"),
               ("fields", .obj []), ("max_size", .num (.pos 9))]),
   ("8", .obj [("segments", .obj [("4", .bool true)]), ("nr", .str "1"), ("shortname", .str "y")]),
   ("9", .obj [("segments", .obj [("3", .bool false)]), ("nr", .str "2"), ("shortname", .str "z"),
               ("fields", .obj []), ("min_size", .num (.pos 3))])]
private def exOpts : Opts :=
  { track := some 3, ignoreCancelled := false, ignoreAssigned := false, factorField := none, offsetField := none }
/-- non-trivial instance of the hypothesis `readCourses … = .ok co`: courses 7 and 9 (cancelled, kept)
    are kept, course 8 (other track) is skipped. (`#eval` gives the order 9 " 2", 7 "10"; `mergeSort`
    is defined by well-founded recursion, so `decide` cannot replay the sort itself.) -/
example : ∃ co, readCourses exCourses 3 exOpts = .ok co ∧ co.skipped = [8] ∧ co.courses.length = 2 := by
  have h : (readCourses.go 3 exOpts [] [] 0 exCourses).toOption.map
      (fun r => (r.1.map (fun e => (e.2.dbid, e.2.name, e.2.numMin, e.2.numMax)), r.2)) =
      some ([(7, "10. x", 0, 9), (9, "2. z", 3, 25)], [8], 0) := by decide
  cases hg : readCourses.go 3 exOpts [] [] 0 exCourses with
  | error e => rw [hg] at h; cases h
  | ok r =>
    obtain ⟨acc, sk, n⟩ := r
    rw [hg] at h
    simp only [Except.toOption, Option.map_some, Option.some.injEq, Prod.mk.injEq] at h
    obtain ⟨h1, h2, _⟩ := h
    refine ⟨_, by unfold readCourses; rw [hg], h2, ?_⟩
    have := congrArg List.length h1
    simpa using this
end Example

/-! ## 5. `findTrack` refusals (C12) -/

/-- the `tracks` object of an event part, as `findTrack` fetches it -/
def partTracks (pv : J) : Option (List (String × J)) := (pv.get "tracks").bind J.asObject

/-- total number of course tracks over all event parts -/
def trackCount : List (String × J) → Nat
  | [] => 0
  | kv :: rest => ((partTracks kv.2).getD []).length + trackCount rest

theorem findTrack_none_eq (parts : List (String × J)) :
    findTrack parts none = findTrack.goPartsN none parts := rfl

theorem findTrack_some_eq (parts : List (String × J)) (t : Nat) :
    findTrack parts (some t) = findTrack.goParts t parts := rfl

theorem goTracksN_spec (pk : String) (result : Option (Nat × Nat × List (String × J)))
    (tracks : List (String × J)) :
    match findTrack.goTracksN pk result tracks with
    | .error _ => True
    | .ok r => (tracks = [] ∧ r = result) ∨ (result = none ∧ tracks.length = 1 ∧ r.isSome = true) := by
  cases tracks with
  | nil => simp [findTrack.goTracksN]
  | cons a rest =>
    obtain ⟨tk, tv⟩ := a
    unfold findTrack.goTracksN
    cases result with
    | some r => simp
    | none =>
      simp only [Option.isSome_none, Bool.false_eq_true, if_false]
      cases parseNat pk with
      | none => simp
      | some pid =>
        cases parseNat tk with
        | none => simp
        | some tid =>
          cases tv.asObject with
          | none => simp
          | some td =>
            simp only
            cases rest with
            | nil => simp [findTrack.goTracksN]
            | cons b rest' =>
              obtain ⟨tk', tv'⟩ := b
              simp [findTrack.goTracksN]

theorem goPartsN_spec (parts : List (String × J)) :
    ∀ result : Option (Nat × Nat × List (String × J)),
      (result.isSome = true → 1 ≤ trackCount parts → ∃ e, findTrack.goPartsN result parts = .error e) ∧
      (2 ≤ trackCount parts → ∃ e, findTrack.goPartsN result parts = .error e) := by
  induction parts with
  | nil =>
    intro result
    simp [trackCount]
  | cons a rest ih =>
    intro result
    obtain ⟨pk, pv⟩ := a
    unfold findTrack.goPartsN
    simp only [trackCount]
    cases ht : partTracks pv with
    | none =>
      unfold partTracks at ht
      simp only [ht]
      exact ⟨fun _ _ => ⟨_, rfl⟩, fun _ => ⟨_, rfl⟩⟩
    | some tracks =>
      have ht' := ht
      unfold partTracks at ht'
      simp only [ht', Option.getD_some]
      have hspec := goTracksN_spec pk result tracks
      cases hg : findTrack.goTracksN pk result tracks with
      | error e => exact ⟨fun _ _ => ⟨_, rfl⟩, fun _ => ⟨_, rfl⟩⟩
      | ok r =>
        rw [hg] at hspec
        simp only at hspec ⊢
        rcases hspec with ⟨h1, h2⟩ | ⟨h1, h2, h3⟩
        · subst h1; subst h2
          simpa using ih r
        · subst h1
          rw [h2]
          refine ⟨fun h _ => (by cases h), fun h => (ih r).1 h3 (by omega)⟩

/-- **C12 refusal.** Without a selected track, an event without any course track is refused. -/
theorem findTrack_none_no_track (parts : List (String × J)) (h : trackCount parts = 0) :
    ∃ e, findTrack parts none = .error e := by
  rw [findTrack_none_eq]
  have : ∀ parts : List (String × J), trackCount parts = 0 →
      ∃ e, findTrack.goPartsN none parts = .error e := by
    intro parts
    induction parts with
    | nil => intro _; exact ⟨_, rfl⟩
    | cons a rest ih =>
      intro h
      obtain ⟨pk, pv⟩ := a
      unfold findTrack.goPartsN
      simp only [trackCount] at h
      cases ht : partTracks pv with
      | none =>
        unfold partTracks at ht
        simp only [ht]
        exact ⟨_, rfl⟩
      | some tracks =>
        have ht' := ht
        unfold partTracks at ht'
        simp only [ht']
        rw [ht] at h
        simp only [Option.getD_some] at h
        have h0 : tracks = [] := List.eq_nil_of_length_eq_zero (by omega)
        subst h0
        simp only [findTrack.goTracksN]
        exact ih (by omega)
  exact this parts h

/-- **C12 refusal.** Without a selected track, an event with two or more course tracks (in one part
    or in different parts) is refused. -/
theorem findTrack_none_two_tracks (parts : List (String × J)) (h : 2 ≤ trackCount parts) :
    ∃ e, findTrack parts none = .error e := by
  rw [findTrack_none_eq]
  exact (goPartsN_spec parts none).2 h

theorem goTracks_absent (t : Nat) (pk : String) (tracks : List (String × J))
    (h : ∀ tk ∈ tracks, parseNat tk.1 ≠ some t) :
    (∃ e, findTrack.goTracks t pk tracks = .error e) ∨ findTrack.goTracks t pk tracks = .ok none := by
  induction tracks with
  | nil => right; rfl
  | cons a rest ih =>
    obtain ⟨tk, tv⟩ := a
    unfold findTrack.goTracks
    cases hp : parseNat tk with
    | none => left; exact ⟨_, rfl⟩
    | some tid =>
      have hne : tid ≠ t := by
        intro e; subst e
        exact h (tk, tv) (List.mem_cons_self ..) hp
      have : (tid == t) = false := by simpa using hne
      simp only [this, Bool.false_eq_true, if_false]
      exact ih (fun x hx => h x (List.mem_cons_of_mem _ hx))

/-- **C12 refusal.** A selected track id that no event part has is refused. -/
theorem findTrack_some_absent (parts : List (String × J)) (t : Nat)
    (h : ∀ kv ∈ parts, ∀ tr, partTracks kv.2 = some tr → ∀ tk ∈ tr, parseNat tk.1 ≠ some t) :
    ∃ e, findTrack parts (some t) = .error e := by
  rw [findTrack_some_eq]
  induction parts with
  | nil => exact ⟨_, rfl⟩
  | cons a rest ih =>
    obtain ⟨pk, pv⟩ := a
    unfold findTrack.goParts
    cases ht : partTracks pv with
    | none =>
      unfold partTracks at ht
      simp only [ht]
      exact ⟨_, rfl⟩
    | some tracks =>
      have ht' := ht
      unfold partTracks at ht'
      simp only [ht']
      rcases goTracks_absent t pk tracks (h (pk, pv) (List.mem_cons_self ..) tracks ht) with ⟨e, he⟩ | he
      · rw [he]; exact ⟨_, rfl⟩
      · rw [he]
        exact ih (fun kv hkv => h kv (List.mem_cons_of_mem _ hkv))

/-- the `parts` object of the event, as `read` fetches it -/
def eventParts (data : J) : Option (List (String × J)) :=
  ((data.get "event").bind J.asObject).bind fun ev => (J.lookup "parts" ev).bind J.asObject

/-- whenever `findTrack` refuses the event's parts, `read` refuses the export -/
theorem read_refuse_of_findTrack (data : J) (o : Opts)
    (h : ∀ parts, eventParts data = some parts → ∃ e, findTrack parts o.track = .error e) :
    ∃ e, read data o = .error e := by
  unfold read
  cases checkVersion data with
  | error e => exact ⟨_, rfl⟩
  | ok u =>
    simp only
    cases (data.get "timestamp").bind J.asStr with
    | none => exact ⟨_, rfl⟩
    | some ts =>
      simp only
      cases timestampOk ts with
      | false => exact ⟨_, rfl⟩
      | true =>
        simp only [Bool.not_true, Bool.false_eq_true, if_false]
        cases hev : (data.get "event").bind J.asObject with
        | none => exact ⟨_, rfl⟩
        | some ev =>
          simp only
          cases hp : (J.lookup "parts" ev).bind J.asObject with
          | none => exact ⟨_, rfl⟩
          | some parts =>
            simp only
            obtain ⟨e, he⟩ := h parts (by unfold eventParts; rw [hev, Option.bind_some, hp])
            rw [he]
            exact ⟨_, rfl⟩

section Example
private def exParts2 : List (String × J) :=
  [("1", .obj [("tracks", .obj [("3", .obj [])])]), ("2", .obj [("tracks", .obj [("4", .obj [])])])]
example : 2 ≤ trackCount exParts2 := by decide
example : ∀ kv ∈ exParts2, ∀ tr, partTracks kv.2 = some tr → ∀ tk ∈ tr, parseNat tk.1 ≠ some 5 := by
  decide
example : trackCount [("1", .obj [("tracks", .obj [])])] = 0 := by decide
end Example

/-! ## 6. non-interference of the whole reader (C13) -/

/-- `checkVersion` depends only on the three members `kind`, `EVENT_SCHEMA_VERSION`,
    `CDEDB_EXPORT_EVENT_VERSION` -/
theorem checkVersion_local (e e' : J) (h1 : e.get "kind" = e'.get "kind")
    (h2 : e.get "EVENT_SCHEMA_VERSION" = e'.get "EVENT_SCHEMA_VERSION")
    (h3 : e.get "CDEDB_EXPORT_EVENT_VERSION" = e'.get "CDEDB_EXPORT_EVENT_VERSION") :
    checkVersion e = checkVersion e' := by
  unfold checkVersion
  rw [h1, h2, h3]

def coursesOf (e : J) : Option (List (String × J)) := (e.get "courses").bind J.asObject
def regsOf (e : J) : Option (List (String × J)) := (e.get "registrations").bind J.asObject

/-- `read` as a function of the members it fetches from the top-level object -/
def readV (cv : M Unit) (tsv evv : Option J) (cdataO rdataO : Option (List (String × J)))
    (idv : Option J) (o : Opts) : M (List Part × List Course × Ambience) :=
  match cv with
  | .error e => .error e
  | .ok () =>
    match tsv.bind J.asStr with
    | none => .error "No 'timestamp' string found in data."
    | some ts =>
      if !timestampOk ts then .error "Could not parse export timestamp" else
      match evv.bind J.asObject with
      | none => .error "No 'event' object found in data."
      | some ev =>
        match (J.lookup "parts" ev).bind J.asObject with
        | none => .error "No 'parts' object found in event."
        | some parts =>
          match findTrack parts o.track with
          | .error e => .error e
          | .ok (partId, trackId, trackData) =>
            match cdataO with
            | none => .error "No 'courses' object found in data."
            | some cdata =>
              match readCourses cdata trackId o with
              | .error e => .error e
              | .ok co =>
                match rdataO with
                | none => .error "No 'registrations' object found in data."
                | some rdata =>
                  match readRegs rdata partId trackId trackData co o with
                  | .error e => .error e
                  | .ok s =>
                    match idv.bind J.asU64 with
                    | none => .error "No event 'id' found in data"
                    | some eid =>
                      let tn : M (Option String) :=
                        match (J.lookup "shortname" trackData).bind J.asStr with
                        | some n => .ok (if o.track.isSome then some n else none)
                        | none => .error "Missing 'shortname' in event track."
                      match tn with
                      | .error e => .error e
                      | .ok trackName =>
                        .ok (s.parts, s.courses.map adapt,
                             { eventId := eid, trackId := trackId,
                               external := if o.ignoreAssigned then some (s.extInstr, s.extPen) else none,
                               trackName := trackName,
                               ignoredCourses := if o.ignoreCancelled then some co.numIgnored else none,
                               ignoredRegs := if o.ignoreAssigned then some s.numIgnored else none })

theorem read_eq_readV (data : J) (o : Opts) :
    read data o = readV (checkVersion data) (data.get "timestamp") (data.get "event")
      (coursesOf data) (regsOf data) (data.get "id") o := rfl

/-- the ids the export's `courses` object has keys for -/
def courseIds (cdata : List (String × J)) : List Nat := cdata.filterMap (fun kv => parseNat kv.1)

/-- a `course_id` value the parser accepts, phrased on the export: not a u64 (e.g. null), or the
    key of a course of the export -/
def AssignedOkE (cdata : List (String × J)) (v : J) : Prop :=
  ∀ id, v.asU64 = some id → id ∈ courseIds cdata

/-- `TrackAgree` phrased on the export (course keys instead of `courseIndex`) -/
def TrackAgreeE (o : Opts) (trackId : Nat) (cdata : List (String × J)) (reg reg' : J) : Prop :=
  trackView reg trackId = trackView reg' trackId ∨
  (o.ignoreAssigned = false ∧ ∃ cid cid' cin chs,
     trackView reg trackId = some (some (some cid, cin, chs)) ∧
     trackView reg' trackId = some (some (some cid', cin, chs)) ∧
     AssignedOkE cdata cid ∧ AssignedOkE cdata cid')

/-- two registration records agree on everything the reader looks at (phrased on the export) -/
structure RegAgreeE (o : Opts) (partId trackId : Nat) (cdata : List (String × J)) (reg reg' : J) : Prop where
  status : statusView reg partId = statusView reg' partId
  persona : personaView reg = personaView reg'
  track : TrackAgreeE o trackId cdata reg reg'

inductive OptAgree {α : Type} (R : α → α → Prop) : Option α → Option α → Prop
  | none : OptAgree R none none
  | some {a b : α} : R a b → OptAgree R (some a) (some b)

/-- **C13: the non-interference relation.** `e` and `e'` agree on every member the reader looks
    at, for the selected part `partId` and track `trackId`. They may differ in: any top-level
    member other than kind / EVENT_SCHEMA_VERSION / CDEDB_EXPORT_EVENT_VERSION / timestamp / event /
    courses / registrations / id; any course member other than segments[trackId] / nr / shortname /
    max_size / min_size / fields; the true/false value of segments[trackId] when cancelled courses
    are kept; any registration member other than parts[partId].status, persona.given_names,
    persona.family_name, tracks[trackId].{course_id, course_instructor, choices}; and the value of
    tracks[trackId].course_id (among accepted values) when assigned participants are not ignored. -/
structure Agree (o : Opts) (partId trackId : Nat) (e e' : J) : Prop where
  kind : e.get "kind" = e'.get "kind"
  schema : e.get "EVENT_SCHEMA_VERSION" = e'.get "EVENT_SCHEMA_VERSION"
  legacy : e.get "CDEDB_EXPORT_EVENT_VERSION" = e'.get "CDEDB_EXPORT_EVENT_VERSION"
  timestamp : e.get "timestamp" = e'.get "timestamp"
  event : e.get "event" = e'.get "event"
  id : e.get "id" = e'.get "id"
  /-- `partId`, `trackId` are the part and track `findTrack` selects -/
  selected : ∀ parts p t td, eventParts e = some parts → findTrack parts o.track = .ok (p, t, td) →
    p = partId ∧ t = trackId
  courses : OptAgree (ObjAgree (CourseAgree o trackId)) (coursesOf e) (coursesOf e')
  regs : OptAgree (ObjAgree (RegAgreeE o partId trackId ((coursesOf e).getD []))) (regsOf e) (regsOf e')

theorem ObjAgree.imp {R S : J → J → Prop} (h : ∀ a b, R a b → S a b) {l l' : List (String × J)}
    (hl : ObjAgree R l l') : ObjAgree S l l' := by
  induction hl with
  | nil => exact .nil
  | cons hv _ ih => exact .cons (h _ _ hv) ih

theorem regAgree_of_E (o : Opts) (partId trackId : Nat) (cdata : List (String × J)) (co : CoursesOut)
    (hco : readCourses cdata trackId o = .ok co) (reg reg' : J)
    (h : RegAgreeE o partId trackId cdata reg reg') : RegAgree o partId trackId co reg reg' := by
  refine ⟨h.status, h.persona, ?_⟩
  rcases h.track with ht | ⟨hia, cid, cid', cin, chs, h1, h2, hc, hc'⟩
  · exact Or.inl ht
  · refine Or.inr ⟨hia, cid, cid', cin, chs, h1, h2, ?_, ?_⟩
    · intro id hid; exact (courseIndex_known cdata trackId o co hco id).2 (hc id hid)
    · intro id hid; exact (courseIndex_known cdata trackId o co hco id).2 (hc' id hid)

/-- **C13: non-interference of the reader.** Exports that agree on what the reader looks at give
    the same result (the same problem and ambience data, or the same error). -/
theorem read_agree (o : Opts) (partId trackId : Nat) (e e' : J) (h : Agree o partId trackId e e') :
    read e o = read e' o := by
  rw [read_eq_readV, read_eq_readV, ← checkVersion_local e e' h.kind h.schema h.legacy,
    ← h.timestamp, ← h.event, ← h.id]
  unfold readV
  cases checkVersion e with
  | error err => rfl
  | ok u =>
    simp only
    cases (e.get "timestamp").bind J.asStr with
    | none => rfl
    | some ts =>
      simp only
      cases timestampOk ts with
      | false => rfl
      | true =>
        simp only [Bool.not_true, Bool.false_eq_true, if_false]
        cases hev : (e.get "event").bind J.asObject with
        | none => rfl
        | some ev =>
          simp only
          cases hp : (J.lookup "parts" ev).bind J.asObject with
          | none => rfl
          | some parts =>
            simp only
            cases hft : findTrack parts o.track with
            | error err => rfl
            | ok r =>
              obtain ⟨p, t, td⟩ := r
              obtain ⟨rfl, rfl⟩ := h.selected parts p t td
                (by unfold eventParts; rw [hev, Option.bind_some, hp]) hft
              simp only
              have hc := h.courses
              have hr := h.regs
              revert hc hr
              generalize coursesOf e = c1
              generalize coursesOf e' = c2
              generalize regsOf e = r1
              generalize regsOf e' = r2
              intro hc hr
              cases hc with
              | none => rfl
              | @some cdata cdata' hcd =>
                simp only
                rw [← readCourses_agree o t cdata cdata' hcd]
                cases hco : readCourses cdata t o with
                | error err => rfl
                | ok co =>
                  simp only
                  cases hr with
                  | none => rfl
                  | @some rdata rdata' hrd =>
                    simp only [Option.getD_some] at hrd
                    have := readRegs_agree p t td co o rdata rdata'
                      (hrd.imp (regAgree_of_E o p t cdata co hco))
                    simp only
                    rw [← this]

theorem ObjAgree.refl {R : J → J → Prop} (hR : ∀ a, R a a) : ∀ l : List (String × J), ObjAgree R l l
  | [] => .nil
  | (_, _) :: rest => .cons (hR _) (ObjAgree.refl hR rest)

theorem OptAgree.refl {α : Type} {R : α → α → Prop} (hR : ∀ a, R a a) : ∀ x : Option α, OptAgree R x x
  | Option.none => OptAgree.none
  | Option.some a => OptAgree.some (hR a)

/-- sanity: `Agree` is reflexive (for the part and track `findTrack` selects) -/
theorem Agree.refl (o : Opts) (partId trackId : Nat) (e : J)
    (hsel : ∀ parts p t td, eventParts e = some parts → findTrack parts o.track = .ok (p, t, td) →
      p = partId ∧ t = trackId) : Agree o partId trackId e e :=
  { kind := rfl, schema := rfl, legacy := rfl, timestamp := rfl, event := rfl, id := rfl,
    selected := hsel,
    courses := OptAgree.refl (ObjAgree.refl (fun _ => ⟨Or.inl rfl, rfl, rfl, rfl, rfl, rfl⟩)) _,
    regs := OptAgree.refl (ObjAgree.refl (fun _ => ⟨rfl, rfl, Or.inl rfl⟩)) _ }

/-! ### establishing `Agree`: the views only depend on a few lookups -/

theorem exists_selected (o : Opts) (e : J) :
    ∃ partId trackId, ∀ parts p t td, eventParts e = some parts →
      findTrack parts o.track = .ok (p, t, td) → p = partId ∧ t = trackId := by
  cases he : eventParts e with
  | none => exact ⟨0, 0, fun _ _ _ _ h => by cases h⟩
  | some parts =>
    cases hf : findTrack parts o.track with
    | error err =>
      refine ⟨0, 0, fun parts' p t td h h' => ?_⟩
      cases h; rw [hf] at h'; cases h'
    | ok r =>
      obtain ⟨p0, t0, td0⟩ := r
      refine ⟨p0, t0, fun parts' p t td h h' => ?_⟩
      cases h; rw [hf] at h'
      simp only [Except.ok.injEq, Prod.mk.injEq] at h'
      exact ⟨h'.1.symm, h'.2.1.symm⟩

/-- other members of `parts[partId]` than `status`, and other parts' records, do not matter -/
theorem statusView_congr (reg reg' : J) (partId : Nat) (ps ps' p p' : List (String × J))
    (h1 : reg.get "parts" = some (.obj ps)) (h1' : reg'.get "parts" = some (.obj ps'))
    (h2 : J.lookup (toString partId) ps = some (.obj p))
    (h2' : J.lookup (toString partId) ps' = some (.obj p'))
    (h3 : J.lookup "status" p = J.lookup "status" p') :
    statusView reg partId = statusView reg' partId := by
  unfold statusView
  rw [h1, h1']
  simp only [Option.bind_some, J.asObject, Option.map_some]
  rw [h2, h2']
  simp only [Option.bind_some, J.asObject, Option.map_some, h3]

/-- other `persona` members than the two names do not matter -/
theorem personaView_congr (reg reg' : J) (p p' : List (String × J))
    (h1 : reg.get "persona" = some (.obj p)) (h1' : reg'.get "persona" = some (.obj p'))
    (h2 : J.lookup "given_names" p = J.lookup "given_names" p')
    (h3 : J.lookup "family_name" p = J.lookup "family_name" p') :
    personaView reg = personaView reg' := by
  unfold personaView
  rw [h1, h1']
  simp only [Option.bind_some, J.asObject, Option.map_some, h2, h3]

/-- other tracks' records, and other members of the selected track's record, do not matter -/
theorem trackView_congr (reg reg' : J) (trackId : Nat) (ts ts' rt rt' : List (String × J))
    (h1 : reg.get "tracks" = some (.obj ts)) (h1' : reg'.get "tracks" = some (.obj ts'))
    (h2 : J.lookup (toString trackId) ts = some (.obj rt))
    (h2' : J.lookup (toString trackId) ts' = some (.obj rt'))
    (h3 : J.lookup "course_id" rt = J.lookup "course_id" rt')
    (h4 : J.lookup "course_instructor" rt = J.lookup "course_instructor" rt')
    (h5 : J.lookup "choices" rt = J.lookup "choices" rt') :
    trackView reg trackId = trackView reg' trackId := by
  unfold trackView
  rw [h1, h1']
  simp only [Option.bind_some, J.asObject, Option.map_some]
  rw [h2, h2']
  simp only [Option.bind_some, J.asObject, Option.map_some, h3, h4, h5]

/-- other top-level members of a registration than `parts` / `persona` / `tracks` do not matter -/
theorem regAgreeE_of_get (o : Opts) (partId trackId : Nat) (cdata : List (String × J)) (reg reg' : J)
    (h1 : reg.get "parts" = reg'.get "parts") (h2 : reg.get "persona" = reg'.get "persona")
    (h3 : reg.get "tracks" = reg'.get "tracks") : RegAgreeE o partId trackId cdata reg reg' :=
  ⟨by unfold statusView; rw [h1], by unfold personaView; rw [h2], Or.inl (by unfold trackView; rw [h3])⟩

/-- other tracks' segment entries do not matter -/
theorem segView_congr (c c' : J) (trackId : Nat) (sg sg' : List (String × J))
    (h1 : c.get "segments" = some (.obj sg)) (h1' : c'.get "segments" = some (.obj sg'))
    (h2 : J.lookup (toString trackId) sg = J.lookup (toString trackId) sg') :
    segView c trackId = segView c' trackId := by
  unfold segView
  rw [h1, h1']
  simp only [Option.bind_some, J.asObject, Option.map_some, h2]

/-- replace or add the member `k` of an object -/
def setKey (k : String) (v : J) : List (String × J) → List (String × J)
  | [] => [(k, v)]
  | (k', v') :: rest => if k' == k then (k, v) :: rest else (k', v') :: setKey k v rest

theorem lookup_setKey_ne (k k' : String) (v : J) (hne : k' ≠ k) :
    ∀ kv : List (String × J), J.lookup k' (setKey k v kv) = J.lookup k' kv
  | [] => by
    have : (k == k') = false := by simpa using (Ne.symm hne)
    simp [setKey, J.lookup, this]
  | (k0, v0) :: rest => by
    unfold setKey
    by_cases h0 : (k0 == k) = true
    · have e : k0 = k := by simpa using h0
      subst e
      have : (k0 == k') = false := by simpa using (Ne.symm hne)
      simp [J.lookup, this]
    · simp only [h0, Bool.false_eq_true, if_false, J.lookup]
      rw [lookup_setKey_ne k k' v hne rest]

/-- the top-level members the reader fetches -/
def readKeys : List String :=
  ["kind", "EVENT_SCHEMA_VERSION", "CDEDB_EXPORT_EVENT_VERSION", "timestamp", "event", "courses",
   "registrations", "id"]

/-- **C13, top level.** Setting (adding or replacing) any other top-level member — `lodgements`,
    `lodgement_groups`, … — does not change the reader's result. -/
theorem read_setKey_toplevel (o : Opts) (kv : List (String × J)) (k : String) (v : J)
    (hk : k ∉ readKeys) : read (.obj (setKey k v kv)) o = read (.obj kv) o := by
  have hget : ∀ k', k' ∈ readKeys → (J.obj (setKey k v kv)).get k' = (J.obj kv).get k' := by
    intro k' hk'
    exact lookup_setKey_ne k k' v (by intro e; subst e; exact hk hk') kv
  have hev : eventParts (.obj (setKey k v kv)) = eventParts (.obj kv) := by
    unfold eventParts; rw [hget "event" (by decide)]
  have hco : coursesOf (.obj (setKey k v kv)) = coursesOf (.obj kv) := by
    unfold coursesOf; rw [hget "courses" (by decide)]
  have hre : regsOf (.obj (setKey k v kv)) = regsOf (.obj kv) := by
    unfold regsOf; rw [hget "registrations" (by decide)]
  obtain ⟨p, t, hsel⟩ := exists_selected o (.obj (setKey k v kv))
  refine read_agree o p t _ _
    { kind := hget _ (by decide), schema := hget _ (by decide), legacy := hget _ (by decide),
      timestamp := hget _ (by decide), event := hget _ (by decide), id := hget _ (by decide),
      selected := hsel, courses := ?_, regs := ?_ }
  · rw [hco]; exact OptAgree.refl (ObjAgree.refl (fun _ => ⟨Or.inl rfl, rfl, rfl, rfl, rfl, rfl⟩)) _
  · rw [hre]; exact OptAgree.refl (ObjAgree.refl (fun _ => ⟨rfl, rfl, Or.inl rfl⟩)) _

section Example
private def exEvent : J :=
  .obj [("parts", .obj [("1", .obj [("tracks", .obj [("3", .obj [("shortname", .str "T")])])])])]
private def exO : Opts :=
  { track := some 3, ignoreCancelled := false, ignoreAssigned := false, factorField := none, offsetField := none }

private def exE : J := .obj [
  ("EVENT_SCHEMA_VERSION", .arr [.num (.pos 17), .num (.pos 0)]),
  ("courses", .obj [("7", .obj [("fields", .obj []), ("nr", .str "1"),
      ("segments", .obj [("3", .bool true), ("4", .bool true)]), ("shortname", .str "x"), ("title", .str "X")])]),
  ("event", exEvent),
  ("id", .num (.pos 1)),
  ("kind", .str "partial"),
  ("registrations", .obj [("100", .obj [
      ("notes", .str "a"),
      ("parts", .obj [("1", .obj [("lodgement_id", .null), ("status", .num (.pos 2))])]),
      ("persona", .obj [("family_name", .str "F"), ("given_names", .str "G"), ("username", .str "u")]),
      ("tracks", .obj [("3", .obj [("choices", .arr [.num (.pos 7)]), ("course_id", .null),
                                   ("course_instructor", .null)]),
                       ("4", .obj [("course_id", .null)])])])]),
  ("timestamp", .str "2024-01-01T00:00:00+00:00")]

/-- differs from `exE` in: a top-level `lodgements` member; the course's `title`, its segment of
    track 4, and the true/false value of its segment of track 3; the registration's `notes`, the
    part's `lodgement_id`, the persona's `username`, the record of track 4, and `course_id` of
    track 3 (null → the known course 7) -/
private def exE' : J := .obj [
  ("EVENT_SCHEMA_VERSION", .arr [.num (.pos 17), .num (.pos 0)]),
  ("courses", .obj [("7", .obj [("fields", .obj []), ("nr", .str "1"),
      ("segments", .obj [("3", .bool false), ("4", .bool false)]), ("shortname", .str "x"), ("title", .str "Y")])]),
  ("event", exEvent),
  ("id", .num (.pos 1)),
  ("kind", .str "partial"),
  ("lodgements", .obj [("5", .obj [])]),
  ("registrations", .obj [("100", .obj [
      ("notes", .str "b"),
      ("parts", .obj [("1", .obj [("lodgement_id", .num (.pos 5)), ("status", .num (.pos 2))])]),
      ("persona", .obj [("family_name", .str "F"), ("given_names", .str "G"), ("username", .str "v")]),
      ("tracks", .obj [("3", .obj [("choices", .arr [.num (.pos 7)]), ("course_id", .num (.pos 7)),
                                   ("course_instructor", .null)]),
                       ("4", .obj [("course_id", .num (.pos 7))])])])]),
  ("timestamp", .str "2024-01-01T00:00:00+00:00")]

private theorem exAgree : Agree exO 1 3 exE exE' :=
  { kind := rfl, schema := rfl, legacy := rfl, timestamp := rfl, event := rfl, id := rfl,
    selected := by
      intro parts p t td h1 h2
      have : parts = [("1", .obj [("tracks", .obj [("3", .obj [("shortname", .str "T")])])])] := by
        have h0 : eventParts exE = some [("1", .obj [("tracks", .obj [("3", .obj [("shortname", .str "T")])])])] := rfl
        rw [h0] at h1; exact (Option.some.inj h1).symm
      subst this
      have h3 : findTrack [("1", J.obj [("tracks", .obj [("3", .obj [("shortname", .str "T")])])])] exO.track =
          .ok (1, 3, [("shortname", .str "T")]) := rfl
      rw [h3] at h2
      simp only [Except.ok.injEq, Prod.mk.injEq] at h2
      exact ⟨h2.1.symm, h2.2.1.symm⟩
    courses := by
      refine OptAgree.some (a := [("7", _)]) (b := [("7", _)]) (.cons ⟨?_, rfl, rfl, rfl, rfl, rfl⟩ .nil)
      exact Or.inr ⟨rfl, true, false, rfl, rfl⟩
    regs := by
      refine OptAgree.some (a := [("100", _)]) (b := [("100", _)]) (.cons ⟨rfl, rfl, ?_⟩ .nil)
      refine Or.inr ⟨rfl, .null, .num (.pos 7), some .null, some (.arr [.num (.pos 7)]), rfl, rfl, ?_, ?_⟩
      · intro id h; cases h
      · intro id h
        have : (J.num (.pos 7)).asU64 = some 7 := by decide
        rw [this] at h; cases h
        decide }

/-- hence the reader cannot tell the two exports apart -/
example : read exE exO = read exE' exO := read_agree exO 1 3 exE exE' exAgree
end Example

/-! ## 7. the assembled statement for `read` (C12) -/

/-- inversion of a successful `read` -/
theorem read_inv (data : J) (o : Opts) (parts : List Part) (courses : List Course) (amb : Ambience)
    (h : read data o = .ok (parts, courses, amb)) :
    ∃ evparts partId trackId td cdata rdata co s,
      eventParts data = some evparts ∧ findTrack evparts o.track = .ok (partId, trackId, td) ∧
      coursesOf data = some cdata ∧ readCourses cdata trackId o = .ok co ∧
      regsOf data = some rdata ∧ readRegs rdata partId trackId td co o = .ok s ∧
      parts = s.parts ∧ courses = s.courses.map adapt ∧ amb.trackId = trackId := by
  rw [read_eq_readV] at h
  unfold readV at h
  cases hcv : checkVersion data with
  | error e => rw [hcv] at h; cases h
  | ok u =>
    rw [hcv] at h
    simp only at h
    cases hts : (data.get "timestamp").bind J.asStr with
    | none => rw [hts] at h; cases h
    | some ts =>
      rw [hts] at h
      simp only at h
      cases htk : timestampOk ts with
      | false => rw [htk] at h; cases h
      | true =>
        rw [htk] at h
        simp only [Bool.not_true, Bool.false_eq_true, if_false] at h
        cases hev : (data.get "event").bind J.asObject with
        | none => rw [hev] at h; cases h
        | some ev =>
          rw [hev] at h
          simp only at h
          cases hp : (J.lookup "parts" ev).bind J.asObject with
          | none => rw [hp] at h; cases h
          | some evparts =>
            rw [hp] at h
            simp only at h
            cases hft : findTrack evparts o.track with
            | error e => rw [hft] at h; cases h
            | ok r =>
              obtain ⟨partId, trackId, td⟩ := r
              rw [hft] at h
              simp only at h
              cases hc : coursesOf data with
              | none => rw [hc] at h; cases h
              | some cdata =>
                rw [hc] at h
                simp only at h
                cases hco : readCourses cdata trackId o with
                | error e => rw [hco] at h; cases h
                | ok co =>
                  rw [hco] at h
                  simp only at h
                  cases hr : regsOf data with
                  | none => rw [hr] at h; cases h
                  | some rdata =>
                    rw [hr] at h
                    simp only at h
                    cases hrr : readRegs rdata partId trackId td co o with
                    | error e => rw [hrr] at h; cases h
                    | ok s =>
                      rw [hrr] at h
                      simp only at h
                      cases hid : (data.get "id").bind J.asU64 with
                      | none => rw [hid] at h; cases h
                      | some eid =>
                        rw [hid] at h
                        simp only at h
                        cases hsn : (J.lookup "shortname" td).bind J.asStr with
                        | none => rw [hsn] at h; cases h
                        | some n =>
                          rw [hsn] at h
                          simp only [Except.ok.injEq, Prod.mk.injEq] at h
                          obtain ⟨h1, h2, h3⟩ := h
                          refine ⟨evparts, partId, trackId, td, cdata, rdata, co, s, ?_, hft, rfl, hco,
                            rfl, hrr, h1.symm, h2.symm, by rw [← h3]⟩
                          unfold eventParts; rw [hev, Option.bind_some, hp]

/-- the courses `readCourses` returns are fresh: no instructors, nobody hidden, not fixed -/
theorem readCourses_fresh (cdata : List (String × J)) (trackId : Nat) (o : Opts) (co : CoursesOut)
    (h : readCourses cdata trackId o = .ok co) :
    ∀ c ∈ co.courses, c.instructors = [] ∧ c.hidden = [] ∧ c.invInstr = 0 ∧ c.invAtt = 0 ∧
      c.fixed = false ∧ c.numMin ≤ c.numMax := by
  intro c hc
  have hperm := readCourses_perm cdata trackId o co h
  rw [hperm.mem_iff] at hc
  simp only [List.mem_map, List.mem_filterMap] at hc
  obtain ⟨e, ⟨kv, _, he⟩, rfl⟩ := hc
  obtain ⟨cid, nr, sn, s, f, off, _, _, _, _, _, _, heq, hle⟩ := courseEntry_spec trackId o kv e he
  refine ⟨?_, ?_, ?_, ?_, ?_, hle⟩ <;> rw [heq] <;> rfl

/-- **C12, assembled.** When `read` succeeds on an export:
    * `findTrack` selected a part and track; the `courses` and `registrations` objects were read;
    * the participants are exactly the kept registration entries in document order (`partOf`:
      registration id, name, choices with penalties = original positions, see `pcd_choices`);
    * the courses are `co.courses` of `readCourses` (see `readCourses_spec`/`readCourses_sorted`:
      the kept courses stably sorted by padded number) — same ids, names, room data, in the same
      order, with the size limits reduced by the invisible attendees;
    * the instructors of course `ci` are exactly the positions among the participants of the kept
      registrations whose `course_instructor` resolves to `ci`. -/
theorem read_spec (data : J) (o : Opts) (parts : List Part) (courses : List Course) (amb : Ambience)
    (h : read data o = .ok (parts, courses, amb)) :
    ∃ evparts partId trackId td cdata rdata co,
      eventParts data = some evparts ∧ findTrack evparts o.track = .ok (partId, trackId, td) ∧
      coursesOf data = some cdata ∧ readCourses cdata trackId o = .ok co ∧
      regsOf data = some rdata ∧ amb.trackId = trackId ∧
      parts = (rdata.filter (fun kv => RD.keep o.ignoreAssigned (toReg partId trackId co kv))).map
        (partOf partId trackId co) ∧
      courses.map (fun c => (c.dbid, c.name, c.factor, c.offset)) =
        co.courses.map (fun c => (c.dbid, c.name, c.factor, c.offset)) ∧
      ∀ (ci : Nat) (c : Course), courses[ci]? = some c → ∀ k, k ∈ c.instructors ↔
        ∃ r : RD.Reg, (RD.kept o.ignoreAssigned (rdata.map (toReg partId trackId co)))[k]? = some r ∧
          r.instructed = some ci := by
  obtain ⟨evparts, partId, trackId, td, cdata, rdata, co, s, h1, h2, h3, h4, h5, h6, h7, h8, h9⟩ :=
    read_inv data o parts courses amb h
  refine ⟨evparts, partId, trackId, td, cdata, rdata, co, h1, h2, h3, h4, h5, h9, ?_, ?_, ?_⟩
  · rw [h7]; exact readRegs_parts rdata partId trackId td co o s h6
  · obtain ⟨_, _, hframe, _⟩ := readRegs_spec rdata partId trackId td co o s h6
    have := congrArg (List.map (fun x : Nat × String × Nat × Nat × FVal × FVal × Bool =>
      (x.1, x.2.1, x.2.2.2.2.1, x.2.2.2.2.2.1))) hframe
    rw [h8]
    simpa [List.map_map, Function.comp_def, courseCore, adapt] using this
  · intro ci c hc k
    obtain ⟨_, _, _, hinstr⟩ := readRegs_spec rdata partId trackId td co o s h6
    rw [h8, List.getElem?_map] at hc
    cases hs : s.courses[ci]? with
    | none => rw [hs] at hc; cases hc
    | some c1 =>
      rw [hs] at hc
      simp only [Option.map_some, Option.some.injEq] at hc
      obtain ⟨c0, pushed, hc0, hpush, hk⟩ := hinstr ci c1 hs
      have hfresh := (readCourses_fresh cdata trackId o co h4 c0 (List.mem_of_getElem? hc0)).1
      rw [← hc]
      show k ∈ c1.instructors ↔ _
      rw [hpush, hfresh, List.nil_append]
      exact hk k

/-! ## 8. ignored (already assigned) registrations: the invisible counts (C11/C12) -/

/-- the typed view is ignored by the loop: a participant already assigned to a kept course, with
    `ignoreAssigned` -/
def isIgnored (ia : Bool) (r : RD.Reg) : Bool := r.isParticipant && RD.ignored ia r

/-- does the ignored registration count as invisible instructor (`asInstr = true`) / attendee
    (`asInstr = false`) of course `ci` -/
def invisibleIn (ia : Bool) (ci : Nat) (asInstr : Bool) (r : RD.Reg) : Bool :=
  isIgnored ia r && decide (r.assigned = some ci) && (decide (r.instructed = some ci) == asInstr)

/-- the invisible counters of a course -/
def invOf (c : Course) : Nat × Nat := (c.invInstr, c.invAtt)

theorem updCourse_inv (cs : List Course) (i ci : Nat) (f : Course → Course) (dI dA : Nat)
    (hf : ∀ c, invOf (f c) = ((invOf c).1 + dI, (invOf c).2 + dA)) :
    ((updCourse cs i f)[ci]?).map invOf =
      (cs[ci]?).map (fun c => ((invOf c).1 + (if i = ci then dI else 0),
                               (invOf c).2 + (if i = ci then dA else 0))) := by
  unfold updCourse
  rw [List.getElem?_modify]
  cases cs[ci]? with
  | none => rfl
  | some c =>
    by_cases h : i = ci
    · simp [h, hf]
    · simp [h]

theorem updCourse_map_get {β : Type} (cs : List Course) (i ci : Nat) (f : Course → Course)
    (g : Course → β) :
    ((updCourse cs i f)[ci]?).map g = (cs[ci]?).map (fun c => if i = ci then g (f c) else g c) := by
  unfold updCourse
  rw [List.getElem?_modify]
  cases cs[ci]? with
  | none => rfl
  | some c =>
    by_cases h : i = ci
    · simp [h]
    · simp [h]

theorem regApply_invisible (td : List (String × J)) (o : Opts) (s : RState) (rid : Nat) (name : String)
    (pc : PCData) (ci : Nat) :
    let r : RD.Reg := { id := rid, isParticipant := true, assigned := pc.assigned,
                        instructed := pc.instructed, choices := pc.choices }
    (((regApply td o s rid name pc).courses)[ci]?).map invOf =
      (s.courses[ci]?).map (fun c =>
        ((invOf c).1 + (if invisibleIn o.ignoreAssigned ci true r then 1 else 0),
         (invOf c).2 + (if invisibleIn o.ignoreAssigned ci false r then 1 else 0))) ∧
    (regApply td o s rid name pc).numIgnored =
      s.numIgnored + (if isIgnored o.ignoreAssigned r then 1 else 0) := by
  intro r
  have keepCase : ∀ s' : RState,
      s' = (if (pc.choices.isEmpty && pc.instructed.isNone) = true then s else
        { s with i := s.i + 1,
                 courses := (match pc.instructed with
                   | some ci => updCourse s.courses ci (fun c => { c with instructors := c.instructors ++ [s.i] })
                   | none => s.courses),
                 parts := s.parts ++ [{ dbid := rid, name := name, choices := pc.choices }] }) →
      (s'.courses[ci]?).map invOf = (s.courses[ci]?).map invOf ∧ s'.numIgnored = s.numIgnored := by
    intro s' hs'
    subst hs'
    cases (pc.choices.isEmpty && pc.instructed.isNone) with
    | true => exact ⟨rfl, rfl⟩
    | false =>
      simp only [Bool.false_eq_true, if_false, and_true]
      cases pc.instructed with
      | none => rfl
      | some cj =>
        refine Eq.trans (updCourse_inv _ cj ci _ 0 0 ?_) ?_
        · intro c; rfl
        · cases s.courses[ci]? <;> simp
  have hmap0 : (s.courses[ci]?).map invOf =
      (s.courses[ci]?).map (fun c => ((invOf c).1 + 0, (invOf c).2 + 0)) := by
    cases s.courses[ci]? <;> simp
  unfold regApply
  cases hia : o.ignoreAssigned with
  | false =>
    obtain ⟨k1, k2⟩ := keepCase _ rfl
    simp only [Bool.false_eq_true, if_false]
    refine ⟨k1.trans (hmap0.trans ?_), k2.trans ?_⟩
    · simp [invisibleIn, isIgnored, RD.ignored]
    · simp [isIgnored, RD.ignored]
  | true =>
    simp only [if_true]
    cases ha : pc.assigned with
    | none =>
      obtain ⟨k1, k2⟩ := keepCase _ rfl
      simp only
      refine ⟨k1.trans (hmap0.trans ?_), k2.trans ?_⟩
      · simp [invisibleIn, isIgnored, RD.ignored, r, ha]
      · simp [isIgnored, RD.ignored, r, ha]
    | some ca =>
      simp only
      refine ⟨?_, ?_⟩
      · rw [updCourse_map_get]
        by_cases hin : pc.instructed = some ca
        · have hb : (pc.instructed == some ca) = true := by simp [hin]
          simp only [hb, if_true]
          rw [updCourse_map_get]
          cases s.courses[ci]? with
          | none => rfl
          | some c =>
            by_cases hc : ca = ci
            · subst hc; simp [invOf, invisibleIn, isIgnored, RD.ignored, r, ha, hin]
            · simp [invOf, invisibleIn, isIgnored, RD.ignored, r, ha, hc]
        · have hb : (pc.instructed == some ca) = false := by simpa using hin
          simp only [hb, Bool.false_eq_true, if_false]
          rw [updCourse_map_get]
          cases s.courses[ci]? with
          | none => rfl
          | some c =>
            by_cases hc : ca = ci
            · subst hc; simp [invOf, invisibleIn, isIgnored, RD.ignored, r, ha, hin]
            · simp [invOf, invisibleIn, isIgnored, RD.ignored, r, ha, hc]
      · have : isIgnored true r = true := by simp [isIgnored, RD.ignored, r, ha]
        simp only [this, if_true]
        split <;> rfl

theorem regStep_invisible (partId trackId : Nat) (td : List (String × J)) (co : CoursesOut) (o : Opts)
    (s s1 : RState) (kv : String × J) (h : regStep partId trackId td co o s kv = .ok s1) (ci : Nat) :
    (s1.courses[ci]?).map invOf =
      (s.courses[ci]?).map (fun c =>
        ((invOf c).1 + (if invisibleIn o.ignoreAssigned ci true (toReg partId trackId co kv) then 1 else 0),
         (invOf c).2 + (if invisibleIn o.ignoreAssigned ci false (toReg partId trackId co kv) then 1 else 0))) ∧
    s1.numIgnored = s.numIgnored + (if isIgnored o.ignoreAssigned (toReg partId trackId co kv) then 1 else 0) := by
  unfold regStep at h
  unfold toReg
  cases hk : parseNat kv.1 with
  | none => rw [hk] at h; cases h
  | some rid =>
    rw [hk] at h
    simp only at h
    cases hb : participantBase kv.2 partId with
    | error e => rw [hb] at h; cases h
    | ok r =>
      obtain ⟨isP, name⟩ := r
      rw [hb] at h
      cases isP with
      | false =>
        simp only [Bool.not_false, if_true, Except.ok.injEq] at h
        subst h
        constructor
        · cases s.courses[ci]? <;> simp [invisibleIn, isIgnored, regDflt]
        · simp [isIgnored, regDflt]
      | true =>
        simp only [Bool.not_true, Bool.false_eq_true, if_false] at h
        cases hp : participantCourseData kv.2 trackId co with
        | error e => rw [hp] at h; cases h
        | ok pc =>
          rw [hp] at h
          simp only [Except.ok.injEq] at h
          subst h
          simp only [Option.getD_some]
          exact regApply_invisible td o s rid name pc ci

/-- **C12/C11, ignored registrations.** With `regs` the typed views of the registration entries:
    the loop adds to `invInstr` / `invAtt` of course `ci` the number of ignored registrations
    assigned to `ci` that do / do not instruct it, and counts the ignored registrations. -/
theorem readRegs_invisible (rdata : List (String × J)) (partId trackId : Nat) (td : List (String × J))
    (co : CoursesOut) (o : Opts) (s : RState)
    (h : readRegs rdata partId trackId td co o = .ok s) :
    let regs := rdata.map (toReg partId trackId co)
    (∀ ci, (s.courses[ci]?).map invOf = (co.courses[ci]?).map (fun c =>
        ((invOf c).1 + regs.countP (invisibleIn o.ignoreAssigned ci true),
         (invOf c).2 + regs.countP (invisibleIn o.ignoreAssigned ci false)))) ∧
    s.numIgnored = regs.countP (isIgnored o.ignoreAssigned) := by
  have : ∀ (rest : List (String × J)) (s0 s' : RState),
      readRegs.go partId trackId td co o s0 rest = .ok s' →
      (∀ ci, (s'.courses[ci]?).map invOf = (s0.courses[ci]?).map (fun c =>
        ((invOf c).1 + (rest.map (toReg partId trackId co)).countP (invisibleIn o.ignoreAssigned ci true),
         (invOf c).2 + (rest.map (toReg partId trackId co)).countP (invisibleIn o.ignoreAssigned ci false)))) ∧
      s'.numIgnored = s0.numIgnored + (rest.map (toReg partId trackId co)).countP (isIgnored o.ignoreAssigned) := by
    intro rest
    induction rest with
    | nil =>
      intro s0 s' h
      simp only [readRegs.go, Except.ok.injEq] at h
      subst h
      refine ⟨fun ci => ?_, by simp⟩
      cases s0.courses[ci]? <;> simp
    | cons kv rest ih =>
      intro s0 s' h
      rw [readRegs_go_cons] at h
      cases h1 : regStep partId trackId td co o s0 kv with
      | error e => rw [h1] at h; cases h
      | ok s1 =>
        rw [h1] at h
        obtain ⟨a, b⟩ := ih s1 s' h
        refine ⟨fun ci => ?_, ?_⟩
        · obtain ⟨c1, _⟩ := regStep_invisible partId trackId td co o s0 s1 kv h1 ci
          rw [a ci]
          cases hs1 : s1.courses[ci]? with
          | none =>
            rw [hs1] at c1
            cases hs0 : s0.courses[ci]? with
            | none => rfl
            | some _ => rw [hs0] at c1; cases c1
          | some x =>
            rw [hs1] at c1
            cases hs0 : s0.courses[ci]? with
            | none => rw [hs0] at c1; cases c1
            | some y =>
              rw [hs0] at c1
              simp only [Option.map_some, Option.some.injEq, List.map_cons, List.countP_cons] at c1 ⊢
              rw [c1]
              simp only [Prod.mk.injEq]
              constructor <;> omega
        · obtain ⟨_, c2⟩ := regStep_invisible partId trackId td co o s0 s1 kv h1 0
          rw [b, c2]
          simp only [List.map_cons, List.countP_cons]
          omega
  unfold readRegs at h
  intro regs
  obtain ⟨a, b⟩ := this rdata _ s h
  exact ⟨a, by rw [b]; exact Nat.zero_add _⟩

end CD

#print axioms CD.pcd_choices
#print axioms CD.pcd_choices_mem
#print axioms CD.readRegs_refines
#print axioms CD.readRegs_spec
#print axioms CD.readRegs_parts
#print axioms CD.readRegs_all_parsed
#print axioms CD.keep_toReg_iff
#print axioms CD.participantBase_local
#print axioms CD.parseCourseBase_local
#print axioms CD.participantCourseData_local
#print axioms CD.regApply_assigned_free
#print axioms CD.readCourses_agree
#print axioms CD.readRegs_agree
#print axioms CD.readCourses_spec
#print axioms CD.readCourses_sorted
#print axioms CD.courseEntry_spec
#print axioms CD.courseSkipped_spec
#print axioms CD.courseIndex_known
#print axioms CD.findTrack_none_no_track
#print axioms CD.findTrack_none_two_tracks
#print axioms CD.findTrack_some_absent
#print axioms CD.read_refuse_of_findTrack
#print axioms CD.read_agree
#print axioms CD.read_setKey_toplevel
#print axioms CD.read_spec
#print axioms CD.readRegs_invisible
