import Cdecao.Proofs.NodeRoomTotal
/-! Spike (C10, fourth part): `check_feasibility` never trips its assertion — an enforced course always
    has at least `num_min` attendees after the matching — and hence never panics. -/
open Finset
namespace N2
open H2

theorem roomSizes_len (I : Inst) (rooms : List Nat) (h : I.roomSizes = some rooms) : rooms.length = I.C := by
  simp only [Inst.roomSizes, Option.map_eq_some_iff] at h
  obtain ⟨r, _, rfl⟩ := h
  simp only [List.length_take, List.length_append, List.length_replicate]
  omega

/-- an active participant matched in a non-skipped column is assigned that column's course -/
theorem assign_of_matched (I : Inst) (nd : Node) (mm : Vec Nat)
    (hperf : Perfect (probOf (nodeInp I nd)) mm.get) (cp : Nat) (hcp : cp < I.m) (hs : skipY I nd cp = false)
    (hxP : mm.get cp < I.P) : assign I nd mm.get (mm.get cp) = some (I.colCourse cp) ∧
      skipXBase I nd (mm.get cp) = false := by
  have hY : cp ∈ (probOf (nodeInp I nd)).Y := (mem_Y_iff I nd cp).2 ⟨hcp, hs⟩
  have hX := (mem_X _ _).1 (hperf.maps cp hY)
  have hxn : mm.get cp < I.n := hX.1
  have hsk : skipXBase I nd (mm.get cp) = false := by
    have := hX.2
    simp only [nodeInp, Vec.get_tab, hxn, if_true, Bool.or_eq_false_iff] at this
    exact this.1
  refine ⟨?_, hsk⟩
  have hlive : liveInstructor I nd (mm.get cp) = false := by
    simp only [skipXBase, Bool.or_eq_false_iff] at hsk; exact hsk.2
  have hio : instrOf I nd (mm.get cp) = none := by
    unfold instrOf
    rw [List.find?_eq_none]
    intro c hc
    simp only [List.mem_reverse, List.mem_range] at hc
    simp only [liveInstructor, List.any_eq_false, List.mem_range] at hlive
    have := hlive c hc
    simpa using this
  unfold assign
  rw [hio]
  dsimp only
  unfold matchedOf
  cases hf : (List.range I.m).reverse.find? (fun cp' => !skipY I nd cp' && mm.get cp' == mm.get cp) with
  | none =>
    rw [List.find?_eq_none] at hf
    have := hf cp (by simp [hcp])
    simp [hs] at this
  | some cp' =>
    have h1 := List.find?_some hf
    have h2 := List.mem_of_find?_eq_some hf
    simp only [List.mem_reverse, List.mem_range] at h2
    simp only [Bool.and_eq_true, Bool.not_eq_true', beq_iff_eq] at h1
    have hY' : cp' ∈ (probOf (nodeInp I nd)).Y := (mem_Y_iff I nd cp').2 ⟨h2, h1.1⟩
    have : cp' = cp := hperf.inj (by simpa using hY') (by simpa using hY) h1.2
    rw [this]; rfl

/-- an enforced course has at least its minimum number of attendees in the node's assignment -/
theorem enforced_min (I : Inst) (nd : Node)
    (hmm : ∀ c, c < I.C → (I.course c).numMin ≤ (I.course c).numMax) (hn : NodeOK2 I nd)
    (hg : guards I nd = none) (mm : Vec Nat) (hperf : Perfect (probOf (nodeInp I nd)) mm.get)
    (a : Nat → Option Nat) (isI : Nat → Bool)
    (hisI : ∀ p, p < I.P → isI p = skipXBase I nd p) (ha : ∀ p, p < I.P → a p = assign I nd mm.get p)
    (c : Nat) (hce : c ∈ nd.enforced) : (I.course c).numMin ≤ sizeOf I a isI c := by
  have hc : c < I.C := hn.enf c hce
  -- no mandatory column is skipped (last guard)
  have hms : ∀ cp, cp < I.m → mandY I nd cp = true → skipY I nd cp = false := by
    intro cp hcp hm
    unfold guards at hg
    repeat' split at hg
    all_goals try contradiction
    rename_i hno
    simp only [List.any_eq_true, List.mem_range, Bool.and_eq_true, not_exists, not_and, Bool.not_eq_true] at hno
    exact hno cp hcp hm
  -- the mandatory columns of `c`
  have hcols := Cols.mand_cols (numMaxOf I) (fun c => (I.course c).numMin) (fun c => nd.enforced.contains c) I.C c hc
    (hmm c hc) (by simpa [List.contains_iff_mem] using hce)
  unfold sizeOf
  rw [countP_range_eq_card]
  have hcard : (I.course c).numMin = #(Ico (Cols.inv (numMaxOf I) c) (Cols.inv (numMaxOf I) c + (I.course c).numMin)) := by
    simp
  rw [hcard, ← hcols]
  apply card_le_card_of_injOn mm.get
  · intro cp hcp
    simp only [coe_filter, mem_range, Set.mem_ofPred_eq, ← inv_eq, ← mandY_eq, ← courseOf_eq] at hcp
    obtain ⟨hcpm, hmand, hcourse⟩ := hcp
    have hcpm' : cp < I.m := hcpm
    have hs := hms cp hcpm' hmand
    have hY : cp ∈ (probOf (nodeInp I nd)).Y := (mem_Y_iff I nd cp).2 ⟨hcpm', hs⟩
    -- allowed: a mandatory column holds a real row
    have hal := hperf.allowed cp hY
    have hX := (mem_X _ _).1 (hperf.maps cp hY)
    have hxn : mm.get cp < I.n := hX.1
    have hxP : mm.get cp < I.P := by
      simp only [probOf, allowed, nodeInp, Vec.get_tab, hxn, hcpm', if_true, hmand, Bool.and_true,
        Bool.not_eq_true', decide_eq_false_iff_not] at hal
      omega
    obtain ⟨h1, h2⟩ := assign_of_matched I nd mm hperf cp hcpm' hs hxP
    simp only [coe_filter, mem_range, Set.mem_ofPred_eq, Bool.and_eq_true, Bool.not_eq_true', beq_iff_eq]
    refine ⟨hxP, by rw [hisI _ hxP]; exact h2, ?_⟩
    rw [ha _ hxP, h1]
    simp only [Inst.colCourse]
    rw [hcourse]
  · intro cp1 h1 cp2 h2 he
    simp only [coe_filter, mem_range, Set.mem_ofPred_eq, ← inv_eq, ← mandY_eq] at h1 h2
    have hY1 := (mem_Y_iff I nd cp1).2 ⟨h1.1, hms cp1 h1.1 h1.2.1⟩
    have hY2 := (mem_Y_iff I nd cp2).2 ⟨h2.1, hms cp2 h2.1 h2.2.1⟩
    exact hperf.inj (by simpa using hY1) (by simpa using hY2) he

#print axioms enforced_min
end N2

namespace N2
open H2

theorem checkFeas_ok (I : Inst) (nd : Node) (a : Nat → Option Nat) (isI : Nat → Bool)
    (hmin : ∀ c, c ∈ nd.enforced → (I.course c).numMin ≤ sizeOf I a isI c) :
    ∃ r, checkFeas I nd a isI = .ok r := by
  unfold checkFeas
  dsimp only
  split
  · split <;> exact ⟨_, rfl⟩
  · split
    · rename_i hany
      exfalso
      rw [List.any_eq_true] at hany
      obtain ⟨c, hc, hce⟩ := hany
      simp only [List.mem_filter, Bool.and_eq_true, decide_eq_true_eq] at hc
      have := hmin c (by simpa [List.contains_iff_mem] using hce)
      omega
    · exact ⟨_, rfl⟩

/-- C10 at node level: for a well-formed instance and a node satisfying the tree invariant the node
    solver has no reachable panic site -/
theorem node_total (I : Inst) (R : RoomFns) (nd : Node) (hI : InstOK I)
    (hmm : ∀ c, c < I.C → (I.course c).numMin ≤ (I.course c).numMax) (hn : NodeOK2 I nd) :
    ∃ r, runNodeS I R nd = .ok r := by
  unfold runNodeS
  split
  · rename_i r hg
    cases r with
    | ok r => exact ⟨r, rfl⟩
    | error e => exact absurd hg (guards_no_panic I nd hI hmm hn e)
  · rename_i hg
    obtain ⟨⟨mm, hsc⟩, hrun⟩ := hungarian_returns I nd hI hmm hn hg
    rw [hrun]
    dsimp only
    obtain ⟨hpre, hu, hfit⟩ := guards_none I nd hg
    obtain ⟨hperf, _, _⟩ := hung_partial (nodeInp I nd) (node_square I nd hpre hu hfit) mm hsc hrun
    unfold post
    dsimp only
    have hfeas : ∀ score, ∃ r, feasStage I nd (Vec.tab I.P (assign I nd mm.get)).get score = .ok r := by
      intro score
      unfold feasStage
      obtain ⟨⟨b, pp, bc⟩, hcf⟩ := checkFeas_ok I nd (Vec.tab I.P (assign I nd mm.get)).get (nodeInp I nd).skipx.get
        (fun c hce => enforced_min I nd hmm hn hg mm hperf _ _ (by
            intro p hp
            simp only [nodeInp, Vec.get_tab]
            have : p < I.n := by unfold Inst.n; omega
            simp [this, hp]) (by intro p hp; rw [Vec.get_tab]; simp [hp]) c hce)
      rw [hcf]
      cases b <;> exact ⟨_, rfl⟩
    have hroom : ∀ score, (∃ r, roomStage I R nd (Vec.tab I.P (assign I nd mm.get)).get score = .ok r) := by
      intro score
      unfold roomStage
      cases hrs : I.roomSizes with
      | none => exact ⟨_, rfl⟩
      | some rooms =>
        dsimp only
        obtain ⟨⟨b, sets⟩, hcr⟩ := checkRoom_ok I R nd (Vec.tab I.P (assign I nd mm.get)).get rooms (roomSizes_len I rooms hrs)
        rw [hcr]
        cases b <;> exact ⟨_, rfl⟩
    obtain ⟨rr, hrr⟩ := hroom (hsc.toNat + bonusOf I nd)
    have hb : (List.range I.C).foldl (fun acc c =>
        if nd.cancelled.contains c then acc
        else acc + WEIGHT * ((I.course c).instructors.countP (fun i => !I.instructorOnly i))) 0 = bonusOf I nd := rfl
    rw [hb, hrr]
    cases rr with
    | some r => exact ⟨r, rfl⟩
    | none => exact hfeas _

#print axioms node_total
end N2
