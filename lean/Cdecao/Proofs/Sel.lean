import Mathlib.Data.Nat.Choose.Basic
import Cdecao.Model.Util
/-! Spike for C20: binom and the colex successor of util.rs -/
namespace S

theorem foldl_range_inv {β : Type} (f : β → Nat → β) (P : Nat → β → Prop) (n : Nat) (b : β)
    (h0 : P 0 b) (hstep : ∀ i b, i < n → P i b → P (i + 1) (f b i)) :
    P n ((List.range n).foldl f b) := by
  induction n with
  | zero => simpa using h0
  | succ n ih =>
    rw [List.range_succ, List.foldl_append]
    simp only [List.foldl_cons, List.foldl_nil]
    apply hstep n _ (Nat.lt_succ_self n)
    exact ih (fun i b hi hp => hstep i b (Nat.lt_succ_of_lt hi) hp)

theorem binom_eq (n k : Nat) : binom n k = Nat.choose n k := by
  unfold binom
  by_cases h : k > n
  · simp [h, Nat.choose_eq_zero_of_lt h]
  · simp only [h, if_false]
    have := foldl_range_inv (fun res i => res * (n - i) / (i + 1)) (fun i res => res = Nat.choose n i) k 1
      (by simp)
      (by
        intro i b hi hb
        subst hb
        have h1 := Nat.choose_succ_right_eq n i
        -- choose n (i+1) * (i+1) = choose n i * (n - i)
        apply Nat.div_eq_of_eq_mul_left (Nat.succ_pos i)
        rw [h1])
    exact this

/-- rank in the combinatorial number system, for the suffix starting at position `j` -/
def rank : Nat → List Nat → Nat
  | _, [] => 0
  | j, a :: rest => Nat.choose a (j + 1) + rank (j + 1) rest

/-- strictly increasing suffix -/
def Incr : List Nat → Prop
  | [] => True
  | [_] => True
  | a :: b :: rest => a < b ∧ Incr (b :: rest)

/-- one step raises the rank by `choose head j`; at the top level (`j = 0`) that is exactly 1 -/
theorem succ_rank (n : Nat) : ∀ (idx : List Nat) (j a : Nat) (rest idx' : List Nat), idx = a :: rest →
    Incr idx → succ n j idx = some idx' → rank j idx' = Nat.choose a j + rank j idx := by
  intro idx
  induction idx with
  | nil => intro j a rest idx' h; cases h
  | cons x xs ih =>
    intro j a rest idx' h hinc hs
    cases h
    cases xs with
    | nil =>
      simp only [succ] at hs
      by_cases hge : x + 1 ≥ n
      · simp [hge] at hs
      · simp [hge] at hs; subst hs
        simp only [rank, Nat.choose_succ_succ']; omega
    | cons b rest =>
      simp only [succ] at hs
      by_cases hlt : x + 1 < b
      · simp [hlt] at hs; subst hs
        simp only [rank, Nat.choose_succ_succ']; omega
      · simp only [hlt, if_false, Option.map_eq_some_iff] at hs
        obtain ⟨r, hr, rfl⟩ := hs
        have hb : b = x + 1 := by have := hinc.1; omega
        have := ih (j + 1) b rest r rfl hinc.2 hr
        simp only [rank] at this ⊢
        rw [this, hb, Nat.choose_succ_succ']
        have : Nat.choose j (j + 1) = 0 := Nat.choose_eq_zero_of_lt (Nat.lt_succ_self j)
        omega

theorem next_rank (n : Nat) (a : Nat) (rest idx' : List Nat) (hinc : Incr (a :: rest))
    (h : next n (a :: rest) = some idx') : rank 0 idx' = rank 0 (a :: rest) + 1 := by
  have := succ_rank n (a :: rest) 0 a rest idx' rfl hinc h
  simp at this; omega

/-- validity of a suffix starting at position `j`: increasing, below `n`, head at least `j` -/
structure Valid (n j : Nat) (idx : List Nat) : Prop where
  inc : Incr idx
  lt : ∀ a ∈ idx, a < n
  hd : ∀ a rest, idx = a :: rest → j ≤ a

theorem Incr.tail {a : Nat} {l : List Nat} (h : Incr (a :: l)) : Incr l := by
  cases l with
  | nil => trivial
  | cons b r => exact h.2

theorem succ_valid (n : Nat) : ∀ (idx : List Nat) (j : Nat) (idx' : List Nat),
    Valid n j idx → succ n j idx = some idx' → Valid n j idx' ∧ idx'.length = idx.length := by
  intro idx
  induction idx with
  | nil => intro j idx' _ h; simp [succ] at h
  | cons x xs ih =>
    intro j idx' hv hs
    cases xs with
    | nil =>
      simp only [succ] at hs
      by_cases hge : x + 1 ≥ n
      · simp [hge] at hs
      · simp [hge] at hs; subst hs
        refine ⟨⟨trivial, ?_, ?_⟩, rfl⟩
        · intro a ha; simp at ha; omega
        · intro a rest h; cases h
          have := hv.hd x [] rfl; omega
    | cons b rest =>
      simp only [succ] at hs
      by_cases hlt : x + 1 < b
      · simp [hlt] at hs; subst hs
        refine ⟨⟨⟨hlt, hv.inc.2⟩, ?_, ?_⟩, rfl⟩
        · intro a ha
          simp only [List.mem_cons] at ha
          rcases ha with rfl | ha
          · have := hv.lt b (by simp); omega
          · exact hv.lt a (by simp only [List.mem_cons]; right; exact ha)
        · intro a r h; cases h
          have := hv.hd x _ rfl; omega
      · simp only [hlt, if_false, Option.map_eq_some_iff] at hs
        obtain ⟨r, hr, rfl⟩ := hs
        have hb : b = x + 1 := by have := hv.inc.1; omega
        have hvt : Valid n (j + 1) (b :: rest) := by
          refine ⟨hv.inc.2, fun a ha => hv.lt a (List.mem_cons_of_mem _ ha), ?_⟩
          intro a r' h; cases h
          have := hv.hd x _ rfl; omega
        obtain ⟨hvr, hlen⟩ := ih (j + 1) r hvt hr
        cases r with
        | nil => simp at hlen
        | cons c r' =>
          have hc := hvr.hd c r' rfl
          refine ⟨⟨⟨by omega, hvr.inc⟩, ?_, ?_⟩, by simp at hlen ⊢; exact hlen⟩
          · intro a ha
            simp only [List.mem_cons] at ha
            rcases ha with rfl | ha
            · have := hvr.lt c (by simp); omega
            · exact hvr.lt a (by simp only [List.mem_cons]; exact ha)
          · intro a r'' h; cases h; exact Nat.le_refl _

/-- `next` fails exactly on the last selection `[n-k, …, n-1]` (stated for suffixes: every
    element sits directly below its successor and the last one is `n-1`) -/
def IsTop (n : Nat) : List Nat → Prop
  | [] => False
  | [a] => a + 1 = n
  | a :: b :: rest => b = a + 1 ∧ IsTop n (b :: rest)

theorem succ_none (n : Nat) : ∀ (idx : List Nat) (j : Nat), idx ≠ [] → Valid n j idx →
    (succ n j idx = none ↔ IsTop n idx) := by
  intro idx
  induction idx with
  | nil => intro j h; exact absurd rfl h
  | cons x xs ih =>
    intro j _ hv
    cases xs with
    | nil =>
      simp only [succ, IsTop]
      have := hv.lt x (by simp)
      constructor
      · intro h; by_cases hge : x + 1 ≥ n
        · omega
        · simp [hge] at h
      · intro h; simp [h]
    | cons b rest =>
      simp only [succ, IsTop]
      have hvt : Valid n (j + 1) (b :: rest) := by
        refine ⟨hv.inc.2, fun a ha => hv.lt a (List.mem_cons_of_mem _ ha), ?_⟩
        intro a r' h; cases h
        have := hv.hd x _ rfl; have := hv.inc.1; omega
      have ih' := ih (j + 1) (by simp) hvt
      by_cases hlt : x + 1 < b
      · simp only [hlt, if_true]
        constructor
        · intro h; cases h
        · intro h; omega
      · simp only [hlt, if_false, Option.map_eq_none_iff]
        rw [ih']
        have := hv.inc.1
        constructor
        · intro h; exact ⟨by omega, h⟩
        · intro h; exact h.2

/-- rank of a top suffix: together with `choose head j` it fills up the binomial coefficient -/
theorem rank_top (n : Nat) : ∀ (idx : List Nat) (j a : Nat) (rest : List Nat), idx = a :: rest → j ≤ a →
    IsTop n idx → rank j idx + Nat.choose a j = Nat.choose n (j + idx.length) := by
  intro idx
  induction idx with
  | nil => intro j a rest h; cases h
  | cons x xs ih =>
    intro j a rest h hja ht
    cases h
    cases xs with
    | nil =>
      simp only [IsTop] at ht
      subst ht
      simp only [rank, List.length_singleton, Nat.choose_succ_succ']; omega
    | cons b rest =>
      simp only [IsTop] at ht
      obtain ⟨hb, ht'⟩ := ht
      have := ih (j + 1) b rest rfl (by omega) ht'
      subst hb
      simp only [rank, List.length_cons] at this ⊢
      rw [show j + (rest.length + 1 + 1) = j + 1 + (rest.length + 1) by omega]
      have h2 : Nat.choose (x + 1) (j + 1) = Nat.choose x j + Nat.choose x (j + 1) := Nat.choose_succ_succ' x j
      omega

/-- the last selection has rank `choose n k - 1` -/
theorem rank_last (n : Nat) (a : Nat) (rest : List Nat) (ht : IsTop n (a :: rest)) :
    rank 0 (a :: rest) + 1 = Nat.choose n (a :: rest).length := by
  have := rank_top n (a :: rest) 0 a rest rfl (Nat.zero_le _) ht
  simpa using this

#print axioms succ_valid
#print axioms succ_none
#print axioms rank_last
/-- every valid selection has rank below `choose n k` (stated for suffixes) -/
theorem rank_bound (n : Nat) : ∀ (idx : List Nat) (j a : Nat) (rest : List Nat), idx = a :: rest →
    Valid n j idx → rank j idx + Nat.choose a j ≤ Nat.choose n (j + idx.length) := by
  intro idx
  induction idx with
  | nil => intro j a rest h; cases h
  | cons x xs ih =>
    intro j a rest h hv
    cases h
    cases xs with
    | nil =>
      have hx := hv.lt x (by simp)
      simp only [rank, List.length_singleton]
      have h1 : Nat.choose (x + 1) (j + 1) = Nat.choose x j + Nat.choose x (j + 1) := Nat.choose_succ_succ' x j
      have h2 := Nat.choose_le_choose (j + 1) (show x + 1 ≤ n by omega)
      omega
    | cons b rest =>
      have hvt : Valid n (j + 1) (b :: rest) := by
        refine ⟨hv.inc.2, fun a ha => hv.lt a (List.mem_cons_of_mem _ ha), ?_⟩
        intro a r' h; cases h
        have := hv.hd x _ rfl; have := hv.inc.1; omega
      have := ih (j + 1) b rest rfl hvt
      simp only [rank, List.length_cons] at this ⊢
      rw [show j + (rest.length + 1 + 1) = j + 1 + (rest.length + 1) by omega]
      have h1 : Nat.choose (x + 1) (j + 1) = Nat.choose x j + Nat.choose x (j + 1) := Nat.choose_succ_succ' x j
      have h2 := Nat.choose_le_choose (j + 1) (show x + 1 ≤ b by have := hv.inc.1; omega)
      omega

theorem incr_range' (s : Nat) : ∀ k, Incr (List.range' s k) := by
  intro k
  induction k generalizing s with
  | zero => trivial
  | succ k ih =>
    cases k with
    | zero => trivial
    | succ k =>
      rw [List.range'_succ, List.range'_succ]
      refine ⟨by omega, ?_⟩
      have := ih (s + 1)
      rwa [List.range'_succ] at this

theorem rank_range' : ∀ (k j : Nat), rank j (List.range' j k) = 0 := by
  intro k
  induction k with
  | zero => intro j; rfl
  | succ k ih =>
    intro j
    rw [List.range'_succ]
    simp only [rank, ih (j + 1)]
    exact Nat.choose_eq_zero_of_lt (Nat.lt_succ_self j)

theorem valid_first (n k : Nat) (hk : k ≤ n) : Valid n 0 (List.range k) := by
  rw [List.range_eq_range']
  refine ⟨incr_range' 0 k, ?_, ?_⟩
  · intro a ha; simp [List.mem_range'_1] at ha; omega
  · intro a rest _; exact Nat.zero_le _

/-- the enumeration from a valid selection of rank `r` with exactly the remaining fuel lists the
    selections of ranks `r, r+1, …, choose n k - 1`, all valid, all of length `k` -/
theorem enumFrom_spec (n k : Nat) : ∀ (f r : Nat) (idx : List Nat), idx ≠ [] → Valid n 0 idx → idx.length = k →
    rank 0 idx = r → r + f = Nat.choose n k →
    (enumFrom n f idx).length = f ∧
    ∀ i, i < f → ∃ l, (enumFrom n f idx)[i]? = some l ∧ Valid n 0 l ∧ l.length = k ∧ rank 0 l = r + i := by
  intro f
  induction f with
  | zero => intro r idx _ _ _ _ _; exact ⟨rfl, by intro i hi; omega⟩
  | succ f ih =>
    intro r idx hne hv hlen hr hsum
    obtain ⟨a, rest, rfl⟩ := List.exists_cons_of_ne_nil hne
    simp only [enumFrom]
    cases hnx : next n (a :: rest) with
    | none =>
      -- then this is the last selection, so no fuel is left over
      have htop := (succ_none n (a :: rest) 0 hne hv).1 hnx
      have hlast := rank_last n a rest htop
      rw [hlen] at hlast
      have hf : f = 0 := by omega
      subst hf
      refine ⟨by simp, ?_⟩
      intro i hi
      have : i = 0 := by omega
      subst this
      exact ⟨a :: rest, by simp, hv, hlen, by omega⟩
    | some idx' =>
      obtain ⟨hv', hlen'⟩ := succ_valid n (a :: rest) 0 idx' hv hnx
      have hr' := next_rank n a rest idx' hv.inc hnx
      have hne' : idx' ≠ [] := by
        intro e; rw [e] at hlen'; simp at hlen'
      obtain ⟨h1, h2⟩ := ih (r + 1) idx' hne' hv' (by rw [hlen', hlen]) (by omega) (by omega)
      refine ⟨by simp [h1], ?_⟩
      intro i hi
      cases i with
      | zero => exact ⟨a :: rest, by simp, hv, hlen, by omega⟩
      | succ i =>
        obtain ⟨l, hl, hvl, hll, hrl⟩ := h2 i (by omega)
        exact ⟨l, by simpa using hl, hvl, hll, by omega⟩

/-- C20 (core): `iter_selections(k)` yields exactly `choose n k` index lists; the `i`-th one is a
    strictly increasing list of `k` indices below `n` with rank `i` (so they are pairwise different). -/
theorem selections_spec (n k : Nat) (hk : 1 ≤ k) (hkn : k ≤ n) :
    (selections n k).length = Nat.choose n k ∧
    ∀ i, i < Nat.choose n k → ∃ l, (selections n k)[i]? = some l ∧ Valid n 0 l ∧ l.length = k ∧ rank 0 l = i := by
  have hsel : selections n k = enumFrom n (Nat.choose n k) (List.range k) := by
    simp [selections, binom_eq]; omega
  rw [hsel]
  have hne : List.range k ≠ [] := by
    intro e
    have := congrArg List.length e
    simp at this; omega
  have hr : rank 0 (List.range k) = 0 := by rw [List.range_eq_range']; exact rank_range' k 0
  obtain ⟨h1, h2⟩ := enumFrom_spec n k (Nat.choose n k) 0 (List.range k) hne (valid_first n k hkn) (by simp) hr (by omega)
  refine ⟨h1, ?_⟩
  intro i hi
  obtain ⟨l, a, b, c, d⟩ := h2 i hi
  exact ⟨l, a, b, c, by omega⟩

theorem selections_empty (n k : Nat) (h : k = 0 ∨ k > n) : selections n k = [] := by simp [selections, h]

/-- the size hint before the `i`-th call (`i ≥ 1`): remaining = choose n k - rank - 1 -/
theorem size_hint_exact (n k i : Nat) (l : List Nat) (hr : rank 0 l = i) (hi : i < Nat.choose n k) :
    Nat.choose n k - rank 0 l - 1 = Nat.choose n k - (i + 1) := by omega

/-- the real iterator has no fuel: it stops by itself exactly after the last listed selection,
    because a valid selection of rank `choose n k - 1` has no successor (`rank_bound`) -/
theorem stops_after_last (n k : Nat) (l : List Nat) (hne : l ≠ []) (hv : Valid n 0 l) (hlen : l.length = k)
    (hr : rank 0 l + 1 = Nat.choose n k) : next n l = none := by
  cases hnx : next n l with
  | none => rfl
  | some l' =>
    exfalso
    obtain ⟨a, rest, rfl⟩ := List.exists_cons_of_ne_nil hne
    obtain ⟨hv', hlen'⟩ := succ_valid n (a :: rest) 0 l' hv hnx
    have hr' := next_rank n a rest l' hv.inc hnx
    have hne' : l' ≠ [] := by intro e; rw [e] at hlen'; simp at hlen'
    obtain ⟨b, rest', rfl⟩ := List.exists_cons_of_ne_nil hne'
    have := rank_bound n (b :: rest') 0 b rest' rfl hv'
    simp only [Nat.choose_zero_right, Nat.zero_add] at this
    rw [hlen', hlen] at this
    omega

theorem rankB_eq : ∀ (l : List Nat) (j : Nat), rankB j l = rank j l := by
  intro l
  induction l with
  | nil => intro j; rfl
  | cons a rest ih => intro j; simp [rankB, rank, binom_eq, ih]

/-- `size_hint` as computed by the code (with `binom`) is the exact number of selections still to
    come: before the first call `choose n k`, and after the selection of rank `i` has been yielded
    `choose n k - (i + 1)` -/
theorem sizeHint_exact (n k i : Nat) (l : List Nat) (hr : rank 0 l = i) :
    sizeHint n k none = Nat.choose n k ∧ sizeHint n k (some l) = Nat.choose n k - (i + 1) := by
  simp [sizeHint, binom_eq, rankB_eq, hr]; omega

#print axioms selections_spec
#print axioms stops_after_last
#eval next 5 [0,1,2]
#eval next 5 [1,3,4]
#eval next 5 [2,3,4]
#eval (List.range 10).map (fun i => (Nat.iterate (fun o => o.bind (next 5)) i (some [0,1,2])).map (rank 0))
end S
