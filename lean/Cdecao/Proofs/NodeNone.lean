import Cdecao.Proofs.NodeCover
/-! Spike (C02_partial, `NodeSpec.none`): when one of the three early exits answers "no solution", the
    node has no solution (class outside F1; enforced list duplicate-free, which branching maintains). -/
open Finset
namespace N2
open H2

theorem active_card (I : Inst) (nd : Node) (hp : I.precomputeOk = true) :
    #((range I.P).filter (fun p => skipXBase I nd p = false)) + numSkipX I nd = I.P := by
  have hPn : I.P ≤ I.n := by unfold Inst.n; omega
  have h1 := card_filter_add_card_filter_not (s := range I.P) (p := fun x => skipXBase I nd x = true)
  have h2 : #((range I.P).filter (fun x => skipXBase I nd x = true)) = numSkipX I nd := by
    rw [numSkipX, countP_range_eq_card]
    congr 1
    ext x
    simp only [mem_filter, mem_range]
    constructor
    · rintro ⟨h, hs⟩; exact ⟨by omega, hs⟩
    · rintro ⟨_, hs⟩
      refine ⟨?_, hs⟩
      by_contra hge
      rw [skipXBase_oob I nd hp x (Nat.le_of_not_lt hge)] at hs; contradiction
  have h3 : (range I.P).filter (fun x => ¬ skipXBase I nd x = true) = (range I.P).filter (fun p => skipXBase I nd p = false) := by
    apply filter_congr; intro x _; simp
  rw [h3, card_range, h2] at h1
  omega

/-- the active participants, counted course by course -/
theorem active_fiber (I : Inst) (nd : Node) (g : Nat → Nat) (hpl : Placement I nd g) :
    #((range I.P).filter (fun p => skipXBase I nd p = false))
      = ∑ c ∈ range I.C, #((range I.P).filter (fun p => skipXBase I nd p = false ∧ g p = c)) := by
  rw [card_eq_sum_card_fiberwise (f := g) (t := range I.C)]
  · apply sum_congr rfl
    intro c _
    rw [filter_filter]
  · intro p hp
    simp only [coe_filter, mem_range, Set.mem_ofPred_eq] at hp
    simp only [coe_range, Set.mem_Iio]
    exact hpl.inC p hp.1 hp.2

theorem foldl_nodup_le (C : Nat) (f h : Nat → Nat) (l : List Nat) (hnd : l.Nodup) (hl : ∀ c ∈ l, c < C)
    (hle : ∀ c ∈ l, f c ≤ h c) : l.foldl (fun acc c => acc + f c) 0 ≤ ∑ c ∈ range C, h c := by
  have hgen : ∀ (l : List Nat) (a : Nat), l.foldl (fun acc c => acc + f c) a = a + l.foldl (fun acc c => acc + f c) 0 := by
    intro l
    induction l with
    | nil => intro a; simp
    | cons x xs ih => intro a; simp only [List.foldl_cons]; rw [ih (a + f x), ih (0 + f x)]; omega
  have hsum : l.foldl (fun acc c => acc + f c) 0 = ∑ c ∈ l.toFinset, f c := by
    induction l with
    | nil => simp
    | cons x xs ih =>
      have hx : x ∉ xs := (List.nodup_cons.1 hnd).1
      simp only [List.foldl_cons, List.toFinset_cons]
      rw [hgen, sum_insert (by simpa using hx), ih (List.nodup_cons.1 hnd).2 (fun c hc => hl c (by simp [hc]))
        (fun c hc => hle c (by simp [hc]))]
      omega
  rw [hsum]
  calc ∑ c ∈ l.toFinset, f c ≤ ∑ c ∈ l.toFinset, h c := sum_le_sum (fun c hc => hle c (by simpa using hc))
    _ ≤ ∑ c ∈ range C, h c := sum_le_sum_of_subset_of_nonneg
        (fun c hc => mem_range.2 (hl c (by simpa using hc))) (fun _ _ _ => Nat.zero_le _)

/-- `NodeSpec.none` -/
theorem node_none (I : Inst) (nd : Node) (hI : InstOK I) (hn2 : NodeOK2 I nd) (hnd : nd.enforced.Nodup)
    (hnf : NoFreeable I) (hg : guards I nd = some (.ok .noSol)) (a : Nat → Option Nat) : ¬ SolIn I nd a := by
  intro hs
  have hn : NodeOK I nd := fun c hc => (hn2.canc c hc).2.1
  have hpl := placement_of_sol I nd hn hnf a hs
  have hact := active_card I nd hI.pre
  have hfib := active_fiber I nd (gOf a) hpl
  unfold guards at hg
  split at hg; · simp at hg
  split at hg; · simp at hg
  split at hg
  · -- too many enforced places
    rename_i h3
    have := foldl_nodup_le I.C (fun c => (I.course c).numMin)
      (fun c => #((range I.P).filter (fun p => skipXBase I nd p = false ∧ gOf a p = c))) nd.enforced hnd hn2.enf
      (fun c hc => hpl.min c hc)
    omega
  split at hg
  · -- not enough places
    rename_i h4
    have : ∑ c ∈ range I.C, #((range I.P).filter (fun p => skipXBase I nd p = false ∧ gOf a p = c))
        ≤ ∑ c ∈ range I.C, effMax I nd c := sum_le_sum (fun c hc => hpl.cap c (mem_range.1 hc))
    rw [foldl_add_eq_sum] at h4
    omega
  split at hg
  · -- an active participant whose choices are all cancelled
    rename_i h5
    simp only [List.any_eq_true, List.mem_range, Bool.and_eq_true, Bool.not_eq_true', List.all_eq_true] at h5
    obtain ⟨x, hx, hact', hall⟩ := h5
    obtain ⟨c, hac, _, _, ch, hch, rfl⟩ := active_facts I nd hn a hs x hx hact'
    have := hall ch hch
    exact hs.canc ch.course (by simpa [List.contains_iff_mem] using this) x hx hac
  repeat' split at hg
  all_goals simp at hg

#print axioms node_none
end N2
